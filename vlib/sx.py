"""Case-building DSL: Python values -> S-expressions read by coq/theories/Decode.v.

Nothing here needs to be "right" for soundness: the concrete macro input is printed by the Coq
model from whatever item the reader yields.  It matters for coverage only."""


def _q(s):
    return '"' + s.replace('\\', '\\\\').replace('"', '\\"') + '"'


def S(*xs):
    return '(' + ' '.join(xs) + ')'


def B(b):
    return 't' if b else 'f'


def opt(x):
    return 'none' if x is None else S('some', x)


def lst(xs):
    return S(*xs)


def toks(s):
    """token text: tokens separated by single spaces (lexed by Render.q)"""
    return _q(s)


# ---- types ---------------------------------------------------------------------------
def tid(n):
    return S('id', _q(n))


def seg(name, args=None):
    """args: None | ('angle', [gargs]) | ('paren', [tys], ret)"""
    if args is None:
        return _q(name)
    if args[0] == 'angle':
        return S('seg', _q(name), S('angle', lst(args[1])))
    return S('seg', _q(name), S('parenargs', lst(args[1]), opt(args[2])))


def gty(t):
    return S('ty', t)


def glt(l):
    return S('lt', _q(l))


def gconst(c):
    return S('const', c)


def gassoc(n, t):
    return S('assoc', _q(n), t)


def clit(s):
    return S('lit', _q(s))


def cpath(names, lead=False):
    return S('cpath', B(lead), lst([_q(n) for n in names]))


def _segs(segs):
    return [x if (x.startswith('"') or x.startswith('(')) else _q(x) for x in segs]


def tpath(segs, lead=False, qself=None):
    """qself: None | (ty, position)"""
    segs = _segs(segs)
    qs = 'none' if qself is None else S('some', S(qself[0], str(qself[1])))
    return S('path', qs, B(lead), lst(segs))


def tgen(name, *tys):
    """Name<T1, T2>"""
    return tpath([seg(name, ('angle', [gty(t) for t in tys]))])


def tref(t, lt=None, mut=False):
    return S('ref', opt(None if lt is None else _q(lt)), B(mut), t)


def ttuple(ts):
    return S('tuple', lst(ts))


def tarray(t, c):
    return S('array', t, c)


def tslice(t):
    return S('slice', t)


def tptr(t, mut=False):
    return S('ptr', B(mut), t)


def tfn(args, ret=None):
    return S('fn', lst(args), opt(ret))


def tnever():
    return 'never'


def tparen(t):
    return S('paren', t)


def tdyn(bs):
    return S('dyn', lst(bs))


def tb_trait(segs, maybe=False, lead=False):
    segs = _segs(segs)
    return S('trait', B(maybe), B(lead), lst(segs))


def tb_lt(l):
    return S('lt', _q(l))


# ---- generics ------------------------------------------------------------------------
def wty(t, bounds):
    return S('wty', t, lst(bounds))


def wlt(l, ls):
    return S('wlt', _q(l), lst([_q(x) for x in ls]))


def gp_lt(n, bounds=()):
    return S('glt', _q(n), lst([_q(b) for b in bounds]))


def gp_ty(n, bounds=(), default=None):
    return S('gty', _q(n), lst(list(bounds)), opt(default))


def gp_const(n, t, default=None):
    return S('gconst', _q(n), t, opt(default))


def generics(params=(), where=()):
    return S('generics', lst(list(params)), lst(list(where)))


# ---- bound(...) ----------------------------------------------------------------------
def b_ty(t):
    return S('bty', t)


def b_pred(p):
    return S('bpred', p)


B_DOTS = 'dots'


def bound(items):
    """None: absent; list: bound(items)"""
    return opt(None if items is None else lst(items))


# ---- attributes ----------------------------------------------------------------------
def dx(items, bnd=None, dump=False):
    """items: list of (name, None | (bound_items|None, dump))"""
    its = []
    for name, ia in items:
        if ia is None:
            its.append(S(_q(name), 'none'))
        else:
            its.append(S(_q(name), S('some', S('ia', bound(ia[0]), B(ia[1])))))
    return S('dx', lst(its), bound(bnd), B(dump))


def a_other(t):
    return S('other', toks(t))


def a_derive_ex(d):
    return S('derive_ex', d)


M_PATH = 'path'


def m_list(x):
    return S('list', x)


def m_nv(t):
    return S('nv', toks(t))


def a_default(meta):
    return S('default', meta)


def dargs(value='_', bnd=None):
    return S('dargs', toks(value), bound(bnd))


def a_debug(meta):
    return S('debug', meta)


def gargs(transparent=False, ignore=False, bnd=None):
    return S('gargs', B(transparent), B(ignore), bound(bnd))


def a_cmp(op, meta):
    return S('cmp', op, meta)


def cargs(ignore=False, reverse=False, by=None, key=None, bnd=None):
    return S('cargs', B(ignore), B(reverse), opt(None if by is None else toks(by)),
             opt(None if key is None else toks(key)), bound(bnd))


# ---- items ---------------------------------------------------------------------------
def field(ty, name=None, attrs=(), vis=''):
    return S('field', lst(list(attrs)), toks(vis), opt(None if name is None else _q(name)), ty)


def named(fs):
    return S('named', lst(fs))


def unnamed(fs):
    return S('unnamed', lst(fs))


UNIT = 'unit'


def variant(name, fields=UNIT, attrs=(), discr=None):
    return S('variant', lst(list(attrs)), _q(name), fields, opt(None if discr is None else toks(discr)))


def struct(name, fields, attrs=(), vis='', gen=None):
    return S('struct', lst(list(attrs)), toks(vis), _q(name), gen or generics(), fields)


def enum(name, variants, attrs=(), vis='', gen=None):
    return S('enum', lst(list(attrs)), toks(vis), _q(name), gen or generics(), lst(variants))


def impl(trait_segs, self_ty, members, gen=None, attrs=(), neg=False, lead=False):
    tr = 'none' if trait_segs is None else S('some', S(B(lead), lst(_segs(trait_segs))))
    return S('impl', lst(list(attrs)), gen or generics(), B(neg), tr, self_ty, lst(members))


def m_type(name, t):
    return S('mtype', _q(name), t)


def m_other(t):
    return S('mother', toks(t))


def other_item(t):
    return S('otheritem', toks(t))


def inv_attr(args, item):
    return S('expand', S('inv', 'attr', args, item))


def inv_derive(item):
    return S('expand', S('inv', 'derive', dx([]), item))
