"""Token-level helpers for the model-free oracles (operate on the flat token strings)."""

CLOSE = {'(': ')', '[': ']', '{': '}'}

# doc/derive_ex.md, "Derive Ord, PartialOrd, Eq, PartialEq, Hash": which helper attribute affects
# which trait (rows: attribute, columns: trait).  One documented deviation, see DESIGN.md §3 C01:
# `#[partial_eq]` does not configure `Eq` (tests/compile_fail/compare_op/eq_with_partial_eq_*.stderr).
AFFECTS = {
    'ord': {'Ord', 'PartialOrd', 'Eq', 'PartialEq', 'Hash'},
    'partial_ord': {'PartialOrd', 'PartialEq'},
    'eq': {'Eq', 'PartialEq', 'Hash'},
    'partial_eq': {'PartialEq'},
    'hash': {'Hash'},
}
HELPER_NAMES = ['derive_ex', 'default', 'debug'] + list(AFFECTS)


def owned_names(traits):
    """names of the attributes derive_ex owns when `traits` are being derived"""
    s = set(traits)
    names = {'derive_ex'}
    if 'Default' in s:
        names.add('default')
    if 'Debug' in s:
        names.add('debug')
    for a, ts in AFFECTS.items():
        if ts & s:
            names.add(a)
    return names


def match_close(toks, i):
    """toks[i] is an opening delimiter; index of its closing delimiter"""
    depth = 0
    stack = []
    for j in range(i, len(toks)):
        t = toks[j]
        if t in CLOSE:
            stack.append(CLOSE[t])
        elif stack and t == stack[-1]:
            stack.pop()
            if not stack:
                return j
    raise ValueError('unbalanced')


def strip_attrs(flat, names):
    """remove every `# [ name ... ]` whose first inner token is in `names`; attributes nested
    inside other attributes are left alone"""
    toks = flat.split(' ')
    out = []
    i = 0
    while i < len(toks):
        if toks[i] == '#' and i + 1 < len(toks) and toks[i + 1] == '[':
            j = match_close(toks, i + 1)
            if toks[i + 2] in names and (toks[i + 3] in ('(', ']', '=')):
                i = j + 1
                continue
            # `derive_ex` written with the crate name in front (read by the attribute macro like the bare spelling)
            if 'derive_ex' in names and (toks[i + 2:i + 7] == ['derive_ex', ':', ':', 'derive_ex', '('] or
                                         toks[i + 2:i + 9] == [':', ':', 'derive_ex', ':', ':', 'derive_ex', '(']):
                i = j + 1
                continue
            out.extend(toks[i:j + 1])
            i = j + 1
            continue
        out.append(toks[i])
        i += 1
    return ' '.join(out)
