"""Orchestration shared by all checks: builds, sharded runs of the extracted model and of the
real macro, comparison, proof audit, evidence."""
import fcntl
import hashlib
import json
import os
import re
import shutil
import subprocess
import sys
import time

ROOT = os.path.dirname(os.path.dirname(os.path.abspath(__file__)))
WORK = os.path.join(ROOT, '.work')
COQ = os.path.join(ROOT, 'coq')
NPROC = min(16, os.cpu_count() or 4)
ENV = dict(os.environ, CARGO_NET_OFFLINE='true')

ALLOWED_AXIOMS = set()  # the development is axiom-free; anything printed is a failure


def log(*a):
    print(*a, file=sys.stderr, flush=True)


class Lock:
    def __init__(self, name):
        os.makedirs(WORK, exist_ok=True)
        self.path = os.path.join(WORK, name + '.lock')

    def __enter__(self):
        self.f = open(self.path, 'w')
        fcntl.flock(self.f, fcntl.LOCK_EX)
        return self

    def __exit__(self, *a):
        fcntl.flock(self.f, fcntl.LOCK_UN)
        self.f.close()


def sh(cmd, cwd=None, timeout=None, env=None):
    p = subprocess.run(cmd, cwd=cwd, timeout=timeout, env=env or ENV, stdout=subprocess.PIPE,
                       stderr=subprocess.STDOUT, text=True, shell=isinstance(cmd, str))
    return p.returncode, p.stdout


# ---------------------------------------------------------------------------------------
# builds
# ---------------------------------------------------------------------------------------
def build_coq():
    """full .vo build (never -vos/-vok); returns (ok, output)"""
    with Lock('coq'):
        if not os.path.exists(os.path.join(COQ, 'Makefile')):
            rc, out = sh('coq_makefile -f _CoqProject -o Makefile', cwd=COQ, timeout=120)
            if rc != 0:
                return False, out
        rc, out = sh(['timeout', '3000', 'make', '-j%d' % NPROC], cwd=COQ, timeout=3100)
        return rc == 0, out


def build_driver():
    with Lock('driver'):
        ml = os.path.join(COQ, 'model.ml')
        exe = os.path.join(WORK, 'driver', 'model_driver')
        src = os.path.join(ROOT, 'driver', 'main.ml')
        if (not os.path.exists(exe) or os.path.getmtime(exe) < os.path.getmtime(ml)
                or os.path.getmtime(exe) < os.path.getmtime(src)):
            rc, out = sh(['timeout', '600', os.path.join(ROOT, 'driver', 'build.sh')], timeout=700)
            return rc == 0, out
        return True, ''


def build_harness():
    """rebuilds the real macro from /repo's current working tree (cargo tracks the sources)"""
    with Lock('cargo'):
        rc, out = sh(['timeout', '1200', 'cargo', 'build', '--release', '--offline'],
                     cwd=os.path.join(ROOT, 'harness'), timeout=1300)
        return rc == 0, out


MODEL = os.path.join(WORK, 'driver', 'model_driver')
EXPANDER = os.path.join(WORK, 'target', 'release', 'expander')


# ---------------------------------------------------------------------------------------
# proof audit
# ---------------------------------------------------------------------------------------
FORBIDDEN = re.compile(r'\b(Admitted|admit|Axiom|Axioms|Parameter|Parameters|Conjecture|Hypothesis|'
                       r'Variable|Variables|Hypotheses)\b|Unset\s+Guard|bypass_check|type-in-type|'
                       r'impredicative-set|Admit Obligations|Unset\s+Universe|Unset\s+Positivity')


def strip_comments(src):
    out, depth, i = [], 0, 0
    while i < len(src):
        if src.startswith('(*', i):
            depth += 1
            i += 2
        elif src.startswith('*)', i) and depth > 0:
            depth -= 1
            i += 2
        else:
            if depth == 0:
                out.append(src[i])
            i += 1
    return ''.join(out)


def audit_sources():
    """grep the whole development for escape hatches.  `Variable`/`Hypothesis` are allowed only
    inside Sections (they are discharged); detected by tracking Section nesting per file."""
    problems = []
    tdir = os.path.join(COQ, 'theories')
    for dp, _, fns in os.walk(tdir):
        for fn in sorted(fns):
            if not fn.endswith('.v'):
                continue
            path = os.path.join(dp, fn)
            src = strip_comments(open(path).read())
            # drop string literals
            src = re.sub(r'"(?:[^"]|"")*"', '""', src)
            depth = 0
            for ln, line in enumerate(src.split('\n'), 1):
                if re.match(r'\s*Section\s+\w+', line):
                    depth += 1
                m = FORBIDDEN.search(line)
                if m:
                    w = m.group(0)
                    if w in ('Variable', 'Variables', 'Hypothesis', 'Hypotheses') and depth > 0:
                        pass
                    else:
                        problems.append('%s:%d: %s' % (os.path.relpath(path, ROOT), ln, w))
                if re.match(r'\s*End\s+\w+\s*\.', line) and depth > 0:
                    depth -= 1
    with open(os.path.join(COQ, '_CoqProject')) as f:
        proj = f.read()
    for bad in ('-type-in-type', '-impredicative-set', '-vos', '-vok'):
        if bad in proj:
            problems.append('_CoqProject: ' + bad)
    return problems


def property_report(pid):
    """Recompile coq/theories/Properties/<pid>.v through the Makefile and parse what it prints:
    one `Print Assumptions` result per theorem.  Returns dict."""
    rel = 'theories/Properties/%s.vo' % pid
    vfile = os.path.join(COQ, 'theories', 'Properties', pid + '.v')
    if not os.path.exists(vfile):
        return dict(ok=False, error='no property file', theorems=[], closed=0, axioms=[], output='')
    with Lock('coq'):
        try:
            os.remove(os.path.join(COQ, rel))
        except FileNotFoundError:
            pass
        rc, out = sh(['timeout', '1200', 'make', rel], cwd=COQ, timeout=1300)
    src = strip_comments(open(vfile).read())
    theorems = re.findall(r'^\s*Theorem\s+(\w+)', src, re.M)
    pinned = re.findall(r'^\s*Check\s+(\w+)\s*:', src, re.M)
    closed = len(re.findall(r'Closed under the global context', out))
    axioms = []
    for m in re.finditer(r'Axioms:\n((?:.+\n)+?)(?:\n|\Z)', out):
        for l in m.group(1).split('\n'):
            mm = re.match(r'^(\S+)\s*:', l)
            if mm:
                axioms.append(mm.group(1))
    bad_axioms = [a for a in axioms if a not in ALLOWED_AXIOMS]
    n_print = len(re.findall(r'^\s*Print Assumptions\s+\w+', src, re.M))
    ok = (rc == 0 and not bad_axioms and closed + len(re.findall(r'Axioms:', out)) >= len(theorems)
          and n_print >= len(theorems) and len(theorems) > 0)
    return dict(ok=ok, rc=rc, theorems=theorems, pinned=pinned, closed=closed, axioms=axioms,
                bad_axioms=bad_axioms, output=out[-4000:])


# ---------------------------------------------------------------------------------------
# sharded execution
# ---------------------------------------------------------------------------------------
def _run_sharded(exe, lines, tag):
    """run `exe` over `lines` (one request per line) in NPROC shards; returns output lines"""
    if not lines:
        return []
    tmp = os.path.join(WORK, 'tmp', '%s-%d-%s' % (tag, os.getpid(), hashlib.md5(
        (str(time.time()) + tag).encode()).hexdigest()[:8]))
    os.makedirs(tmp, exist_ok=True)
    n = max(1, min(NPROC, len(lines) // 50 + 1))
    procs = []
    for k in range(n):
        chunk = lines[k::n]
        ip = os.path.join(tmp, 'in%d' % k)
        op = os.path.join(tmp, 'out%d' % k)
        with open(ip, 'w') as f:
            f.write('\n'.join(chunk) + '\n')
        procs.append((subprocess.Popen([exe], stdin=open(ip), stdout=open(op, 'w'),
                                       stderr=subprocess.DEVNULL), op))
    out = []
    bad = []
    for p, op in procs:
        rc = p.wait()
        if rc != 0:
            bad.append(rc)
        with open(op) as f:
            out.extend(l.rstrip('\n') for l in f)
    shutil.rmtree(tmp, ignore_errors=True)
    if bad:
        raise RuntimeError('%s exited with %s' % (exe, bad))
    return out


def _group(lines):
    by = {}
    for l in lines:
        f = l.split('\t')
        by.setdefault(f[0], []).append(tuple(f[1:]))
    return by


class CaseResult:
    __slots__ = ('cid', 'sexp', 'mode', 'attr', 'item', 'expected', 'actual', 'end', 'meta')

    def input_text(self):
        if self.mode == 'A':
            return '#[derive_ex(%s)] %s' % (self.attr, self.item)
        return '#[derive(Ex)] %s' % self.item


def respell(cid, mode, item):
    """The model's input language spells every `derive_ex` list the bare way.  Under the attribute macro a list may also be
    written with the crate name in front (`#[derive_ex::derive_ex(..)]`, `#[::derive_ex::derive_ex(..)]`: fix 2 of round 12
    in DESIGN.md section 4) and means the same: in one case out of four the REAL macro gets its lists respelled (all of them,
    or every other one), the model keeps the bare spelling - so the correspondence also says that the spelling is
    immaterial.  (`#[derive(Ex)]` requests are left alone: a helper attribute of a derive cannot be a path.)"""
    if mode != 'A' or cid % 4 not in (1, 2):
        return item
    pieces = item.split('# [ derive_ex (')
    out = pieces[0]
    for k, p in enumerate(pieces[1:]):
        if cid % 4 == 1:
            sp = '# [ :: derive_ex :: derive_ex (' if k % 2 == 0 else '# [ derive_ex :: derive_ex ('
        else:
            sp = '# [ derive_ex :: derive_ex (' if k % 2 == 0 else '# [ derive_ex ('
        out += sp + p
    return out


def run_cases(cases):
    """cases: list of (sexp_request, meta).  Runs the extracted model (which also prints the
    concrete macro input) and then the real macro on that input.  Returns list of CaseResult."""
    lines = ['%d %s' % (i, c[0]) for i, c in enumerate(cases)]
    mout = _group(_run_sharded(MODEL, lines, 'model'))
    results = []
    real_in = []
    for i, c in enumerate(cases):
        r = CaseResult()
        r.cid, r.sexp, r.meta = i, c[0], c[1]
        parts = mout.get(str(i), [])
        if not parts or parts[0][0] != 'INPUT':
            raise RuntimeError('model rejected case %d: %s\n%s' % (i, parts, c[0][:2000]))
        _, r.mode, r.attr, r.item = parts[0]
        r.item = respell(i, r.mode, r.item)
        r.expected = [p for p in parts[1:] if p[0] != 'END']
        real_in.append('%d\t%s\t%s\t%s' % (i, r.mode, r.attr, r.item))
        results.append(r)
    rout = _group(_run_sharded(EXPANDER, real_in, 'real'))
    for r in results:
        parts = rout.get(str(r.cid), [])
        r.actual = [p for p in parts if p[0] != 'END']
        ends = [p for p in parts if p[0] == 'END']
        r.end = ends[0] if ends else None
    return results


def run_raw(inputs):
    """inputs: list of (mode, attr text, item text, meta): the REAL macro only (no model run), for hand-written requests
    the S-expression encoding cannot spell (e.g. literals containing blanks).  Returns CaseResults with expected=None."""
    lines = ['%d\t%s\t%s\t%s' % (i, m, a, it) for i, (m, a, it, _) in enumerate(inputs)]
    rout = _group(_run_sharded(EXPANDER, lines, 'raw'))
    results = []
    for i, (m, a, it, meta) in enumerate(inputs):
        r = CaseResult()
        r.cid, r.sexp, r.meta, r.mode, r.attr, r.item, r.expected = i, None, meta, m, a, it, None
        parts = rout.get(str(i), [])
        r.actual = [p for p in parts if p[0] != 'END']
        ends = [p for p in parts if p[0] == 'END']
        r.end = ends[0] if ends else None
        results.append(r)
    return results


def tokenize(texts):
    """flat token strings of arbitrary Rust text through the same lexer as the expander"""
    lines = ['%d\tT\t\t%s' % (i, t) for i, t in enumerate(texts)]
    out = _group(_run_sharded(EXPANDER, lines, 'tok'))
    return [out.get(str(i), [('LEXERR', '')])[0] for i in range(len(texts))]


# ---------------------------------------------------------------------------------------
# evidence
# ---------------------------------------------------------------------------------------
def write_evidence(pid, tier, seed, coverage, wall_s, violations, assumptions):
    os.makedirs(os.path.join(ROOT, 'evidence'), exist_ok=True)
    ev = dict(property_id=pid, tier=tier, seed=seed, level='proof', coverage=coverage,
              assumptions=assumptions, wall_s=round(wall_s, 2), violations=violations)
    with open(os.path.join(ROOT, 'evidence', pid + '.json'), 'w') as f:
        json.dump(ev, f, indent=1, sort_keys=True)
        f.write('\n')


def write_replay(pid, payload):
    d = os.path.join(ROOT, 'replays')
    os.makedirs(d, exist_ok=True)
    h = hashlib.sha1(json.dumps(payload, sort_keys=True).encode()).hexdigest()[:12]
    p = os.path.join(d, '%s-%s.json' % (pid, h))
    with open(p, 'w') as f:
        json.dump(payload, f, indent=1, sort_keys=True)
        f.write('\n')
    return os.path.relpath(p, ROOT)
