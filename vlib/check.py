"""The check driver: `./check <Cxx> --tier quick|thorough [--replay file]`.  See DESIGN.md §2.5."""
import argparse
import collections
import importlib
import json
import os
import random
import sys
import time

from . import run as R

TRUSTED_BASE = [
    'Coq 8.16.1 kernel (coqc, full .vo build); vm_compute used in reflection/witness lemmas; native_compute not used',
    'Print Assumptions of every property theorem: Closed under the global context (no axioms)',
    'Extraction: ExtrOcamlBasic + ExtrOcamlString (stdlib directives only: bool/option/list/prod/unit/sumbool, ascii->char, string->char list); OCaml 4.13.1 ocamlopt; driver/main.ml glue',
    'Correspondence tooling: vlib/*.py generators and comparison, harness/expander (token flattening, item splitting), harness/dxlib = /repo/derive-ex/src compiled with --cfg frozenlib_derive_ex_verif (verif_hooks duplicate the two proc-macro entry functions)',
    'Modelled, not verified: the Rust sources (tied by L1 token equality and L2/L3 rustc-compiled behaviour on the explored inputs); syn/structmeta/quote/proc_macro2; rustc; core::fmt, core::hash; the reading of Rust match/return/&&/places in Sem*.v',
]


def known_findings(pid):
    p = os.path.join(R.ROOT, 'known_findings.json')
    if not os.path.exists(p):
        return []
    with open(p) as f:
        data = json.load(f)
    return [k for k in data.get('findings', []) if k.get('property') == pid and k.get('status', 'open') == 'open']


def finding_matches(k, failure):
    """a failure is a known finding only if class and failure mode both match and, where the entry gives them, the
    failing input and the observation match its regular expressions (so that a different violation of the same
    property, or of the same class on another input shape, is still reported)"""
    import re
    if k.get('class') != failure.get('class') or k.get('mode') != failure.get('mode'):
        return False
    if k.get('input_regex') and not re.search(k['input_regex'], str(failure.get('input', ''))):
        return False
    if k.get('observed_regex') and not re.search(k['observed_regex'], str(failure.get('observed', ''))):
        return False
    return True


def main(argv=None):
    ap = argparse.ArgumentParser()
    ap.add_argument('pid')
    ap.add_argument('--tier', default=os.environ.get('VERIF_TIER', 'quick'))
    ap.add_argument('--replay')
    a = ap.parse_args(argv)
    pid, tier = a.pid, a.tier
    if tier not in ('quick', 'thorough'):
        tier = 'quick'
    seed = int(os.environ.get('VERIF_SEED', '20260930'))
    rng = random.Random(seed)
    t0 = time.time()
    mod = importlib.import_module('vlib.props.' + pid.lower())
    prop = mod.PROP

    # 1. builds -------------------------------------------------------------------------
    ok, out = R.build_coq()
    coq_ok = ok
    coq_out = out
    if ok:
        ok, out = R.build_driver()
        if not ok:
            R.log(out[-3000:])
            print('INTERNAL-ERROR: OCaml driver does not build')
            return 2
    ok, out = R.build_harness()
    if not ok:
        R.log(out[-3000:])
        print('INTERNAL-ERROR: harness does not build against /repo (hooks on)')
        return 2

    # 2. proofs -------------------------------------------------------------------------
    problems = R.audit_sources()
    rep = R.property_report(pid) if coq_ok else dict(ok=False, theorems=[], closed=0, axioms=[],
                                                     output=coq_out[-3000:], pinned=[])
    proof_ok = coq_ok and rep['ok'] and not problems
    failures = []       # concrete failing inputs (dicts)
    broken = []         # things that no longer check, without a failing input
    if not proof_ok:
        broken.append(dict(kind='proof', detail=(problems or []) + [rep.get('output', '')[-1500:]],
                           what='theorems of Properties/%s.v (or the audit) no longer check' % pid))

    if a.replay:
        return prop.replay(a.replay)

    # 2b. thorough tier: the compiled theories re-checked by the independent checker, axioms listed
    coqchk = None
    if tier == 'thorough' and coq_ok:
        import subprocess
        try:
            p = subprocess.run(['coqchk', '-o', '-silent', '-Q', 'theories', 'DX', 'DX.Properties.%s' % pid],
                               cwd=os.path.join(R.ROOT, 'coq'), stdout=subprocess.PIPE, stderr=subprocess.STDOUT,
                               text=True, timeout=1200)
            out = p.stdout
            import re
            summary = dict((k, re.search(r'\* %s: *([^\n]*(?:\n  [^\n*]+)*)' % re.escape(k), out).group(1).strip())
                           for k in ('Axioms', 'Constants/Inductives relying on type-in-type',
                                     'Constants/Inductives relying on unsafe (co)fixpoints',
                                     'Inductives whose positivity is assumed') if re.search(r'\* %s:' % re.escape(k), out))
            coqchk = dict(exit=p.returncode, summary=summary)
            if p.returncode != 0 or any(v != '<none>' for v in summary.values()) or len(summary) < 4:
                proof_ok = False
                broken.append(dict(kind='proof', what='coqchk does not accept Properties/%s.vo without axioms' % pid,
                                   detail=[out[-1500:]]))
        except Exception as e:      # noqa
            coqchk = dict(error=str(e))
            proof_ok = False
            broken.append(dict(kind='proof', what='coqchk could not be run', detail=[str(e)]))

    # 3. L1 correspondence -------------------------------------------------------------
    cases = prop.cases(tier, rng)
    results = R.run_cases(cases) if cases else []
    mism = []
    hist = collections.Counter()
    distinct = set()
    for r in results:
        feats = tuple(r.meta.get('features', ()))
        for f in feats:
            hist[f] += 1
        if r.meta.get('nontrivial', True):
            distinct.add((feats, r.item if len(r.item) < 400 else hash(r.item), r.attr, r.mode))
        e, x = prop.view(r, r.expected), prop.view(r, r.actual)
        bad_end = prop.check_end(r)
        if e != x or bad_end:
            mism.append((r, e, x, bad_end))
    R.log('[%s] L1: %d cases, %d mismatches' % (pid, len(results), len(mism)))

    # 4. oracle (model-free) -------------------------------------------------------------
    prop.l1_results = results
    l2 = prop.oracle(tier, rng, [m[0] for m in mism])
    failures.extend(l2.get('failures', []))
    kf = known_findings(pid)
    if mism:
        first = mism[0]
        # an L1 disagreement with a direct reading as a property failure (e.g. a panic): the first one among the
        # disagreeing cases that has such a reading
        for mm in mism[:2000]:
            direct = prop.direct_failure(mm[0], mm[1], mm[2], mm[3])
            if direct:
                failures.append(direct)
                break
        # the correspondence is broken and no failing input explains it: a failure that is a listed known finding
        # explains nothing (it is there on the unchanged tree as well)
        if not any(not any(finding_matches(k, f) for k in kf) for f in failures):
            broken.append(dict(kind='correspondence-L1',
                               what='model and real expansion differ (tag %s)' % prop.tag,
                               input=first[0].input_text(), expected=first[1], observed=first[2],
                               n_disagreeing=len(mism)))

    # 5. verdict ------------------------------------------------------------------------
    violations = 0
    lines = []
    reported = set()
    for f in failures:
        k = next((k for k in kf if finding_matches(k, f)), None)
        if k is not None:
            key = (k['class'], k['mode'], k.get('input_regex'), k['what'])      # one line per listed finding
            if key not in reported:
                reported.add(key)
                lines.append('KNOWN-FINDING: property=%s %s' % (pid, k['what']))
            continue
        violations += 1
        if violations <= 5:
            path = R.write_replay(pid, dict(property=pid, kind='failing-input', **f))
            lines.append('VIOLATION property=%s replay=%s' % (pid, path))
    if not failures or (violations == 0 and broken):
        for b in broken:
            violations += 1
            path = R.write_replay(pid, dict(property=pid, **b))
            lines.append('VIOLATION property=%s replay=%s no-failing-input-found' % (pid, path))

    # 6. evidence -----------------------------------------------------------------------
    samples = []
    for r in results[:3] + results[len(results) // 2: len(results) // 2 + 2]:
        samples.append(dict(input=r.input_text()[:600], expected=[list(p)[:3] for p in prop.view(r, r.expected)][:3]))
    samples.extend(l2.get('samples', [])[:3])
    n_thm = len(rep.get('theorems', []))
    cov = dict(
        obligations=max(n_thm, 1),
        discharged=(n_thm if proof_ok else 0) or (0 if not proof_ok else 1),
        theorems=rep.get('theorems', []),
        checker_cmd='make -C coq -j16 (coqc 8.16.1, full .vo) ; make theories/Properties/%s.vo (Print Assumptions)' % pid
        + (' ; coqchk -o -silent -Q theories DX DX.Properties.%s' % pid if tier == 'thorough' else ''),
        trusted_base=TRUSTED_BASE + ['Print Assumptions output: %d x "Closed under the global context", axioms: %s'
                                     % (rep.get('closed', 0), rep.get('axioms', []))],
        evaluations=len(results) + l2.get('evaluations', 0),
        distinct_nontrivial=len(distinct),
        rule=prop.rule,
        samples=samples,
        exhaustive=bool(prop.exhaustive(tier)),
        traces_validated_against_impl=len(results) - len(mism) + l2.get('validated', 0),
        l1=dict(cases=len(results), mismatches=len(mism), tag=prop.tag),
        coqchk=coqchk,
        l2=dict((k, v) for k, v in l2.items() if k not in ('failures', 'samples')),
        feature_histogram=dict(hist.most_common(60)),
        known_findings_reported=sorted(k[0] for k in reported),
    )
    R.write_evidence(pid, tier, seed, cov, time.time() - t0, violations, prop.assumptions)
    for l in lines:
        print(l)
    print('[%s] tier=%s theorems=%d proof_ok=%s L1=%d/%d oracle=%s violations=%d wall=%.1fs' % (
        pid, tier, n_thm, proof_ok, len(results) - len(mism), len(results),
        dict((k, v) for k, v in l2.items() if k in ('evaluations', 'validated', 'programs')),
        violations, time.time() - t0))
    return 1 if violations else 0


class Prop:
    """defaults; a property module subclasses and overrides"""
    pid = ''
    tag = 'all parts'
    rule = ''
    l1_results = None
    assumptions = []

    def cases(self, tier, rng):
        return []

    def view(self, r, parts):
        return list(parts)

    def check_end(self, r):
        """default: the real expansion must not panic"""
        if any(p[0] == 'PANIC' for p in r.actual):
            return 'panic'
        return None

    def direct_failure(self, r, expected, observed, bad_end):
        return None

    def oracle(self, tier, rng, suspicious):
        return dict(evaluations=0, validated=0, failures=[])

    def exhaustive(self, tier):
        return False

    def replay(self, path):
        """re-run the recorded input through the real macro (current /repo tree) and show it next to the record"""
        import re
        with open(path) as f:
            rec = json.load(f)
        print(json.dumps(rec, indent=1)[:6000])
        text = rec.get('input') or ''
        m = re.match(r'#\[derive_ex\((.*?)\)\] (.*)$', text, re.S)
        lines = []
        if m and not text.startswith('#[derive(Ex)]'):
            # the attribute arguments may contain parentheses: split at the matching one
            depth, i = 0, len('#[derive_ex(')
            j = i
            while j < len(text):
                if text[j] in '([{':
                    depth += 1
                elif text[j] in ')]}':
                    if depth == 0:
                        break
                    depth -= 1
                j += 1
            lines.append('0\tA\t%s\t%s' % (text[i:j], text[j + 3:]))
        elif text.startswith('#[derive(Ex)] '):
            lines.append('0\tD\t\t%s' % text[len('#[derive(Ex)] '):])
        if lines:
            out = R._run_sharded(R.EXPANDER, lines, 'replay')
            print('--- real expansion on the current tree ---')
            for l in out:
                print(l[:3000])
        return 0
