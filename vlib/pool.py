"""Pools of user fragments shared by the case generators: field types with concrete values,
generic parameter lists, foreign attributes, visibilities."""
from . import sx

U8 = sx.tid('u8')
T = sx.tid('T')


class FT:
    """a field type: S-expression, the type parameters/lifetimes it needs, and (for L2) two
    distinct value expressions plus the Rust text of the type"""

    def __init__(self, name, s, rust, v1, v2, needs=(), sized_eq=True, target_rust=None):
        self.name, self.s, self.rust, self.v1, self.v2 = name, s, rust, v1, v2
        self.needs = tuple(needs)      # subset of ('T', "'a", 'N')
        self.sized_eq = sized_eq       # can be assigned and compared with ==


FIELD_TYPES = [
    FT('u8', U8, 'u8', '1u8', '2u8'),
    FT('String', sx.tid('String'), 'String', 'String::from("a")', 'String::from("bc")'),
    FT('BoxSlice', sx.tgen('Box', sx.tslice(U8)), 'Box<[u8]>', 'vec![1u8, 2].into_boxed_slice()',
       'vec![3u8].into_boxed_slice()'),
    FT('T', T, 'T', '7u16', '9u16', needs=('T',)),
    FT('VecT', sx.tgen('Vec', T), 'Vec<T>', 'vec![1u32]', 'vec![2u32, 3]', needs=('T',)),
    FT('OptionT', sx.tgen('Option', T), 'Option<T>', 'Some(1i8)', 'None::<i8>', needs=('T',)),
    FT('RefStr', sx.tref(sx.tid('str'), lt='a'), "&'a str", '"x"', '"yz"', needs=("'a",)),
    FT('ArrN', sx.tarray(U8, sx.cpath(['N'])), '[u8; N]', '[1u8, 2, 3]', '[4u8, 5, 6]', needs=('N',)),
    FT('Tuple', sx.ttuple([U8, T]), '(u8, T)', '(1u8, 2u64)', '(3u8, 4u64)', needs=('T',)),
    FT('StdVec', sx.tpath(['std', 'vec', sx.seg('Vec', ('angle', [sx.gty(T)]))], lead=True),
       '::std::vec::Vec<T>', 'vec![1i32]', 'vec![]', needs=('T',)),
]
# more syntactic forms of field types (each with values, so the compiled oracles can use them too)
FIELD_TYPES += [
    FT('RefU8', sx.tref(U8, lt='a'), "&'a u8", '&1u8', '&2u8', needs=("'a",)),
    FT('ParenU8', sx.tparen(U8), '(u8)', '3u8', '4u8'),
    FT('ArrT', sx.tarray(T, sx.clit('2')), '[T; 2]', '[1u8, 2]', '[3u8, 4]', needs=('T',)),
    FT('LeadOpt', sx.tpath(['core', 'option', sx.seg('Option', ('angle', [sx.gty(T)]))], lead=True),
       '::core::option::Option<T>', 'Some(1u8)', 'None::<u8>', needs=('T',)),
    FT('RefRef', sx.tref(sx.tref(U8, lt='a'), lt='a'), "&'a &'a u8", '&&1u8', '&&2u8', needs=("'a",)),
]
FT_BY_NAME = dict((f.name, f) for f in FIELD_TYPES)
# forms without usable values (token-level generators only)
TOKEN_FIELD_TYPES = FIELD_TYPES + [
    FT('RefDyn', sx.tref(sx.tparen(sx.tdyn([sx.tb_trait(['core', 'fmt', 'Debug'], lead=True), sx.tb_trait(['Sync'])])), lt='a'),
       "&'a (dyn ::core::fmt::Debug + Sync)", '', '', needs=("'a",)),
    FT('FnPtr', sx.tfn([U8, T], U8), 'fn(u8, T) -> u8', '', '', needs=('T',)),
    FT('FnPtr0', sx.tparen(sx.tfn([U8], U8)), '(fn(u8) -> u8)', '', ''),
    FT('RawPtr', sx.tptr(T), '*const T', '', '', needs=('T',)),
    FT('SliceRef', sx.tref(sx.tslice(T), lt='a'), "&'a [T]", '', '', needs=("'a", 'T')),
    FT('Never', sx.tgen('Option', sx.tnever()), 'Option<!>', '', ''),
    # bare trait objects (a possibly-unsized tail): with one bound, with several (`&dyn A + B` would be ambiguous), generic
    FT('DynTwo', sx.tdyn([sx.tb_trait(['core', 'fmt', 'Debug'], lead=True), sx.tb_trait(['Sync'])]),
       'dyn ::core::fmt::Debug + Sync', '', ''),
    FT('DynOne', sx.tdyn([sx.tb_trait(['core', 'fmt', 'Debug'], lead=True)]), 'dyn ::core::fmt::Debug', '', ''),
    FT('DynT', sx.tdyn([sx.tb_trait([sx.seg('AsRef', ('angle', [sx.gty(T)]))]), sx.tb_trait(['Send'])]),
       'dyn AsRef<T> + Send', '', '', needs=('T',)),
    FT('Unit', sx.ttuple([]), '()', '', ''),
    FT('TupUnit', sx.ttuple([U8, sx.ttuple([])]), '(u8, ())', '', ''),
    FT('SelfBox', sx.tgen('Option', sx.tgen('Box', sx.tid('Self'))), 'Option<Box<Self>>', '', ''),
]


def generics_for(needs, rng=None, style=0):
    """a generics declaration providing the parameters in `needs` (plus optional extras)"""
    params, where = [], []
    if "'a" in needs:
        params.append(sx.gp_lt('a'))
    if style == 3:
        # parameters written with defaults (allowed on the type, never to be copied into an impl header)
        if 'T' in needs:
            params.append(sx.gp_ty('T', default=sx.tid('u8')))
        if 'N' in needs:
            params.append(sx.gp_const('N', sx.tid('usize'), default=sx.clit('3')))
        return sx.generics(params, where)
    if 'T' in needs:
        if style % 3 == 1:
            params.append(sx.gp_ty('T', [sx.tb_trait(['Clone'])]))
        elif style % 3 == 2:
            params.append(sx.gp_ty('T'))
            where.append(sx.wty(T, [sx.tb_trait(['Sized'])]))
        else:
            params.append(sx.gp_ty('T'))
    if 'N' in needs:
        params.append(sx.gp_const('N', sx.tid('usize')))
    return sx.generics(params, where)


FOREIGN_ATTRS = [
    'doc = "text"',
    'repr ( C )',
    'allow ( dead_code )',
    'cfg_attr ( any ( ) , derive ( Clone ) )',
    'rustfmt :: skip',
    'must_use',
    'repr ( packed )',
    'repr ( C , packed ( 2 ) )',
    'repr ( align ( 8 ) )',
    'repr ( transparent )',
    'non_exhaustive',
    'derive ( Debug )',
    'cfg ( all ( ) )',
    'deprecated',
    'deprecated ( note = "x" )',
]
# foreign attributes with a multi-segment path whose LAST segment is spelled like a helper attribute (token-level
# generators only: rustc could not resolve them).  derive_ex owns bare identifiers only.
FOREIGN_PATH_ATTRS = [
    'foo :: debug', ':: foo :: hash ( x )', 'foo :: eq', 'bar :: default ( 1 )', 'foo :: derive_ex :: derive_ex ( Clone )',
    'serde :: partial_ord', 'a :: b :: ord ( key = 1 )', 'foo :: derive_ex', 'foo :: partial_eq ( ignore )', ':: debug',
]
VIS = ['', 'pub', 'pub ( crate )']
