"""L2 / L3: programs compiled by rustc against the REAL proc-macro (/repo/derive-ex, guard off).

A batch is a crate with one module per case.  `cargo build --message-format=json` maps every
diagnostic back to its module by line number, so one module that does not compile does not
hide the others: failing modules are removed and the crate is rebuilt (at most a few rounds)."""
import json
import os
import shutil
import subprocess

from . import run as R

L2 = os.path.join(R.WORK, 'l2')
L2_TARGET = os.path.join(R.WORK, 'l2target')
ENV = dict(os.environ, CARGO_NET_OFFLINE='true')
ENV.pop('RUSTFLAGS', None)

CARGO_TOML = '''[package]
name = "%s"
version = "0.0.0"
edition = "2021"

[workspace]

[dependencies]
derive-ex = { path = "/repo/derive-ex" }

[profile.dev]
debug = false
incremental = false
'''

PRELUDE = '''#![allow(dead_code, unused_variables, unused_imports, unused_mut, non_camel_case_types, non_snake_case, non_upper_case_globals, clippy::all)]
'''


class Module:
    def __init__(self, cid, body, meta=None):
        self.cid = cid          # integer id
        self.body = body        # Rust source of the module body (must define `pub fn run()`)
        self.meta = meta
        self.diags = []         # compiler diagnostics located in this module
        self.compiled = None


def _write_crate(d, name, mods, prelude, check_only, crate_attrs=None):
    os.makedirs(os.path.join(d, 'src'), exist_ok=True)
    with open(os.path.join(d, 'Cargo.toml'), 'w') as f:
        f.write(CARGO_TOML % name)
    shutil.copy('/repo/Cargo.lock', os.path.join(d, 'Cargo.lock'))
    lines = ((PRELUDE if crate_attrs is None else crate_attrs) + prelude).split('\n')
    spans = []
    for m in mods:
        start = len(lines) + 1
        lines.append('pub mod c%d {' % m.cid)
        lines.append('#[allow(unused_imports)] use super::*;')
        lines.extend(m.body.split('\n'))
        lines.append('}')
        spans.append((start, len(lines), m))
    lines.append('fn main() {')
    if not check_only:
        for m in mods:
            lines.append('    c%d::run();' % m.cid)
    lines.append('}')
    with open(os.path.join(d, 'src', 'main.rs'), 'w') as f:
        f.write('\n'.join(lines) + '\n')
    return spans


_MACRO = {}


def ensure_macro():
    """(re)build the real proc-macro from /repo's working tree (guard off) through a tiny cargo crate and
    return (path of libderive_ex-*.so, deps dir).  Batches are then compiled by rustc directly, so that
    many of them can run in parallel without contending for cargo's target-dir lock."""
    if 'so' in _MACRO:
        return _MACRO['so'], _MACRO['deps']
    import glob
    d = os.path.join(L2, '_macro')
    with R.Lock('l2-macro'):
        os.makedirs(os.path.join(d, 'src'), exist_ok=True)
        with open(os.path.join(d, 'Cargo.toml'), 'w') as f:
            f.write(CARGO_TOML % 'l2macro')
        shutil.copy('/repo/Cargo.lock', os.path.join(d, 'Cargo.lock'))
        with open(os.path.join(d, 'src', 'main.rs'), 'w') as f:
            f.write('#[derive_ex::derive_ex(Clone)] struct W(u8); fn main() { let _ = W(1).clone(); }\n')
        p = subprocess.run(['timeout', '1500', 'cargo', 'build', '--offline', '--message-format=json',
                            '--target-dir', L2_TARGET], cwd=d, env=ENV, stdout=subprocess.PIPE,
                           stderr=subprocess.PIPE, text=True)
        if p.returncode != 0:
            raise RuntimeError('the real proc-macro does not build (guard off):\n' + p.stderr[-3000:])
        so = None
        for l in p.stdout.split('\n'):
            if l.startswith('{') and '"compiler-artifact"' in l:
                j = json.loads(l)
                if j.get('target', {}).get('name') in ('derive_ex', 'derive-ex'):
                    for fn in j.get('filenames', []):
                        if fn.endswith('.so'):
                            so = fn
        if so is None:
            c = sorted(glob.glob(os.path.join(L2_TARGET, 'debug', 'deps', 'libderive_ex-*.so')), key=os.path.getmtime)
            so = c[-1]
    _MACRO['so'], _MACRO['deps'] = so, os.path.join(L2_TARGET, 'debug', 'deps')
    return so, _MACRO['deps']


def _cargo(d, check_only, deny_warnings, lib=False, edition='2021'):
    so, deps = ensure_macro()
    name = os.path.basename(d)
    out = os.path.join(d, name)
    cmd = ['timeout', '1500', 'rustc', '--edition=' + edition, '--crate-name', name.replace('-', '_'), '--crate-type', 'lib' if lib else 'bin',
           '--error-format=json', '--extern', 'derive_ex=' + so, '-L', 'dependency=' + deps,
           '-C', 'debuginfo=0', '-C', 'opt-level=0', '-C', 'codegen-units=4']
    if check_only:
        cmd += ['--emit=metadata', '-o', out + '.rmeta']
    else:
        cmd += ['-o', out]
    if deny_warnings:
        cmd += ['-D', 'warnings']
    cmd.append(os.path.join(d, 'src', 'main.rs'))
    p = subprocess.run(cmd, cwd=d, env=ENV, stdout=subprocess.PIPE, stderr=subprocess.PIPE, text=True)
    diags = []
    for l in p.stderr.split('\n'):
        if not l.startswith('{'):
            continue
        try:
            msg = json.loads(l)
        except ValueError:
            continue
        if msg.get('level') in ('error', 'warning') and msg.get('spans') is not None:
            diags.append(msg)
    return p.returncode, diags, p.stderr


def _primary_line(msg):
    for s in msg.get('spans', []):
        if s.get('is_primary'):
            return s.get('line_start'), s
    for s in msg.get('spans', []):
        return s.get('line_start'), s
    return None, None


def _in_macro_output(span):
    """does the span come from a macro expansion (derive_ex output)?"""
    e = span.get('expansion') if span else None
    return e is not None


def compile_batch(name, mods, prelude='', check_only=False, deny_warnings=False, max_rounds=6, crate_attrs=None,
                  keep_warnings=False, edition='2021'):
    """Compiles the batch; sets m.compiled and m.diags for every module.
    Returns path of the executable (or None when check_only / nothing compiled)."""
    d = os.path.join(L2, name)
    shutil.rmtree(d, ignore_errors=True)
    live = list(mods)
    for m in mods:
        m.compiled, m.diags = None, []
    if True:
        for _ in range(max_rounds):
            for m in live:
                m.diags = []
            spans = _write_crate(d, name, live, prelude, check_only, crate_attrs)
            rc, diags, stderr = _cargo(d, check_only, deny_warnings, lib=bool(crate_attrs and 'no_std' in crate_attrs), edition=edition)
            bad = set()
            unplaced = []
            for msg in diags:
                line, sp = _primary_line(msg)
                placed = False
                for (a, b, m) in spans:
                    if line is not None and a <= line <= b:
                        m.diags.append(dict(level=msg['level'], code=(msg.get('code') or {}).get('code'),
                                            message=msg['message'], in_macro=_in_macro_output(sp),
                                            rendered=(msg.get('rendered') or '')[:1500]))
                        if msg['level'] == 'error':
                            bad.add(m.cid)
                        placed = True
                        break
                if not placed and msg['level'] == 'error' and 'aborting due to' not in msg['message'] \
                        and 'could not compile' not in msg['message']:
                    unplaced.append(msg['message'])
            if rc == 0:
                for m in live:
                    m.compiled = True
                break
            if not bad:
                raise RuntimeError('cargo failed without a located error:\n%s\n%s' % (unplaced[:5], stderr[-3000:]))
            for m in live:
                if m.cid in bad:
                    m.compiled = False
            live = [m for m in live if m.cid not in bad]
            if not live:
                break
        else:
            raise RuntimeError('batch %s did not converge' % name)
    if check_only or not live:
        return None
    return os.path.join(d, name)


def run_exe(exe, timeout=600):
    p = subprocess.run([exe], stdout=subprocess.PIPE, stderr=subprocess.PIPE, text=True, timeout=timeout)
    by = {}
    for l in p.stdout.split('\n'):
        if not l:
            continue
        f = l.split('\t')
        by.setdefault(f[0], []).append(tuple(f[1:]))
    return p.returncode, by, p.stderr


def cleanup(name):
    shutil.rmtree(os.path.join(L2, name), ignore_errors=True)


def compile_parallel(batches, **kw):
    """batches: list of (name, mods); compiled concurrently (threads, one rustc each).
    Returns {name: exe or None}"""
    from concurrent.futures import ThreadPoolExecutor
    ensure_macro()
    with ThreadPoolExecutor(max_workers=R.NPROC) as ex:
        futs = {name: ex.submit(compile_batch, name, mods, **kw) for name, mods in batches}
        return {name: f.result() for name, f in futs.items()}


def via_macro(head, item):
    """the same request with the item declared THROUGH a macro_rules! macro: the macro writes the derive_ex / derive
    attribute (`head`), the item's tokens come from the caller - so the tokens of the request carry two different
    hygiene contexts, as they do in any crate that generates its types with a macro"""
    return 'macro_rules! __via { ($($i:tt)*) => { %s $($i)* }; }\n__via! { %s }\n' % (head.strip(), item)


def decl(head, item, cid, every=4):
    """declaration text of a case: every `every`-th case is declared through a macro_rules! macro (see via_macro)"""
    return via_macro(head, item) if cid % every == 0 else head + item


def compile_status(name, mods, prelude='', crate_attrs=None, rendered=False):
    """one rustc run (metadata only): (exit status, error messages, last lines of the raw stderr) - for inputs that may
    make the compiler itself die (a proc macro that overflows the stack kills rustc; there are no JSON diagnostics then)"""
    d = os.path.join(L2, name)
    shutil.rmtree(d, ignore_errors=True)
    _write_crate(d, name, list(mods), prelude, True, crate_attrs)
    rc, diags, stderr = _cargo(d, True, False)
    raw = [l for l in stderr.split('\n') if l and not l.startswith('{')]
    if rendered:
        return rc, [(m['message'], (m.get('rendered') or '')[:3000]) for m in diags if m.get('level') == 'error'], raw[-6:]
    return rc, [m['message'] for m in diags if m.get('level') == 'error'], raw[-6:]


def first_round_diags(name, mods, prelude='', crate_attrs=None):
    """one rustc run (metadata only) over the batch, erroring modules included: every diagnostic with the module it
    belongs to (or None).  Used to look for proc-macro panics in the REAL compiler, whatever else is wrong with the inputs."""
    d = os.path.join(L2, name)
    shutil.rmtree(d, ignore_errors=True)
    spans = _write_crate(d, name, list(mods), prelude, True, crate_attrs)
    rc, diags, stderr = _cargo(d, True, False)
    out = []
    for msg in diags:
        line, sp = _primary_line(msg)
        owner = None
        for (a, b, m) in spans:
            if line is not None and a <= line <= b:
                owner = m
                break
        out.append((owner, msg['level'], msg['message']))
    return out
