"""C01 — derived ==, partial_cmp, cmp follow the documented lexicographic rule."""
import itertools

from .. import cmpgen as G
from .. import l2
from .. import run as R
from ..check import Prop
from .. import sx

CMP4 = ['Ord', 'PartialOrd', 'Eq', 'PartialEq']


def subsets(ts):
    return [list(c) for n in range(1, len(ts) + 1) for c in itertools.combinations(ts, n)]


LIT_PRELUDE = '''
use ::std::cell::Cell;
thread_local! { pub static CNT: Cell<u32> = Cell::new(0); }
pub fn cnt() -> u32 { CNT.with(|c| c.replace(0)) }
pub fn counted_eq(a: &u8, b: &u8) -> bool { CNT.with(|c| c.set(c.get() + 1)); a == b }
pub fn counted_pcmp(a: &u8, b: &u8) -> Option<Ordering> { CNT.with(|c| c.set(c.get() + 1)); a.partial_cmp(b) }
pub fn counted_cmp(a: &u8, b: &u8) -> Ordering { CNT.with(|c| c.set(c.get() + 1)); a.cmp(b) }
pub fn feed<T: Hash>(t: &T) -> String { let mut h = Rec(String::new()); t.hash(&mut h); h.0 }
'''


class CmpProp(Prop):
    """shared by C01 / C06 / C02: builds types, runs them against the real macro, compares with the
    Python reference of the documented rule"""
    trait_pool = CMP4
    weird_order_type = False     # C01 only: a field type with a non-antisymmetric order (the other properties assume lawful fields)
    observe = ('eq', 'pcmp', 'cmp')
    batch = 'c01'

    def n(self, tier):
        return 320 if tier == 'quick' else 20000

    def trait_sets(self):
        return subsets(self.trait_pool)

    def pick_combo(self, rng, traits, ftype, pool):
        if ftype == 'F':
            # a function pointer: compared, ordered and hashed through one `#[ord(key = ..)]` for every trait
            return {'ord': rng.choice(['key', 'key+reverse'])}
        if ftype in ('P', 'A', 'W', 'I'):
            c = {'ord': rng.choice(['-', '-', 'reverse']), 'partial_ord': rng.choice(['-', 'reverse', '-']),
                 'hash': rng.choice(['-', '-', 'ignore'])}
            c = G.relevant_combo(traits, c)
            return c if G.accepted_for(traits, c) else {}
        return rng.choice(pool)

    def build_cases(self, tier, rng):
        out = []
        pools = {}
        sets = self.trait_sets()
        for k in range(self.n(tier)):
            traits = sets[k % len(sets)]
            key = tuple(traits)
            if key not in pools:
                seen, pool = set(), []
                for c in G.all_combos():
                    rc = G.relevant_combo(traits, c)
                    t = tuple(sorted(rc.items()))
                    if t not in seen and G.accepted_for(traits, rc):
                        seen.add(t)
                        pool.append(rc)
                pools[key] = pool
            pool = pools[key]
            is_enum = rng.random() < 0.5
            allow_p = not (set(traits) & {'Ord', 'Eq'})
            nvar = 1 + rng.randrange(3) if is_enum else 1
            variants = []
            for _ in range(nvar):
                nf = rng.choice([0, 1, 1, 2, 2, 3]) if is_enum else rng.choice([0, 1, 2, 2, 3, 3, 4])
                fl = []
                for _ in range(nf):
                    ft = 'P' if (allow_p and rng.random() < 0.15) else 'A' if rng.random() < 0.1 else 'F' if rng.random() < 0.08 else 'u8'
                    if self.weird_order_type and rng.random() < 0.12:
                        ft = 'W'
                    elif rng.random() < 0.08:
                        ft = 'I'
                    fl.append((ft, self.pick_combo(rng, traits, ft, pool)))
                variants.append((rng.random() < 0.5, fl))
            mode = 'attr' if rng.random() < 0.5 else 'derive'
            name = 'E' if is_enum else 'X'
            # explicit discriminants on some variants (with or without fields, under `#[repr(u8)]`): they change nothing -
            # variants stay ordered by declaration position, fields are compared and hashed as without them
            discrs = None
            if is_enum and rng.random() < 0.25:
                # decreasing values: declaration order and discriminant order disagree
                discrs = [str(10 * (nvar - i)) if rng.random() < 0.6 else None for i in range(nvar)]
                if not any(discrs):
                    discrs[rng.randrange(nvar)] = '7'
            req = G.make_item(name, variants, is_enum, traits, mode, discrs=discrs,
                              item_attrs=[sx.a_other('repr ( u8 )')] if discrs else ())
            feats = {mode, 'enum%d' % nvar if is_enum else 'struct', 'traits:' + '+'.join(traits)}
            if discrs:
                feats.add('discriminants')
                feats.add('discriminant-on-fields' if any(d and fl for d, (_, fl) in zip(discrs, variants)) else 'discriminant-on-unit')
            nontriv = False
            for _, fl in variants:
                feats.add('fields%d' % len(fl))
                for ft, cb in fl:
                    feats.add('ft-' + ft)
                    for a, o in cb.items():
                        if o != '-':
                            feats.add('%s(%s)' % (a, o))
                            nontriv = True
                    for t in traits:
                        s = G.selected(t, cb)
                        if s:
                            feats.add('sel-%s-by-%s' % (t, s[1]))
            out.append((req, dict(features=tuple(sorted(feats)), nontrivial=nontriv or len(variants) > 1,
                                  traits=traits, variants=variants, enum=is_enum, name=name)))
        # directed: field-less enums whose explicit discriminants disagree with the declaration order (variants compare by
        # position, as with the standard derive), with and without `repr`
        for k, traits in enumerate(sets):
            for dk, discrs in enumerate((['3', '2', '1'], ['5', None, '1'], [None, '-2', None], ['1', '0'])):
                variants = [(False, []) for _ in discrs]
                mode = 'attr' if (k + dk) % 2 else 'derive'
                req = G.make_item('E', variants, True, traits, mode, discrs=discrs,
                                  item_attrs=[sx.a_other('repr ( i8 )')] if dk % 2 else ())
                out.append((req, dict(features=('unit-only-discriminants', mode, 'traits:' + '+'.join(traits), ','.join(d or '_' for d in discrs)),
                                      nontrivial=True, traits=traits, variants=variants, enum=True, name='E')))
        if self.directed:
            out.extend(self.wide_cases(sets, pools))
        return out

    directed = True

    def wide_cases(self, sets, pools):
        """directed: structs and variants with MANY fields (11, 17, 33): every field takes part, in declaration order, however
        many there are; observed on the all-zero value and on every single-field perturbation of it (two values per field)"""
        out = []
        for k, traits in enumerate(sets):
            pool = pools.get(tuple(traits)) or [{}]
            for shape in ((11,), (17,), (33,), (12, 17)):
                is_enum = len(shape) > 1
                variants, values = [], []
                for vi, nf in enumerate(shape):
                    fl = [('u8', pool[(i * 5 + k) % len(pool)] if i % 4 == 1 else {}) for i in range(nf)]
                    variants.append(((k + vi) % 2 == 0, fl))
                    values.append((vi, (0,) * nf))
                    for i in range(nf):
                        for x in (1, 2):
                            values.append((vi, tuple(x if j == i else 0 for j in range(nf))))
                mode = 'attr' if (k + len(shape)) % 2 else 'derive'
                name = 'E' if is_enum else 'X'
                req = G.make_item(name, variants, is_enum, traits, mode)
                out.append((req, dict(features=('wide', mode, 'traits:' + '+'.join(traits), 'fields' + '+'.join(map(str, shape))),
                                      nontrivial=True, traits=traits, variants=variants, enum=is_enum, name=name,
                                      fixed_values=values)))
        return out

    # key dialects: the same grammar with the key expression of one attribute kind replaced by the identity, written
    # `$`, `( $ )` or `( ( $ ) )` - a key that "does nothing" must still take its place in the precedence
    ID = lambda x: x
    DIALECTS = {
        'std': {},
        'id-hash': {'hash': ('$', ID)},
        'id-eq': {'eq': ('( ( $ ) )', ID), 'partial_eq': ('( $ )', ID)},
        'id-ord': {'ord': ('$', ID), 'partial_ord': ('( $ )', ID)},
        # keys that do not mention the field at all, and keys whose only `$` sits inside a macro invocation
        'const-keys': {'hash': ('( 7u8 )', lambda x: 7), 'eq': ('( 1u8 )', lambda x: 1), 'ord': ('( 2u8 )', lambda x: 2)},
        'macro-keys': {'hash': ('( :: core :: matches ! ( $ , 1 | 3 ) as u8 )', lambda x: int(x in (1, 3))),
                       'eq': ('( :: core :: matches ! ( $ , 0 | 2 ) as u8 )', lambda x: int(x in (0, 2))),
                       'partial_ord': ('( :: core :: matches ! ( $ , 2 | 3 ) as u8 )', lambda x: int(x in (2, 3)))},
        # a string literal that merely CONTAINS the placeholder character is a constant `&str` key
        'string-keys': {'hash': ('"$"', lambda x: 'b[36];u8:255;'), 'eq': ('"$ + 1"', lambda x: 'b[36, 32, 43, 32, 49];u8:255;')},
    }

    def cases(self, tier, rng):
        out = self.build_cases(tier, rng)
        for _, m in out:
            m['dialect'] = 'std'
        saved = G.KEY
        n_extra = max(30, self.n(tier) // 8)
        try:
            for name, over in self.DIALECTS.items():
                if name == 'std':
                    continue
                G.KEY = dict(saved, **over)
                real_n = self.n
                self.n = lambda tier: n_extra
                self.directed = False
                try:
                    extra = self.build_cases(tier, rng)
                finally:
                    self.n = real_n
                    self.directed = True
                for req, m in extra:
                    m['dialect'] = name
                    m['features'] = tuple(m['features']) + ('dialect:' + name,)
                out.extend(extra)
        finally:
            G.KEY = saved
        return out

    def view(self, r, parts):
        # the bodies of the comparison impls (headers belong to C03/C04)
        return [(p[0], p[2]) if p[0] == 'IMPL' else p for p in parts if p[0] != 'ITEM']

    def oracle(self, tier, rng, suspicious):
        results = self.l1_results or R.run_cases(self.cases(tier, rng))
        mods = []
        for r in results:
            m = r.meta
            head = ('#[::derive_ex::derive_ex(%s)]\n' % r.attr) if r.mode == 'A' else '#[derive(::derive_ex::Ex)]\n'
            nf = max([len(fl) for _, fl in m['variants']] + [0])
            dom = [0, 1, 2, 3] if nf <= 2 else [0, 1, 3]
            values = G.values_of(m['variants'], dom, [0, 1, 9]) if 'fixed_values' not in m else []
            if len(values) > 70:
                values = values[::(len(values) // 70 + 1)]
            values = m.get('fixed_values') or values
            m['values'] = values
            mods.append(l2.Module(r.cid, G.module_source(r.cid, head, r.item, m['name'], m['variants'], m['enum'],
                                                         m['traits'], values), r))
        nb = max(1, min(R.NPROC, len(mods) // 40 + 1))
        batches = [('%s_%d' % (self.batch, k), mods[k::nb]) for k in range(nb)]
        exes = l2.compile_parallel(batches, prelude=G.PRELUDE + G.P_TYPE)
        obs = {}
        for name, exe in exes.items():
            if exe:
                rc, o, err = l2.run_exe(exe)
                obs.update(o)
        failures, validated, samples, pairs = [], 0, [], 0
        for mo in mods:
            r = mo.meta
            m = r.meta
            if not mo.compiled:
                failures.append(dict(**{'class': 'accepted-combination-does-not-compile', 'mode': 'compile'},
                                     input=r.input_text(), expected='compiles (the documentation allows this combination)',
                                     observed=[d['message'] for d in mo.diags if d['level'] == 'error'][:3]))
                continue
            saved_key = G.KEY
            G.KEY = dict(saved_key, **self.DIALECTS.get(m.get('dialect', 'std'), {}))
            try:
                want = [x for x in G.expected_lines(m['variants'], m['traits'], m['values']) if x[0] in self.observe]
            finally:
                G.KEY = saved_key
            got = [x for x in obs.get(str(mo.cid), []) if x[0] in self.observe]
            pairs += sum(len(x[1]) for x in want)
            if want != got:
                bad = next(((w, g) for w, g in zip(want, got + [('?', '')] * len(want)) if w != g), (want, got))
                failures.append(dict(**{'class': 'comparison-differs-from-documented-rule', 'mode': bad[0][0]},
                                     input=r.input_text(), values=[list(v) for v in m['values']][:80],
                                     expected=list(bad[0]), observed=list(bad[1])))
            else:
                validated += 1
                if len(samples) < 2 and m['nontrivial'] and len(m['values']) > 3:
                    samples.append(dict(input=r.input_text()[:500], values=len(m['values']),
                                        observed=[(k, v[:40]) for k, v in got]))
        for name, _ in batches:
            l2.cleanup(name)
        # hand-written programs (no model counterpart): (text, source, expected lines)
        class _Lit:
            def __init__(self, text):
                self.text, self.meta = text, dict(nontrivial=True)
            def input_text(self):
                return self.text
        lits = [l2.Module(9 * 10 ** 6 + k, src.replace('@ID@', str(9 * 10 ** 6 + k)), (_Lit(text), want))
                for k, (text, src, want) in enumerate(self.literal_programs())]
        if lits:
            exe = l2.compile_batch(self.batch + 'lit', lits, prelude=G.PRELUDE + G.P_TYPE + LIT_PRELUDE)
            lobs = l2.run_exe(exe)[1] if exe else {}
            for mo in lits:
                lit, want = mo.meta
                got = [tuple(x) for x in lobs.get(str(mo.cid), [])]
                if not mo.compiled or got != want:
                    failures.append(dict(**{'class': 'comparison-differs-from-documented-rule', 'mode': 'literal'}, input=lit.input_text(),
                                         expected=[list(w) for w in want],
                                         observed=[d['message'] for d in mo.diags if d['level'] == 'error'][:3] or [list(g) for g in got]))
                else:
                    validated += 1
            l2.cleanup(self.batch + 'lit')
        return dict(evaluations=len(mods) + len(lits), validated=validated, programs=len(mods) + len(lits), observations=pairs,
                    failures=failures, samples=samples)

    def literal_programs(self):
        return []


class C01(CmpProp):
    pid = 'C01'
    weird_order_type = True
    tag = 'bodies of the PartialEq / PartialOrd / Ord (and Eq) impls'
    rule = ('struct / enum (1-3 variants, 0-4 fields of u8 or the partially ordered P) x every non-empty subset of '
            '{Ord, PartialOrd, Eq, PartialEq} x both entry points; each field carries a combination drawn from the '
            'accepted part of the 3136-grid (5 attributes x ignore/reverse/key/by, one distinct key and by function per '
            'attribute kind so that precedence is observable); compiled against the real proc-macro and compared on the '
            'full cartesian product of per-field domains ({0..3}, P: {0,1,9}) for all ordered pairs with a Python '
            'reference of the documented rule; non-trivial = some attribute present or several variants')
    assumptions = ['reading of Rust match / return / && built into SemCmp.v (validated by the compiled programs)']


def _c01_literals():
    out = []
    for mi, head in enumerate(('#[::derive_ex::derive_ex(%s)]', '#[derive(::derive_ex::Ex)] #[derive_ex(%s)]')):
        tl = 'PartialEq, PartialOrd, Eq, Ord'
        for decl, mk in (('pub struct X(pub u8, #[partial_eq(by = counted_eq)] #[partial_ord(by = counted_pcmp)] #[ord(by = counted_cmp)] pub u8, pub u8);', 'X(%d, %d, 0)'),
                         ('pub enum X { A, B { a: u8, #[partial_eq(by = counted_eq)] #[partial_ord(by = counted_pcmp)] #[ord(by = counted_cmp)] b: u8 } }', 'X::B { a: %d, b: %d }')):
            v = lambda a, b: mk % (a, b)
            src = (head % tl) + '\n' + decl + '\npub fn run() {\n' + \
                '    let _ = cnt(); let r = %s == %s; println!("@ID@\\teq-decided-early\\t{} {}", r, cnt());\n' % (v(0, 1), v(1, 1)) + \
                '    let r = %s == %s; println!("@ID@\\teq-reaches-it\\t{} {}", r, cnt());\n' % (v(0, 1), v(0, 2)) + \
                '    let r = %s.partial_cmp(&%s); println!("@ID@\\tpcmp-decided-early\\t{:?} {}", r, cnt());\n' % (v(0, 1), v(1, 1)) + \
                '    let r = %s.partial_cmp(&%s); println!("@ID@\\tpcmp-reaches-it\\t{:?} {}", r, cnt());\n' % (v(0, 1), v(0, 2)) + \
                '    let r = %s.cmp(&%s); println!("@ID@\\tcmp-decided-early\\t{:?} {}", r, cnt());\n' % (v(2, 1), v(1, 1)) + \
                '    let r = %s.cmp(&%s); println!("@ID@\\tcmp-reaches-it\\t{:?} {}", r, cnt());\n}' % (v(0, 2), v(0, 1))
            want = [('eq-decided-early', 'false 0'), ('eq-reaches-it', 'false 1'), ('pcmp-decided-early', 'Some(Less) 0'),
                    ('pcmp-reaches-it', 'Some(Less) 1'), ('cmp-decided-early', 'Greater 0'), ('cmp-reaches-it', 'Greater 1')]
            out.append(((head % tl).replace('::derive_ex::', '') + ' ' + decl + '   [a field after the deciding one is not compared: its `by` function is not called]', src, want))
    # a key written by a `macro_rules!` macro: an `$m:expr` fragment is ONE operand (`$ % (2 + 2)`, not `($ % 2) + 2`)
    for head, text in (('#[::derive_ex::derive_ex(PartialEq, Eq, PartialOrd, Ord)]', '#[derive_ex(PartialEq, Eq, PartialOrd, Ord)]'),
                       ('#[derive(::derive_ex::Ex)] #[derive_ex(PartialEq, Eq, PartialOrd, Ord)]', '#[derive(Ex)] #[derive_ex(PartialEq, Eq, PartialOrd, Ord)]')):
        decl = 'pub struct $name(#[ord(key = $d % $m)] pub u8);'
        src = 'macro_rules! keyed { ($d:tt, $name:ident, $m:expr) => { %s\n%s }; }\nkeyed!($, X, 2 + 2);\n' % (head, decl) + \
            'pub fn run() { println!("@ID@\\tfragment-key\\t{} {:?} {:?}", X(2) == X(0), X(2).partial_cmp(&X(0)), X(6).cmp(&X(2))); }'
        out.append(('macro_rules! keyed { ($d:tt, $name:ident, $m:expr) => { %s %s } }  keyed!($, X, 2 + 2);   [compared by $ %% (2 + 2)]' % (text, decl),
                    src, [('fragment-key', 'false Some(Greater) Equal')]))
    return out


C01.literal_programs = lambda self: _c01_literals()
PROP = C01()
