"""C15 — same impls via either entry point, merged or split lists, any co-derived set."""
from .. import run as R
from .. import sx
from ..check import Prop
from ..gen import Gen, assemble, BOTH, STRUCT_ONLY
from ..tokutil import owned_names, HELPER_NAMES


def impl_parts(parts):
    return [p for p in parts if p[0] != 'ITEM']


class C15(Prop):
    pid = 'C15'
    tag = 'generated impls / errors (everything but the ITEM part)'
    rule = ('for each random item plan (vlib/gen.py: helper attributes, bound arguments, all traits): the attribute-macro '
            'form, the derive-macro form, a split of the list into 2-3 attributes, and supersets of the trait list '
            '(extra traits appended or prepended that own no attribute present on the item); metamorphic comparison '
            'real-vs-real inside each group plus model-vs-real per member; non-trivial = group with >= 2 traits or '
            'any helper attribute; distinct by (features, item text)')
    assumptions = []

    def n(self, tier):
        return 1000 if tier == 'quick' else 40000

    def cases(self, tier, rng):
        g = Gen(rng)
        out = []
        for gid in range(self.n(tier)):
            plan = g.plan(density=0.5)
            items = plan['items']
            role = 0

            def add(req_meta, role_name, **extra):
                req, meta = req_meta
                meta.update(gid=gid, role=role_name, **extra)
                meta['nontrivial'] = len(items) > 1 or any(
                    f.startswith(('cmp-', 'debug-', 'default-')) for f in meta['features'])
                out.append((req, meta))

            add(assemble(plan, 'attr'), 'attr')
            add(assemble(plan, 'derive'), 'derive')
            if len(items) > 1:
                cut = 1 + rng.randrange(len(items) - 1)
                cuts = [cut] + ([cut + 1] if cut + 1 < len(items) and rng.random() < 0.3 else [])
                add(assemble(plan, 'attr' if rng.random() < 0.5 else 'derive', cuts), 'split')
            # stacked lists with DIFFERENT shared arguments: what a list shares (bound, dump) stays inside that list, so
            # the stacked request expands to what the two lists expand to on their own
            present0 = set(n for n in HELPER_NAMES if ('(%s ' % _sx_name(n)) in plan['item'])
            names = [t for t, _ in items]
            if len(items) > 1 and len(set(names)) == len(names):
                cut = 1 + rng.randrange(len(items) - 1)
                own_all = owned_names(names) & present0
                # (each list must own, on its own, every helper attribute present on the item that the whole request
                # owns - otherwise the lists are not independent: the other list changes which attributes are read)
                if owned_names(names[:cut]) & present0 == own_all and owned_names(names[cut:]) & present0 == own_all:
                    b1, _ = g.bound_items()
                    b2, _ = g.bound_items()
                    m = 'attr' if rng.random() < 0.5 else 'derive'
                    flags = [(b1, False), (b2, False)]
                    add(assemble(plan, m, [cut], list_flags=flags), 'pl-both')
                    add(assemble(dict(plan, shared_bound=b1, shared_dump=False), m, items=items[:cut], extra_feats=['per-list']), 'pl-1')
                    add(assemble(dict(plan, shared_bound=b2, shared_dump=False), m, items=items[cut:], extra_feats=['per-list']), 'pl-2')
            # superset: only traits that own none of the attribute names present on the item
            present = set(n for n in HELPER_NAMES if ('(%s ' % _sx_name(n)) in plan['item'])
            base_owned = owned_names([t for t, _ in items])
            pool = BOTH if plan['enum'] else BOTH + STRUCT_ONLY
            extra = []
            cmp_pool = ['Ord', 'PartialOrd', 'Eq', 'PartialEq', 'Hash']
            have = [t for t, _ in items]
            for _ in range(1 + rng.randrange(2)):
                # half of the time a comparison trait: these share helper attributes with one another, so co-deriving
                # them is where an impl could come to depend on its neighbours
                t = cmp_pool[rng.randrange(5)] if rng.random() < 0.5 else pool[rng.randrange(len(pool))]
                if t in have or any(t == e for e, _ in extra):
                    continue
                if not ((owned_names([t]) - base_owned) & present):
                    extra.append((t, None))
            if extra:
                front = rng.random() < 0.5
                its = (extra + items) if front else (items + extra)
                add(assemble(plan, 'attr', items=its, extra_feats=['superset']), 'super',
                    skip=(len(extra) if front else 0), take=len(items), front=front)
        # systematically: one comparison trait with one helper attribute it reads (key / ignore / bound), derived alone
        # and next to every other comparison trait, before and after it
        from ..cmpgen import AFFECTS
        gid = 10 ** 6
        T = sx.tid('T')
        for t in cmp_pool:
            for a in [a for a in ('ord', 'partial_ord', 'eq', 'partial_eq', 'hash') if t in AFFECTS[a]]:
                for ak, cargs in (('key', sx.cargs(key='( $ , 1 )')), ('ignore', sx.cargs(ignore=True)),
                                  ('bound', sx.cargs(bnd=[sx.b_pred(sx.wty(T, [sx.tb_trait(['P0'])]))]))):
                    item = sx.struct('X', sx.unnamed([sx.field(T, attrs=[sx.a_cmp(a, sx.m_list(cargs))]),
                                                      sx.field(sx.tid('u8'))]), gen=sx.generics([sx.gp_ty('T')]))
                    for u in cmp_pool:
                        if u == t:
                            continue
                        for front in (False, True):
                            gid += 1
                            plan = dict(item=item, items=[(t, None)], shared_bound=None, shared_dump=False, traits=[t],
                                        enum=False, feats={'pair-cmp', '%s-%s' % (a, ak)})
                            items = plan['items']
                            add(assemble(plan, 'attr'), 'attr')
                            its = ([(u, None)] + items) if front else (items + [(u, None)])
                            add(assemble(plan, 'attr', items=its, extra_feats=['superset']), 'super',
                                skip=(1 if front else 0), take=1, front=front)
        return out

    def view(self, r, parts):
        return impl_parts(parts)

    def oracle(self, tier, rng, suspicious):
        """model-free: real expansions of the members of a group against each other"""
        results = self.l1_results or R.run_cases(self.cases(tier, rng))
        groups = {}
        for r in results:
            groups.setdefault(r.meta['gid'], {})[r.meta['role']] = r
        failures, validated, samples = [], 0, []
        for gid, g in groups.items():
            base = impl_parts(g['attr'].actual)
            for role in ('derive', 'split'):
                if role in g:
                    got = impl_parts(g[role].actual)
                    if got != base:
                        failures.append(dict(**{'class': 'entry-point-or-split-differs', 'mode': role},
                                             input=g['attr'].input_text(), other_input=g[role].input_text(),
                                             expected=base[:4], observed=got[:4]))
                    else:
                        validated += 1
            if 'pl-both' in g:
                both, p1, p2 = (impl_parts(g[k].actual) for k in ('pl-both', 'pl-1', 'pl-2'))
                ok_kinds = ('IMPL', 'CONST', 'DUMP')
                # only when neither part is a list-level error (such an error replaces the whole expansion)
                if all(p and all(x[0] in ok_kinds or len(p) > 1 for x in p) for p in (both, p1, p2)) and \
                        not any(len(p) == 1 and p[0][0] == 'ERR' for p in (both, p1, p2)):
                    if both != p1 + p2:
                        failures.append(dict(**{'class': 'shared-arguments-cross-lists', 'mode': 'per-list'},
                                             input=g['pl-both'].input_text(), first_list=g['pl-1'].input_text(),
                                             second_list=g['pl-2'].input_text(), expected=(p1 + p2)[:4], observed=both[:4]))
                    else:
                        validated += 1
            if 'super' in g:
                r = g['super']
                got = impl_parts(r.actual)
                fatal = (not any(p[0] in ('IMPL', 'DUMP') for p in got)) or \
                        (not any(p[0] in ('IMPL', 'DUMP') for p in base) and len(base) <= 1)
                if fatal:
                    continue   # a list-level error replaces everything: nothing to compare
                # parts of the original entries: a dumped/erroring entry is one part, an Ok entry may be several;
                # compare as multisets of parts in order by removing the parts of the added traits
                sub = _subsequence(base, got)
                if not sub:
                    failures.append(dict(**{'class': 'co-derived-set-changes-impl', 'mode': 'super'},
                                         input=g['attr'].input_text(), other_input=r.input_text(),
                                         expected=base[:4], observed=got[:6]))
                else:
                    validated += 1
                    if len(samples) < 2:
                        samples.append(dict(base=g['attr'].input_text()[:300], superset=r.input_text()[:300]))
        # an attribute that names the macro by PATH (`#[derive_ex::derive_ex(..)]`, `#[foo::derive_ex]`) is another macro
        # invocation (or a foreign attribute), not a list of this one: the impls are those of the request without it
        # (hand-written; real macro only)
        raw_in = []
        for k, ((mode, attr, item), (mode2, attr2, item2)) in enumerate(PATH_NAMED_LISTS):
            raw_in.append((mode2, attr2, item2, dict(k=k, with_path=False)))
            raw_in.append((mode, attr, item, dict(k=k, with_path=True)))
        raw = R.run_raw(raw_in)
        for a, b in zip(raw[0::2], raw[1::2]):
            if impl_parts(a.actual) != impl_parts(b.actual) or not impl_parts(a.actual):
                failures.append(dict(**{'class': 'path-named-attribute-misread', 'mode': 'split'}, input=b.input_text(),
                                     equivalent_request=a.input_text(),
                                     expected=[p[:2] for p in impl_parts(a.actual)][:6], observed=[p[:2] for p in impl_parts(b.actual)][:6]))
            else:
                validated += 1
        eq_in = [(m, a, it, dict(k=k, side=i)) for k, pair in enumerate(EQUIVALENT_REQUESTS) for i, (m, a, it) in enumerate(pair)]
        eq_raw = R.run_raw(eq_in)
        for a, b in zip(eq_raw[0::2], eq_raw[1::2]):
            if impl_parts(a.actual) != impl_parts(b.actual) or not impl_parts(a.actual):
                failures.append(dict(**{'class': 'lists-around-derive-Ex-not-merged', 'mode': 'split'}, input=a.input_text(),
                                     merged_input=b.input_text(), expected=[p[:2] for p in impl_parts(b.actual)][:6],
                                     observed=[p[:2] for p in impl_parts(a.actual)][:6]))
            else:
                validated += 1
        # both entry points in the REAL compiler, on items written by a macro_rules! macro that takes the type's name and the
        # field type from its caller (the tokens of the item then carry two hygiene contexts): same verdict, same behaviour
        from .. import l2
        class _Lit:
            def __init__(self, text):
                self.text, self.meta = text, dict(nontrivial=True)
            def input_text(self):
                return self.text
        mods = []
        for k, (params, body, call, run) in enumerate(MACRO_DECLARED):
            for mi, head in enumerate(('#[::derive_ex::derive_ex(%s)]', '#[derive(::derive_ex::Ex)] #[derive_ex(%s)]')):
                cid = 7 * 10 ** 6 + 2 * k + mi
                h = head % MACRO_TRAITS
                src = 'macro_rules! __decl { (%s) => { %s %s }; }\n__decl!(%s);\npub fn run() { %s }' % (
                    params, h, body, call, run.replace('@ID@', str(cid)))
                mods.append(l2.Module(cid, src, _Lit('macro_rules! __decl { (%s) => { %s %s }; } __decl!(%s);' % (
                    params, h.replace('::derive_ex::', ''), body, call))))
        exe = l2.compile_batch('c15macro', mods, prelude='use ::std::hash::{Hash, Hasher};\npub fn hs<T: Hash>(t: &T) -> u64 { '
                               'let mut h = ::std::collections::hash_map::DefaultHasher::new(); t.hash(&mut h); h.finish() }\n')
        mobs = l2.run_exe(exe)[1] if exe else {}
        for a, d in zip(mods[0::2], mods[1::2]):
            oa, od = mobs.get(str(a.cid)), mobs.get(str(d.cid))
            if not (a.compiled and d.compiled) or oa != od or not oa:
                bad = d if a.compiled else a
                failures.append(dict(**{'class': 'entry-points-differ-in-the-compiler', 'mode': 'macro-declared'}, input=bad.meta.input_text(),
                                     expected='compiles and behaves the same through both entry points',
                                     observed=[x['message'] for x in bad.diags if x['level'] == 'error'][:3] or [oa, od]))
            else:
                validated += 1
        l2.cleanup('c15macro')
        return dict(evaluations=len(results) + len(raw) + len(eq_raw) + len(mods), validated=validated, failures=failures, samples=samples,
                    groups=len(groups), path_named_requests=len(raw), mixed_entry_point_requests=len(eq_raw), programs=len(mods))


# both entry points on one item: the attribute macro takes every `#[derive_ex(..)]` list of the item, also those written
# after `#[derive(Ex)]` - the request is worth the merged one.  (entry point, arguments, item) pairs with equal impls
EQUIVALENT_REQUESTS = [
    # several `#[derive_ex(..)]` lists on ONE field / variant are worth the merged list (none of them is dropped)
    (('A', 'Clone, Default', 'struct X<T>(#[derive_ex(Clone(bound(T: Copy, ..)))] #[derive_ex(Default(bound(T: Send, ..)))] T, u8);'),
     ('A', 'Clone, Default', 'struct X<T>(#[derive_ex(Clone(bound(T: Copy, ..)), Default(bound(T: Send, ..)))] T, u8);')),
    (('D', '', '#[derive_ex(Clone, Debug, PartialEq)] enum E<T> { #[derive_ex(Clone(bound(T: Copy)))] #[derive_ex(Debug(bound()))] #[derive_ex(PartialEq)] A(T), B }'),
     ('D', '', '#[derive_ex(Clone, Debug, PartialEq)] enum E<T> { #[derive_ex(Clone(bound(T: Copy)), Debug(bound()), PartialEq)] A(T), B }')),
    (('A', 'Add, Neg', 'struct X<T> { #[derive_ex(Add(bound(T: Copy, ..)))] #[derive_ex::derive_ex(Neg(bound()))] a: T }'),
     ('A', 'Add, Neg', 'struct X<T> { #[derive_ex(Add(bound(T: Copy, ..)), Neg(bound()))] a: T }')),
    (('A', 'PartialEq', '#[derive(Ex)] #[derive_ex(Hash)] struct X(#[eq(key = $.len())] String);'),
     ('A', 'PartialEq, Hash', '#[derive(Ex)] struct X(#[eq(key = $.len())] String);')),
    (('A', 'Clone', '#[derive(Ex)] #[derive_ex(Default, Debug)] #[default(X(1))] struct X(#[debug(ignore)] u8);'),
     ('A', 'Clone, Default, Debug', '#[default(X(1))] struct X(#[debug(ignore)] u8);')),
    (('A', 'Debug', '#[derive_ex(Clone)] #[derive(Ex)] #[derive_ex(PartialEq)] enum E { A(#[partial_eq(ignore)] u8), B }'),
     ('D', '', '#[derive_ex(Debug, Clone, PartialEq)] enum E { A(#[partial_eq(ignore)] u8), B }')),
]

# an attribute that names the macro by PATH: under the attribute macro, `derive_ex::derive_ex` / `::derive_ex::derive_ex` (the
# name of this crate in front) is one more list of the request - read AND removed, like the bare spelling (fix 2 of round 12);
# any other path (`foo::derive_ex`, three segments) is a foreign attribute, and so is every path under `#[derive(Ex)]`, where a
# helper attribute cannot be a path.  ((entry point, arguments, item), the request it is worth)
PATH_NAMED_LISTS = [
    (('A', 'Clone', '#[derive_ex::derive_ex(Debug)] struct X(u8);'), ('A', 'Clone, Debug', 'struct X(u8);')),
    (('A', 'Clone, Default', '#[::derive_ex::derive_ex(Debug, PartialEq)] enum E<T> { #[default] A, B(T) }'),
     ('A', 'Clone, Default, Debug, PartialEq', 'enum E<T> { #[default] A, B(T) }')),
    (('A', 'PartialEq', '#[::derive_ex::derive_ex(Hash)] #[derive_ex(Debug)] struct X(#[eq(key = $.len())] String);'),
     ('A', 'PartialEq, Hash, Debug', 'struct X(#[eq(key = $.len())] String);')),
    (('A', 'Clone', 'struct X<T>(#[::derive_ex::derive_ex(Clone(bound()))] T, #[derive_ex::derive_ex(Clone)] u8);'),
     ('A', 'Clone', 'struct X<T>(#[derive_ex(Clone(bound()))] T, #[derive_ex(Clone)] u8);')),
    (('D', '', '#[derive_ex(PartialEq)] #[derive_ex::derive_ex(Debug)] struct X { a: u8 }'), ('D', '', '#[derive_ex(PartialEq)] struct X { a: u8 }')),
    (('A', 'Debug', '#[foo::derive_ex(Clone)] struct X<T>(T);'), ('A', 'Debug', 'struct X<T>(T);')),
    (('A', 'Debug', '#[::derive_ex(Clone)] #[derive_ex::derive_ex::derive_ex(Clone)] #[derive_ex::Ex(Clone)] struct X<T>(T);'), ('A', 'Debug', 'struct X<T>(T);')),
    (('D', '', '#[derive_ex(Hash, PartialEq)] #[foo::bar::derive_ex] enum E { A { x: u8 }, B }'), ('D', '', '#[derive_ex(Hash, PartialEq)] enum E { A { x: u8 }, B }')),
]


MACRO_TRAITS = 'Debug, Clone, Default, PartialEq, Eq, PartialOrd, Ord, Hash'
_OBS = ('let (a, b) = (%s, %s); println!("@ID@\\to\\t{:?} {:?} {:?} {} {:?} {:?} {}", a, a.clone(), a == b, hs(&a) == hs(&b), '
        'a.cmp(&b), a.partial_cmp(&b), a == Default::default());')
# (macro parameters, item written by the macro, arguments of the call, what is observed)
MACRO_DECLARED = [
    ('$name:ident, $t:ident', 'pub struct $name { pub value: $t, pub n: u8 }', 'Meters, u32',
     _OBS % ('Meters { value: 1, n: 0 }', 'Meters { value: 2, n: 0 }')),
    ('$name:ident, $t:tt', 'pub enum $name { Some($t), #[default] None, Two { a: $t, b: u8 } }', 'Maybe, u32',
     _OBS % ('Maybe::Some(1)', 'Maybe::Two { a: 0, b: 1 }')),
    ('$name:ident, $t:ty', 'pub struct $name(pub $t, pub u8);', 'Pair, (u8, Option<u16>)', _OBS % ('Pair((1, None), 0)', 'Pair((1, Some(2)), 0)')),
    ('$name:ident, $p:ident, $f:ident', 'pub struct $name<$p> { pub $f: $p, pub k: Option<$p> }', 'Gen, Tq, val',
     _OBS % ('Gen { val: 1u8, k: None }', 'Gen { val: 1u8, k: Some(2) }')),
    ('$($i:tt)*', '$($i)*', 'pub struct Whole { pub a: u8, pub b: (u8, u8) }', _OBS % ('Whole { a: 1, b: (0, 1) }', 'Whole { a: 1, b: (1, 0) }')),
]


def _sx_name(n):
    return {'derive_ex': 'derive_ex', 'default': 'default', 'debug': 'debug'}.get(n, 'cmp ' + n)


def _subsequence(small, big):
    """is `small` a subsequence (in order) of `big`?"""
    i = 0
    for p in big:
        if i < len(small) and p == small[i]:
            i += 1
    return i == len(small)


PROP = C15()
