"""C11 — default() returns the documented value."""
import itertools

from .. import l2, sx
from .. import run as R
from ..check import Prop

PRELUDE = '''
pub const S: &str = "const-s";
pub const N7: u8 = 7;
pub struct K;
impl K { pub const C: u8 = 9; pub const NAME: &'static str = "assoc"; }
pub fn mk() -> u8 { 33 }
pub fn mks() -> String { String::from("made") }
#[derive(Debug, Clone, PartialEq)]
pub struct W(pub u8);               // a field type with a non-trivial From
impl From<u8> for W { fn from(x: u8) -> W { W(x + 100) } }
impl Default for W { fn default() -> W { W(42) } }
pub const BYTES: &[u8; 3] = &[1, 2, 3];
'''
# field types: (sexp, rust, Debug text of Default::default())
U8 = (sx.tid('u8'), 'u8')
STR = (sx.tid('String'), 'String')
OPT = (sx.tgen('Option', sx.tid('u8')), 'Option<u8>')
WT = (sx.tid('W'), 'W')
I32 = (sx.tid('i32'), 'i32')
CH = (sx.tid('char'), 'char')
BL = (sx.tid('bool'), 'bool')
SL = (sx.tref(sx.tslice(sx.tid('u8')), lt='static'), "&'static [u8]")

# (field type, default expression tokens or None, reference Rust expression for the expected value)
# reference: `Into::<T>::into(e)` exactly when e is a string literal or a path; `e` otherwise; `T::default()` without
FIELD_CHOICES = [
    (U8, None, '<u8 as Default>::default()'),
    (STR, None, '<String as Default>::default()'),
    (WT, None, '<W as Default>::default()'),
    (U8, '5', '5'),
    (I32, '- 3', '-3'),
    (BL, 'true', 'true'),
    (CH, "'c'", "'c'"),
    (STR, '"lit"', 'Into::<String>::into("lit")'),
    (STR, 'S', 'Into::<String>::into(S)'),
    (U8, 'N7', 'Into::<u8>::into(N7)'),
    (WT, 'N7', 'Into::<W>::into(N7)'),            # path => Into: W::from(7) = W(107), not a type error
    (WT, 'K :: C', 'Into::<W>::into(K::C)'),
    (STR, 'K :: NAME', 'Into::<String>::into(K::NAME)'),
    (U8, 'mk ( )', 'mk()'),
    (STR, 'mks ( )', 'mks()'),
    (U8, '{ 1 + 1 }', '{ 1 + 1 }'),
    (U8, '( 2 )', '(2)'),
    (OPT, 'Some ( 4 )', 'Some(4)'),
    (OPT, 'None', 'Into::<Option<u8>>::into(None)'),
    (WT, 'W ( 1 )', 'W(1)'),
    (U8, '_', '<u8 as Default>::default()'),       # `_` means no value
    (STR, ':: std :: string :: String :: new ( )', '::std::string::String::new()'),
    (STR, 'r"raw"', 'Into::<String>::into(r"raw")'),
    # a PARENTHESISED path is not a path: no Into - the value reaches the field by an ordinary (unsizing) coercion, for
    # which no `From` impl exists
    (SL, '( BYTES )', '(BYTES)'),
    (SL, 'b"abc"', 'b"abc"'),                      # a byte string is not a string literal: used as written
    (CH, "'$'", "'$'"),
    (U8, '( N7 )', '(N7)'),
]


# generic items whose value is written at TYPE level: `default()` is that expression for every instantiation, also for
# type arguments that are not Default themselves (no field is default-constructed)
GENERIC_TYPE_LEVEL = [
    ('#[default(Self::make())] pub struct X<T>(pub Wr<T>, pub u8);',
     'impl<T> X<T> { pub fn make() -> Self { X(Wr(Vec::new()), 7) } }',
     'let x: X<ND> = Default::default(); x.1 == 7 && x.0 .0.is_empty()'),
    ('#[default(X { a: Wr(Vec::new()), n: [0; N] })] pub struct X<T, const N: usize> { pub a: Wr<T>, pub n: [u8; N] }', '',
     'let x: X<ND, 3> = Default::default(); x.n == [0u8; 3] && x.a.0.is_empty()'),
    ('#[default(Self::B(3))] pub enum X<T> { A(Wr<T>), B(u8) }', '',
     'let x: X<ND> = Default::default(); matches!(x, X::B(3))'),
    ('pub struct X<T>(#[default(Wr(Vec::new()))] pub Wr<T>, #[default(7)] pub u8);', '',
     'let x: X<ND> = Default::default(); x.1 == 7 && x.0 .0.is_empty()'),
]
# raw identifiers that ARE keywords as names of the default variant and of its fields (they cannot lose their `r#`)
GENERIC_TYPE_LEVEL += [
    ('#[allow(non_camel_case_types)] pub enum X { A, #[default] r#type { r#fn: u8, #[default(3)] r#match: u8 }, C(u8) }', '',
     'matches!(<X as Default>::default(), X::r#type { r#fn: 0, r#match: 3 })'),
    ('#[allow(non_camel_case_types)] pub enum X { #[default] r#struct(u8, #[default(4)] u8), r#enum }', '',
     'matches!(<X as Default>::default(), X::r#struct(0, 4))'),
    ('#[allow(non_camel_case_types)] pub enum X { r#in(u8), #[default] r#mod }', '',
     'matches!(<X as Default>::default(), X::r#mod)'),
    ('#[allow(non_camel_case_types)] pub enum X { r#loop { r#if: u8 } }', '',
     'matches!(<X as Default>::default(), X::r#loop { r#if: 0 })'),
    ('#[allow(non_camel_case_types)] pub struct r#impl { pub r#for: u8, #[default(2)] pub r#while: u8 }', 'pub type X = r#impl;',
     'matches!(<X as Default>::default(), r#impl { r#for: 0, r#while: 2 })'),
]
GENERIC_PRELUDE = '''pub struct ND;
pub struct Wr<T>(pub Vec<T>);
impl<T: Default> Default for Wr<T> { fn default() -> Self { Wr(vec![T::default()]) } }
'''


def generic_modules():
    out = []
    for k, (decl, extra, test) in enumerate(GENERIC_TYPE_LEVEL):
        for mode in ('attr', 'derive'):
            cid = 10 ** 6 + 2 * k + (mode == 'derive')
            head = '#[::derive_ex::derive_ex(Default)]' if mode == 'attr' else '#[derive(::derive_ex::Ex)] #[derive_ex(Default)]'
            src = [GENERIC_PRELUDE, head + ' ' + decl, extra,
                   'pub fn run() { let ok = { %s }; println!("%d\\tdef\\t{}\\ttrue", ok); }' % (test, cid)]
            out.append((cid, '\n'.join(src), head.replace('::derive_ex::', '') + ' ' + decl))
    return out


class C11(Prop):
    pid = 'C11'
    tag = 'body of the Default impl and its rejection messages'
    rule = ('struct named/tuple/unit and enums (default variant first/middle/last, single-variant without marker) with 0-4 '
            'fields, each field from 23 choices of (type, #[default(expr)]) covering int/negative/bool/char/string literals, '
            'const and associated-const paths (incl. a path whose Into changes the value), calls, blocks, parenthesised, '
            'raw strings, `_`, absent; type-level values (path, call); with and without bound(..) sharing the attribute; both '
            'entry points; rejected shapes (no/several default variants, value on the variant marker); the value of default() is '
            'compared through == and through Debug with a reference constructor applying Into exactly for string literals and '
            'paths; non-trivial = some #[default(..)] present')

    def n(self, tier):
        return 220 if tier == 'quick' else 12000

    def cases(self, tier, rng):
        out = []
        for k in range(self.n(tier)):
            is_enum = rng.random() < 0.45
            mode = 'attr' if k % 2 else 'derive'
            nvar = rng.randrange(1, 4) if is_enum else 1
            dv = rng.randrange(nvar)
            marker = not (is_enum and nvar == 1 and rng.random() < 0.5)
            variants = []
            for vi in range(nvar):
                kind = rng.choice(['named', 'tuple', 'unit'])
                n = 0 if kind == 'unit' else rng.randrange(0, 5)
                variants.append((kind, [rng.choice(FIELD_CHOICES) for _ in range(n)]))
            type_value = None
            r = rng.random()
            if r < 0.08:
                type_value = ('Self :: make ( )', 'make()')
            elif r < 0.14:
                type_value = ('ZERO', 'Into::into(ZERO)')
            # rejected shapes
            reject = None
            if is_enum and type_value is None and rng.random() < 0.12:
                reject = rng.choice(['none', 'two', 'value'])
                if reject == 'none' and nvar == 1:
                    reject = 'two' if False else None
                if reject == 'two' and nvar < 2:
                    reject = None
            with_bound = rng.random() < 0.2

            def fields_s(kind, fl):
                fs = []
                for i, ((ts, _), e, _) in enumerate(fl):
                    attrs = []
                    if e is not None:
                        attrs.append(sx.a_default(sx.m_list(sx.dargs(e, bnd=[] if with_bound and i == 0 else None))))
                    fs.append(sx.field(ts, name=('f%d' % i) if kind == 'named' else None, attrs=attrs))
                return sx.named(fs) if kind == 'named' else (sx.unnamed(fs) if kind == 'tuple' else sx.UNIT)

            tattrs = []
            if type_value:
                tattrs.append(sx.a_default(sx.m_list(sx.dargs(type_value[0]))))
            if is_enum:
                vs = []
                for vi, (kind, fl) in enumerate(variants):
                    va = []
                    is_def = (vi == dv and marker)
                    if reject == 'none':
                        is_def = False
                    if reject == 'two' and vi in (dv, (dv + 1) % nvar):
                        is_def = True
                    if is_def:
                        if reject == 'value' and vi == dv:
                            # every kind of value expression: literal, string literal, path, associated path, call
                            va.append(sx.a_default(sx.m_list(sx.dargs(rng.choice(
                                ['1', '"abc"', 'K', 'K :: C', 'f ( )', '- 3', '( 2 )'])))))
                        else:
                            va.append(sx.a_default(sx.M_PATH) if rng.random() < 0.6
                                      else sx.a_default(sx.m_list(sx.dargs('_'))))
                    vs.append(sx.variant('V%d' % vi, fields_s(kind, fl), attrs=va))
                it = sx.enum('E', vs, attrs=tattrs)
                kw = '(enum ('
            else:
                it = sx.struct('X', fields_s(*variants[0]), attrs=tattrs)
                kw = '(struct ('
            # Default alone, or next to another derived trait (before / after it, same list or a stacked one): the helper
            # attributes of Default are read wherever Default stands in the request
            co = rng.randrange(5)
            D, C = ('Default', None), ('Clone', None)
            lists = [[[D]], [[D, C]], [[C, D]], [[D], [C]], [[C], [D]]][co]
            tl = lists[0]
            if len(lists) > 1:
                it = kw + sx.a_derive_ex(sx.dx(lists[1])) + ' ' + it[len(kw):]
            req = sx.inv_attr(sx.dx(tl), it) if mode == 'attr' else sx.inv_derive(
                kw + sx.a_derive_ex(sx.dx(tl)) + ' ' + it[len(kw):])
            if reject == 'value' and not marker:
                reject = 'none' if nvar > 1 else None
            feats = ['enum%d' % nvar if is_enum else 'struct', mode, 'co%d' % co] + (['type-value'] if type_value else []) + \
                    (['reject-' + reject] if reject else []) + (['bound'] if with_bound else [])
            for kind, fl in variants:
                for (_, tn), e, _ in fl:
                    feats.append('%s=%s' % (tn, 'none' if e is None else e.split(' ')[0][:6]))
            out.append((req, dict(features=tuple(sorted(set(feats))), enum=is_enum, variants=variants, dv=dv,
                                  type_value=type_value, reject=reject, marker=marker,
                                  nontrivial=any(e is not None for _, fl in variants for _, e, _ in fl) or bool(type_value))))
        # the rejected shapes once more, systematically: every kind of value expression on the variant marker (with and
        # without a bound next to it), no marker, two markers; both entry points; marker variant first / last
        U8 = FIELD_CHOICES[0]
        k = 0
        for val, mode, pos in itertools.product(['1', '"abc"', 'K', 'K :: C', 'Self :: K', 'f ( )', '- 3', '( 2 )', '{ 1 }'],
                                                ('attr', 'derive'), (0, 1)):
            k += 1
            bnd = [sx.b_ty(sx.tid('u8'))] if k % 3 == 0 else None
            va = [sx.a_default(sx.m_list(sx.dargs(val, bnd=bnd) if bnd is not None else sx.dargs(val)))]
            vs = [sx.variant('V0', sx.unnamed([sx.field(sx.tid('u8'))]), attrs=va if pos == 0 else []),
                  sx.variant('V1', sx.UNIT, attrs=va if pos == 1 else [])]
            it = sx.enum('E', vs)
            tl = [('Default', None)]
            req = sx.inv_attr(sx.dx(tl), it) if mode == 'attr' else sx.inv_derive(
                '(enum (' + sx.a_derive_ex(sx.dx(tl)) + ' ' + it[len('(enum ('):])
            out.append((req, dict(features=('reject-value', 'systematic', mode, val.split(' ')[0][:5], 'pos%d' % pos),
                                  enum=True, variants=[('tuple', []), ('unit', [])], dv=pos, type_value=None,
                                  reject='value', marker=True, nontrivial=True)))
        return out

    def view(self, r, parts):
        return [(p[0], p[2]) if p[0] == 'IMPL' else p for p in parts if p[0] != 'ITEM']

    def oracle(self, tier, rng, suspicious):
        results = self.l1_results or R.run_cases(self.cases(tier, rng))
        mods, rejs = [], []
        for r in results:
            m = r.meta
            head = ('#[::derive_ex::derive_ex(%s)]\n' % r.attr) if r.mode == 'A' else '#[derive(::derive_ex::Ex)]\n'
            ty = 'E' if m['enum'] else 'X'
            src = [l2.decl('#[derive(Debug, PartialEq)]\n' + head, r.item, r.cid)]
            if m['type_value']:
                some = _ctor(m, m['dv'] if m['enum'] else 0, lambda ft, e, ref: '<%s as Default>::default()' % ft[1])
                src.append('impl %s { pub fn make() -> Self { %s } }' % (ty, some))
                # a path converted with Into<Self>: its From impl yields make()
                src.append('pub struct Z; pub const ZERO: Z = Z; impl From<Z> for %s { fn from(_: Z) -> %s { %s::make() } }' % (ty, ty, ty))
            if m['reject']:
                src.append('pub fn run() {}')
                rejs.append(l2.Module(r.cid, '\n'.join(src), r))
                continue
            if m['type_value']:
                want = '%s::make()' % ty
            else:
                want = _ctor(m, m['dv'] if m['enum'] else 0, lambda ft, e, ref: ref)
            src.append('pub fn run() { let d: %s = ::core::default::Default::default(); let w: %s = %s; '
                       'println!("%d\\tdef\\t{}\\t{}", d == w, format!("{:?}", d) == format!("{:?}", w)); }' % (ty, ty, want, r.cid))
            mods.append(l2.Module(r.cid, '\n'.join(src), r))
        nb = 8
        batches = [('c11_%d' % k, mods[k::nb]) for k in range(nb)]
        class _Lit:
            def __init__(self, text):
                self.text, self.meta = text, dict(nontrivial=True)
            def input_text(self):
                return self.text
        lit = [l2.Module(cid, src, _Lit(text)) for cid, src, text in generic_modules()]
        mods.extend(lit)
        batches.append(('c11_lit', lit))
        exes = l2.compile_parallel(batches, prelude=PRELUDE)
        l2.compile_parallel([('c11rej', rejs)], prelude=PRELUDE, check_only=True)
        obs = {}
        for name, exe in exes.items():
            if exe:
                obs.update(l2.run_exe(exe)[1])
        failures, validated, samples = [], 0, []
        for mo in mods:
            r = mo.meta
            if not mo.compiled:
                failures.append(dict(**{'class': 'default-does-not-compile', 'mode': 'compile'}, input=r.input_text(),
                                     expected='compiles', observed=[d['message'] for d in mo.diags if d['level'] == 'error'][:3]))
                continue
            got = obs.get(str(mo.cid), [])
            if got != [('def', 'true', 'true')]:
                failures.append(dict(**{'class': 'default-value-differs', 'mode': 'value'}, input=r.input_text(),
                                     expected='default() == reference constructor', observed=[list(g) for g in got]))
            else:
                validated += 1
                if len(samples) < 2 and r.meta['nontrivial']:
                    samples.append(dict(input=r.input_text()[:400]))
        for mo in rejs:
            r = mo.meta
            msgs = [d['message'] for d in mo.diags if d['level'] == 'error']
            want = {'none': 'does not exist', 'two': 'there are multiple variants', 'value': 'cannot specify a default value'}[r.meta['reject']]
            if mo.compiled or not any(want in x for x in msgs):
                failures.append(dict(**{'class': 'default-shape-not-rejected', 'mode': 'reject'}, input=r.input_text(),
                                     expected='compile error: ' + want, observed=msgs[:3]))
            else:
                validated += 1
        for name, _ in batches:
            l2.cleanup(name)
        l2.cleanup('c11rej')
        return dict(evaluations=len(mods) + len(rejs), validated=validated, programs=len(mods) + len(rejs),
                    failures=failures, samples=samples, rejected_shapes=len(rejs))


def _ctor(m, vi, fv):
    kind, fl = m['variants'][vi]
    path = ('E::V%d' % vi) if m['enum'] else 'X'
    vals = [fv(ft, e, ref) for ft, e, ref in fl]
    if kind == 'named':
        return '%s { %s }' % (path, ', '.join('f%d: %s' % (i, v) for i, v in enumerate(vals)))
    if kind == 'tuple':
        return '%s(%s)' % (path, ', '.join(vals))
    return path


def _ctor_const(m):
    """a constant value of the type (all fields const-constructible?) — only used for fieldless shapes"""
    return _ctor(m, m['dv'] if m['enum'] else 0, lambda ft, e, ref: 'unreachable')


PROP = C11()
