"""C19 — dump shows exactly the code that would have been generated."""
from .. import run as R
from .. import sx
from ..check import Prop
from ..gen import Gen, ImplGen, assemble


def impl_parts(parts):
    return [p for p in parts if p[0] != 'ITEM']


def tokens_of(parts):
    """concatenated tokens of generated items, as a dump payload would show them"""
    out = []
    for p in parts:
        if p[0] == 'IMPL':
            out.append(p[1] + ' { ' + p[2] + ' }' if p[2] else p[1] + ' { }')
        elif p[0] == 'CONST':
            out.append(p[1])
    return ' '.join(out)


# hand-written requests whose generated code embeds user-written string / byte-string literals containing blanks after
# `;`, `{`, `}` (the S-expression encoding splits token text at blanks, so these go to the real macro only): (traits, item)
LITERAL_ITEMS = [
    (['Default'], 'struct X { #[default("a; b")] s: String, #[default("{ x } y")] t: String, u: u8 }'),
    (['Default', 'Clone'], 'struct X(#[default("};  {  ;")] String, #[default(*b"; x} ")] [u8; 5]);'),
    (['Default'], '#[default(X { s: "} ; { ".into(), n: 1 })] struct X { s: String, n: u8 }'),
    (['Default', 'Debug'], 'enum E { A, #[default] B { #[default("a; b { c } d")] s: String } }'),
    (['PartialEq', 'Hash'], 'struct X { #[partial_eq(key = $.trim_start_matches("; "))] #[hash(key = $.trim_end_matches("} "))] s: String }'),
    (['Ord', 'PartialOrd', 'Eq', 'PartialEq'], 'struct X { #[ord(by = |a, b| { let _ = "{ ; } "; a.cmp(b) })] s: u8, t: u8 }'),
    (['PartialOrd', 'PartialEq'], 'enum E { A(#[partial_ord(key = ($, "x; y"))] u8), B }'),
    (['Hash'], 'struct X<T> { #[hash(key = ($.to_string(), "{ }", \'{\', \';\'))] s: T }'),
    # LARGE items: the dumped text runs to hundreds of kilobytes
    (['Clone'], 'struct X { %s }' % ', '.join('f%d: u8' % i for i in range(700))),
    (['PartialOrd', 'PartialEq'], 'enum E { %s }' % ', '.join('V%d(u8, u16)' % i for i in range(260))),
    # lint-related attributes on the item, a variant, a field: what is generated for such an item is what `dump` shows
    (['Clone', 'Debug'], '#[deprecated(note = "use Y; not X")] struct X { a: u8 }'),
    (['Default', 'PartialEq'], 'enum E { #[deprecated] A(u8), #[default] B { #[deprecated(since = "1.0.0", note = "no { more }")] b: u8 } }'),
    (['Add', 'Neg'], '#[allow(deprecated)] #[must_use = "a; b"] struct X(#[deprecated] u8, u8);'),
]


# (entry point, plain argument list, (argument list, stacked attribute) of the request that repeats a trait with dump, item, trait)
DUPLICATE_WITH_DUMP = [
    ('A', 'Clone, Default', ('Clone, Default', '#[derive_ex(Clone(dump))] '), 'struct X(u8);', 'Clone'),
    ('A', 'Debug, PartialEq', ('Debug(dump), PartialEq, Debug', ''), 'enum E { A(u8), B }', 'Debug'),
    ('A', 'Hash', ('Hash', '#[derive_ex(Hash, dump)] '), 'struct X { a: u8 }', 'Hash'),
]


def literal_inputs():
    out = []
    gid = 2 * 10 ** 6
    for traits, item in LITERAL_ITEMS:
        for mode in ('A', 'D'):
            gid += 1
            roles = [('plain', traits, False)] + \
                    [('dump%d' % i, [t + '(dump)' if j == i else t for j, t in enumerate(traits)], False) for i in range(len(traits))] + \
                    [('shared', traits, True), ('sharedboth', [t + '(dump)' if j == 0 else t for j, t in enumerate(traits)], True)]
            for role, tl, shared in roles:
                args = ', '.join(tl) + (', dump' if shared else '')
                if mode == 'A':
                    a, it = args, item
                else:
                    # the derive entry point: #[derive_ex(..)] goes after the outer attributes written on the item
                    a, it = '', '#[derive_ex(%s)] %s' % (args, item)
                out.append((mode, a, it, dict(gid=gid, role=role, idx=0, traits=traits, features=('literal',), nontrivial=True)))
    return out


class C19(Prop):
    pid = 'C19'
    tag = 'all parts (DUMP payloads are re-lexed by the expander)'
    rule = ('for each random item plan: the undumped request, one request per entry with `dump` on that entry only, '
            'one with the shared `dump`, and for split lists the shared `dump` of list k against entry-level `dump`s on exactly the entries of list k; for impl items: with and without `dump`; the payload of every dumped '
            'entry is compared token-for-token with the undumped expansion of the same entry (real-vs-real) and with '
            'the model; non-trivial = the dumped entry expands to impls (not an error); distinct by (features, item)')
    assumptions = ['the text layout inside the message is proc_macro2 Display (compared modulo re-lexing, as the property states)']

    def n(self, tier):
        return 500 if tier == 'quick' else 25000

    def cases(self, tier, rng):
        g, gi = Gen(rng), ImplGen(rng)
        out = []
        for gid in range(self.n(tier)):
            plan = g.plan(density=0.4)
            plan['shared_dump'] = False
            items = [(t, None if a is None else (a[0], False)) for t, a in plan['items']]
            mode = 'attr' if rng.random() < 0.5 else 'derive'
            req, meta = assemble(plan, mode, items=items)
            meta.update(gid=gid, role='plain')
            out.append((req, meta))
            for i in range(len(items)):
                its = list(items)
                t, a = its[i]
                its[i] = (t, ((a[0] if a else None), True))
                req, meta = assemble(plan, mode, items=its, extra_feats=['dump-entry'])
                meta.update(gid=gid, role='dump%d' % i, idx=i)
                out.append((req, meta))
            plan2 = dict(plan, shared_dump=True)
            req, meta = assemble(plan2, mode, items=items, extra_feats=['dump-shared'])
            meta.update(gid=gid, role='shared')
            out.append((req, meta))
            # one entry dumped BOTH by its own `Trait(dump)` and by the shared `dump` of its list: worth the shared dump
            if items:
                i = gid % len(items)
                its = list(items)
                t, a = its[i]
                its[i] = (t, ((a[0] if a else None), True))
                req, meta = assemble(plan2, mode, items=its, extra_feats=['dump-both'])
                meta.update(gid=gid, role='sharedboth%d' % i)
                out.append((req, meta))
            # several #[derive_ex(..)] lists on one item: the shared `dump` of list k is worth exactly an entry-level
            # `dump` on each entry of list k and nothing on the entries of the other lists
            if len(items) >= 2:
                cut = rng.randrange(1, len(items))
                cuts = [cut] + ([cut + 1] if cut + 1 < len(items) and rng.random() < 0.4 else [])
                bounds = [0] + cuts + [len(items)]
                sb = plan['shared_bound']
                for k in range(len(cuts) + 1):
                    flags = [(sb, j == k) for j in range(len(cuts) + 1)]
                    req, meta = assemble(plan, mode, cuts, items=items, extra_feats=['dump-list%d' % k], list_flags=flags)
                    meta.update(gid=gid, role='listS%d' % k)
                    out.append((req, meta))
                    its = [(t, ((a[0] if a else None), bounds[k] <= i < bounds[k + 1])) for i, (t, a) in enumerate(items)]
                    req, meta = assemble(plan, mode, cuts, items=its, extra_feats=['dump-list-entries'],
                                         list_flags=[(sb, False)] * (len(cuts) + 1))
                    meta.update(gid=gid, role='listE%d' % k)
                    out.append((req, meta))
        # systematically: every ordered pair of traits on a one-field struct (an entry must not depend on whether an
        # earlier entry of the list was dumped)
        names = ['Clone', 'Copy', 'Deref', 'DerefMut', 'Debug', 'Default', 'PartialEq', 'Eq', 'PartialOrd', 'Ord', 'Hash',
                 'Add', 'AddAssign', 'Neg']
        gid = 10 ** 6
        for a in names:
            for b in names:
                if a == b:
                    continue
                gid += 1
                generic = gid % 2 == 0
                item = sx.struct('X', sx.unnamed([sx.field(sx.tid('T') if generic else sx.tid('u8'))]),
                                 gen=sx.generics([sx.gp_ty('T')]) if generic else None)
                plan = dict(item=item, items=[(a, None), (b, None)], shared_bound=None, shared_dump=False,
                            traits=[a, b], enum=False, feats={'pair'})
                mode = 'attr' if gid % 4 < 2 else 'derive'
                for role, its, sd in (('plain', [(a, None), (b, None)], False),
                                      ('dump0', [(a, (None, True)), (b, None)], False),
                                      ('dump1', [(a, None), (b, (None, True))], False),
                                      ('shared', [(a, None), (b, None)], True)):
                    req, meta = assemble(dict(plan, shared_dump=sd), mode, items=its, extra_feats=['pair-' + role])
                    meta.update(gid=gid, role=role, idx=0)
                    out.append((req, meta))
        base = self.n(tier)
        for k in range(self.n(tier) // 2):
            req, meta = gi.impl_item()
            plain = req.replace(') none t) (impl', ') none f) (impl')
            dumped = plain.replace(') none f) (impl', ') none t) (impl')
            out.append((plain, dict(meta, gid=base + k, role='plain', impl=True)))
            out.append((dumped, dict(meta, gid=base + k, role='shared', impl=True,
                                     features=tuple(sorted(set(meta['features']) | {'dump'})))))
        return out

    def oracle(self, tier, rng, suspicious):
        results = self.l1_results or R.run_cases(self.cases(tier, rng))
        groups = {}
        lit = R.run_raw(literal_inputs())
        for r in list(results) + lit:
            groups.setdefault(r.meta['gid'], {})[r.meta['role']] = r
        failures, validated, samples, nontrivial = [], 0, [], 0
        for gid, g in groups.items():
            plain = g['plain']
            base = impl_parts(plain.actual)
            item0 = [p for p in plain.actual if p[0] == 'ITEM']
            fatal = len(base) == 1 and base[0][0] == 'ERR' and not plain.meta.get('impl') and \
                len(plain.meta['traits']) != 1
            # split the undumped output per entry: model-free, using only the number of requested
            # traits is not enough (an entry may be several impls) -> compare as a whole:
            for role, r in g.items():
                if role == 'plain':
                    continue
                got = impl_parts(r.actual)
                if [p for p in r.actual if p[0] == 'ITEM'] != item0:
                    failures.append(dict(**{'class': 'dump-changes-item', 'mode': role}, input=r.input_text(),
                                         expected=item0, observed=[p for p in r.actual if p[0] == 'ITEM']))
                    continue
                # undo the dump: replace each DUMP part by its payload and compare token streams
                flat_got = ' '.join(p[1] if p[0] == 'DUMP' else tokens_of([p]) if p[0] in ('IMPL', 'CONST')
                                    else 'ERR:' + p[1] for p in got)
                flat_base = ' '.join(tokens_of([p]) if p[0] in ('IMPL', 'CONST') else 'ERR:' + p[1] for p in base)
                ndump = sum(1 for p in got if p[0] == 'DUMP')
                if flat_got != flat_base:
                    failures.append(dict(**{'class': 'dump-payload-differs', 'mode': role}, input=r.input_text(),
                                         undumped_input=plain.input_text(), expected=flat_base[:1500],
                                         observed=flat_got[:1500]))
                    continue
                # the number of DUMP parts: shared dump dumps every entry that is not an error
                if role.startswith('shared') and any(p[0] in ('IMPL', 'CONST') for p in got):
                    failures.append(dict(**{'class': 'shared-dump-leaves-impls', 'mode': role},
                                         input=r.input_text(), expected='no impl survives', observed=[p[0] for p in got]))
                    continue
                if role.startswith('listS'):
                    twin = g['listE' + role[5:]]
                    if impl_parts(twin.actual) != got:
                        failures.append(dict(**{'class': 'shared-dump-not-per-list', 'mode': 'list'},
                                             input=r.input_text(), twin_input=twin.input_text(),
                                             expected=[p[0] for p in impl_parts(twin.actual)], observed=[p[0] for p in got]))
                        continue
                if role.startswith('dump') and ndump > 1:
                    failures.append(dict(**{'class': 'dump-affects-other-entries', 'mode': role},
                                         input=r.input_text(), expected='one DUMP', observed=[p[0] for p in got]))
                    continue
                validated += 1
                if ndump:
                    nontrivial += 1
                    if len(samples) < 2:
                        samples.append(dict(input=r.input_text()[:300], payload=[p[1][:200] for p in got if p[0] == 'DUMP'][:1]))
        # the same trait listed twice, one of the mentions dumped: the dumped mention shows its code, the other one stays
        dup = R.run_raw([x for k, (m, plain, dumped, item, tr) in enumerate(DUPLICATE_WITH_DUMP)
                         for x in ((m, plain, item, dict(k=k)), (m, dumped[0], dumped[1] + item, dict(k=k)))])
        for (m, plain, dumped, item, tr), a, b in zip(DUPLICATE_WITH_DUMP, dup[0::2], dup[1::2]):
            base = impl_parts(a.actual)
            got = impl_parts(b.actual)
            one = [p for p in base if p[0] == 'IMPL' and (' : : %s for ' % tr) in p[1] + ' ']
            want = ' '.join(tokens_of([p]) for p in base) + ' ' + ' '.join(tokens_of([p]) for p in one)
            have = ' '.join(p[1] if p[0] == 'DUMP' else tokens_of([p]) if p[0] in ('IMPL', 'CONST') else 'ERR:' + p[1] for p in got)
            if not one or want != have or sum(1 for p in got if p[0] == 'DUMP') != 1:
                failures.append(dict(**{'class': 'dump-of-a-repeated-trait', 'mode': 'duplicate'}, input=b.input_text(),
                                     expected=want[:1200], observed=have[:1200]))
            else:
                validated += 1
        lit = list(lit) + dup
        return dict(evaluations=len(results) + len(lit), validated=validated, failures=failures, samples=samples,
                    groups=len(groups), dumps_with_payload=nontrivial, literal_requests=len(lit))


PROP = C19()
