"""C06 — Hash feeds exactly the effective inputs of non-ignored fields, in order."""
from .c01 import CmpProp


class C06(CmpProp):
    pid = 'C06'
    batch = 'c06'
    observe = ('hash',)
    tag = 'body of the Hash impl'
    rule = ('as C01 with trait lists containing Hash ({Hash}, {Hash,PartialEq}, {Hash,Eq,PartialEq}, {Hash,Ord,..}, all five); '
            'each field carries an accepted combination of hash/eq/ord (and the other) attributes with distinct key / by '
            'functions; the feed is observed through a recording Hasher (sequence of write_* calls) for every value of the '
            'cartesian product and compared with the documented feed; non-trivial = some attribute present')
    assumptions = ['u8 fields hash with one write_u8 call (core::hash); the recording Hasher sees every write_* call']

    def trait_sets(self):
        return [['Hash'], ['Hash', 'PartialEq'], ['PartialEq', 'Hash'], ['Hash', 'Eq', 'PartialEq'],
                ['Hash', 'PartialOrd', 'PartialEq'], ['Ord', 'PartialOrd', 'Eq', 'PartialEq', 'Hash'],
                ['Hash', 'Ord', 'PartialOrd', 'Eq', 'PartialEq'], ['Hash', 'PartialOrd'], ['Hash', 'Eq']]

    def view(self, r, parts):
        return [(p[0], p[2]) if p[0] == 'IMPL' else p for p in parts
                if p[0] != 'ITEM' and not (p[0] == 'IMPL' and 'hash : : Hash' not in p[1])]


PROP = C06()
