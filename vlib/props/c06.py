"""C06 — Hash feeds exactly the effective inputs of non-ignored fields, in order."""
from .c01 import CmpProp


class C06(CmpProp):
    pid = 'C06'
    batch = 'c06'
    observe = ('hash',)
    tag = 'body of the Hash impl'
    rule = ('as C01 with trait lists containing Hash ({Hash}, {Hash,PartialEq}, {Hash,Eq,PartialEq}, {Hash,Ord,..}, all five); '
            'each field carries an accepted combination of hash/eq/ord (and the other) attributes with distinct key / by '
            'functions; the feed is observed through a recording Hasher (sequence of write_* calls) for every value of the '
            'cartesian product and compared with the documented feed; non-trivial = some attribute present')
    assumptions = ['u8 fields hash with one write_u8 call (core::hash); the recording Hasher sees every write_* call']

    def trait_sets(self):
        return [['Hash'], ['Hash', 'PartialEq'], ['PartialEq', 'Hash'], ['Hash', 'Eq', 'PartialEq'],
                ['Hash', 'PartialOrd', 'PartialEq'], ['Ord', 'PartialOrd', 'Eq', 'PartialEq', 'Hash'],
                ['Hash', 'Ord', 'PartialOrd', 'Eq', 'PartialEq'], ['Hash', 'PartialOrd'], ['Hash', 'Eq']]

    def view(self, r, parts):
        return [(p[0], p[2]) if p[0] == 'IMPL' else p for p in parts
                if p[0] != 'ITEM' and not (p[0] == 'IMPL' and 'hash : : Hash' not in p[1])]


def _c06_literals():
    """explicit `bound(..)` lists (on the field, a variant, the trait entry, the list) shape the where-clause - never WHAT is fed"""
    out = []
    # (declaration with the bound, the same without it, a value)
    S1, S2, S3 = 'pub struct X<T>(%s pub T, pub u16);', 'pub enum X<T> { %s A(T, u16), B(u8) }', 'pub struct X<T> { pub a: T, %s pub b: u16 }'
    pairs = [(S1 % a, S1 % '', 'X(1u8, 2u16)') for a in ('#[hash(bound(T: Hash))]', '#[eq(bound(T: Hash))]', '#[ord(bound(T: Hash))]',
                                                      '#[derive_ex(Hash(bound(T: Hash)))]', '#[derive_ex(Hash, bound(T: Hash))]')] + \
            [(S2 % a, S2 % '', 'X::A(1u8, 2u16)') for a in ('#[hash(bound(T: Hash))]', '#[derive_ex(Hash(bound(T: Hash)))]', '#[derive_ex(Hash, bound(T: Hash))]')] + \
            [(S3 % '#[hash(key = $ + 1, bound(T: Hash))]', S3 % '#[hash(key = $ + 1)]', 'X { a: 1u8, b: 2u16 }'),
             (S3 % '#[eq(key = $ + 1, bound(T: Hash))]', S3 % '#[eq(key = $ + 1)]', 'X { a: 1u8, b: 2u16 }'),
             (S3 % '#[hash(bound())]', S3 % '', 'X { a: 1u8, b: 2u16 }')]
    lists = ['Hash', 'Hash(bound(T: Hash))', 'Hash, bound(T: Hash)', 'Hash(bound(T: Hash, ..))']
    for with_, without, val in pairs:
        for mi, head in enumerate(('#[::derive_ex::derive_ex(%s)]', '#[derive(::derive_ex::Ex)] #[derive_ex(%s)]')):
            tl = 'Hash'
            src = 'pub mod a { use super::*; %s\n%s }\npub mod b { use super::*; %s\n%s }\n' % (head % tl, with_, head % tl, without) + \
                'pub fn run() { let (x, y) = (feed(&a::%s), feed(&b::%s)); println!("@ID@\\tfeed\\t{} {}", x == y, x.len() > 6); }' % (val, val)
            out.append(((head % tl).replace('::derive_ex::', '') + ' ' + with_, src, [('feed', 'true true')]))
    for li, tl in enumerate(lists[1:]):
        decl, val = 'pub struct X<T>(pub T, pub u16);', 'X(1u8, 2u16)'
        head = '#[::derive_ex::derive_ex(%s)]'
        src = 'pub mod a { use super::*; %s\n%s }\npub mod b { use super::*; %s\n%s }\n' % (head % tl, decl, head % 'Hash', decl) + \
            'pub fn run() { let (x, y) = (feed(&a::%s), feed(&b::%s)); println!("@ID@\\tfeed\\t{} {}", x == y, x.len() > 6); }' % (val, val)
        out.append((('#[derive_ex(%s)] ' % tl) + decl, src, [('feed', 'true true')]))
    # the user's OWN data-carrying types that are merely NAMED like std's marker types: fed like any other field
    tagged = ('pub mod tagged { use super::*; pub struct PhantomData<T>(pub u8, pub ::core::marker::PhantomData<T>);\n'
              'impl<T> Hash for PhantomData<T> { fn hash<H: Hasher>(&self, s: &mut H) { s.write_u8(self.0) } }\n'
              'pub struct PhantomPinned(pub u8); impl Hash for PhantomPinned { fn hash<H: Hasher>(&self, s: &mut H) { s.write_u8(self.0) } } }\n'
              'pub type Tag<T> = tagged::PhantomData<T>; pub type Pin = tagged::PhantomPinned;\n')
    vals = '1, tagged::PhantomData(7, ::core::marker::PhantomData), tagged::PhantomPinned(8), 2'
    for head, text in (('#[::derive_ex::derive_ex(Hash)]', '#[derive_ex(Hash)]'), ('#[derive(::derive_ex::Ex)] #[derive_ex(Hash)]', '#[derive(Ex)] #[derive_ex(Hash)]')):
        for decl, ctor in (('pub struct X(pub u8, pub %s, pub %s, pub u8);', 'X'), ('pub enum X { A(u8, %s, %s, u8), B }', 'X::A')):
            da, db = decl % ('tagged::PhantomData<u16>', 'tagged::PhantomPinned'), decl % ('Tag<u16>', 'Pin')
            src = tagged + 'pub mod a { use super::*; %s\n%s }\npub mod b { use super::*; %s\n%s }\n' % (head, da, head, db) + \
                'pub fn run() { let (x, y) = (feed(&a::%s(%s)), feed(&b::%s(%s))); println!("@ID@\\tfeed\\t{} {}", x == y, x.contains("u8:7;u8:8;u8:2;")); }' % (ctor, vals, ctor, vals)
            out.append((text + ' ' + da + '   [tagged::PhantomData<T>(u8, ..) and tagged::PhantomPinned(u8) are the user\'s own types and feed their u8]', src, [('feed', 'true true')]))
    # a key written by a `macro_rules!` macro: an `$m:expr` fragment is ONE operand, whatever stands around it
    for head, text in (('#[::derive_ex::derive_ex(Hash)]', '#[derive_ex(Hash)]'), ('#[derive(::derive_ex::Ex)] #[derive_ex(Hash)]', '#[derive(Ex)] #[derive_ex(Hash)]')):
        for decl, ctor in (('pub struct $name(#[hash(key = $d % $m)] pub u8, #[eq(key = $m * $d)] pub u8);', 'X'),
                           ('pub enum $name { A(#[hash(key = $d % $m)] u8, #[ord(key = $m * $d)] u8), B }', 'X::A')):
            src = 'macro_rules! bucketed { ($d:tt, $name:ident, $m:expr) => { %s\n%s }; }\nbucketed!($, X, 2 + 2);\n' % (head, decl) + \
                'pub fn run() { println!("@ID@\\tfeed\\t{}", feed(&%s(4, 3))); }' % ctor
            out.append(('macro_rules! bucketed { ($d:tt, $name:ident, $m:expr) => { %s %s } }  bucketed!($, X, 2 + 2);   [the fields feed 4 %% (2 + 2) and (2 + 2) * 3]' % (text, decl),
                        src, [('feed', 'u8:0;u8:12;')]))
    return out


C06.literal_programs = lambda self: _c06_literals()
PROP = C06()
