"""C03 — default bounds are exactly the used field types that mention a parameter."""
from .c04 import C04


class C03(C04):
    pid = 'C03'
    p_absent = 1.0          # no bound(...) anywhere
    tag = 'impl headers (where-clauses)'
    rule = ('every derivable trait (all four / two reference forms of operators) x {struct, enum} x both entry points, no '
            'bound(...) anywhere; generics <\'a, T, U, const N> with a declared where-clause; field types from a pool of 18 '
            '(T, Vec<T>, Option<T>, PhantomData<U>, (T,u8), [u8;N], &\'a T, T::Assoc, <T as Tr>::Assoc, ::std::vec::Vec<T>, '
            'fn(T)->U, *const T, Wrap<r#T>, Arr<N>, concrete u8/String/::Vec<u8>/Box<T2>); fields ignored / transparent / '
            'with explicit default / compared through key or by / outside the default variant; the expected where-clause is '
            'computed from the documentation rule by vlib/boundgen.py; non-trivial = at least one used and one unused field '
            'or a type mentioning a parameter; distinct by (feature vector, item)')

    # the default bounds are `FieldTy: Trait` for the trait being derived - nothing a co-derived trait would need
    _MK = 'pub struct Marker<const N: usize>;\nimpl<const N: usize> Clone for Marker<N> { fn clone(&self) -> Self { Marker } }\nimpl Copy for Marker<0> {}\nimpl<const N: usize> ::core::fmt::Debug for Marker<N> { fn fmt(&self, f: &mut ::core::fmt::Formatter) -> ::core::fmt::Result { f.write_str("M") } }\nimpl<const N: usize> PartialEq for Marker<N> { fn eq(&self, _: &Self) -> bool { true } }\nimpl Eq for Marker<0> {}\n'
    rustc_programs = [
        ('#[derive_ex(Clone, Copy)] struct X<const N: usize>(Marker<N>, u8);   [Marker<N>: Clone for every N, Copy for N = 0 only; X<1> is cloned]',
         _MK + '#[::derive_ex::derive_ex(Clone, Copy)]\npub struct X<const N: usize>(pub Marker<N>, pub u8);\npub fn run() { let x = X::<1>(Marker, 1); let _ = x.clone(); let y = X::<0>(Marker, 1); let _z = y; let _ = y; }'),
        ('#[derive(Ex)] #[derive_ex(Copy, Clone)] enum E<\'a, const N: usize> { A(&\'a u8, Marker<N>), B }',
         _MK + "#[derive(::derive_ex::Ex)]\n#[derive_ex(Copy, Clone)]\npub enum E<'a, const N: usize> { A(&'a u8, Marker<N>), B }\npub fn run() { let e = E::<1>::A(&1, Marker); let _ = e.clone(); }"),
        ('#[derive_ex(Clone)] #[derive_ex(Copy)] struct X<const N: usize> { m: [Marker<N>; 2] }',
         _MK + '#[::derive_ex::derive_ex(Clone)]\n#[::derive_ex::derive_ex(Copy)]\npub struct X<const N: usize> { pub m: [Marker<N>; 2] }\npub fn run() { let x = X::<1> { m: [Marker, Marker] }; let _ = x.clone(); }'),
        ('#[derive_ex(PartialEq, Eq, Debug)] struct X<const N: usize>(Marker<N>);   [Marker<N>: PartialEq + Debug for every N, Eq for N = 0 only; X<1> is compared]',
         _MK + '#[::derive_ex::derive_ex(PartialEq, Eq, Debug)]\npub struct X<const N: usize>(pub Marker<N>);\npub fn run() { let _ = X::<1>(Marker) == X::<1>(Marker); let _ = format!("{:?}", X::<1>(Marker)); }'),
    ]

    def n(self, tier):
        return 200 if tier == 'quick' else 12000

    def cases(self, tier, rng):
        out = super().cases(tier, rng)
        for req, meta in out:
            fields = [f for v in meta['plan'] for f in v['fields']]
            meta['nontrivial'] = any(f['mentions'] for f in fields)
        return out


PROP = C03()
