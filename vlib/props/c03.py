"""C03 — default bounds are exactly the used field types that mention a parameter."""
from .c04 import C04


class C03(C04):
    pid = 'C03'
    p_absent = 1.0          # no bound(...) anywhere
    tag = 'impl headers (where-clauses)'
    rule = ('every derivable trait (all four / two reference forms of operators) x {struct, enum} x both entry points, no '
            'bound(...) anywhere; generics <\'a, T, U, const N> with a declared where-clause; field types from a pool of 18 '
            '(T, Vec<T>, Option<T>, PhantomData<U>, (T,u8), [u8;N], &\'a T, T::Assoc, <T as Tr>::Assoc, ::std::vec::Vec<T>, '
            'fn(T)->U, *const T, Wrap<r#T>, Arr<N>, concrete u8/String/::Vec<u8>/Box<T2>); fields ignored / transparent / '
            'with explicit default / compared through key or by / outside the default variant; the expected where-clause is '
            'computed from the documentation rule by vlib/boundgen.py; non-trivial = at least one used and one unused field '
            'or a type mentioning a parameter; distinct by (feature vector, item)')

    def n(self, tier):
        return 200 if tier == 'quick' else 12000

    def cases(self, tier, rng):
        out = super().cases(tier, rng)
        for req, meta in out:
            fields = [f for v in meta['plan'] for f in v['fields']]
            meta['nontrivial'] = any(f['mentions'] for f in fields)
        return out


PROP = C03()
