"""C17 — derive_ex(Eq) is refused unless every compared component is Eq."""
import itertools

from .. import l2, sx
from .. import run as R
from ..check import Prop

PRELUDE = '''
#[derive(Debug, Clone, Copy, PartialEq)]
pub struct F(pub f32);            // PartialEq only: float-like
pub fn by_f(a: &F, b: &F) -> bool { a.0.to_bits() == b.0.to_bits() }
pub fn by_u(a: &u8, b: &u8) -> bool { a == b }
pub fn cmp_f(a: &F, b: &F) -> ::core::cmp::Ordering { a.0.total_cmp(&b.0) }
pub fn cmp_u(a: &u8, b: &u8) -> ::core::cmp::Ordering { a.cmp(b) }
#[derive(Debug, Clone, PartialEq)]
pub struct Label { pub text: String, pub weight: f32 }
impl ::core::ops::Deref for Label { type Target = str; fn deref(&self) -> &str { &self.text } }
pub fn pcmp_f(a: &F, b: &F) -> Option<::core::cmp::Ordering> { a.0.partial_cmp(&b.0) }
pub fn pcmp_u(a: &u8, b: &u8) -> Option<::core::cmp::Ordering> { a.partial_cmp(b) }
'''


ORDER = ['partial_eq', 'eq', 'partial_ord', 'ord']           # what `==` consults, most specific first
PAIRS = [('eq', 'ord'), ('partial_eq', 'eq'), ('partial_eq', 'ord'), ('partial_ord', 'ord'), ('partial_ord', 'eq')]
BYFN = {'eq': 'by_', 'partial_eq': 'by_', 'ord': 'cmp_', 'partial_ord': 'pcmp_'}


def double_options():
    """one field carrying TWO customisations, one of them `#[eq(..)]` or `#[ord(..)]` (so that `Eq` accepts the field):
    what has to be `Eq` is what `==` compares - the most specific of partial_eq / eq / partial_ord / ord decides"""
    out = []
    for tn, t in (('u8', sx.tid('u8')), ('F', sx.tid('F'))):
        keys = {'key-eq': ('( $ / 2 )' if tn == 'u8' else '$ . 0 . to_bits ( )', True),
                'key-noneq': ('( $ as f32 )' if tn == 'u8' else '$ . 0', False)}
        def mk(attr, opt):
            if opt == 'by':
                return sx.a_cmp(attr, sx.m_list(sx.cargs(by=BYFN[attr] + tn[0].lower()))), True
            return sx.a_cmp(attr, sx.m_list(sx.cargs(key=keys[opt][0]))), keys[opt][1]
        for a1, a2 in PAIRS:
            for o1 in ('key-eq', 'key-noneq', 'by'):
                for o2 in ('key-eq', 'key-noneq', 'by'):
                    x1, ok1 = mk(a1, o1)
                    x2, ok2 = mk(a2, o2)
                    ok = ok1 if ORDER.index(a1) < ORDER.index(a2) else ok2
                    for order in (0, 1):
                        out.append(('%s-%s:%s+%s:%s%s' % (tn, a1, o1, a2, o2, '-rev' if order else ''), t,
                                    [x1, x2] if order == 0 else [x2, x1], ok))
    return out


# (name, field type sexp, attribute list builder(attr_name) , component is Eq?)
def field_options(attr):
    u8, F = sx.tid('u8'), sx.tid('F')
    a = lambda **kw: [sx.a_cmp(attr, sx.m_list(sx.cargs(**kw)))]
    by_f = 'by_f' if attr == 'eq' else 'cmp_f'
    return [
        ('u8', u8, [], True),
        ('F', F, [], False),
        ('F-ignore', F, a(ignore=True), True),
        ('u8-ignore', u8, a(ignore=True), True),
        ('F-key-eq', F, a(key='$ . 0 . to_bits ( )'), True),
        ('u8-key-noneq', u8, a(key='( $ as f32 )'), False),
        ('F-key-noneq', F, a(key='$ . 0'), False),
        ('F-by', F, a(by=by_f), True),
        ('u8-key-eq', u8, a(key='( $ / 2 )'), True),
    ]


class C17(Prop):
    pid = 'C17'
    tag = 'the Eq impl and its hidden checker (CONST part)'
    rule = ('EXHAUSTIVE over: {struct named/tuple, enum with the fields in the 1st/2nd variant, named or tuple} x 1-3 fields, each from 9 '
            'options {u8, F (PartialEq only), F ignored, u8 ignored, F key->Eq, u8 key->non-Eq, F key->non-Eq, F by, u8 key->Eq} on '
            '#[eq(..)] or #[ord(..)] x both entry points; one field carrying two customisations (eq+ord, partial_eq+eq, partial_eq+ord, partial_ord+ord, partial_ord+eq), each o in {key->Eq, key->non-Eq, by}, '
            'either order - the most specific one (what `==` compares) decides; `#[hash(ignore)]` on an Eq / non-Eq field with Hash derived alongside; plus generic X<T> with default / overriding bound(..); compiled '
            '(metadata only) against the real proc-macro: accepted iff every compared component is Eq; non-trivial = every case')
    assumptions = ['rustc rejects an unsatisfied `T: Eq` obligation (trusted; observed on every rejecting case)']

    def exhaustive(self, tier):
        return True

    def cases(self, tier, rng):
        out = []
        for attr in ('eq', 'ord'):
            opts = field_options(attr)
            # enumd0 / enumd1: as enumt0 / enumt1 with explicit discriminants on the variants (under #[repr(u8)])
            for shape, mode in itertools.product(('named', 'tuple', 'enum0', 'enum1', 'enumt0', 'enumt1', 'enumd0', 'enumd1'),
                                                 ('attr', 'derive')):
                combos = [(o,) for o in opts] + [(a, b) for a in opts for b in opts if (a[3] != b[3] or a[0] != b[0])]
                # three fields: an ignored field before / between compared ones (positions must not drift)
                ign = [o for o in opts if o[0].endswith('ignore')]
                plain = [o for o in opts if o[0] in ('u8', 'F')]
                combos += [(i, p, q) for i in ign for p in plain for q in plain] + [(p, i, q) for i in ign for p in plain for q in plain]
                for fl in combos:
                    tup = shape in ('tuple', 'enumt0', 'enumt1', 'enumd0', 'enumd1')
                    fs = [sx.field(t, name=None if tup else ('f%d' % i), attrs=at)
                          for i, (_, t, at, _) in enumerate(fl)]
                    body = sx.unnamed(fs) if tup else sx.named(fs)
                    if shape.startswith('enum'):
                        dis = shape in ('enumd0', 'enumd1')
                        vs = [sx.variant('A', body, discr='4' if dis else None),
                              sx.variant('B', sx.unnamed([sx.field(sx.tid('u8'))]), discr='2' if dis and shape == 'enumd1' else None)]
                        if shape in ('enum1', 'enumt1', 'enumd1'):
                            vs.reverse()
                        it = sx.enum('E', vs, attrs=[sx.a_other('repr ( u8 )')] if dis else [])
                        kw = '(enum ('
                    else:
                        it = sx.struct('X', body)
                        kw = '(struct ('
                    tl = [('Eq', None), ('PartialEq', None)]
                    if mode == 'attr':
                        req = sx.inv_attr(sx.dx(tl), it)
                    else:
                        req = sx.inv_derive(kw + sx.a_derive_ex(sx.dx(tl)) + ' ' + it[len(kw):])
                    out.append((req, dict(features=(attr, shape, mode) + tuple(o[0] for o in fl),
                                          ok=all(o[3] for o in fl), nontrivial=True)))
        # `#[hash(ignore)]` (Hash derived next to Eq) says nothing about equality: the field is still compared, so it must be Eq
        for (tn, t, ok), shape, mode in itertools.product((('F', sx.tid('F'), False), ('u8', sx.tid('u8'), True)),
                                                          ('named', 'tuple', 'enumt1'), ('attr', 'derive')):
            tup = shape != 'named'
            fs = [sx.field(sx.tid('u8'), name=None if tup else 'f0'),
                  sx.field(t, name=None if tup else 'f1', attrs=[sx.a_cmp('hash', sx.m_list(sx.cargs(ignore=True)))])]
            body = sx.unnamed(fs) if tup else sx.named(fs)
            if shape == 'enumt1':
                it = sx.enum('E', [sx.variant('B', sx.UNIT), sx.variant('A', body)])
                kw = '(enum ('
            else:
                it = sx.struct('X', body)
                kw = '(struct ('
            for tl in ([('Eq', None), ('PartialEq', None), ('Hash', None)], [('Hash', None), ('PartialEq', None), ('Eq', None)]):
                req = sx.inv_attr(sx.dx(tl), it) if mode == 'attr' else sx.inv_derive(
                    kw + sx.a_derive_ex(sx.dx(tl)) + ' ' + it[len(kw):])
                out.append((req, dict(features=('hash-ignore', tn, shape, mode, tl[0][0]), ok=ok, nontrivial=True)))
        # TWO customisations that do not reach Eq on one field (`partial_ord` / `partial_eq` key or by, no eq / ord one): the
        # default Eq cannot be used - refused, however many such attributes there are
        u8t = sx.tid('u8')
        mis = {'pord-key': sx.a_cmp('partial_ord', sx.m_list(sx.cargs(key='( $ as f32 )'))),
               'peq-key': sx.a_cmp('partial_eq', sx.m_list(sx.cargs(key='( $ as f32 )'))),
               'pord-by': sx.a_cmp('partial_ord', sx.m_list(sx.cargs(by='| a : & u8 , b : & u8 | a . partial_cmp ( b )'))),
               'peq-by': sx.a_cmp('partial_eq', sx.m_list(sx.cargs(by='by_u')))}
        for (n1, n2), shape, mode in itertools.product([('pord-key', 'peq-key'), ('peq-key', 'pord-key'), ('pord-by', 'peq-by'),
                                                        ('pord-key', 'peq-by'), ('peq-key', None), ('pord-key', None)],
                                                       ('named', 'tuple', 'enumt1'), ('attr', 'derive')):
            tup = shape != 'named'
            at = [mis[n1]] + ([mis[n2]] if n2 else [])
            fs = [sx.field(u8t, name=None if tup else 'f0', attrs=at), sx.field(u8t, name=None if tup else 'f1')]
            body = sx.unnamed(fs) if tup else sx.named(fs)
            if shape == 'enumt1':
                it = sx.enum('E', [sx.variant('B', sx.UNIT), sx.variant('A', body)])
                kw = '(enum ('
            else:
                it = sx.struct('X', body)
                kw = '(struct ('
            tl = [('PartialOrd', None), ('PartialEq', None), ('Eq', None)]
            req = sx.inv_attr(sx.dx(tl), it) if mode == 'attr' else sx.inv_derive(
                kw + sx.a_derive_ex(sx.dx(tl)) + ' ' + it[len(kw):])
            out.append((req, dict(features=('misplaced-custom', n1, str(n2), shape, mode), ok=False, nontrivial=True)))
        # both #[eq(..)] and #[ord(..)] on one field
        for fo, shape, mode in itertools.product(double_options(), ('named', 'tuple', 'enum1'), ('attr', 'derive')):
            name, t, at, ok = fo
            fs = [sx.field(t, name='f0' if shape != 'tuple' else None, attrs=at),
                  sx.field(sx.tid('u8'), name='f1' if shape != 'tuple' else None)]
            body = sx.named(fs) if shape != 'tuple' else sx.unnamed(fs)
            if shape in ('enum1', 'enumt1'):
                it = sx.enum('E', [sx.variant('B', sx.UNIT), sx.variant('A', body)])
                kw = '(enum ('
            else:
                it = sx.struct('X', body)
                kw = '(struct ('
            tl = [('Eq', None), ('PartialEq', None)]
            req = sx.inv_attr(sx.dx(tl), it) if mode == 'attr' else sx.inv_derive(
                kw + sx.a_derive_ex(sx.dx(tl)) + ' ' + it[len(kw):])
            out.append((req, dict(features=('double', shape, mode, name), ok=ok, nontrivial=True)))
            # the same with Ord / PartialOrd derived alongside (they look at `#[ord(..)]` only): the Eq obligation on the
            # `#[eq(key = ..)]` value stays; a non-Ord `#[ord(key = ..)]` value is refused for Ord's own reason
            ord_key_ok = '+ord:key-noneq' not in name
            if '-eq:' not in name or '+ord:' not in name:
                continue            # (the other pairs are derived with Eq / PartialEq only)
            for tl in ([('Ord', None), ('PartialOrd', None), ('Eq', None), ('PartialEq', None)],
                       [('Eq', None), ('PartialEq', None), ('PartialOrd', None), ('Ord', None)]):
                req = sx.inv_attr(sx.dx(tl), it) if mode == 'attr' else sx.inv_derive(
                    kw + sx.a_derive_ex(sx.dx(tl)) + ' ' + it[len(kw):])
                out.append((req, dict(features=('double+Ord', shape, mode, name, tl[0][0]), ok=ok and ord_key_ok, nontrivial=True,
                                      other_reason=None if ord_key_ok else 'Ord')))
        # a compared non-Eq field whose type mentions only a lifetime parameter (no bound is generated for it: it must be refused)
        for (tn, t, ok), shape, mode in itertools.product(
                (('refF', sx.tref(sx.tid('F'), lt='a'), False), ('refu8', sx.tref(sx.tid('u8'), lt='a'), True),
                 ('optrefF', sx.tgen('Option', sx.tref(sx.tid('F'), lt='a')), False)),
                ('named', 'tuple', 'enumt1'), ('attr', 'derive')):
            tup = shape != 'named'
            fs = [sx.field(sx.tid('u8'), name=None if tup else 'f0'), sx.field(t, name=None if tup else 'f1')]
            body = sx.unnamed(fs) if tup else sx.named(fs)
            lg = sx.generics([sx.gp_lt('a')])
            if shape == 'enumt1':
                it = sx.enum('E', [sx.variant('B', sx.UNIT), sx.variant('A', body)], gen=lg)
                kw = '(enum ('
            else:
                it = sx.struct('X', body, gen=lg)
                kw = '(struct ('
            tl = [('Eq', None), ('PartialEq', None)]
            req = sx.inv_attr(sx.dx(tl), it) if mode == 'attr' else sx.inv_derive(
                kw + sx.a_derive_ex(sx.dx(tl)) + ' ' + it[len(kw):])
            out.append((req, dict(features=('lifetime-only', tn, shape, mode), ok=ok, nontrivial=True)))
        # generic: the checker re-uses the impl's where-clause
        T = sx.tid('T')
        gen = sx.generics([sx.gp_ty('T')])
        for bound, ok in [(None, True), ([sx.b_pred(sx.wty(T, [sx.tb_trait(['PartialEq'])]))], False),
                          ([sx.b_pred(sx.wty(T, [sx.tb_trait(['Eq'])]))], True), ([], False),
                          ([sx.b_ty(T)], True)]:
            # the same bound(..) at every level that can carry it: the Eq entry, the list, the field's own
            # #[derive_ex(Eq(..))] / #[derive_ex(Eq, ..)], the field's #[eq(..)] and #[ord(..)] helpers
            for place, mode in itertools.product(('entry', 'shared', 'field-entry', 'field-shared', 'field-eq', 'field-ord'),
                                                 ('attr', 'derive')):
                if bound is None and place != 'entry':
                    continue
                fattrs = {'field-entry': [sx.a_derive_ex(sx.dx([('Eq', (bound, False))]))],
                          'field-shared': [sx.a_derive_ex(sx.dx([('Eq', None)], bnd=bound))],
                          'field-eq': [sx.a_cmp('eq', sx.m_list(sx.cargs(bnd=bound)))],
                          'field-ord': [sx.a_cmp('ord', sx.m_list(sx.cargs(bnd=bound)))]}.get(place, [])
                it = sx.struct('X', sx.unnamed([sx.field(sx.tid('u8')), sx.field(T, attrs=fattrs)]), gen=gen)
                tl = [('Eq', (bound, False) if place == 'entry' else None), ('PartialEq', None)]
                sb = bound if place == 'shared' else None
                req = sx.inv_attr(sx.dx(tl, bnd=sb), it) if mode == 'attr' else sx.inv_derive(
                    '(struct (' + sx.a_derive_ex(sx.dx(tl, bnd=sb)) + ' ' + it[len('(struct ('):])
                # a shared bound also restricts PartialEq: `bound()` / `bound(T: Eq)` leave `T == T` unproved for it
                ok2 = ok and not (place == 'shared' and bound is not None and bound != [sx.b_ty(T)]
                                  and bound != [sx.b_pred(sx.wty(T, [sx.tb_trait(['PartialEq'])]))])
                if place == 'shared' and bound == [sx.b_pred(sx.wty(T, [sx.tb_trait(['Eq'])]))]:
                    ok2 = True      # T: Eq implies T: PartialEq
                out.append((req, dict(features=('generic', place, mode, str(bound is None), str(ok2)), ok=ok2, nontrivial=True)))
        return out

    def view(self, r, parts):
        return [p for p in parts if p[0] in ('CONST', 'ERR') or (p[0] == 'IMPL' and 'cmp : : Eq' in p[1])]

    def oracle(self, tier, rng, suspicious):
        results = self.l1_results or R.run_cases(self.cases(tier, rng))
        mods = []
        for r in results:
            head = ('#[::derive_ex::derive_ex(%s)]\n' % r.attr) if r.mode == 'A' else '#[derive(::derive_ex::Ex)]\n'
            mods.append(l2.Module(r.cid, l2.decl(head, r.item, r.cid, every=5) + '\npub fn run() {}', r))
        # generic (also recursive) items with a float-like component INSIDE a field type that mentions a parameter or the item
        # itself: no instantiation may be `Eq`; the twin with an `Eq` component in its place is `Eq` (hand-written)
        class _Lit:
            def __init__(self, text, ok):
                self.text, self.meta = text, dict(ok=ok, nontrivial=True, other_reason='overflow evaluating the requirement')
            def input_text(self):
                return self.text
        lits = []
        for k, (decl, inst, ok) in enumerate(GENERIC_COMPONENTS):
            for mi, head in enumerate(('#[::derive_ex::derive_ex(Eq, PartialEq)]', '#[derive(::derive_ex::Ex)] #[derive_ex(PartialEq, Eq)]')):
                lits.append(l2.Module(8 * 10 ** 6 + 2 * k + mi, '%s\n%s\npub fn need<T: Eq>() {}\npub fn run() { need::<%s>(); }' % (head, decl, inst),
                                      _Lit('%s %s   [then `%s: Eq` is required]' % (head.replace('::derive_ex::', ''), decl, inst), ok)))
        nb = max(1, min(R.NPROC, len(mods) // 40 + 1))
        batches = [('c17_%d' % k, mods[k::nb]) for k in range(nb)]
        l2.compile_parallel(batches, prelude=PRELUDE, check_only=True)
        # (one rustc run each: the overflow error of a recursive requirement has no location to place it by)
        from concurrent.futures import ThreadPoolExecutor
        l2.ensure_macro()
        with ThreadPoolExecutor(max_workers=R.NPROC) as ex:
            sts = list(ex.map(lambda mo: l2.compile_status('c17lit_%d' % mo.cid, [mo], prelude=PRELUDE, rendered=True), lits))
        for mo, (rc, errs, _) in zip(lits, sts):
            mo.compiled = rc == 0
            mo.diags = [dict(level='error', message=e[0], rendered=e[1]) for e in errs]
            l2.cleanup('c17lit_%d' % mo.cid)
        mods = mods + lits
        failures, validated, samples = [], 0, []
        for mo in mods:
            r = mo.meta
            errs = [d for d in mo.diags if d['level'] == 'error']
            if r.meta['ok'] and not mo.compiled:
                failures.append(dict(**{'class': 'eq-refused-although-components-are-eq', 'mode': 'rustc'}, input=r.input_text(),
                                     expected='compiles', observed=[d['message'] for d in errs][:3]))
            elif not r.meta['ok'] and mo.compiled:
                failures.append(dict(**{'class': 'eq-accepted-with-non-eq-component', 'mode': 'rustc'}, input=r.input_text(),
                                     expected='rejected: a compared component is not Eq', observed='compiles'))
            elif not r.meta['ok'] and not any('Eq' in d['message'] or 'Eq' in d.get('rendered', '') or (r.meta.get('other_reason') or '\0') in d['message'] for d in errs):
                failures.append(dict(**{'class': 'eq-rejected-for-another-reason', 'mode': 'rustc'}, input=r.input_text(),
                                     expected='E0277 .. Eq is not satisfied', observed=[d['message'] for d in errs][:3]))
            else:
                validated += 1
                if len(samples) < 2 and not r.meta['ok']:
                    samples.append(dict(input=r.input_text()[:300], rustc=[d['message'] for d in errs][:1]))
        for name, _ in batches:
            l2.cleanup(name)
        return dict(evaluations=len(mods), validated=validated, programs=len(mods), failures=failures, samples=samples,
                    accepted=sum(1 for m in mods if m.compiled), rejected=sum(1 for m in mods if not m.compiled))


# (declaration, instantiation asked to be Eq, is it?)
GENERIC_COMPONENTS = [
    ('pub struct X<T>(pub Option<(T, F)>);', 'X<u8>', False),
    ('pub struct X<T>(pub Option<(T, u8)>);', 'X<u8>', True),
    ('pub struct X<T> { pub v: T, pub next: (F, Option<Box<X<T>>>) }', 'X<u8>', False),
    ('pub enum X<T> { Nil, Cons(T, Box<(F, X<T>)>) }', 'X<u8>', False),
    ('pub struct X<T> { pub v: T, pub w: Vec<(F, Self)> }', 'X<u8>', False),
    ('pub struct X<T> { pub v: [T; 2], pub w: ::core::marker::PhantomData<(F, T)> }', 'X<u8>', True),   # PhantomData<_> is Eq
    ('pub struct X<T, U>(pub T, pub (U, u8));', 'X<u8, F>', False),
    ('pub struct X<T, U>(pub T, #[eq(ignore)] pub (U, u8));', 'X<u8, F>', True),
    # a float-like component that DEREFS to an `Eq` type (the assertion is about the component's own type, not about
    # anything method resolution can reach from it)
    ('pub struct X { pub id: u32, pub label: Label }', 'X', False),
    ('pub enum X { A(Box<Label>), B }', 'X', False),
    ('pub struct X(#[eq(key = &$.1)] pub (u32, Label));', 'X', False),
    ('pub struct X(#[eq(key = $.1.len())] pub (u32, Label));', 'X', True),
]


PROP = C17()
