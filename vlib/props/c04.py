"""C04 — explicit bound(...) follows the documented nine-level priority."""
import re

from .. import run as R
from ..boundgen import BoundGen, CMP, STRUCT_ONLY, FORMS, expected_where, expected_where_second, where_text, tpath
from ..check import Prop

BOTH = ['Clone', 'Copy', 'Debug', 'Default'] + CMP


def headers(parts):
    return [(p[0], p[1]) if p[0] == 'IMPL' else p for p in parts if p[0] in ('IMPL', 'ERR', 'DUMP')]


def norm_hrtb(text):
    """the name of the lifetime bound by `for<..>` is the generator's business: canonicalise it"""
    out = text
    for m in set(re.findall(r"for < ' (\w+) >", text)):
        out = re.sub(r"' %s\b" % re.escape(m), "' _h", out)
    return out


def where_of(hdr):
    i = hdr.find(' where ')
    return norm_hrtb(hdr[i + 1:]) if i >= 0 else ''


class C04(Prop):
    pid = 'C04'
    tag = 'impl headers (where-clauses) and error messages'
    p_absent = 0.45
    rule = ('every derivable trait x {struct, enum with 1-3 variants} x both entry points; each of the up-to-9 priority '
            'levels (helper attribute(s) - for comparison traits every attribute that affects the trait, in shuffled '
            'source order -, per-trait argument, shared argument; on type, variant, field) independently absent or one of '
            'bound(), bound(P_i), bound(..), bound(P_i, ..), bound(T), bound(Vec<T>, P_i, ..) with P_i unique per level; '
            'fields ignored / transparent / with explicit default / with key or by; repeated #[derive_ex] on one position; '
            'non-trivial = at least two levels present; distinct by (feature vector, item)')
    assumptions = ['levels are read from the parsed helper-attribute records (parse_single); the parse step is covered by C05/C14']

    rustc_programs = [
        ('#[derive_ex(Clone, Default, bound(T: Mk))] struct X<T>(#[default(T::mk())] T);   [T: Mk implies nothing else]',
         'pub trait Mk: Sized { fn mk() -> Self; fn dup(&self) -> Self; }\npub struct Nc; impl Mk for Nc { fn mk() -> Nc { Nc } fn dup(&self) -> Nc { Nc } }\n'
         '#[::derive_ex::derive_ex(Default, bound(T: Mk))]\npub struct X<T>(#[default(T::mk())] pub T);\npub fn run() { let _: X<Nc> = Default::default(); }'),
    ]

    def n(self, tier):
        return 260 if tier == 'quick' else 12000     # per (trait, kind of item)

    def cases(self, tier, rng):
        g = BoundGen(rng, self.p_absent)
        out = []
        for tr in BOTH + STRUCT_ONLY + ['Deref']:
            for is_enum in (False, True):
                if is_enum and tr not in BOTH:
                    continue
                for k in range(self.n(tier)):
                    req, meta = g.case(tr, is_enum, 'attr' if k % 2 else 'derive')
                    nlv = sum(1 for f in meta['features'] if ('-helper-' in f or '-dx-' in f or '-arg-' in f)
                              and not f.endswith('absent'))
                    meta['nontrivial'] = nlv >= 2
                    out.append((req, meta))
        return out

    def view(self, r, parts):
        return headers(parts)

    def oracle(self, tier, rng, suspicious):
        results = self.l1_results or R.run_cases(self.cases(tier, rng))
        failures, validated, samples, skipped = [], 0, [], 0
        for r in results:
            m = r.meta
            tr, kind = m['trait'], m['kind']
            mine = [p for p in r.actual if p[0] == 'IMPL' and (' ' + tpath(tr) + ' ') in (p[1] + ' ')
                    and ('impl' in p[1])]
            # keep only impls OF this trait (the path right after the impl generics)
            mine = [p for p in mine if _impl_trait(p[1]) == tpath(tr)]
            if not mine:
                if any(p[0] == 'ERR' for p in r.actual):
                    skipped += 1          # refused for another reason (e.g. two transparent fields): not this property
                    continue
                failures.append(dict(**{'class': 'impl-missing', 'mode': 'header'}, input=r.input_text(),
                                     expected='an impl of ' + tr, observed=[p[0] for p in r.actual]))
                continue
            # `Self` inside the impl generics is only right in an impl FOR the type itself
            unexp = [p for p in mine if ' for & ' in p[1] and (' Self ' in (' ' + _impl_generics(p[1]) + ' ')
                                                               or ' Self ' in (' ' + where_of(p[1]) + ' '))]
            if unexp:
                failures.append(dict(**{'class': 'self-not-expanded-in-impl-generics', 'mode': 'header'}, input=r.input_text(),
                                     expected='`Self` of the declared generics replaced by the type in an impl for a reference',
                                     observed=unexp[0][1][:400]))
                continue
            ts, ps = expected_where(m)
            forms = FORMS.get(kind, [None])
            if len(mine) != len(forms):
                failures.append(dict(**{'class': 'impl-count', 'mode': 'header'}, input=r.input_text(),
                                     expected=len(forms), observed=len(mine)))
                continue
            bad = None
            # `Self` in the declared predicates: written out as the type (equivalent in an impl for the type itself,
            # required in an impl for a reference to it - checked above)
            declared = [(' ' + d + ' ').replace(' Self ', ' ' + m['this'] + ' ').strip() for d in m.get('declared', [])] or None
            for p, form in zip(mine, forms):
                want = norm_hrtb(where_text(tr, kind, form, ts, ps, declared))
                got = (' ' + where_of(p[1]) + ' ').replace(' Self ', ' ' + m['this'] + ' ').strip()
                if want != got:
                    bad = (want, got)
                    break
            if not bad and m.get('second') and tr not in ('Clone', 'Copy') and not (tr in STRUCT_ONLY or tr == 'Deref') \
                    and r.input_text().count(m['second']) == 1:
                # the co-derived Clone (the nested `#[derive_ex(..)]` attributes name the first trait only, unless that is Clone / Copy; cases whose nested attributes name the co-derived trait as well are left to L1)
                sec = [p for p in r.actual if p[0] == 'IMPL' and _impl_trait(p[1]) == tpath(m['second'])]
                if len(sec) == 1:
                    ts2, ps2 = expected_where_second(m)
                    want = norm_hrtb(where_text(m['second'], 'plain', None, ts2, ps2, declared))
                    got = (' ' + where_of(sec[0][1]) + ' ').replace(' Self ', ' ' + m['this'] + ' ').strip()
                    if want != got:
                        bad = (want, got)
            if bad:
                failures.append(dict(**{'class': classify(m, bad), 'mode': 'header'}, input=r.input_text(),
                                     expected=bad[0], observed=bad[1]))
            else:
                validated += 1
                if len(samples) < 3 and m['nontrivial'] and len(ts) + len(ps) >= 3:
                    samples.append(dict(input=r.input_text()[:700], where=where_of(mine[0][1])[:300]))
        # compiled: the bounds the rule prescribes are ENOUGH for the generated bodies (hand-written programs whose field
        # types implement exactly what the where-clause asks for, for exactly the instantiations used)
        from .. import l2
        class _Lit:
            def __init__(self, text):
                self.text, self.meta = text, dict(nontrivial=True)
            def input_text(self):
                return self.text
        lits = [l2.Module(7 * 10 ** 6 + k, src, _Lit(text)) for k, (text, src) in enumerate(self.rustc_programs)]
        if lits:
            l2.compile_batch(self.pid.lower() + 'lit', lits, prelude='', check_only=True)
            for mo in lits:
                if mo.compiled:
                    validated += 1
                else:
                    failures.append(dict(**{'class': 'prescribed-bounds-do-not-suffice', 'mode': 'compile'}, input=mo.meta.input_text(),
                                         expected='compiles: the body needs nothing beyond the where-clause of the rule',
                                         observed=[d['message'] for d in mo.diags if d['level'] == 'error'][:3]))
            l2.cleanup(self.pid.lower() + 'lit')
        return dict(evaluations=len(results) + len(lits), validated=validated, failures=failures, samples=samples,
                    refused_for_other_reasons=skipped, programs=len(lits))


def _impl_generics(hdr):
    """the `< .. >` right after `impl` (or '')"""
    toks = hdr.split(' ')
    i = toks.index('impl') + 1
    if i >= len(toks) or toks[i] != '<':
        return ''
    d, j = 0, i
    while j < len(toks):
        if toks[j] == '<':
            d += 1
        elif toks[j] == '>' and toks[j - 1] not in ('-', '='):
            d -= 1
            if d == 0:
                break
        j += 1
    return ' '.join(toks[i:j + 1])


def _impl_trait(hdr):
    """the trait path of `impl <..> PATH [<..>] for ..`"""
    toks = hdr.split(' ')
    i = toks.index('impl') + 1
    if toks[i] == '<':
        d = 0
        while True:
            if toks[i] == '<':
                d += 1
            elif toks[i] == '>' and toks[i - 1] != '-':
                d -= 1
                if d == 0:
                    i += 1
                    break
            i += 1
    out = []
    while i < len(toks) and toks[i] in (':',) or (i < len(toks) and out and out[-1] == ':' and toks[i] not in ('<', 'for')):
        out.append(toks[i])
        i += 1
    return ' '.join(out)


def classify(m, bad):
    return 'where-clause-differs'


PROP = C04()
