"""C13 — generated code is hygienic: user-chosen names never change its meaning."""
import itertools
import re

from .. import l2, sx
from .. import run as R
from ..check import Prop

TYPE_NAMES = ['H', 'T', 'Eq', 'Fn', 'Option', 'Some', 'None', 'Clone', 'Ordering', 'Result', 'Default', 'PartialEq', 'Hash',
              'Hasher', 'Debug', 'Formatter', 'Copy', 'Into', 'Sized', 'Output', 'Target', 'Rhs', 'Ok', 'Err', 'Equal', 'Less',
              'r#type', 'r#fn', 'Ord', 'PartialOrd', 'Self_', 'Box', 'Vec', 'String', 'PhantomData', 'Iterator', 'Drop',
              'Add', 'Deref', 'core', 'std', 'derive_ex', 'Ex', 'this', 'other', 'state']
FIELD_NAMES = ['this', 'other', 'state', 'f', 'rhs', 'source', 'lhs', 'o', 'to_index', '_eq', '_f', 'l_0', '_self_0', 'r#type',
               'r#fn', 'r#match', 'clone', 'eq', 'cmp', 'hash', 'fmt', 'default', 'partial_cmp', 'r_0', '_other_x', '_0',
               'r#self_', 'core', 'unreachable', 'stringify', 'r#loop', 'key', 'by', 'ignore']
LIFETIMES = ['a', 'h', 'b', 'de', 'this', 'r#fn'][:5]
CONST_NAMES = ['N', 'M', 'LEN', 'K', 'T2']
# const parameters live in the value namespace: these collide with the value binders of the expansion
CONST_BINDER_NAMES = ['this', 'other', 'state', 'f', 'rhs', 'source', 'lhs', 'o', 'to_index', '_self_0', 'l_0', '_0', 'r_0',
                      '_other_0', '_this_0', 'by', 'v_0', 'self_0', 'idx', 'index', 'value', 'x', 'a', 'b']

NEUTRAL = dict(ty='Zq', lt='q', tp='Pq', cp='Kq', fields=['fa', 'fb', 'fc', 'fd'], variants=['Va', 'Vb', 'Vc'], fn='mkq')


def user_fn(names):
    """a user function with a user-chosen name, called by a `#[default(NAME())]` value"""
    return "pub fn %s() -> &'static u8 { &7 }\n" % names['fn']

SHADOW = '''
pub mod shadow {
    #![allow(dead_code, non_camel_case_types)]
    pub struct Option; pub struct Some; pub struct None; pub trait Eq {} pub trait Fn {} pub trait Clone {}
    pub struct Ordering; pub struct Result; pub trait Default {} pub trait PartialEq {} pub trait PartialOrd {} pub trait Ord {}
    pub trait Hash {} pub trait Hasher {} pub trait Debug {} pub trait Copy {} pub trait Into {} pub trait From {}
    pub struct Ok; pub struct Err; pub struct Box; pub struct Vec; pub struct String; pub trait Sized {} pub trait Drop {}
    pub trait Iterator {} pub trait Add {} pub trait Deref {} pub struct Formatter; pub trait ToString {} pub trait AsRef {}
    pub fn drop() {} pub mod core {} pub mod std {} pub struct Equal; pub struct Less; pub struct Greater;
    pub trait Send {} pub trait Sync {} pub trait FnMut {} pub trait FnOnce {} pub trait ToOwned {} pub trait Extend {}
    pub trait IntoIterator {} pub trait DoubleEndedIterator {} pub trait ExactSizeIterator {} pub trait Unpin {}
    pub struct bool; pub struct isize; pub struct str; pub struct char; pub struct u32; pub struct i32;
    pub struct u64; pub struct f64;
    #[macro_export] macro_rules! __shadow_unreachable { () => { compile_error!("relative unreachable! captured") } }
}
'''
LQ = '''
pub struct Lq<'x>(pub ::core::marker::PhantomData<&'x ()>);
macro_rules! lq_bin { ($tr:ident, $f:ident) => {
    impl<'x> ::core::ops::$tr<Lq<'x>> for Lq<'x> { type Output = Lq<'x>; fn $f(self, _r: Lq<'x>) -> Lq<'x> { self } }
    impl<'x, 'y> ::core::ops::$tr<&'y Lq<'x>> for Lq<'x> { type Output = Lq<'x>; fn $f(self, _r: &'y Lq<'x>) -> Lq<'x> { self } }
    impl<'x, 'y> ::core::ops::$tr<Lq<'x>> for &'y Lq<'x> { type Output = Lq<'x>; fn $f(self, r: Lq<'x>) -> Lq<'x> { r } }
    impl<'x, 'y, 'z> ::core::ops::$tr<&'z Lq<'x>> for &'y Lq<'x> { type Output = Lq<'x>; fn $f(self, _r: &'z Lq<'x>) -> Lq<'x> { Lq(::core::marker::PhantomData) } }
} }
macro_rules! lq_asg { ($tr:ident, $f:ident) => {
    impl<'x> ::core::ops::$tr<Lq<'x>> for Lq<'x> { fn $f(&mut self, _r: Lq<'x>) {} }
    impl<'x, 'y> ::core::ops::$tr<&'y Lq<'x>> for Lq<'x> { fn $f(&mut self, _r: &'y Lq<'x>) {} }
} }
lq_bin!(Add, add); lq_bin!(BitXor, bitxor); lq_asg!(SubAssign, sub_assign); lq_asg!(ShlAssign, shl_assign);
impl<'x> ::core::ops::Not for Lq<'x> { type Output = Lq<'x>; fn not(self) -> Lq<'x> { self } }
impl<'x, 'y> ::core::ops::Not for &'y Lq<'x> { type Output = Lq<'x>; fn not(self) -> Lq<'x> { Lq(::core::marker::PhantomData) } }
'''
PRELUDE = LQ + '''
pub struct Rec(pub ::std::string::String);
impl ::core::hash::Hasher for Rec {
    fn finish(&self) -> u64 { 0 }
    fn write(&mut self, bytes: &[u8]) { self.0.push_str(&format!("b{:?};", bytes)); }
    fn write_u8(&mut self, i: u8) { self.0.push_str(&format!("u8:{};", i)); }
    fn write_usize(&mut self, i: usize) { self.0.push_str(&format!("usize:{};", i)); }
    fn write_isize(&mut self, i: isize) { self.0.push_str(&format!("isize:{};", i)); }
}
pub fn o2c(o: ::core::option::Option<::core::cmp::Ordering>) -> char { match o { ::core::option::Option::None => 'N',
    ::core::option::Option::Some(::core::cmp::Ordering::Less) => 'L', ::core::option::Option::Some(::core::cmp::Ordering::Equal) => 'E',
    ::core::option::Option::Some(::core::cmp::Ordering::Greater) => 'G' } }
'''
TRAIT_SETS = [['Clone'], ['Copy', 'Clone'], ['Debug'], ['Default'], ['PartialEq'], ['Eq', 'PartialEq'], ['PartialOrd', 'PartialEq'],
              ['Ord', 'PartialOrd', 'Eq', 'PartialEq'], ['Hash'], ['Hash', 'Eq', 'PartialEq'],
              ['Clone', 'Debug', 'Default', 'Ord', 'PartialOrd', 'Eq', 'PartialEq', 'Hash']]
STRUCT_SETS = [['Add'], ['SubAssign'], ['Not'], ['Deref'], ['Deref', 'DerefMut'], ['BitXor', 'ShlAssign']]


# user-written `by` expressions that name nothing from the prelude (they must survive the shadowed scope and no_std)
BY_EXPR = {
    'ord': '| _ , _ | :: core :: cmp :: Ordering :: Equal',
    'partial_ord': '| _ , _ | :: core :: option :: Option :: Some ( :: core :: cmp :: Ordering :: Equal )',
    'eq': '| _ , _ | true', 'partial_eq': '| _ , _ | true', 'hash': '| _ , _ | ( )',
}
AFFECTS = {'ord': {'Ord', 'PartialOrd', 'Eq', 'PartialEq', 'Hash'}, 'partial_ord': {'PartialOrd', 'PartialEq'},
           'eq': {'Eq', 'PartialEq', 'Hash'}, 'partial_eq': {'PartialEq'}, 'hash': {'Hash'}}


def build(names, shape, traits, mode, with_attrs, const_name=None):
    """shape: ('struct'|'enum', kind list) -> request"""
    is_enum, vs = shape
    P = sx.tid(names['tp'])
    params = [sx.gp_lt(names['lt']), sx.gp_ty(names['tp'])]
    cp = const_name or names['cp']
    params.append(sx.gp_const(cp, sx.tid('usize')))
    ops = any(t in ('Add', 'SubAssign', 'Not', 'BitXor', 'ShlAssign') for t in traits)
    deref = 'Deref' in traits
    ftypes = [sx.tref(sx.tid('u8'), lt=names['lt']), P, sx.tarray(sx.tid('u8'), sx.cpath([cp])), sx.tid('u8')]
    if ops:
        # operators: a type parameter (so that the per-field-type where-bounds with their `for<'..>` binders are
        # emitted) next to a user lifetime, carried by the prelude type `Lq<'x>` which implements every operator form
        lq = sx.tpath([sx.seg('Lq', ('angle', [sx.glt(names['lt'])]))])
        ftypes = [P, lq, sx.tid('u8'), sx.tid('u8')]
        params = [sx.gp_lt(names['lt']), sx.gp_ty(names['tp'])]
    if deref:
        params = [sx.gp_ty(names['tp'])]
        ftypes = [P]

    def fields(kind, n):
        fs = []
        for i in range(n):
            attrs = []
            cmp_tr = [t for t in traits if t in ('Ord', 'PartialOrd', 'Eq', 'PartialEq', 'Hash')]
            if with_attrs == 1 and i == 0 and cmp_tr and not ops:
                attrs.append(sx.a_cmp('ord', sx.m_list(sx.cargs(key='( $ % 2 )'))))
            if with_attrs == 2 and i == 0 and cmp_tr and not ops:
                # one #[ord(by = ..)]: every derived comparison trait goes through a by-helper built from it
                attrs.append(sx.a_cmp('ord', sx.m_list(sx.cargs(by=BY_EXPR['ord']))))
                if 'Hash' in traits:
                    attrs.append(sx.a_cmp('hash', sx.m_list(sx.cargs(by=BY_EXPR['hash']))))
            if with_attrs in (3, 4) and i == 0 and cmp_tr and not ops:
                # every helper attribute that affects a derived trait, with its own by (3) / key (4)
                for a in ('ord', 'partial_ord', 'eq', 'partial_eq', 'hash'):
                    if AFFECTS[a] & set(traits):
                        attrs.append(sx.a_cmp(a, sx.m_list(sx.cargs(by=BY_EXPR[a]) if with_attrs == 3
                                                           else sx.cargs(key='( $ , %d )' % len(a)))))
            if 'Default' in traits and i % len(ftypes) == 0 and not ops and not deref:
                # a literal expression / a call of a user function whose name is part of the renaming
                attrs.append(sx.a_default(sx.m_list(sx.dargs('%s ( )' % names['fn'] if with_attrs in (0, 2, 4) else '& 7'))))
            if 'Default' in traits and i % len(ftypes) == 3 and with_attrs in (1, 3) and not ops and not deref:
                # a path expression: converted with Into (must resolve under no_std and with the prelude shadowed)
                attrs.append(sx.a_default(sx.m_list(sx.dargs('u8 :: MAX'))))
            if with_attrs == 3 and i == 1 and 'Debug' in traits:
                attrs.append(sx.a_debug(sx.m_list(sx.gargs(transparent=True))))
            elif with_attrs and i == 1 and 'Debug' in traits:
                attrs.append(sx.a_debug(sx.m_list(sx.gargs(ignore=True))))
            fs.append(sx.field(ftypes[i % len(ftypes)], name=names['fields'][i] if kind == 'named' else None, attrs=attrs))
        return sx.named(fs) if kind == 'named' else (sx.unnamed(fs) if kind == 'tuple' else sx.UNIT)
    if not is_enum and vs[0][0] == 'unit':
        params = []                 # a unit struct cannot declare parameters it does not use
    gen = sx.generics(params)
    if is_enum:
        vars_ = []
        for i, (kind, n) in enumerate(vs):
            va = [sx.a_default(sx.M_PATH)] if ('Default' in traits and i == 0 and len(vs) > 1) else []
            vars_.append(sx.variant(names['variants'][i], fields(kind, n), attrs=va))
        it = sx.enum(names['ty'], vars_, gen=gen)
        kw = '(enum ('
    else:
        it = sx.struct(names['ty'], fields(*vs[0]), gen=gen)
        kw = '(struct ('
    tl = [(t, None) for t in traits]
    if mode == 'attr':
        return sx.inv_attr(sx.dx(tl), it)
    return sx.inv_derive(kw + sx.a_derive_ex(sx.dx(tl)) + ' ' + it[len(kw):])


# operators derived from a user-written `impl` whose const parameter is named like a local the expansion might introduce
# (a const parameter shares the namespace of `let` bindings and function arguments)
IMPL_CONST_NAMES = ['Kq'] + CONST_BINDER_NAMES + ['out', 'result', 'ret', 'res', 'tmp', 'output', 'val', 'me', 'r', 'l', 'target',
                                                'cloned', 'copy', 's', 'lhs_', 'rhs_', 'this_', 'new', 'tmp_0', 'self_']


def impl_programs():
    out = []
    for bi, (attr, item, body) in enumerate([
        ('Add', 'impl<const NAME: usize> ::core::ops::AddAssign<u32> for Zq<NAME> { fn add_assign(&mut self, r_: u32) { self.0 = self.0 * 10 + r_ + NAME as u32; } }',
         'let a = Zq::<3>(1) + 2u32; let b = &Zq::<3>(1); println!("@ID@\\tv\\t{}", a.0 + b.0);'),
        ('Sub, SubAssign', 'impl<const NAME: usize> ::core::ops::Sub<Zq<NAME>> for Zq<NAME> { type Output = Zq<NAME>; fn sub(self, r_: Zq<NAME>) -> Zq<NAME> { Zq(self.0 * 10 + r_.0 + NAME as u32) } }',
         'let (a, b) = (Zq::<3>(1), Zq::<3>(2)); let c = &a - &b; let d = a.clone() - &b; let e = &a - b.clone(); let mut f = a.clone(); f -= &b; f -= b; println!("@ID@\\tv\\t{} {} {} {}", c.0, d.0, e.0, f.0);'),
        ('Mul', 'impl<const NAME: usize> ::core::ops::MulAssign<&Zq<NAME>> for Zq<NAME> { fn mul_assign(&mut self, r_: &Zq<NAME>) { self.0 = self.0 * 10 + r_.0 + NAME as u32; } }',
         'let (a, b) = (Zq::<3>(1), Zq::<3>(2)); let c = a * &b; println!("@ID@\\tv\\t{}", c.0);'),
    ]):
        for ni, name in enumerate(IMPL_CONST_NAMES):
            cid = 7 * 10 ** 6 + 100 * bi + ni
            src = ['#[derive(Clone)] pub struct Zq<const NAME: usize>(pub u32);'.replace('NAME', name),
                   '#[::derive_ex::derive_ex(%s)]' % attr, item.replace('NAME', name),
                   'pub fn run() { %s }' % body.replace('@ID@', str(cid))]
            out.append((cid, bi, name, '\n'.join(src), '#[derive_ex(%s)] %s' % (attr, item.replace('NAME', name))))
    return out


_KW = set('impl for where fn match let mut return type const as self Self dyn true false ref if else in unsafe move pub crate '
          'super static struct enum trait use mod loop while break continue _'.split())
_IDENT = re.compile(r'^(r#)?[A-Za-z_][A-Za-z0-9_]*$')


def relative_names(text, user):
    """identifiers of a flat token text that would be resolved in the scope of the use site"""
    toks, out, i = text.split(' '), [], 0
    flat = []
    while i < len(toks):            # drop `# [ .. ]` attributes (lint names are not resolved in the user's scope)
        if toks[i] == '#' and i + 1 < len(toks) and toks[i + 1] == '[':
            d, j = 0, i + 1
            while j < len(toks):
                d += toks[j] == '['
                d -= toks[j] == ']'
                if d == 0:
                    break
                j += 1
            i = j + 1
            continue
        flat.append(toks[i])
        i += 1
    own_t = 'fn __assert_eq < T :' in ' '.join(flat)          # the nested function declares its own parameter `T`
    depth_stringify = 0
    for i, t in enumerate(flat):
        p1, p2 = (flat[i - 1] if i else ''), (flat[i - 2] if i > 1 else '')
        nx = flat[i + 1] if i + 1 < len(flat) else ''
        if not _IDENT.match(t) or t in _KW or t.startswith('__') or t in user:
            continue
        if (p1 == ':' and p2 == ':') or p1 in ('.', 'fn', 'type', "'") or (nx == '=' and p1 in (',', '<')):
            continue
        if t == 'T' and own_t:
            continue
        if p1 == '(' and p2 == '!' and i > 2 and flat[i - 3] == 'stringify':
            continue                # `stringify!(name)`: the text of a (raw) name, nothing is looked up
        out.append(t)
    return out


PRIMITIVES = '#[derive(Debug, Clone, Copy, Default, PartialEq, Eq, PartialOrd, Ord, Hash)] pub struct Wq;\n' + \
    ' '.join('pub struct %s;' % t for t in ('bool', 'char', 'str', 'u8', 'u16', 'u32', 'u64', 'u128', 'usize', 'i8', 'i16', 'i32', 'i64',
                                             'i128', 'isize', 'f32', 'f64')) + '\n'
_ALL = 'Clone, Copy, Debug, Default, PartialEq, Eq, PartialOrd, Ord, Hash'
PRIMITIVE_SHADOW = [
    (_ALL, 'pub struct Zq { pub fa: Wq, #[ord(key = $.clone())] pub fb: Wq }'),
    (_ALL, 'pub struct Zq(pub Wq, #[eq(by = |a, b| a == b)] #[ord(by = |a: &Wq, b: &Wq| a.cmp(b))] #[hash(ignore)] pub Wq);'),
    (_ALL, 'pub enum Zq { #[default] Va, Vb(Wq), Vc { fa: Wq, #[ord(by = |a: &Wq, b: &Wq| a.cmp(b))] #[hash(ignore)] fb: Wq } }'),
    ('Clone, Debug, PartialEq, Eq, Hash', 'pub enum Zq<Pq> { Va(Pq), Vb { #[debug(ignore)] fa: Pq }, Vc }'),
    ('Add, SubAssign, Neg, Not, Deref, DerefMut', 'pub struct Zq(pub ::std::num::Wrapping<::core::primitive::i32>);'),
]


class C13(Prop):
    pid = 'C13'
    tag = 'all generated impls (hostile names)'
    rule = ('every trait set (11 for struct+enum, 6 struct-only incl. operators and Deref) x struct named/tuple and enum shapes x '
            'helper-attribute levels {none, ord(key), ord(by), every relevant attribute with by, every relevant attribute with key; debug ignore / transparent} x both entry points, each as a neutral-name base program and as renamings drawn '
            'from a hostile dictionary (every identifier the expansion introduces, prelude / core type, trait and variant names, '
            'raw keywords) for the type, its lifetime / type / const parameters, fields and variants; every renamed program must '
            'compile in a plain scope, in a scope with a glob import shadowing the prelude names, and under #![no_std] '
            '(metadata-only) and when declared through a macro_rules! macro, and compute what the base program computes (==, partial_cmp, cmp, hash feed, clone, default on '
            'enumerated values); non-trivial = every renamed case')

    def n_ren(self, tier):
        return 3 if tier == 'quick' else 48

    def plans(self, tier, rng):
        shapes = [(False, [('named', 4)]), (False, [('tuple', 3)]), (True, [('named', 3), ('tuple', 1), ('unit', 0)]),
                  (False, [('unit', 0)])]
        out = []
        gid = 0
        for traits in TRAIT_SETS + STRUCT_SETS:
            for shape in shapes:
                if traits in STRUCT_SETS and shape[0]:
                    continue
                if 'Deref' in traits:
                    if shape[1][0][0] == 'unit':
                        continue
                    shape = (False, [(shape[1][0][0], 1)])
                for with_attrs in (0, 1, 2, 3, 4):
                    if with_attrs and traits in STRUCT_SETS:
                        continue
                    if with_attrs >= 2 and not any(t in traits for t in ('Ord', 'PartialOrd', 'Eq', 'PartialEq', 'Hash')):
                        continue
                    gid += 1
                    mode = 'attr' if gid % 2 else 'derive'
                    rens = [NEUTRAL]
                    for j in range(self.n_ren(tier)):
                        tn = rng.sample(TYPE_NAMES, 6)
                        if j == 1:
                            # the second renaming of every group: raw keywords as the type's and the first variant's name
                            tn = ['r#type' if tn[1] != 'r#type' else 'r#match', tn[1], 'r#fn' if tn[1] != 'r#fn' else 'r#loop'] + \
                                [x for x in tn[3:] if x not in ('r#type', 'r#fn')] + ['Aq', 'Bq']
                        # the first renaming of every group uses the lifetime name the generator once used itself
                        rens.append(dict(ty=tn[0], tp=tn[1], lt='a' if j == 0 else rng.choice(LIFETIMES), cp=rng.choice(CONST_NAMES),
                                         fields=rng.sample(FIELD_NAMES, 4), variants=tn[2:5],
                                         fn=rng.choice([f for f in FIELD_NAMES if f != tn[0]])))
                    for ri, names in enumerate(rens):
                        out.append((gid, ri, names, shape, traits, mode, with_attrs, None))
                    # renamings with a const parameter named like a value binder of the expansion: EVERY such name for the
                    # plain programs (a const parameter shares the namespace of the generated patterns and locals)
                    if not any(t in traits for t in ('Add', 'SubAssign', 'Not', 'BitXor', 'ShlAssign', 'Deref')):
                        if with_attrs == 0:
                            for bi, bn in enumerate(CONST_BINDER_NAMES):
                                out.append((gid, 100 + bi, NEUTRAL, shape, traits, mode, with_attrs, bn))
                        elif tier != 'quick' or gid % 4 == 0:
                            out.append((gid, 99, NEUTRAL, shape, traits, mode, with_attrs, rng.choice(CONST_BINDER_NAMES)))
        return out

    def cases(self, tier, rng):
        out = []
        for gid, ri, names, shape, traits, mode, with_attrs, cn in self.plans(tier, rng):
            req = build(names, shape, traits, mode, with_attrs, cn)
            out.append((req, dict(features=('traits:' + '+'.join(traits), 'enum' if shape[0] else shape[1][0][0], mode,
                                            'attrs%d' % with_attrs, 'base' if ri == 0 else 'renamed',
                                            'const-binder' if cn else 'ordinary'),
                                  gid=gid, ri=ri, names=names, shape=shape, traits=traits, const_name=cn,
                                  nontrivial=ri != 0)))
        return out

    def run_body(self, cid, m):
        """code exercising the derived impls through trait methods only; prints name-free digests"""
        n, (is_enum, vs), tr = m['names'], m['shape'], m['traits']
        if any(t in tr for t in ('Add', 'SubAssign', 'Not', 'BitXor', 'ShlAssign', 'Deref')):
            return 'pub fn run() {}'
        cp = m['const_name'] or n['cp']
        unit_struct = (not is_enum) and vs[0][0] == 'unit'
        ty = n['ty'] if unit_struct else '%s<\'static, u16, 2>' % n['ty']
        vals = []
        fvals = [['&7u8', '&8u8'], ['5u16', '6u16'], ['[0u8, 1]', '[2u8, 0]'], ['0u8', '1u8', '3u8']]
        for vi, (kind, k) in enumerate(vs):
            for combo in list(itertools.product(*[fvals[i % 4] for i in range(k)]))[:5]:
                path = ('%s::%s' % (n['ty'], n['variants'][vi])) if is_enum else n['ty']
                if kind == 'named':
                    vals.append('%s { %s }' % (path, ', '.join('%s: %s' % (n['fields'][i], v) for i, v in enumerate(combo))))
                elif kind == 'tuple':
                    vals.append('%s(%s)' % (path, ', '.join(combo)))
                else:
                    vals.append(path)
        src = ['pub fn run() {', '    let vs: ::std::vec::Vec<%s> = ::std::vec![%s];' % (ty, ', '.join(vals))]
        if 'PartialEq' in tr:
            src.append('    let mut s = ::std::string::String::new(); for a in &vs { for b in &vs { s.push(if a == b {\'T\'} else {\'F\'}); } } println!("%d\\teq\\t{}", s);' % cid)
        if 'PartialOrd' in tr:
            src.append('    let mut s = ::std::string::String::new(); for a in &vs { for b in &vs { s.push(o2c(::core::cmp::PartialOrd::partial_cmp(a, b))); } } println!("%d\\tpcmp\\t{}", s);' % cid)
        if 'Ord' in tr:
            src.append('    let mut s = ::std::string::String::new(); for a in &vs { for b in &vs { s.push(o2c(::core::option::Option::Some(::core::cmp::Ord::cmp(a, b)))); } } println!("%d\\tcmp\\t{}", s);' % cid)
        if 'Hash' in tr:
            src.append('    let mut s = ::std::string::String::new(); for a in &vs { let mut h = Rec(::std::string::String::new()); ::core::hash::Hash::hash(a, &mut h); s.push_str(&h.0); s.push(\'|\'); } println!("%d\\thash\\t{}", s);' % cid)
        if 'Clone' in tr and 'PartialEq' in tr:
            src.append('    let mut s = ::std::string::String::new(); for a in &vs { s.push(if ::core::clone::Clone::clone(a) == *a {\'T\'} else {\'F\'}); } println!("%d\\tclone\\t{}", s);' % cid)
        if 'Default' in tr and 'PartialEq' in tr:
            src.append('    let d: %s = ::core::default::Default::default(); let mut s = ::std::string::String::new(); for a in &vs { s.push(if d == *a {\'T\'} else {\'F\'}); } println!("%d\\tdefault\\t{}", s);' % (ty, cid))
        if 'Debug' in tr:
            # `{:?}` starts with the name of the type / the variant as written, without the `r#` of a raw identifier
            unraw = lambda x: x[2:] if x.startswith('r#') else x
            exp = [unraw(n['variants'][vi]) if is_enum else unraw(n['ty']) for vi, (kind, k) in enumerate(vs)
                   for _ in list(itertools.product(*[fvals[i % 4] for i in range(k)]))[:5]]
            src.append('    let names: &[&str] = &[%s]; let mut s = ::std::string::String::new(); '
                       'for (a, nm) in vs.iter().zip(names) { let t = format!("{:?}", a); '
                       's.push(if t.starts_with(nm) && !t[nm.len()..].starts_with(|c: char| c.is_alphanumeric() || c == \'_\' || c == \'#\') {\'T\'} else {\'F\'}); } '
                       'println!("%d\\tdebug\\t{}", s);' % (', '.join('"%s"' % e for e in exp), cid))
        src.append('    let _ = &vs; }')
        return '\n'.join(src)

    def oracle(self, tier, rng, suspicious):
        results = self.l1_results or R.run_cases(self.cases(tier, rng))
        plain, shadow, nostd, viam = [], [], [], []
        for r in results:
            head = ('#[::derive_ex::derive_ex(%s)]\n' % r.attr) if r.mode == 'A' else '#[derive(::derive_ex::Ex)]\n'
            uf = user_fn(r.meta['names'])
            plain.append(l2.Module(r.cid, uf + head + r.item + '\n' + self.run_body(r.cid, r.meta), r))
            if r.meta['ri'] == 1:
                # hygiene proper: the item declared through a macro_rules! macro that writes the attribute
                viam.append(l2.Module(r.cid, uf + l2.via_macro(head, r.item) + 'pub fn run() {}', r))
            if r.meta['ri'] != 0:
                shadow.append(l2.Module(r.cid, '#[allow(unused_imports)] use super::shadow::*;\n' + uf + head + r.item + '\npub fn run() {}', r))
                nostd.append(l2.Module(r.cid, uf + head + r.item + '\npub fn run() {}', r))
        class _Lit:
            def __init__(self, text, bi, name):
                self.text = text
                self.meta = dict(ri=0 if name == 'Kq' else 1, gid=10 ** 6 + bi, const_name=None if name == 'Kq' else name, names=NEUTRAL)
            def input_text(self):
                return self.text
        for cid, bi, name, src, text in impl_programs():
            plain.append(l2.Module(cid, src, _Lit(text, bi, name)))
        nb = 8
        pb = [('c13p_%d' % k, plain[k::nb]) for k in range(nb)]
        sb = [('c13s_%d' % k, shadow[k::nb]) for k in range(nb)]
        nbat = [('c13n_%d' % k, nostd[k::nb]) for k in range(nb)]
        vb = [('c13m_%d' % k, viam[k::nb]) for k in range(nb)]
        allow = '#![allow(dead_code, unused_variables, unused_imports, non_camel_case_types, non_snake_case, non_upper_case_globals, unused_macros)]\n'
        exes = l2.compile_parallel(pb, prelude=PRELUDE, crate_attrs=allow)
        l2.compile_parallel(sb, prelude=SHADOW + LQ, check_only=True, crate_attrs=allow)
        l2.compile_parallel(vb, prelude=PRELUDE, check_only=True, crate_attrs=allow)
        l2.compile_parallel(nbat, prelude=LQ, check_only=True, crate_attrs='#![no_std]\n' + allow)
        obs = {}
        for name, exe in exes.items():
            if exe:
                obs.update(l2.run_exe(exe)[1])
        failures, validated, samples = [], 0, []
        base = {}
        for mo in plain:
            if mo.meta.meta['ri'] == 0:
                base[mo.meta.meta['gid']] = (mo.compiled, obs.get(str(mo.cid), []))
        def fail(r, scope, exp, got):
            cls = 'const-parameter-named-like-a-generated-binder' if r.meta['const_name'] else 'renaming-changes-the-program'
            failures.append(dict(**{'class': cls, 'mode': scope}, input=r.input_text(), expected=exp, observed=got))
        for group, scope in ((plain, 'plain scope'), (shadow, 'prelude shadowed'), (nostd, 'no_std'),
                             (viam, 'declared through macro_rules!')):
            for mo in group:
                r = mo.meta
                if r.meta['ri'] == 0:
                    if not mo.compiled:
                        fail(r, scope, 'the neutral-name base program compiles', [d['message'] for d in mo.diags if d['level'] == 'error'][:3])
                    continue
                if not mo.compiled:
                    fail(r, scope, 'compiles like the neutral-name program', [d['message'] for d in mo.diags if d['level'] == 'error'][:3])
                    continue
                if scope == 'plain scope':
                    b = base.get(r.meta['gid'])
                    got = obs.get(str(mo.cid), [])
                    if b and b[0] and (r.meta['const_name'] is None or r.meta['gid'] >= 10 ** 6) and got != b[1]:
                        fail(r, scope, [list(x) for x in b[1]], [list(x) for x in got])
                        continue
                validated += 1
                if len(samples) < 3 and scope == 'prelude shadowed':
                    samples.append(dict(scope=scope, input=r.input_text()[:300]))
        # model-free: every identifier of the REAL expansion that is looked up in the scope of the use site - i.e. that
        # neither continues a path (`:: core :: cmp :: Ordering`), nor follows `.`, `fn`, `type`, nor is a keyword, a
        # reserved `__` name or the user's own - is a name the user's scope could redefine (`struct bool;`)
        for r in results:
            user = set(re.findall(r'(?:r#)?[A-Za-z_][A-Za-z0-9_]*', r.item + ' ' + r.attr))
            user |= set(u[2:] for u in user if u.startswith('r#'))
            alien = []
            for p in r.actual:
                if p[0] in ('IMPL', 'CONST'):
                    alien += relative_names(' '.join(p[1:]), user)
            if alien:
                failures.append(dict(**{'class': 'relative-name-in-generated-code', 'mode': 'scan'}, input=r.input_text(),
                                     expected='names of the expansion are absolute paths, keywords, reserved `__` names or the user\'s',
                                     observed=sorted(set(alien))[:6]))
            else:
                validated += 1
        # the names of ALL primitive types redefined at the use site (the items here use none of them)
        prim = []
        for k, (tl, decl) in enumerate(PRIMITIVE_SHADOW):
            for mi, head in enumerate(('#[::derive_ex::derive_ex(%s)]', '#[derive(::derive_ex::Ex)] #[derive_ex(%s)]')):
                prim.append(l2.Module(9 * 10 ** 6 + 2 * k + mi, PRIMITIVES + (head % tl) + '\n' + decl + '\npub fn run() {}',
                                      _Lit('%s %s   [with `struct bool; struct usize; struct u8; ..` in scope]' % ((head % tl).replace('::derive_ex::', ''), decl), -1, 'Kq')))
        # KNOWN FINDING (known_findings.json): a const parameter named like a TYPE in scope (`Option`) - the self type is written
        # `B<Option>`, which rustc reads as a type argument (E0747); the standard derive compiles
        for mi, head in enumerate(('#[::derive_ex::derive_ex(Clone, Debug)]', '#[derive(::derive_ex::Ex)] #[derive_ex(Clone, Debug)]')):
            prim.append(l2.Module(9 * 10 ** 6 + 500 + mi, head + '\npub struct B<const Option: usize>(pub [u8; Option]);\npub fn run() {}',
                                  _Lit(head.replace('::derive_ex::', '') + ' struct B<const Option: usize>([u8; Option]);', -1, 'Kq')))
        l2.compile_batch('c13prim', prim, prelude='', check_only=True, crate_attrs=allow)
        for mo in prim:
            if mo.compiled:
                validated += 1
            else:
                failures.append(dict(**{'class': 'renaming-changes-the-program', 'mode': 'const parameter named like a type' if mo.cid >= 9 * 10 ** 6 + 500
                                        else 'primitive type names redefined'}, input=mo.meta.input_text(),
                                     expected='compiles: generated code does not depend on what the scope calls `bool`, `usize`, ..',
                                     observed=[d['message'] for d in mo.diags if d['level'] == 'error'][:3]))
        l2.cleanup('c13prim')
        # impl-level derives, model-free: every name BOUND by the generated impls (`let`, function and closure parameters) is
        # either the user's (it occurs in the input) or in the reserved `__` namespace
        raw = R.run_raw([('A', text[len('#[derive_ex('):text.index(')] ')], text[text.index(')] ') + 3:], None)
                         for cid, bi, name, src, text in impl_programs() if name == 'Kq'] +
                        [('A', 'Neg, Not', 'impl ::core::ops::Neg for &Zq { type Output = Zq; fn neg(self) -> Zq { Zq(1) } }', None),
                         ('A', 'BitOrAssign, BitOr', "impl<'q, Pq: Clone> ::core::ops::BitOr<&'q Pq> for &Zq<Pq> where Pq: Copy { type Output = Zq<Pq>; fn bitor(self, v: &'q Pq) -> Zq<Pq> { todo!() } }", None)])
        for r in raw:
            user = set(re.findall(r'[A-Za-z_]\w*', r.item))
            for p in r.actual:
                if p[0] != 'IMPL':
                    continue
                text = ' '.join(p[1:])
                bound = [m[-1] for m in re.findall(r'\blet (mut )?(\w+)', text)] + \
                        [m[-1] for m in re.findall(r'[(,] (mut )?([A-Za-z_]\w*) :(?! :)', text)] + \
                        re.findall(r'\| (?:mut )?([A-Za-z_]\w*) [|,:]', text)
                alien = sorted(set(b for b in bound if not b.startswith('__') and b not in user and b != 'self'))
                if alien:
                    failures.append(dict(**{'class': 'generated-binder-outside-reserved-namespace', 'mode': 'impl-level'},
                                         input='#[derive_ex(%s)] %s' % (r.attr, r.item), expected='every introduced binder starts with `__`',
                                         observed=alien))
                else:
                    validated += 1
        for name, _ in pb + sb + nbat + vb:
            l2.cleanup(name)
        return dict(evaluations=len(plain) + len(shadow) + len(nostd) + len(viam), validated=validated,
                    programs=len(plain) + len(shadow) + len(nostd) + len(viam), failures=failures, samples=samples)


PROP = C13()
