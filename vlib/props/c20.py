"""C20 — whatever expansion accepts without an error of its own type-checks."""
import itertools

from .. import l2, sx
from .. import run as R
from ..check import Prop

CRATE_ATTRS = '''#![deny(warnings)]
#![allow(dead_code)]
'''
PRELUDE = '''
#[allow(unused_imports)] use ::core::cmp::Ordering;
#[allow(unused_imports)] use ::core::hash::Hasher;
#[allow(unused_imports)] use ::core::marker::PhantomData;
pub trait HasKey { fn k(&self) -> u8; }
impl HasKey for u8 { fn k(&self) -> u8 { *self } }
pub fn by_eq<T: ?Sized>(_: &T, _: &T) -> bool { true }
pub fn by_pcmp<T: ?Sized>(_: &T, _: &T) -> Option<Ordering> { None }
pub fn by_cmp<T: ?Sized>(_: &T, _: &T) -> Ordering { Ordering::Equal }
pub fn by_hash<T: ?Sized, S: Hasher>(_: &T, _: &mut S) {}
pub fn by_k_cmp<T: HasKey>(a: &T, b: &T) -> Ordering { a.k().cmp(&b.k()) }
pub fn by_k_hash<T: HasKey, S: Hasher>(a: &T, s: &mut S) { s.write_u8(a.k()) }
pub trait Tr<X: ?Sized> {}
impl<X: ?Sized> Tr<X> for u8 {}
'''
T = sx.tid('T')
# field types over the parameters: (sexp, needs, has key method on it given T: HasKey)
FTS = [
    (sx.tid('u8'), (), True),
    (T, ('T',), True),
    (sx.tgen('Option', T), ('T',), False),
    (sx.tgen('Vec', T), ('T',), False),
    (sx.tref(T, lt='a'), ('T', "'a"), False),
    (sx.tarray(T, sx.cpath(['N'])), ('T', 'N'), False),
    (sx.tgen('PhantomData', T), ('T',), False),
    (sx.ttuple([T, sx.tid('u8')]), ('T',), False),
    (sx.tid('String'), (), False),
    (sx.tarray(sx.tid('u8'), sx.cpath(['N'])), ('N',), False),
]
I8 = (sx.tid('i8'), (), False)
CMP = ['Ord', 'PartialOrd', 'Eq', 'PartialEq', 'Hash']
BY = {'ord': 'by_cmp', 'partial_ord': 'by_pcmp', 'eq': 'by_eq', 'partial_eq': 'by_eq', 'hash': 'by_hash'}
SUPER = {'Eq': ['PartialEq'], 'PartialOrd': ['PartialEq'], 'Ord': ['Eq', 'PartialOrd', 'PartialEq'], 'Copy': ['Clone']}
BOTH = ['Copy', 'Clone', 'Debug', 'Default'] + CMP
STRUCT_ONLY = ['Add', 'SubAssign', 'Neg', 'BitXor', 'ShlAssign', 'Not']


WR = '#[derive(Debug, PartialEq, Eq, PartialOrd, Ord, Hash)]\npub struct Wr<T: ?Sized>(pub T);\npub type Sl = [u8];\n'
UNSIZED_WRAPPERS = [
    # the last field next to a REFERENCE field of the same parameter (the bound `&'a T: Debug` of the other field must not
    # capture the obligation of the last one)
    ('Debug, Clone, PartialEq', "pub struct X<'a, T> { pub a: &'a T, pub b: T }"),
    ('Debug', "pub struct X<'a, T: ?Sized>(pub &'a T, pub ::std::boxed::Box<T>, pub &'a T, pub T);"),
    ('Debug, Hash', "pub struct X<'a, T>(pub &'a T, #[debug(transparent)] pub T);"),
    ('Debug, PartialEq, Eq, PartialOrd, Ord, Hash', 'pub struct X<U: ?Sized> { pub a: u8, pub b: Wr<U> }'),
    ('Debug, PartialEq', 'pub struct X<T, U>(pub T, pub ::core::mem::ManuallyDrop<U>) where U: ?Sized;'),
    ('Debug', 'pub struct X<U: ?Sized>(pub ::std::cell::RefCell<U>);'),
    ('Debug, Hash', 'pub struct X<U: ?Sized> { pub a: u8, #[debug(ignore)] pub m: u8, pub b: Wr<Wr<U>> }'),
    ('Debug, PartialOrd, PartialEq', "pub struct X<'a, U: ?Sized + 'a> { pub r: &'a u8, pub b: ::std::boxed::Box<U>, pub c: Wr<U> }"),
    # an unsized last field that its tokens do not give away: a type alias, parentheses, a wrapper of an alias
    ('Debug, PartialEq, Hash', 'pub struct X(pub u8, pub Sl);'),
    ('Debug, PartialEq, Eq, PartialOrd, Ord', '#[allow(unused_parens)] pub struct X { pub a: u8, pub b: (str) }'),
    ('Debug, Hash', 'pub struct X { pub a: u8, pub b: Wr<Sl> }'),
]


IMPL_PROGRAMS = [
    ("#[derive_ex(Add)] impl Add<&'static Tag> for Tags { type Output = Tags; .. }",
     "#[derive(Clone)] pub struct Tag(pub u8);\n#[derive(Clone)] pub struct Tags(pub Vec<&'static Tag>);\n"
     "#[::derive_ex::derive_ex(Add)]\nimpl ::core::ops::Add<&'static Tag> for Tags { type Output = Tags; "
     "fn add(mut self, rhs: &'static Tag) -> Tags { self.0.push(rhs); self } }\npub fn run() {}"),
    ("#[derive_ex(Add)] impl<'a> Add<&'a Tag> for Acc<'a> { type Output = Acc<'a>; .. }",
     "#[derive(Clone)] pub struct Tag(pub u8);\n#[derive(Clone)] pub struct Acc<'a>(pub Vec<&'a Tag>);\n"
     "#[::derive_ex::derive_ex(Add)]\nimpl<'a> ::core::ops::Add<&'a Tag> for Acc<'a> { type Output = Acc<'a>; "
     "fn add(mut self, rhs: &'a Tag) -> Acc<'a> { self.0.push(rhs); self } }\npub fn run() {}"),
    ("#[derive_ex(Sub, SubAssign)] impl<'a> Sub<&'a Tag> for Acc<'a> { type Output = Self; .. }",
     "#[derive(Clone)] pub struct Tag(pub u8);\n#[derive(Clone)] pub struct Acc<'a>(pub Vec<&'a Tag>);\n"
     "#[::derive_ex::derive_ex(Sub, SubAssign)]\nimpl<'a> ::core::ops::Sub<&'a Tag> for Acc<'a> { type Output = Self; "
     "fn sub(mut self, rhs: &'a Tag) -> Self { self.0.push(rhs); self } }\npub fn run() {}"),
]


# generic parameters spelled as raw identifiers (what `cargo fix --edition` leaves behind): the field types mention them, and
# the `FieldType: Trait` predicate is what makes the impl compile ([u8; N]: Default does not hold for every N)
RAW_PARAM_PROGRAMS = [
    ('#[derive_ex(Default)] struct X<const r#N: usize> { data: [u8; r#N] }',
     '#[::derive_ex::derive_ex(Default)]\npub struct X<const r#N: usize> { pub data: [u8; r#N] }\npub fn run() {}'),
    ('#[derive(Ex)] #[derive_ex(Default, Clone)] struct X<const r#K: usize>(Tag<r#K>);   [Tag<K>: Default / Clone for K = 0 only]',
     'pub struct Tag<const K: usize>;\nimpl Default for Tag<0> { fn default() -> Self { Tag } }\nimpl Clone for Tag<0> { fn clone(&self) -> Self { Tag } }\n'
     '#[derive(::derive_ex::Ex)]\n#[derive_ex(Default, Clone)]\npub struct X<const r#K: usize>(pub Tag<r#K>);\npub fn run() {}'),
    ('#[derive_ex(Default, Debug, PartialEq)] enum E<r#T, const r#IN: usize> { #[default] A(r#T, [r#T; r#IN]), B }',
     '#[::derive_ex::derive_ex(Default, Debug, PartialEq)]\npub enum E<r#T, const r#IN: usize> { #[default] A(r#T, [r#T; r#IN]), B }\npub fn run() {}'),
    ('#[derive_ex(Default)] struct X<const N: usize>([u8; r#N]);   [declared plain, used raw]',
     '#[::derive_ex::derive_ex(Default)]\npub struct X<const N: usize>(pub [u8; r#N]);\npub fn run() {}'),
    ('#[derive_ex(Default)] struct X<const r#N: usize>([u8; N]);   [declared raw, used plain]',
     '#[::derive_ex::derive_ex(Default)]\npub struct X<const r#N: usize>(pub [u8; N]);\npub fn run() {}'),
    ('#[derive_ex(Default, Hash)] struct X<r#T>(Opt<r#T>, Opt<T>);   [Opt<T>: Default only for u8]',
     'pub struct Opt<T>(pub Option<T>);\nimpl Default for Opt<u8> { fn default() -> Self { Opt(None) } }\nimpl ::core::hash::Hash for Opt<u8> { fn hash<H: Hasher>(&self, _: &mut H) {} }\n'
     '#[::derive_ex::derive_ex(Default, Hash)]\npub struct X<r#T>(pub Opt<r#T>, pub Opt<T>);\npub fn run() {}'),
]


# `Self` in the user-written pieces of an item that derives `Eq` (the hidden `Eq` assertion must be a place where `Self` means
# the type): a field type, a key expression, a bound, the where-clause
SELF_WITH_EQ_PROGRAMS = [
    ('#[derive_ex(Eq, PartialEq)] struct X<T> { v: T, w: PhantomData<(T, Self)> }',
     '#[::derive_ex::derive_ex(Eq, PartialEq)]\npub struct X<T> { pub v: T, pub w: PhantomData<(T, Self)> }\npub fn run() {}'),
    ('#[derive(Ex)] #[derive_ex(Eq, PartialEq, Hash)] struct X<T>(#[eq(key = Self::k(&$))] T);  impl<T> X<T> { fn k(_: &T) -> u8 }',
     '#[derive(::derive_ex::Ex)]\n#[derive_ex(Eq, PartialEq, Hash)]\npub struct X<T>(#[eq(key = Self::k(&$))] pub T);\nimpl<T> X<T> { fn k(_: &T) -> u8 { 0 } }\npub fn run() {}'),
    ('#[derive_ex(Eq, PartialEq, bound(T: Tr<Self>, ..))] enum X<T> { A(T), B }',
     '#[::derive_ex::derive_ex(Eq, PartialEq, bound(T: Tr<Self>, ..))]\npub enum X<T> { A(T), B }\npub fn run() {}'),
    ('#[derive_ex(Eq, PartialEq, Ord, PartialOrd)] enum X<T> where Self: Sized { A(#[ord(by = Self::c)] T), B { x: Option<Box<Self>> } }',
     '#[::derive_ex::derive_ex(Eq, PartialEq, Ord, PartialOrd)]\npub enum X<T> where Self: Sized { A(#[ord(by = Self::c)] T), B { x: Option<Box<Self>> } }\n'
     'impl<T> X<T> { fn c(_: &T, _: &T) -> Ordering { Ordering::Equal } }\npub fn run() {}'),
]


# KNOWN FINDING (known_findings.json): the generic parameters of the item are declared again, with the user's spans, by every
# generated impl - outside the scope of an `#[allow(..)]` written on the item, so a parameter with an unconventional name
# draws the naming lint from derive_ex's impls although the item silences it (the standard derive draws none)
PARAM_NAME_LINT_PROGRAMS = [
    # KNOWN FINDING as well (same family): a `#[deprecated]` field / variant is named by the generated impls
    ('#[derive_ex(Clone, Debug)] struct Y { #[deprecated] a: u8, b: u8 }',
     '#[::derive_ex::derive_ex(Clone, Debug)]\npub struct Y { #[deprecated] pub a: u8, pub b: u8 }\npub fn run() {}'),
    ('#[allow(non_upper_case_globals)] #[derive_ex(Clone)] struct Y<const nn: usize>([u8; nn]);',
     '#[allow(non_upper_case_globals)]\n#[::derive_ex::derive_ex(Clone)]\npub struct Y<const nn: usize>(pub [u8; nn]);\npub fn run() {}'),
    ('#[allow(non_camel_case_types)] #[derive(Ex)] #[derive_ex(Clone)] struct Y<t>(t);',
     '#[allow(non_camel_case_types)]\n#[derive(::derive_ex::Ex)]\n#[derive_ex(Clone)]\npub struct Y<t>(pub t);\npub fn run() {}'),
]


# `$` handed DIRECTLY to a call (`Reverse($)`, `f($)`, `Some($)`): the field expression that replaces `$` is parenthesised, so
# every generated item that embeds the key has to silence `unused_parens` for itself (the crates deny warnings)
KEY_CALL_PROGRAMS = [
    ('#[derive_ex(Eq, PartialEq, Ord, PartialOrd, Hash)] struct X(#[ord(key = ::core::cmp::Reverse($))] u8, u8);',
     '#[::derive_ex::derive_ex(Eq, PartialEq, Ord, PartialOrd, Hash)]\npub struct X(#[ord(key = ::core::cmp::Reverse($))] pub u8, pub u8);\npub fn run() {}'),
    ('#[derive(Ex)] #[derive_ex(Eq, PartialEq, Ord, PartialOrd, Hash)] enum E { A(#[ord(key = kf($))] u8), B { #[eq(key = Some($))] #[ord(key = Some($))] b: u8 } }',
     '#[derive(::derive_ex::Ex)]\n#[derive_ex(Eq, PartialEq, Ord, PartialOrd, Hash)]\npub enum E { A(#[ord(key = kf($))] u8), B { #[eq(key = Some($))] #[ord(key = Some($))] b: u8 } }\n'
     'pub fn kf(x: u8) -> u8 { x }\npub fn run() {}'),
    ('#[derive_ex(Eq, PartialEq, Hash)] struct X<T: Eq + ::core::hash::Hash>(#[eq(key = Some(&$))] T, #[hash(key = ($))] #[eq(key = kf($))] u8);',
     '#[::derive_ex::derive_ex(Eq, PartialEq, Hash)]\npub struct X<T: Eq + ::core::hash::Hash>(#[eq(key = Some(&$))] pub T, #[hash(key = ($))] #[eq(key = kf($))] pub u8);\n'
     'pub fn kf(x: u8) -> u8 { x }\npub fn run() {}'),
]


# `Self` inside a field type of a struct that derives an operator: the impls for `&X` have to spell it out (there `Self` is the
# reference)
SELF_FIELD_OPERATOR_PROGRAMS = [
    ('#[derive_ex(Add)] struct X(u8, W<Self>);   [W<A>: Add in all four forms]',
     'pub struct W<A>(pub u8, pub PhantomData<fn() -> A>);\n'
     'impl<A> ::core::ops::Add for W<A> { type Output = W<A>; fn add(self, r: W<A>) -> W<A> { W(self.0 + r.0, PhantomData) } }\n'
     "impl<'a, A> ::core::ops::Add<&'a W<A>> for W<A> { type Output = W<A>; fn add(self, r: &W<A>) -> W<A> { W(self.0 + r.0, PhantomData) } }\n"
     "impl<'a, A> ::core::ops::Add<W<A>> for &'a W<A> { type Output = W<A>; fn add(self, r: W<A>) -> W<A> { W(self.0 + r.0, PhantomData) } }\n"
     "impl<'a, 'b, A> ::core::ops::Add<&'b W<A>> for &'a W<A> { type Output = W<A>; fn add(self, r: &W<A>) -> W<A> { W(self.0 + r.0, PhantomData) } }\n"
     '#[::derive_ex::derive_ex(Add)]\npub struct X(pub u8, pub W<Self>);\npub fn run() {}'),
]


# user crates of OLDER EDITIONS (2015: a path starting with `::` is looked up in the crate root; 2018): the generated code
# must not take its edition from the user's tokens
EDITION_PROGRAMS = [
    ('#[derive_ex(Default, Debug, Clone)] struct X { #[default("abc")] s: String, #[default(NAME)] t: String, #[default(5)] n: u8 }',
     '#[::derive_ex::derive_ex(Default, Debug, Clone)]\npub struct X { #[default("abc")] pub s: String, #[default(NAME)] pub t: String, #[default(5)] pub n: u8 }\npub const NAME: &str = "n";\npub fn run() {}'),
    ('#[derive(Ex)] #[derive_ex(Default, Debug)] #[default(Self::NEW)] struct X(u8);',
     '#[derive(::derive_ex::Ex)]\n#[derive_ex(Default, Debug)]\n#[default(Self::NEW)]\npub struct X(pub u8);\nimpl X { pub const NEW: X = X(1); }\npub fn run() {}'),
    ('#[derive_ex(Default, PartialEq)] enum E { A, #[default] B { #[default("x")] s: String, #[default(mk())] n: u8 } }',
     '#[::derive_ex::derive_ex(Default, PartialEq)]\npub enum E { A, #[default] B { #[default("x")] s: String, #[default(mk())] n: u8 } }\npub fn mk() -> u8 { 1 }\npub fn run() {}'),
    ('#[derive_ex(PartialEq, Eq, Hash, PartialOrd, Ord)] struct X(#[ord(key = $ % 3)] u8, u8);',
     '#[::derive_ex::derive_ex(PartialEq, Eq, Hash, PartialOrd, Ord)]\npub struct X(#[ord(key = $ % 3)] pub u8, pub u8);\npub fn run() {}'),
    ('#[derive(Ex)] #[derive_ex(PartialEq, Eq, Hash, PartialOrd, Ord)] enum E { A(#[partial_eq(key = $ + 1)] #[eq(key = $ + 1)] #[partial_ord(key = $ / 2)] #[ord(key = $ / 2)] #[hash(key = $ + 1)] u8), B }',
     '#[derive(::derive_ex::Ex)]\n#[derive_ex(PartialEq, Eq, Hash, PartialOrd, Ord)]\npub enum E { A(#[partial_eq(key = $ + 1)] #[eq(key = $ + 1)] #[partial_ord(key = $ / 2)] #[ord(key = $ / 2)] #[hash(key = $ + 1)] u8), B }\npub fn run() {}'),
    ('#[derive_ex(PartialEq, PartialOrd, Eq, Ord, Hash)] struct X(#[ord(by = by_cmp)] #[hash(by = by_hash)] u8);',
     '#[::derive_ex::derive_ex(PartialEq, PartialOrd, Eq, Ord, Hash)]\npub struct X(#[ord(by = by_cmp)] #[hash(by = by_hash)] pub u8);\npub fn run() {}'),
    ('#[derive_ex(Clone, Copy, Debug, Add, SubAssign, Neg, Not, Deref, DerefMut)] struct X(Wrapping<u8>);',
     '#[::derive_ex::derive_ex(Clone, Copy, Debug, Add, SubAssign, Neg, Not, Deref, DerefMut)]\npub struct X(pub ::std::num::Wrapping<u8>);\npub fn run() {}'),
    ("#[derive_ex(Clone, Debug, PartialEq, Eq, Hash, Default)] enum E<'a, T, const N: usize> { #[default] A, B(&'a T, [u8; N]), C { #[debug(transparent)] c: Option<T> } }",
     "#[::derive_ex::derive_ex(Clone, Debug, PartialEq, Eq, Hash, Default)]\npub enum E<'a, T, const N: usize> { #[default] A, B(&'a T, [u8; N]), C { #[debug(transparent)] c: Option<T> } }\npub fn run() {}"),
    ('#[derive_ex(Add, AddAssign)] impl Add<X> for X { .. }',
     '#[derive(Clone)] pub struct X(pub u8);\n#[::derive_ex::derive_ex(Add, AddAssign)]\nimpl ::std::ops::Add<X> for X { type Output = X; fn add(self, r: X) -> X { X(self.0 + r.0) } }\npub fn run() {}'),
]


class C20(Prop):
    pid = 'C20'
    tag = 'all generated impls'
    rule = ('dedicated grammar crossing what the other generators keep apart: supertrait-closed trait lists over every derivable '
            'trait x struct (unit/tuple/named) and enum shapes incl. empty and single-variant enums x lifetime / type / const '
            'parameters with inline bounds, defaults and where-clauses mentioning Self x field types over the parameters (T, '
            'Option<T>, Vec<T>, &\'a T, [T; N], PhantomData<T>, (T,u8), [u8; N], concrete) x comparison attributes incl. key on a '
            'generic field (with its explicit bound) and by on first / middle / last fields, debug ignore/transparent, default '
            'values x both entry points; only inputs whose in-process expansion contains no compile_error!; compiled metadata-only '
            'under #![deny(warnings)]; any error or warning is a failure (located in macro output or not, the user pieces being '
            'well-typed by construction); non-trivial = generic or carrying an attribute')

    def n(self, tier):
        return 700 if tier == 'quick' else 50000

    def cases(self, tier, rng):
        out = []
        for k in range(self.n(tier)):
            if k % 16 == 7:
                # two bound sites on one item: a type-level helper attribute `#[ord(bound(T: HasKey, ..))]` supplies what
                # the key expression needs and keeps going; the list's own `bound(u8: Copy)` (no `..`) then ends the
                # resolution.  Documented order: helper attribute first - so the predicate must be there.
                want = [t for t in CMP if rng.random() < 0.5] or ['PartialEq']
                sset = set(want)
                for t in list(sset):
                    sset.update(SUPER.get(t, []))
                traits = [t for t in CMP if t in sset]
                hk = sx.b_pred(sx.wty(T, [sx.tb_trait(['HasKey'])]))
                triv = sx.b_pred(sx.wty(sx.tid('u8'), [sx.tb_trait(['Copy'])]))
                tattr = [sx.a_cmp('ord', sx.m_list(sx.cargs(bnd=[hk, sx.B_DOTS])))]
                kf = sx.field(T, attrs=[sx.a_cmp('ord', sx.m_list(sx.cargs(key='$ . k ( )')))])
                other = sx.field(sx.tid('u8'))
                enum_ = k % 32 == 7
                if enum_:
                    it = sx.enum('E', [sx.variant('V0', sx.unnamed([other, kf])), sx.variant('V1', sx.UNIT)],
                                 attrs=tattr, gen=sx.generics([sx.gp_ty('T')]))
                    kw = '(enum ('
                else:
                    it = sx.struct('X', sx.unnamed([kf, other]), attrs=tattr, gen=sx.generics([sx.gp_ty('T')]))
                    kw = '(struct ('
                mode = 'attr' if k % 2 else 'derive'
                tl = [(t, None) for t in traits]
                req = sx.inv_attr(sx.dx(tl, bnd=[triv]), it) if mode == 'attr' else sx.inv_derive(
                    kw + sx.a_derive_ex(sx.dx(tl, bnd=[triv])) + ' ' + it[len(kw):])
                out.append((req, dict(features=('two-bound-sites', 'enum' if enum_ else 'struct', mode) + tuple('tr-' + t for t in traits),
                                      traits=traits, nontrivial=True)))
                continue
            is_enum = rng.random() < 0.45
            pool = BOTH if is_enum else BOTH + STRUCT_ONLY
            want = [t for t in pool if rng.random() < 0.3] or [rng.choice(pool)]
            s = set(want)
            for t in list(s):
                s.update(SUPER.get(t, []))
            ops = [t for t in s if t in STRUCT_ONLY]
            traits = [t for t in pool if t in s]
            deref = (not is_enum) and rng.random() < 0.08
            copy = 'Copy' in traits
            nvar = rng.choice([0, 1, 1, 2, 3]) if is_enum else 1
            variants, needs = [], set()
            attrs_used = set()
            for vi in range(nvar):
                kind = rng.choice(['named', 'tuple', 'unit'])
                n = 0 if kind == 'unit' else (1 if deref else rng.randrange(0, 4))
                fl = []
                for i in range(n):
                    cands = [f for f in FTS]
                    if copy or ops:
                        cands = [f for f in FTS if f is not FTS[3] and f is not FTS[8]] if copy else cands
                    if ops:
                        cands = [I8, FTS[1]]
                    ft = rng.choice(cands)
                    needs.update(ft[1])
                    fl.append(ft)
                variants.append((kind, fl))
            if deref:
                traits = [t for t in traits if t not in ('Default',)] + ['Deref'] + (['DerefMut'] if rng.random() < 0.5 else [])
            dv = rng.randrange(nvar) if nvar else None
            if 'Default' in traits and is_enum and nvar == 0:
                traits.remove('Default')
            cmp_traits = [t for t in traits if t in CMP]
            # per-field attributes
            vs_s = []
            v_has_field_bound = []
            bound_t_haskey = False
            for vi, (kind, fl) in enumerate(variants):
                fs = []
                n_used0 = len([a for a in attrs_used if a in ('key-generic', 'by-generic-bound')])
                attrs_used_before = set(attrs_used)
                by_pos = rng.randrange(len(fl)) if fl and rng.random() < 0.5 else None
                tr_pos = rng.randrange(len(fl)) if fl and 'Debug' in traits and rng.random() < 0.15 else None
                for i, ft in enumerate(fl):
                    fa = []
                    if cmp_traits:
                        r = rng.random()
                        if i == by_pos:
                            # by on a (possibly generic) field: every derived comparison trait gets a function
                            if ft is FTS[1] and rng.random() < 0.6:
                                # the function needs `T: HasKey`: every impl derived from this attribute must carry the bound
                                bnd = [sx.b_pred(sx.wty(T, [sx.tb_trait(['HasKey'])]))]
                                fa.append(sx.a_cmp('ord', sx.m_list(sx.cargs(by='by_k_cmp', bnd=bnd))))
                                if 'Hash' in traits:
                                    fa.append(sx.a_cmp('hash', sx.m_list(sx.cargs(by='by_k_hash', bnd=bnd))))
                                attrs_used.add('by-generic-bound')
                            else:
                                fa.append(sx.a_cmp('ord', sx.m_list(sx.cargs(by='by_cmp'))))
                                if 'Hash' in traits:
                                    fa.append(sx.a_cmp('hash', sx.m_list(sx.cargs(by='by_hash'))))
                            attrs_used.add('by@%s' % ('first' if i == 0 else 'last' if i == len(fl) - 1 else 'middle'))
                        elif r < 0.15 and ft[2]:
                            # key on a field of generic type T, with the bound the key needs
                            bnd = [sx.b_pred(sx.wty(T, [sx.tb_trait(['HasKey'])]))] if 'T' in ft[1] else None
                            fa.append(sx.a_cmp('ord', sx.m_list(sx.cargs(key='$ . k ( )', bnd=bnd))))
                            attrs_used.add('key-generic' if bnd else 'key')
                        elif r < 0.25:
                            fa.append(sx.a_cmp('ord', sx.m_list(sx.cargs(ignore=True))))
                            attrs_used.add('ignore')
                        elif r < 0.33 and ('Ord' in traits or 'PartialOrd' in traits):
                            fa.append(sx.a_cmp('ord', sx.m_list(sx.cargs(reverse=True))))
                            attrs_used.add('reverse')
                    if 'Debug' in traits:
                        if i == tr_pos:
                            fa.append(sx.a_debug(sx.m_list(sx.gargs(transparent=True))))
                            attrs_used.add('transparent')
                        elif rng.random() < 0.15:
                            fa.append(sx.a_debug(sx.m_list(sx.gargs(ignore=True))))
                            attrs_used.add('debug-ignore')
                    if 'Default' in traits and ft is FTS[0] and rng.random() < 0.3:
                        fa.append(sx.a_default(sx.m_list(sx.dargs('7'))))
                        attrs_used.add('default-value')
                    if 'Default' in traits and ft is FTS[8] and rng.random() < 0.3:
                        fa.append(sx.a_default(sx.m_list(sx.dargs('"s"'))))
                        attrs_used.add('default-into')
                    fs.append(sx.field(ft[0], name=(('_f%d' if i == 1 else 'f%d') % i) if kind == 'named' else None, attrs=fa))
                body = sx.named(fs) if kind == 'named' else (sx.unnamed(fs) if kind == 'tuple' else sx.UNIT)
                va = [sx.a_default(sx.M_PATH)] if ('Default' in traits and is_enum and vi == dv and (nvar > 1 or rng.random() < 0.5)) else []
                vs_s.append((body, va))
                v_has_field_bound.append(any('bound ( T : HasKey )' in f or 'HasKey' in f for f in fs))
            # a variant-level `bound(T: Trait)` (no `..`) on a non-last variant: sufficient for that variant's fields, and
            # it must not leak into the variants after it
            if is_enum and nvar >= 2 and 'T' in needs and rng.random() < 0.45:
                # (a trait whose sub-traits are derived too is left alone: restricting `Clone` below what the `Copy` impl
                # can prove of its supertrait is the user's own type error)
                cands = [t for t in ('Debug', 'Clone', 'PartialEq', 'Hash') if t in traits
                         and not (t == 'Clone' and 'Copy' in traits)
                         and not (t == 'PartialEq' and set(traits) & {'Eq', 'PartialOrd', 'Ord'})]
                if cands:
                    tr = rng.choice(cands)
                    path = {'Debug': ['core', 'fmt', 'Debug'], 'Clone': ['Clone'], 'PartialEq': ['PartialEq'],
                            'Hash': ['core', 'hash', 'Hash']}[tr]
                    # prefer a variant without parameter-typed fields: an empty `bound()` is sufficient for it and says
                    # nothing about `T`, so the later variants depend on their own default bounds
                    # (a variant whose fields carry their own helper bound is left alone: a per-trait bound without `..`
                    # on the variant comes BEFORE the field's helper attribute in the documented order and would hide it)
                    cand = [i for i in range(nvar - 1) if not v_has_field_bound[i]]
                    if not cand:
                        cand = None
                    free = [i for i in (cand or []) if not any('T' in ft[1] for ft in variants[i][1])]
                    vi = rng.choice(free) if free else (rng.choice(cand) if cand else None)
                    if vi is not None:
                        pred = [] if free else [sx.b_pred(sx.wty(T, [sx.tb_trait(path)]))]
                        attrs_used.add('variant-bound-empty' if free else 'variant-bound-pred')
                        vs_s[vi] = (vs_s[vi][0], vs_s[vi][1] + [sx.a_derive_ex(sx.dx([(tr, (pred, False))]))])
                        attrs_used.add('variant-bound-' + tr)
            # generics: only parameters some field uses; a default only on the last parameter
            params, where = [], []
            if "'a" in needs:
                params.append(sx.gp_lt('a'))
            self_where = False
            has_n = 'N' in needs
            if 'T' in needs:
                style = rng.randrange(4)
                bs = [[], [sx.tb_trait(['Clone'])], [sx.tb_trait([sx.seg('Tr', ('angle', [sx.gty(sx.tid('Self'))]))])], []][style]
                params.append(sx.gp_ty('T', bs, default=sx.tid('u8') if (rng.random() < 0.2 and not has_n) else None))
                if style == 3:
                    where.append(sx.wty(T, [sx.tb_trait(['Sized'])]))
            if has_n:
                params.append(sx.gp_const('N', sx.tid('usize'), default=sx.clit('3') if rng.random() < 0.2 else None))
            if rng.random() < 0.2:
                where.append(sx.wty(sx.tid('Self'), [sx.tb_trait(['Sized'])]))
                self_where = True
            gen = sx.generics(params, where)
            if is_enum:
                it = sx.enum('E', [sx.variant('V%d' % i, b, attrs=va) for i, (b, va) in enumerate(vs_s)], gen=gen)
                kw = '(enum ('
            else:
                it = sx.struct('X', vs_s[0][0], gen=gen)
                kw = '(struct ('
            mode = 'attr' if k % 2 else 'derive'
            tl = [(t, None) for t in traits]
            # a shared `bound(.., <true predicate>)`: `..` keeps every default bound wherever it stands in the list
            sb = None
            if rng.random() < 0.25:
                triv = sx.b_pred(sx.wty(sx.tid('u8'), [sx.tb_trait(['Copy'])]))
                sb = rng.choice([[sx.B_DOTS, triv], [triv, sx.B_DOTS], [sx.B_DOTS]])
                attrs_used.add('shared-bound-dots-first' if sb[0] == sx.B_DOTS and len(sb) > 1 else 'shared-bound-dots')
            req = sx.inv_attr(sx.dx(tl, bnd=sb), it) if mode == 'attr' else sx.inv_derive(
                kw + sx.a_derive_ex(sx.dx(tl, bnd=sb)) + ' ' + it[len(kw):])
            feats = ['enum%d' % nvar if is_enum else 'struct', mode] + ['tr-' + t for t in traits] + sorted(attrs_used) + \
                    ['gen-' + x for x in sorted(needs)] + (['where-Self'] if self_where else [])
            out.append((req, dict(features=tuple(sorted(set(feats))), traits=traits,
                                  nontrivial=bool(needs) or bool(attrs_used))))
        return out

    def oracle(self, tier, rng, suspicious):
        results = self.l1_results or R.run_cases(self.cases(tier, rng))
        mods, own_errors = [], 0
        for r in results:
            if any(p[0] in ('ERR', 'PANIC') for p in r.actual):
                own_errors += 1           # derive_ex answered with a message of its own: outside this property
                continue
            head = ('#[::derive_ex::derive_ex(%s)]\n' % r.attr) if r.mode == 'A' else '#[derive(::derive_ex::Ex)]\n'
            mods.append(l2.Module(r.cid, l2.decl(head, r.item, r.cid) + '\npub fn run() {}', r))
        # hand-written: a possibly-unsized LAST field that is not the bare `?Sized` parameter but a wrapper around it
        class _Lit:
            def __init__(self, text):
                self.text, self.meta = text, dict(nontrivial=True, traits=['Debug', 'PartialEq', 'Hash'])
            def input_text(self):
                return self.text
        for k, (attr, decl) in enumerate(UNSIZED_WRAPPERS):
            for mode in ('A', 'D'):
                head = ('#[::derive_ex::derive_ex(%s)]\n' % attr) if mode == 'A' else '#[derive(::derive_ex::Ex)]\n#[derive_ex(%s)]\n' % attr
                text = ('#[derive_ex(%s)] %s' % (attr, decl)) if mode == 'A' else '#[derive(Ex)] #[derive_ex(%s)] %s' % (attr, decl)
                mods.append(l2.Module(3 * 10 ** 6 + 2 * k + (mode == 'D'),
                                      WR + head + decl + '\npub fn run() {}', _Lit(text)))
        # operators derived from an `impl` whose operand is a reference with an explicit, load-bearing lifetime
        for k, (text, src) in enumerate(IMPL_PROGRAMS):
            mods.append(l2.Module(4 * 10 ** 6 + k, src, _Lit(text)))
        for k, (text, src) in enumerate(RAW_PARAM_PROGRAMS + PARAM_NAME_LINT_PROGRAMS + SELF_WITH_EQ_PROGRAMS + SELF_FIELD_OPERATOR_PROGRAMS + KEY_CALL_PROGRAMS):
            mods.append(l2.Module(5 * 10 ** 6 + k, src, _Lit(text)))
        nb = max(1, min(R.NPROC, len(mods) // 40 + 1))
        batches = [('c20_%d' % k, mods[k::nb]) for k in range(nb)]
        l2.compile_parallel(batches, prelude=PRELUDE, check_only=True, crate_attrs=CRATE_ATTRS)
        # the same kind of program in crates of edition 2015 / 2018
        emods = {}
        for ed in ('2015', '2018'):
            emods[ed] = [l2.Module(6 * 10 ** 6 + 100 * int(ed[2:]) + k, src, _Lit(text + '   [edition %s crate]' % ed)) for k, (text, src) in enumerate(EDITION_PROGRAMS)]
            l2.compile_batch('c20ed' + ed, emods[ed], prelude='extern crate derive_ex;\n' + PRELUDE.replace('::core::', '::std::'), check_only=True, crate_attrs=CRATE_ATTRS, edition=ed)
            l2.cleanup('c20ed' + ed)
        mods = mods + emods['2015'] + emods['2018']
        failures, validated, samples = [], 0, []
        for mo in mods:
            r = mo.meta
            bad = [d for d in mo.diags if d['level'] in ('error', 'warning')]
            if mo.compiled and not bad:
                validated += 1
                if len(samples) < 3 and r.meta['nontrivial'] and len(r.meta['traits']) > 2:
                    samples.append(dict(input=r.input_text()[:500]))
                continue
            failures.append(dict(**{'class': 'generated-code-rejected-by-rustc', 'mode': bad[0]['code'] or 'error' if bad else 'error'},
                                 input=r.input_text(), expected='no diagnostic under #![deny(warnings)]',
                                 observed=[(d['code'], d['message'][:200], 'in-macro-output' if d['in_macro'] else 'outside') for d in bad][:4]))
        for name, _ in batches:
            l2.cleanup(name)
        return dict(evaluations=len(results), validated=validated, programs=len(mods), failures=failures, samples=samples,
                    answered_by_derive_ex_itself=own_errors)


PROP = C20()
