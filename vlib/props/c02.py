"""C02 — accepted attribute combinations give mutually coherent Eq / Ord / Hash impls."""
import itertools

from .. import cmpgen as G
from .. import l2, sx
from .. import run as R
from .c01 import CmpProp

# one consistent key: every key expression and every by function goes through `x % 3`
UKEY = {a: ('( $ % 3 )', lambda x: x % 3) for a in G.ATTRS}
UBY = {a: ('u_by_' + a, lambda x: x % 3) for a in G.ATTRS}
UPRELUDE = '''
pub fn u_by_ord(a: &u8, b: &u8) -> Ordering { (a % 3).cmp(&(b % 3)) }
pub fn u_by_partial_ord(a: &u8, b: &u8) -> Option<Ordering> { Some((a % 3).cmp(&(b % 3))) }
pub fn u_by_eq(a: &u8, b: &u8) -> bool { a % 3 == b % 3 }
pub fn u_by_partial_eq(a: &u8, b: &u8) -> bool { a % 3 == b % 3 }
pub fn u_by_hash<H: Hasher>(a: &u8, s: &mut H) { s.write_u8(a % 3) }
'''
SETS = [['PartialEq'], ['PartialEq', 'Eq'], ['PartialEq', 'PartialOrd'], ['Ord', 'PartialOrd', 'Eq', 'PartialEq'],
        ['PartialEq', 'Hash'], ['Hash', 'Eq', 'PartialEq'], ['Ord', 'PartialOrd', 'Eq', 'PartialEq', 'Hash'],
        ['Hash', 'PartialOrd', 'PartialEq']]
REV = {'L': 'G', 'G': 'L', 'E': 'E', 'N': 'N'}


_REF = 'pub fn need<T: Eq>() {}\npub fn run() { need::<%s>(); }'
MUST_BE_REFUSED = [
    ('#[derive_ex(Eq, PartialEq)] struct X<T>(#[derive_ex(Eq(bound(T: PartialEq)))] T);   [then `X<P>: Eq` with P(9) != P(9)]',
     '#[::derive_ex::derive_ex(Eq, PartialEq)]\npub struct X<T>(#[derive_ex(Eq(bound(T: PartialEq)))] pub T);\n' + _REF % 'X<P>'),
    ('#[derive(Ex)] #[derive_ex(Eq, PartialEq)] enum E<T> { A { #[derive_ex(Eq(bound(T: PartialEq)))] a: T }, B }',
     '#[derive(::derive_ex::Ex)]\n#[derive_ex(Eq, PartialEq)]\npub enum E<T> { A { #[derive_ex(Eq(bound(T: PartialEq)))] a: T }, B }\n' + _REF % 'E<P>'),
    ('#[derive_ex(Eq, PartialEq, Hash)] struct X<T>(u8, #[derive_ex(Eq(bound()), Hash)] T);',
     '#[::derive_ex::derive_ex(Eq, PartialEq, Hash)]\npub struct X<T>(pub u8, #[derive_ex(Eq(bound()), Hash)] pub T);\n' + _REF % 'X<P>'),
]


_EQH = '(a == b) == (hs(&a) == hs(&b))'
_EQC = '(a == b) == (a.cmp(&b) == Ordering::Equal) && a.partial_cmp(&b) == Some(a.cmp(&b))'
STACKED_COHERENCE = [
    ('#[::derive_ex::derive_ex(PartialEq)]\n#[::derive_ex::derive_ex(Hash)]', '#[eq(key = $ % 3)]', '', _EQH),
    ('#[::derive_ex::derive_ex(Hash)]\n#[::derive_ex::derive_ex(PartialEq)]', '#[eq(key = $ % 3)]', '', _EQH),
    ('#[derive_ex::derive_ex(Hash)]\n#[derive_ex::derive_ex(PartialEq, Eq)]', '#[eq(key = $ % 3)]', '', _EQH),
    ('#[::derive_ex::derive_ex(Ord, PartialOrd)]\n#[::derive_ex::derive_ex(Eq, PartialEq)]', '#[ord(key = $ % 3)]', '', _EQC),
    ('#[::derive_ex::derive_ex(Eq, PartialEq)]\n#[derive_ex(Hash)]\n#[derive_ex::derive_ex(Ord, PartialOrd)]', '#[ord(key = $ % 3)]',
     'use ::derive_ex::derive_ex;', _EQC + ' && ' + _EQH),
    ('#[derive_ex(PartialEq)]\n#[derive_ex(Hash)]', '#[eq(key = $ % 3)]', 'use ::derive_ex::derive_ex;', _EQH),
    # KNOWN FINDING (known_findings.json): under a RENAMED import the macro cannot recognise its sibling lists
    ('#[dx(PartialEq)]\n#[dx(Hash)]', '#[eq(key = $ % 3)]', 'use ::derive_ex::derive_ex as dx;', _EQH),
]


class C02(CmpProp):
    pid = 'C02'
    batch = 'c02'
    observe = ('eq', 'pcmp', 'cmp', 'hash')
    tag = 'bodies of all five comparison impls'
    rule = ('supertrait-closed trait sets x struct / enum-variant fields, each field carrying a combination from the 3136-grid '
            'ACCEPTED for every derived trait, plus combinations the documentation refuses (outcome must be a refusal by derive_ex or coherent impls), all key / by functions expressing one key (x % 3); thorough tier: every accepted '
            'combination of the grid on a one-field and on a two-field struct for each trait set; compiled against the real '
            'proc-macro and checked MODEL-FREE for the laws on all pairs (triples for transitivity) of the cartesian value '
            'product: == <=> partial_cmp==Some(Equal) <=> cmp==Equal, partial_cmp==Some(cmp), == => identical hash feed, == '
            'reflexive/symmetric/transitive, cmp flips and is transitive; non-trivial = some attribute present')
    assumptions = ['u8 impls of PartialEq / PartialOrd / Ord / Hash are lawful (core)']

    def trait_sets(self):
        return SETS

    def cases(self, tier, rng):
        saved = (G.KEY, G.BY)
        G.KEY, G.BY = UKEY, UBY
        try:
            out = self.build_cases(tier, rng)
            # combinations the documentation REFUSES for some derived trait: the property allows exactly two outcomes,
            # a refusal by derive_ex or coherent impls - never an accepted, incoherent set
            pools = {}
            for k in range(160 if tier == 'quick' else 6000):
                traits = SETS[k % len(SETS)]
                if tuple(traits) not in pools:
                    seen, pool = set(), []
                    for c in G.all_combos():
                        rc = G.relevant_combo(traits, c)
                        t = tuple(sorted(rc.items()))
                        if t not in seen and not G.accepted_for(traits, rc):
                            seen.add(t)
                            pool.append(rc)
                    pools[tuple(traits)] = pool
                pool = pools[tuple(traits)]
                if not pool:
                    continue
                rc = rng.choice(pool)
                fl = [('u8', rc), ('u8', {})] if k % 3 else [('u8', {}), ('u8', rc)]
                is_enum = k % 4 == 0
                variants = [(k % 2 == 0, fl)] + ([(False, [])] if is_enum else [])
                name = 'E' if is_enum else 'X'
                req = G.make_item(name, variants, is_enum, traits, 'attr' if k % 2 else 'derive')
                feats = ['doc-refuses', 'traits:' + '+'.join(traits)] + ['%s(%s)' % (a, o) for a, o in rc.items() if o != '-']
                out.append((req, dict(features=tuple(feats), nontrivial=True, traits=traits, variants=variants,
                                      enum=is_enum, name=name, doc_refuses=True)))
            # explicit discriminants on some variants: the order of variants is their declaration order for every derived
            # impl alike (== / partial_cmp / cmp / hash must keep agreeing)
            k = 0
            for traits in (SETS[2], SETS[3], SETS[6], SETS[7]):
                for discrs in (['1', None], ['2', None, None], [None, '5', None], ['3', '1', None], [None, None, '7'],
                               ['1', None, '0']):
                    for fields in (False, True):
                        k += 1
                        n = len(discrs)
                        variants = [(fields and i % 2 == 0, [('u8', {})] if (fields and i != 1) else []) for i in range(n)]
                        req = G.make_item('E', variants, True, traits, 'attr' if k % 2 else 'derive', discrs=discrs,
                                          item_attrs=[sx.a_other('repr ( u8 )')] if fields else [])
                        out.append((req, dict(features=('explicit-discriminants', 'traits:' + '+'.join(traits),
                                                        'fields' if fields else 'units', ','.join(d or '_' for d in discrs)),
                                              nontrivial=True, traits=traits, variants=variants, enum=True, name='E')))
            if tier == 'thorough':
                # the whole accepted grid, one combination per single-field struct, per trait set
                for traits in SETS:
                    seen = set()
                    for c in G.all_combos():
                        rc = G.relevant_combo(traits, c)
                        t = tuple(sorted(rc.items()))
                        if t in seen or not G.accepted_for(traits, rc):
                            continue
                        seen.add(t)
                        variants = [(False, [('u8', rc), ('u8', {})])]
                        req = G.make_item('X', variants, False, traits, 'attr' if len(seen) % 2 else 'derive')
                        feats = ['grid', 'traits:' + '+'.join(traits)] + ['%s(%s)' % (a, o) for a, o in rc.items() if o != '-']
                        out.append((req, dict(features=tuple(feats), nontrivial=True, traits=traits, variants=variants,
                                              enum=False, name='X')))
        finally:
            G.KEY, G.BY = saved
        return out

    def n(self, tier):
        return 320 if tier == 'quick' else 6000

    def oracle(self, tier, rng, suspicious):
        saved = (G.KEY, G.BY, G.PRELUDE)
        G.KEY, G.BY, G.PRELUDE = UKEY, UBY, G.PRELUDE + UPRELUDE
        try:
            return self._oracle(tier, rng)
        finally:
            G.KEY, G.BY, G.PRELUDE = saved

    def _oracle(self, tier, rng):
        results = self.l1_results or R.run_cases(self.cases(tier, rng))
        mods = []
        refused = 0
        for r in results:
            m = r.meta
            if m.get('doc_refuses') and any(p[0] == 'ERR' for p in r.actual):
                refused += 1        # derive_ex refuses: one of the two outcomes the property allows
                continue
            head = ('#[::derive_ex::derive_ex(%s)]\n' % r.attr) if r.mode == 'A' else '#[derive(::derive_ex::Ex)]\n'
            nf = max([len(fl) for _, fl in m['variants']] + [0])
            dom = [0, 1, 2, 3] if nf <= 2 else [0, 1, 3]
            values = (G.values_of(m['variants'], dom, [0, 1, 2]) if 'fixed_values' not in m else [])     # lawful values only (P(9) is NaN-like)
            if len(values) > 40:
                values = values[::(len(values) // 40 + 1)]
            values = m.get('fixed_values') or values
            m['values'] = values
            mods.append(l2.Module(r.cid, G.module_source(r.cid, head, r.item, m['name'], m['variants'], m['enum'],
                                                         m['traits'], values), r))
        nb = max(1, min(R.NPROC, len(mods) // 40 + 1))
        batches = [('c02_%d' % k, mods[k::nb]) for k in range(nb)]
        exes = l2.compile_parallel(batches, prelude=G.PRELUDE + G.P_TYPE)
        obs = {}
        for name, exe in exes.items():
            if exe:
                obs.update(l2.run_exe(exe)[1])
        failures, validated, samples, checks = [], 0, [], 0
        for mo in mods:
            r = mo.meta
            if not mo.compiled:
                failures.append(dict(**{'class': 'accepted-combination-does-not-compile', 'mode': 'compile'}, input=r.input_text(),
                                     expected='compiles', observed=[d['message'] for d in mo.diags if d['level'] == 'error'][:3]))
                continue
            o = dict((k, v) for k, v in obs.get(str(mo.cid), []))
            n = len(r.meta['values'])
            bad = law_violation(o, n)
            checks += n * n
            if bad:
                failures.append(dict(**{'class': 'derived-impls-disagree', 'mode': bad[0]}, input=r.input_text(),
                                     values=[list(v) for v in r.meta['values']][:50], expected=bad[0], observed=bad[1]))
            else:
                validated += 1
                if len(samples) < 2 and r.meta['nontrivial'] and len(o) >= 3:
                    samples.append(dict(input=r.input_text()[:400], laws_checked_on_pairs=n * n))
        for name, _ in batches:
            l2.cleanup(name)
        # generic items whose explicit bounds do not imply `Eq` for a compared field: `Eq` must be refused (an `X<NaN-like>` that
        # is `Eq` breaks reflexivity of `==`); hand-written, compiled against the real macro
        class _Lit:
            def __init__(self, text):
                self.text, self.meta = text, dict(nontrivial=True)
            def input_text(self):
                return self.text
        lits = [l2.Module(8 * 10 ** 6 + k, src, _Lit(text)) for k, (text, src) in enumerate(MUST_BE_REFUSED)]
        l2.compile_parallel([('c02lit', lits)], prelude=G.PRELUDE + G.P_TYPE, check_only=True)
        for mo in lits:
            if mo.compiled:
                failures.append(dict(**{'class': 'eq-accepted-without-eq-component', 'mode': 'generic'}, input=mo.meta.input_text(),
                                     expected='refused at compile time: `X<P>` would be `Eq` although `P(9) != P(9)`', observed='compiles'))
            else:
                validated += 1
        l2.cleanup('c02lit')
        # one request split over several attribute-macro invocations that share a helper attribute (`#[eq(key = ..)]` speaks
        # for PartialEq AND Hash, `#[ord(key = ..)]` for all five): the impls must stay coherent however the lists are spelled
        st = [l2.Module(8 * 10 ** 6 + 100 + k, '%s\npub struct X(%s pub u8);\n%s\npub fn run() { let (a, b) = (X(0), X(3)); println!("%d\\tr\\t{}", %s); }'
                        % (heads, fattr, extra, 8 * 10 ** 6 + 100 + k, test), _Lit('%s struct X(%s u8);' % (heads.replace('\n', ' '), fattr)))
              for k, (heads, fattr, extra, test) in enumerate(STACKED_COHERENCE)]
        exe = l2.compile_batch('c02stack', st, prelude=G.PRELUDE + G.P_TYPE +
                               'pub fn hs<T: Hash>(t: &T) -> String { let mut h = Rec(String::new()); t.hash(&mut h); h.0 }\n')
        sobs = l2.run_exe(exe)[1] if exe else {}
        for mo in st:
            got = sobs.get(str(mo.cid))
            if not mo.compiled or got != [('r', 'true')]:
                failures.append(dict(**{'class': 'derived-impls-disagree', 'mode': 'stacked-lists'}, input=mo.meta.input_text(),
                                     expected='coherent impls: ' + STACKED_COHERENCE[mo.cid - 8 * 10 ** 6 - 100][3],
                                     observed=[d['message'] for d in mo.diags if d['level'] == 'error'][:3] or got))
            else:
                validated += 1
        l2.cleanup('c02stack')
        lits = lits + st
        return dict(evaluations=len(mods) + refused + len(lits), validated=validated + refused, programs=len(mods) + len(lits), pair_checks=checks,
                    refused_by_derive_ex=refused, failures=failures, samples=samples)


def law_violation(o, n):
    """o: {'eq': matrix string, 'pcmp': .., 'cmp': .., 'hash': 'feed|feed|..'} over n values"""
    eq, pc, cm = o.get('eq'), o.get('pcmp'), o.get('cmp')
    hs = o['hash'].split('|')[:-1] if 'hash' in o else None
    at = lambda s, i, j: s[i * n + j]
    for i in range(n):
        for j in range(n):
            if eq and pc and (at(eq, i, j) == 'T') != (at(pc, i, j) == 'E'):
                return ('a == b <=> partial_cmp(a,b) == Some(Equal)', 'values #%d, #%d: eq=%s partial_cmp=%s' % (i, j, at(eq, i, j), at(pc, i, j)))
            if eq and cm and (at(eq, i, j) == 'T') != (at(cm, i, j) == 'E'):
                return ('a == b <=> cmp(a,b) == Equal', 'values #%d, #%d: eq=%s cmp=%s' % (i, j, at(eq, i, j), at(cm, i, j)))
            if pc and cm and at(pc, i, j) != at(cm, i, j):
                return ('partial_cmp == Some(cmp)', 'values #%d, #%d: %s vs %s' % (i, j, at(pc, i, j), at(cm, i, j)))
            if eq and hs and at(eq, i, j) == 'T' and hs[i] != hs[j]:
                return ('a == b => equal hash feeds', 'values #%d, #%d: %s vs %s' % (i, j, hs[i], hs[j]))
            if cm and at(cm, j, i) != REV[at(cm, i, j)]:
                return ('cmp flips under swap', 'values #%d, #%d' % (i, j))
            if eq and at(eq, i, j) != at(eq, j, i):
                return ('== symmetric', 'values #%d, #%d' % (i, j))
        if eq and at(eq, i, i) != 'T':
            return ('== reflexive', 'value #%d' % i)
    m = min(n, 14)
    for i, j, k in itertools.product(range(m), repeat=3):
        if eq and at(eq, i, j) == 'T' and at(eq, j, k) == 'T' and at(eq, i, k) != 'T':
            return ('== transitive', 'values #%d, #%d, #%d' % (i, j, k))
        if cm and at(cm, i, j) == 'L' and at(cm, j, k) == 'L' and at(cm, i, k) != 'L':
            return ('cmp transitive', 'values #%d, #%d, #%d' % (i, j, k))
    return None


PROP = C02()
