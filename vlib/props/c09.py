"""C09 — operators derived from a user impl forward to it faithfully."""
import itertools

from .. import l2, sx
from .. import run as R
from ..check import Prop
from ..gen import ImplGen

OPS = [('Add', 'add'), ('BitAnd', 'bitand'), ('BitOr', 'bitor'), ('BitXor', 'bitxor'), ('Div', 'div'), ('Mul', 'mul'),
       ('Rem', 'rem'), ('Shl', 'shl'), ('Shr', 'shr'), ('Sub', 'sub')]

PRELUDE = '''
use ::core::ops::*;
use ::std::cell::Cell;
thread_local! { pub static CALLS: Cell<u32> = Cell::new(0); pub static CLONES: Cell<u32> = Cell::new(0); }
pub fn tick() { CALLS.with(|c| c.set(c.get() + 1)); }
pub fn counts() -> (u32, u32) { (CALLS.with(|c| c.replace(0)), CLONES.with(|c| c.replace(0))) }
'''
TYPES = '''
#[derive(Debug, PartialEq)] pub struct X(pub String);
impl Clone for X { fn clone(&self) -> X { CLONES.with(|c| c.set(c.get() + 1)); X(format!("c[{}]", self.0)) } }
#[derive(Debug, PartialEq)] pub struct Y(pub String);
impl Clone for Y { fn clone(&self) -> Y { CLONES.with(|c| c.set(c.get() + 1)); Y(format!("c[{}]", self.0)) } }
#[derive(Debug, PartialEq)] pub struct G<T>(pub String, pub T);
pub trait Wt<X: ?Sized> {} impl<X: ?Sized> Wt<X> for u8 {}
impl<T: Clone> Clone for G<T> { fn clone(&self) -> G<T> { CLONES.with(|c| c.set(c.get() + 1)); G(format!("c[{}]", self.0), self.1.clone()) } }
'''


# operands that are references WITH an explicit lifetime: such a type is an operand type like any other (it is not the
# "reference form" of its pointee), so the derived forms take it by value and by (elided) reference to it
def lifetime_modules():
    X = lambda v: 'X("%s".to_string())' % v
    Yv = 'Y("b".to_string())'
    def block(tag, setup, expr, want, extra=''):
        return ('    { %s counts(); let c = %s; let (n, k) = counts(); println!("@ID@\\t%s\\t{:?}\\t{}\\t{}", c, n, k); %s}'
                % (setup, expr, tag, extra), (tag,) + want)
    out = []
    # 1. Rhs = &'a Y
    item = ("impl<'a> ::core::ops::Sub<&'a Y> for X { type Output = X; fn sub(self, rhs: &'a Y) -> X { tick(); "
            "X(format!(\"({}-{})\", self.0, rhs.0)) } }")
    bl = [block('rv', 'let a = %s; let b = %s;' % (X('a'), Yv), '&a - &b', ('X("(c[a]-b)")', '1', '1')),
          block('vr', 'let a = %s; let b = %s;' % (X('a'), Yv), 'a - &&b', ('X("(a-b)")', '1', '0')),
          block('rr', 'let a = %s; let b = %s;' % (X('a'), Yv), '&a - &&b', ('X("(c[a]-b)")', '1', '1'))]
    out.append(('Sub', item, bl))
    # 2. Rhs = &'static str
    item = ("impl ::core::ops::Add<&'static str> for X { type Output = X; fn add(self, rhs: &'static str) -> X { tick(); "
            "X(format!(\"({}-{})\", self.0, rhs)) } }")
    bl = [block('rv', 'let a = %s;' % X('a'), '&a + "s"', ('X("(c[a]-s)")', '1', '1')),
          block('vr', 'let a = %s; let s: &\'static str = "s";' % X('a'), 'a + &s', ('X("(a-s)")', '1', '0')),
          block('rr', 'let a = %s; let s: &\'static str = "s";' % X('a'), '&a + &s', ('X("(c[a]-s)")', '1', '1'))]
    out.append(('Add', item, bl))
    # 3. Op and OpAssign from a base with Rhs = &'a Y
    item = ("impl<'a> ::core::ops::Mul<&'a Y> for X { type Output = X; fn mul(self, rhs: &'a Y) -> X { tick(); "
            "X(format!(\"({}-{})\", self.0, rhs.0)) } }")
    def ablock(tag, expr, want):
        return ('    { let mut a = %s; let b = %s; counts(); %s; let (n, k) = counts(); println!("@ID@\\t%s\\t{:?}\\t{}\\t{}", a, n, k); }'
                % (X('a'), Yv, expr, tag), (tag,) + want)
    bl = [ablock('asg_v', 'a *= &b', ('X("(c[a]-b)")', '1', '1')), ablock('asg_r', 'a *= &&b', ('X("(c[a]-b)")', '1', '1')),
          block('rr', 'let a = %s; let b = %s;' % (X('a'), Yv), '&a * &&b', ('X("(c[a]-b)")', '1', '1'))]
    out.append(('Mul, MulAssign', item, bl))
    # 4. `Self` nested in the generic arguments of the Output type (a "checked" operator)
    Xb = 'X("b".to_string())'
    item = ("impl ::core::ops::Sub for X { type Output = Option<Self>; fn sub(self, rhs: Self) -> Option<Self> { tick(); "
            "Some(X(format!(\"({}-{})\", self.0, rhs.0))) } }")
    bl = [block('rv', 'let a = %s; let b = %s;' % (X('a'), Xb), '&a - b', ('Some(X("(c[a]-b)"))', '1', '1')),
          block('vr', 'let a = %s; let b = %s;' % (X('a'), Xb), 'a - &b', ('Some(X("(a-c[b])"))', '1', '1')),
          block('rr', 'let a = %s; let b = %s;' % (X('a'), Xb), '&a - &b', ('Some(X("(c[a]-c[b])"))', '1', '2'))]
    out.append(('Sub', item, bl))
    # 5. ... and of the Rhs type
    item = ("impl ::core::ops::Add<Option<Self>> for X { type Output = X; fn add(self, rhs: Option<Self>) -> X { tick(); "
            "X(format!(\"({}-{})\", self.0, rhs.map_or(\"n\".to_string(), |r| r.0))) } }")
    bl = [block('rv', 'let a = %s; let b = Some(%s);' % (X('a'), Xb), '&a + b', ('X("(c[a]-b)")', '1', '1')),
          block('vr', 'let a = %s; let b = Some(%s);' % (X('a'), Xb), 'a + &b', ('X("(a-c[b])")', '1', '1')),
          block('rr', 'let a = %s; let b: Option<X> = None;' % X('a'), '&a + &b', ('X("(c[a]-n)")', '1', '1'))]
    out.append(('Add', item, bl))
    # 6. Op and OpAssign from a base whose Output is the self type under another spelling (an alias)
    item = ("impl ::core::ops::Sub for X { type Output = Xa; fn sub(self, rhs: X) -> Xa { tick(); "
            "X(format!(\"({}-{})\", self.0, rhs.0)) } }\npub type Xa = X;")
    def ablock2(tag, expr, want):
        return ('    { let mut a = %s; let b = %s; counts(); %s; let (n, k) = counts(); println!("@ID@\\t%s\\t{:?}\\t{}\\t{}", a, n, k); }'
                % (X('a'), Xb, expr, tag), (tag,) + want)
    bl = [ablock2('asg_v', 'a -= b', ('X("(c[a]-b)")', '1', '1')), ablock2('asg_r', 'a -= &b', ('X("(c[a]-c[b])")', '1', '2')),
          block('rr', 'let a = %s; let b = %s;' % (X('a'), Xb), '&a - &b', ('X("(c[a]-c[b])")', '1', '2'))]
    out.append(('Sub, SubAssign', item, bl))
    # 7. further attributes on the user's impl: a second request stacked below the first one and spelled with the crate path,
    #    foreign attributes; each request derives its own forms from the user's impl, once
    base = ("impl ::core::ops::Add for X { type Output = X; fn add(self, rhs: X) -> X { tick(); "
            "X(format!(\"({}-{})\", self.0, rhs.0)) } }")
    bl = [block('rr', 'let a = %s; let b = %s;' % (X('a'), Xb), '&a + &b', ('X("(c[a]-c[b])")', '1', '2')),
          block('vr', 'let a = %s; let b = %s;' % (X('a'), Xb), 'a + &b', ('X("(a-c[b])")', '1', '1')),
          ablock2('asg_v', 'a += b', ('X("(c[a]-b)")', '1', '1'))]     # (separate requests: `+=` is derived from the user's impl only)
    out.append(('Add', '#[::derive_ex::derive_ex(AddAssign)]\n' + base, bl))
    out.append(('Add', '#[derive_ex::derive_ex(AddAssign)]\n#[allow(unused_variables)]\n#[doc = "the user\'s impl"]\n#[cfg(all())]\n' + base, bl))
    out.append(('AddAssign', '#[allow(unused_variables)]\n#[::derive_ex::derive_ex(Add)]\n' + base, bl))
    # 9. operand types that are the USER's sized types but are NAMED like unsized std types (`Path`, `OsStr`, `CStr`): what a
    #    type is called says nothing about it - all forms exist
    for nm in ('Path', 'OsStr', 'CStr', 'Slice'):
        decl = ('pub struct %s(pub String);\nimpl Clone for %s { fn clone(&self) -> %s { CLONES.with(|c| c.set(c.get() + 1)); %s(format!("c[{}]", self.0)) } }\n' % (nm, nm, nm, nm))
        item = ("impl ::core::ops::Sub<&%s> for X { type Output = X; fn sub(self, rhs: &%s) -> X { tick(); "
                "X(format!(\"({}-{})\", self.0, rhs.0)) } }\n" % (nm, nm)) + decl
        Pv = '%s("b".to_string())' % nm
        bl9 = [block('vv', 'let a = %s; let b = %s;' % (X('a'), Pv), 'a - b', ('X("(a-b)")', '1', '0')),
              block('rv', 'let a = %s; let b = %s;' % (X('a'), Pv), '&a - b', ('X("(c[a]-b)")', '1', '1')),
              block('rr', 'let a = %s; let b = %s;' % (X('a'), Pv), '&a - &b', ('X("(c[a]-b)")', '1', '1'))]
        out.append(('Sub', item, bl9))
        aitem = ("impl ::core::ops::Mul<&%s> for X { type Output = X; fn mul(self, rhs: &%s) -> X { tick(); "
                 "X(format!(\"({}-{})\", self.0, rhs.0)) } }\n" % (nm, nm)) + decl
        abl = [('    { let mut a = %s; let b = %s; counts(); a *= b; let (n, k) = counts(); println!("@ID@\\tasg_v\\t{:?}\\t{}\\t{}", a, n, k); }'
                % (X('a'), Pv), ('asg_v', 'X("(c[a]-b)")', '1', '1')),
               block('vv', 'let a = %s; let b = %s;' % (X('a'), Pv), 'a * b', ('X("(a-b)")', '1', '0'))]
        if nm in ('Path', 'Slice'):
            out.append(('Mul, MulAssign', aitem, abl))
    # 8. ... and through a renamed import of the macro
    out.append(('Add', '#[dx(AddAssign)]\n' + base + '\nuse ::derive_ex::derive_ex as dx;', bl))
    return out


class C09(Prop):
    pid = 'C09'
    tag = 'impls generated from a user impl (headers + bodies), dump, error messages'
    rule = ('L1: random `impl Op<Rhs> for T` items (vlib/gen.py ImplGen: 10 operators, base Op / OpAssign, self T/&T/&\'a T/&mut T, '
            'Rhs absent/Self/other/&other/&Self, generics with Self in bounds and where-clause, Output with Self, requested '
            'sets, dump, error paths). Oracle: EXHAUSTIVE grid 10 operators (cycled) x base form (T/&T x Rhs/&Rhs) x Rhs in '
            '{default Self, other type} x requested lists {Op}, {OpAssign}, {Op,OpAssign}, {OpAssign,Op} and base OpAssign<Rhs|&Rhs> with {Op} x '
            'non-generic / generic / generic with `Self` in an inline bound / in the where-clause; the user body is non-commutative and records calls, the operand types count clones; every '
            'plus three hand-written bases whose Rhs is a reference with an explicit lifetime (an opaque operand type); every generated form is executed and compared with the property statement (result, one call, clones exactly when received '
            'by reference but needed by value, borrowed operands unchanged); non-trivial = every oracle case')

    def cases(self, tier, rng):
        gi = ImplGen(rng)
        return [gi.impl_item() for _ in range(1500 if tier == 'quick' else 100000)] + [c[:2] for c in self.grid()]

    def grid(self):
        out = []
        k = 0
        for tr, rhs_kind, rr, want, generic in itertools.product((False, True), ('self', 'other'), (False, True),
                                                                 (['Op'], ['Asg'], ['Op', 'Asg'], ['Asg', 'Op']), (False, True, 'inlineSelf', 'whereSelf')):
            if rhs_kind == 'self' and tr != rr:
                continue          # `impl Op for T`: Rhs defaults to Self, so the two forms coincide
            opn, fn = OPS[k % len(OPS)]
            k += 1
            out.append(self.mk(opn, fn, False, tr, rhs_kind, rr, want, generic))
        for rhs_kind, rr, generic in itertools.product(('self', 'other'), (False, True), (False, True, 'inlineSelf', 'whereSelf')):
            if rhs_kind == 'self' and rr:
                continue
            opn, fn = OPS[k % len(OPS)]
            k += 1
            out.append(self.mk(opn, fn, True, False, rhs_kind, rr, ['Op'], generic))
        return out

    @staticmethod
    def mk(opn, fn, base_assign, tr, rhs_kind, rr, want, generic):
        TX = sx.tgen('G', sx.tid('T')) if generic else sx.tid('X')
        TY = sx.tid('Y') if rhs_kind == 'other' else TX
        this = sx.tref(TX) if tr else TX
        tname = opn + ('Assign' if base_assign else '')
        if rhs_kind == 'self':
            trait = [tname]
        else:
            trait = [sx.seg(tname, ('angle', [sx.gty(sx.tref(TY) if rr else TY)]))]
        rt = 'G < T >' if generic else 'X'
        if base_assign:
            fnsrc = 'fn %s_assign ( & mut self , rhs : %s ) { tick ( ) ; self . 0 = format ! ( "({}-={})" , self . 0 , rhs . 0 ) ; }' % (
                fn, 'R_')
            members = [sx.m_other(fnsrc)]
        else:
            ctor = 'G ( format ! ( "({}-{})" , self . 0 , rhs . 0 ) , self . 1 . clone ( ) )' if generic else \
                'X ( format ! ( "({}-{})" , self . 0 , rhs . 0 ) )'
            fnsrc = 'fn %s ( self , rhs : R_ ) -> %s { tick ( ) ; %s }' % (fn, rt, ctor)
            members = [sx.m_type('Output', TX), sx.m_other(fnsrc)]
        # `Self` inside the impl's generics (inline bound / where-clause) means the user's self type in every derived impl
        wt = sx.tb_trait([sx.seg('Wt', ('angle', [sx.gty(sx.tid('Self'))]))])
        if generic == 'inlineSelf':
            gen = sx.generics([sx.gp_ty('T', [sx.tb_trait(['Clone']), wt])])
        elif generic == 'whereSelf':
            gen = sx.generics([sx.gp_ty('T', [sx.tb_trait(['Clone'])])], [sx.wty(sx.tid('T'), [wt])])
        else:
            gen = sx.generics([sx.gp_ty('T', [sx.tb_trait(['Clone'])])]) if generic else None
        it = sx.impl(trait, this, members, gen=gen)
        names = [opn if w == 'Op' else opn + 'Assign' for w in want]
        req = sx.inv_attr(sx.dx([(n, None) for n in names]), it)
        meta = dict(features=('grid', opn, 'base-assign' if base_assign else 'base-op', 'self&' if tr else 'self',
                              rhs_kind, 'rhs&' if rr else 'rhs', '+'.join(want), ('generic' if generic is True else generic) if generic else 'plain'),
                    grid=True, op=opn, fn=fn, base_assign=base_assign, tr=tr, rhs_kind=rhs_kind, rr=rr, want=want,
                    generic=generic, nontrivial=True)
        return (req, meta, None)

    def oracle(self, tier, rng, suspicious):
        results = [r for r in (self.l1_results or []) if r.meta.get('grid')] or R.run_cases([c[:2] for c in self.grid()])
        mods, expect = [], {}
        for r in results:
            m = r.meta
            xt = 'G<u8>' if m['generic'] else 'X'
            yt = 'Y' if m['rhs_kind'] == 'other' else xt
            rdecl = ('&' if m['rr'] else '') + (('G<T>' if m['generic'] else 'X') if m['rhs_kind'] == 'self' else 'Y')
            item = r.item.replace('R_', rdecl.replace('<', ' < ').replace('>', ' > '))
            src = [TYPES, '#[::derive_ex::derive_ex(%s)]\n%s' % (r.attr, item), 'pub fn run() {']
            mkx = (lambda s: 'G("%s".to_string(), 0u8)' % s) if m['generic'] else (lambda s: 'X("%s".to_string())' % s)
            mky = mkx if m['rhs_kind'] == 'self' else (lambda s: 'Y("%s".to_string())' % s)
            exp = []
            op, fn, tr, rr = m['op'], m['fn'], m['tr'], m['rr']

            def show(v):
                return ('G("%s", 0)' % v) if m['generic'] else ('X("%s")' % v)
            if m['base_assign']:
                b = '&b' if rr else 'b'
                src.append('    { let a = %s; let b = %s; counts(); let c = ::core::ops::%s::%s(a, %s); let (n, k) = counts(); '
                           'println!("%d\\tfromassign\\t{:?}\\t{}\\t{}", c, n, k); }' % (mkx('a'), mky('b'), op, fn, b, r.cid))
                exp.append(('fromassign', show('(a-=b)'), '1', '0'))
            else:
                if 'Op' in m['want']:
                    for il, ir in itertools.product((False, True), repeat=2):
                        L = 'c[a]' if (il and not tr) else 'a'
                        Rv = 'c[b]' if (ir and not rr) else 'b'
                        ncl = (1 if il and not tr else 0) + (1 if ir and not rr else 0)
                        src.append('    { let a = %s; let b = %s; counts(); let c = ::core::ops::%s::%s(%sa, %sb); let (n, k) = counts(); '
                                   'println!("%d\\top%d%d\\t{:?}\\t{}\\t{}\\t{}", c, n, k, %s); }'
                                   % (mkx('a'), mky('b'), op, fn, '&' if il else '', '&' if ir else '', r.cid, il, ir,
                                      ' && '.join((['a == %s' % mkx('a')] if il else []) + (['b == %s' % mky('b')] if ir else [])) or 'true'))
                        exp.append(('op%d%d' % (il, ir), show('(%s-%s)' % (L, Rv)), '1', str(ncl), 'true'))
                if 'Asg' in m['want']:
                    forms = [False, True] if 'Op' in m['want'] else [rr]
                    for ir in forms:
                        L = 'c[a]' if not tr else 'a'
                        if 'Op' in m['want']:
                            Rv = 'c[b]' if (ir and not rr) else 'b'
                            ncl = (0 if tr else 1) + (1 if ir and not rr else 0)
                        else:
                            Rv, ncl = 'b', (0 if tr else 1)
                        src.append('    { let mut a = %s; let b = %s; counts(); ::core::ops::%sAssign::%s_assign(&mut a, %sb); let (n, k) = counts(); '
                                   'println!("%d\\tasg%d\\t{:?}\\t{}\\t{}\\t{}", a, n, k, %s); }'
                                   % (mkx('a'), mky('b'), op, fn, '&' if ir else '', r.cid, ir,
                                      ('b == %s' % mky('b')) if ir else 'true'))
                        exp.append(('asg%d' % ir, show('(%s-%s)' % (L, Rv)), '1', str(ncl), 'true'))
            src.append('}')
            expect[r.cid] = exp
            mods.append(l2.Module(r.cid, '\n'.join(src), r))
        class _Lit:       # a hand-written case (no model counterpart): carries what the failure record needs
            def __init__(self, text):
                self.text, self.meta = text, dict(features=('explicit-lifetime',))
            def input_text(self):
                return self.text
        for k, (attr, item, blocks) in enumerate(lifetime_modules()):
            cid = 10 ** 6 + k
            src = [TYPES, '#[::derive_ex::derive_ex(%s)]\n%s' % (attr, item), 'pub fn run() {'] + \
                  [b[0].replace('@ID@', str(cid)) for b in blocks] + ['}']
            expect[cid] = [b[1] for b in blocks]
            mods.append(l2.Module(cid, '\n'.join(src), _Lit('#[derive_ex(%s)] %s' % (attr, item))))
        exes = l2.compile_parallel([('c09', mods)], prelude=PRELUDE)
        obs = l2.run_exe(exes['c09'])[1] if exes['c09'] else {}
        failures, validated, samples, n_obs = [], 0, [], 0
        for mo in mods:
            r = mo.meta
            if not mo.compiled:
                failures.append(dict(**{'class': 'derived-operator-does-not-compile', 'mode': 'compile'}, input=r.input_text(),
                                     expected='compiles', observed=[d['message'] for d in mo.diags if d['level'] == 'error'][:3]))
                continue
            got, want = obs.get(str(mo.cid), []), expect[mo.cid]
            n_obs += len(want)
            if got != want:
                bad = next(((w, g) for w, g in zip(want, got + [()] * len(want)) if w != g), (want, got))
                failures.append(dict(**{'class': 'forwarding-differs', 'mode': 'behaviour'}, input=r.input_text(),
                                     expected=list(bad[0]), observed=list(bad[1])))
            else:
                validated += 1
                if len(samples) < 2:
                    samples.append(dict(input=r.input_text()[:300], observed=[list(x) for x in got[:3]]))
        l2.cleanup('c09')
        return dict(evaluations=len(mods), validated=validated, programs=len(mods), observations=n_obs,
                    failures=failures, samples=samples)


PROP = C09()
