"""C10 — Debug prints like the std derive minus ignored fields; transparent delegates."""
import itertools

from .. import l2, sx
from .. import run as R
from ..check import Prop

PRELUDE = '''
#[derive(Debug, Clone, Copy, PartialEq)]
pub struct Inner { pub x: u8, pub y: (i8, f32) }
'''
# (sexp type, rust type, value)
FT = [
    (sx.tid('i32'), 'i32', '-17'),
    (sx.tid('f64'), 'f64', '2.5'),
    (sx.tref(sx.tid('str'), lt='static'), "&'static str", '"a\\"b"'),
    (sx.tgen('Option', sx.tid('u8')), 'Option<u8>', 'Some(200)'),
    (sx.tid('Inner'), 'Inner', 'Inner { x: 7, y: (-1, 0.25) }'),
    (sx.tid('T'), 'T', '255u16'),
    # a path with a leading `::` that carries the parameter only in its generic arguments
    (sx.tpath(['core', 'option', sx.seg('Option', ('angle', [sx.gty(sx.tid('T'))]))], lead=True),
     '::core::option::Option<T>', 'Some(255u16)'),
]
TGEN = ('T', '::core::option::Option<T>')
SPECS = ['{:?}', '{:#?}', '{:5?}', '{:<8?}', '{:+?}', '{:.2?}', '{:x?}', '{:#x?}', '{:08.3?}', '{:^12.1?}', '{:#X?}']


def shape_list(rng, tier):
    """list of (is_enum, variants); variant = (kind, [(ft index, flag)]) with flag in '', 'I' (ignore), 'T' (transparent)"""
    out = []
    kinds = ['named', 'tuple']
    # structs: every subset of ignored fields for 0..3 fields, each transparent choice
    for kind in kinds:
        for n in range(0, 4):
            for ign in itertools.product('-I', repeat=n):
                fts = [(rng.randrange(len(FT)), '' if x == '-' else 'I') for x in ign]
                out.append((False, [(kind, fts)]))
            for t in range(n):
                for tf in ('T', 'B'):       # B = `#[debug(transparent, ignore)]` on one field: still the transparent field
                    fts = [(rng.randrange(len(FT)), tf if i == t else rng.choice(['', 'I'])) for i in range(n)]
                    out.append((False, [(kind, fts)]))
        # more than one transparent field: rejected
        for a, b in itertools.product('TB', repeat=2):
            out.append((False, [(kind, [(0, a), (1, ''), (2, b)])]))
            out.append((True, [('unit', []), (kind, [(0, a), (2, b)])]))
    out.append((False, [('unit', [])]))
    # many fields (two-digit tuple indices, long builder chains): 8, 9, 10 with one ignored, 12, 16, 17 printed fields -
    # in a struct and in the second variant of an enum; generic types are left out (one instantiation per value)
    small = [i for i, ft in enumerate(FT) if ft[1] not in TGEN]
    for kind in kinds:
        for n, nign in ((8, 0), (9, 0), (10, 1), (12, 0), (16, 0), (17, 0), (19, 2)):
            ign = set(rng.sample(range(n), nign))
            fts = [(small[(i * 3 + n) % len(small)], 'I' if i in ign else '') for i in range(n)]
            out.append((False, [(kind, fts)]))
            if n in (9, 12, 17):
                out.append((True, [('unit', []), (kind, fts)]))
    # enums: a transparent field in EVERY variant (the one-transparent-field rule is per variant)
    for kinds in (('tuple', 'named'), ('named', 'tuple', 'tuple'), ('tuple', 'unit', 'named')):
        vs = []
        for j, kind in enumerate(kinds):
            if kind == 'unit':
                vs.append((kind, []))
            else:
                n = 1 + j
                t = rng.randrange(n)
                vs.append((kind, [(rng.randrange(len(FT)), 'T' if i == t else rng.choice(['', 'I'])) for i in range(n)]))
        out.append((True, vs))
    for _ in range(30 if tier == 'quick' else 3000):
        vs = []
        for _ in range(rng.randrange(1, 4)):
            kind = rng.choice(['named', 'tuple', 'unit'])
            n = 0 if kind == 'unit' else rng.randrange(0, 4)
            fts = [(rng.randrange(len(FT)), rng.choice(['', '', 'I'])) for _ in range(n)]
            if n and rng.random() < 0.25:
                i = rng.randrange(n)
                fts[i] = (fts[i][0], rng.choice(['T', 'T', 'B']))
            vs.append((kind, fts))
        out.append((True, vs))
    return out


def vn(i, raw):
    """variant names; raw identifiers for the first two variants of a `raw` case"""
    return ['r#Type', 'r#loop'][i] if (raw and i < 2) else 'V%d' % i


def fields_s(kind, fts, raw):
    names = ['a', 'r#type' if raw else 'b', 'c', 'd'] + ['g%d' % i for i in range(4, 40)]
    fs = []
    for i, (fi, flag) in enumerate(fts):
        attrs = [sx.a_debug(sx.m_list(sx.gargs(transparent=(flag in ('T', 'B')), ignore=(flag in ('I', 'B')))))] if flag else []
        fs.append(sx.field(FT[fi][0], name=names[i] if kind == 'named' else None, attrs=attrs))
    return sx.named(fs) if kind == 'named' else (sx.unnamed(fs) if kind == 'tuple' else sx.UNIT)


def rust_fields(kind, fts, raw, keep):
    names = ['a', 'r#type' if raw else 'b', 'c', 'd'] + ['g%d' % i for i in range(4, 40)]
    items = [(names[i], FT[fi][1], FT[fi][2]) for i, (fi, flag) in enumerate(fts) if keep(flag)]
    if kind == 'named':
        return ('{ %s }' % ', '.join('pub %s: %s' % (n, t) for n, t, _ in items),
                '{ %s }' % ', '.join('%s: %s' % (n, v) for n, _, v in items))
    if kind == 'tuple':
        return ('( %s )' % ', '.join('pub ' + t for _, t, _ in items), '( %s )' % ', '.join(v for _, _, v in items))
    return ('', '')


# structs whose LAST field may be unsized in a way that is not the bare parameter: a wrapper around a `?Sized`
# parameter, the parameter after other parameters, `?Sized` written in the where-clause, an ignored field in between
UNSIZED_TAILS = [
    ('<U: ?Sized>', '', '{ a: u8, b: Tl<U> }', 'X { a: 1, b: Tl(%s) }'),
    ('<U: ?Sized>', '', '( u8, Tl<U> );', 'X(1, Tl(%s))'),
    ('<T, U: ?Sized>', '', '{ a: T, #[debug(ignore)] m: u8, b: Tl<U> }', 'X { a: 3u16, m: 0, b: Tl(%s) }'),
    ('<U>', ' where U: ?Sized', '{ a: u8, b: Tl<U> }', 'X { a: 1, b: Tl(%s) }'),
    ('<U: ?Sized>', '', '{ a: u8, b: U }', 'X { a: 1, b: %s }'),
    ('<U: ?Sized>', '', '{ a: u8, #[debug(transparent)] b: Tl<U> }', 'X { a: 1, b: Tl(%s) }'),
]


def inherent_modules():
    """field types with INHERENT methods called `fmt` / a second fmt trait in scope: the generated code has to name
    `Debug::fmt`, not rely on method resolution"""
    out = []
    decls = [('pub struct X { #[debug(transparent)] pub a: Cel }', 'X { a: Cel(21) }', 'Cel(21)'),
             ('pub struct X(pub u8, #[debug(ignore)] pub u8, pub Cel);', 'X(1, 2, Cel(21))', 'twin::X(1, Cel(21))'),
             ('pub enum X { A(#[debug(transparent)] Cel), B { c: Cel } }', 'X::A(Cel(21))', 'Cel(21)'),
             ('pub struct X { #[debug(transparent)] pub a: u32 }', 'X { a: 7 }', '7u32')]
    for k, (decl, val, ref) in enumerate(decls):
        for mode in ('attr', 'derive'):
            cid = 2 * 10 ** 6 + 2 * k + (mode == 'derive')
            head = '#[::derive_ex::derive_ex(Debug)]' if mode == 'attr' else '#[derive(::derive_ex::Ex)] #[derive_ex(Debug)]'
            import re as _re
            clean = _re.sub(r'#\[debug\([a-z]+\)\] (pub )?u8, ', '', decl).replace('#[debug(transparent)] ', '')
            src = ['#[allow(unused_imports)] use ::core::fmt::Display;',
                   '#[derive(Debug)] pub struct Cel(pub i32);',
                   'impl Cel { pub fn fmt(&self, f: &mut ::core::fmt::Formatter) -> ::core::fmt::Result { f.write_str("inherent") } }',
                   head + ' ' + decl, 'pub mod twin { #[allow(unused_imports)] use super::*; #[derive(Debug)] %s }' % clean, 'pub fn run() {']
            for si, spec in enumerate(SPECS):
                src.append('    println!("%d\\tv0s%d\\t{}", format!("%s", %s) == format!("%s", %s));' % (cid, si, spec, val, spec, ref))
            src.append('}')
            text = ('#[derive_ex(Debug)] ' if mode == 'attr' else '#[derive(Ex)] #[derive_ex(Debug)] ') + decl + \
                '   [Cel has an inherent `fmt`; `Display` is imported]'
            out.append((cid, '\n'.join(src), text, len(SPECS)))
    return out


def bound_modules():
    """generic enums with a `bound(..)` on ONE variant: it speaks for that variant only - the variants after it keep their own
    (default) bounds and print as with the standard derive"""
    out = []
    decls = [('pub enum X<T> { #[debug(bound())] A(u8), B(T), C { c: Option<T> } }', ['X::<u16>::A(1)', 'X::B(7u16)', 'X::C { c: Some(7u16) }']),
             ('pub enum X<T, U> { #[derive_ex(Debug(bound()))] A, #[debug(bound(U: ::core::fmt::Debug))] B(U), C(T, #[debug(ignore)] u8), D { d: (T, U) } }',
              ['X::<u16, i8>::A', 'X::<u16, i8>::B(-1)', 'X::<u16, i8>::C(5, 0)', 'X::<u16, i8>::D { d: (5, -1) }']),
             ('pub enum X<T> { A(#[debug(bound())] ::core::marker::PhantomData<T>), #[debug(bound(T: ::core::fmt::Debug))] B(T), C(#[debug(transparent)] T) }',
              ['X::<u16>::A(::core::marker::PhantomData)', 'X::B(7u16)', 'X::C(7u16)'])]
    # generic parameters spelled as raw identifiers (keywords, or an ordinary name used with `r#`): the field types mention them
    decls += [('#[allow(non_camel_case_types)] pub struct X<r#type>(pub r#type, pub Option<r#type>);', ['X(7u16, Some(8u16))']),
              ('#[allow(non_camel_case_types)] pub enum X<r#impl, const r#N: usize> { A(r#impl), B { b: [r#impl; N] }, C(#[debug(transparent)] Option<r#impl>) }',
               ['X::<u16, 2>::A(7)', 'X::<u16, 2>::B { b: [7, 8] }']),
              ('pub struct X<T> { pub a: r#T, pub c: ::core::marker::PhantomData<r#T> }',
               ['X { a: 7u16, c: ::core::marker::PhantomData }'])]
    # generic items that mention themselves through `Self` (a `Self`-only field type names no parameter and gets no bound of its
    # own - `Option<Box<X<T>>>: Debug` on the impl for `X<T>` would be a cycle, E0275 at every USE of the impl): formatted values
    decls += [('pub struct X<T> { pub v: T, pub next: Option<Box<Self>> }',
               ['X { v: 7u16, next: None }', 'X { v: 7u16, next: Some(Box::new(X { v: 8u16, next: None })) }']),
              ('pub struct X<T>(pub T, pub Vec<Self>);', ['X(7u16, vec![X(8u16, vec![]), X(9u16, vec![])])']),
              ('pub struct X<const N: usize> { pub a: [u8; N], pub n: Option<Box<Self>> }',
               ['X::<2> { a: [1, 2], n: Some(Box::new(X { a: [3, 4], n: None })) }']),
              ('pub enum X<T> { A(T), B { b: Option<Box<Self>> }, C(Vec<Self>, T) }',
               ['X::A(7u16)', 'X::B { b: Some(Box::new(X::A(7u16))) }', 'X::C(vec![X::A(1u16), X::B { b: None }], 2u16)']),
              ("pub struct X<'a, T> { pub v: &'a T, pub up: Option<&'a Self> }",
               ['X { v: &7u16, up: Some(&X { v: &8u16, up: None }) }'])]
    import re as _re
    for k, (decl, vals) in enumerate(decls):
        for mode in ('attr', 'derive'):
            cid = 3 * 10 ** 6 + 2 * k + (mode == 'derive')
            head = '#[::derive_ex::derive_ex(Debug)]' if mode == 'attr' else '#[derive(::derive_ex::Ex)] #[derive_ex(Debug)]'
            clean = _re.sub(r'#\[(debug|derive_ex)\((?:[^()\[\]]|\([^()]*(?:\([^()]*\))?[^()]*\))*\)\] ', '', decl.replace('#[debug(ignore)] u8', ''))
            clean = clean.replace('C(T, )', 'C(T)')
            src = [head + ' ' + decl, 'pub mod twin { #[allow(unused_imports)] use super::*; #[derive(Debug)] %s }' % clean, 'pub fn run() {']
            n = 0
            for vi, v in enumerate(vals):
                tv = _re.sub(r'\bX\b', 'twin::X', v.replace('C(5, 0)', 'C(5)'))
                if 'transparent' in decl and v.startswith('X::C'):
                    tv = '7u16'
                for si, spec in enumerate(SPECS):
                    src.append('    println!("%d\\tv%ds%d\\t{}", format!("%s", %s) == format!("%s", %s));' % (cid, vi, si, spec, v, spec, tv))
                    n += 1
            src.append('}')
            text = ('#[derive_ex(Debug)] ' if mode == 'attr' else '#[derive(Ex)] #[derive_ex(Debug)] ') + decl
            out.append((cid, '\n'.join(src), text, n))
    return out


def unsized_modules():
    out = []
    for k, (g, wh, body, val) in enumerate(UNSIZED_TAILS):
        for mode in ('attr', 'derive'):
            cid = 10 ** 6 + 2 * k + (mode == 'derive')
            head = '#[::derive_ex::derive_ex(Debug)]' if mode == 'attr' else '#[derive(::derive_ex::Ex)] #[derive_ex(Debug)]'
            tuple_ = body.startswith('(')
            decl = 'pub struct X%s%s %s' % (g, wh if not tuple_ else '', body if not tuple_ else body[:-1] + wh + ';')
            clean = decl.replace('#[debug(ignore)] m: u8, ', '').replace('#[debug(transparent)] ', '')
            import re as _re
            if tuple_:
                clean = _re.sub(r'(\(|,) ', r'\1 pub ', clean, count=0)
            else:
                clean = clean[:clean.index('{')] + _re.sub(r'(\{|,) (\w+):', r'\1 pub \2:', clean[clean.index('{'):])
            tval = val.replace('m: 0, ', '')
            transparent = 'transparent' in body
            ga = g.count(',') + 1
            turbo = '::<u16, _>' if ga == 2 else ''
            src = ['#[derive(Debug)] pub struct Tl<U: ?Sized>(pub U);', head + ' ' + decl,
                   'pub mod twin { use super::*; #[derive(Debug)] %s }' % clean, 'pub fn run() {']
            for si, spec in enumerate(SPECS):
                a = val % '[1u8, 2]'
                t = ('Tl([1u8, 2])' if transparent else 'twin::' + (tval % '[1u8, 2]'))
                # by value (sized instantiation) and through Box<X<.., [u8]>> (unsized instantiation)
                src.append('    { let x = %s; let t = %s; println!("%d\\tv%d\\t{}", format!("%s", x) == format!("%s", t)); }'
                           % (a, t, cid, si, spec, spec))
                bt = 'Box<X<%s[u8]>>' % ('u16, ' if ga == 2 else '')
                tt = ('Box<Tl<[u8]>>' if transparent else 'Box<twin::X<%s[u8]>>' % ('u16, ' if ga == 2 else ''))
                src.append('    { let x: %s = Box::new(%s); let t: %s = Box::new(%s); println!("%d\\tu%d\\t{}", '
                           'format!("%s", x) == format!("%s", t)); }' % (bt, a, tt, t, cid, si, spec, spec))
            src.append('}')
            text = head.replace('::derive_ex::', '') + ' ' + decl
            out.append((cid, '\n'.join(src), text, 2 * len(SPECS)))
    return out


class C10(Prop):
    pid = 'C10'
    tag = 'body of the Debug impl'
    rule = ('structs: named/tuple with 0-3 fields x ALL subsets of ignored fields x each transparent choice (also written `transparent, ignore` on one field), two transparent fields (rejected), unit; enums: random '
            'mixes of variant kinds with ignored / transparent fields; raw identifiers; generic parameter; hand-written structs with a possibly-unsized last field (wrapper around a `?Sized` parameter, after other parameters, `?Sized` in the where-clause), formatted by value and through Box<X<[u8]>>; field types i32, f64, '
            '&str, Option<u8>, a nested struct, T; both entry points; compiled next to a twin carrying #[derive(Debug)] with the '
            'ignored fields deleted (or the transparent field alone) and compared under 11 format specs (alternate, width, '
            'fill/alignment, sign, precision, hex flags); non-trivial = some field ignored or transparent, or an enum')

    def cases(self, tier, rng):
        out = []
        for k, (is_enum, vs) in enumerate(shape_list(rng, tier)):
            raw = (k % 5 == 3)
            mode = 'attr' if k % 2 else 'derive'
            uses_t = any(FT[fi][1] in TGEN for _, fts in vs for fi, _ in fts)
            gen = sx.generics([sx.gp_ty('T')]) if uses_t else None
            if is_enum:
                it = sx.enum('E', [sx.variant(vn(i, raw), fields_s(kind, fts, raw)) for i, (kind, fts) in enumerate(vs)], gen=gen)
                kw = '(enum ('
            else:
                it = sx.struct('X', fields_s(vs[0][0], vs[0][1], raw), gen=gen)
                kw = '(struct ('
            tl = [('Debug', None)]
            req = sx.inv_attr(sx.dx(tl), it) if mode == 'attr' else sx.inv_derive(
                kw + sx.a_derive_ex(sx.dx(tl)) + ' ' + it[len(kw):])
            flags = [f for _, fts in vs for _, f in fts]
            out.append((req, dict(features=('enum' if is_enum else 'struct', mode, 'raw' if raw else 'plain') +
                                  tuple('%s:%s' % (kd, ''.join(f or '-' for _, f in fts)) for kd, fts in vs),
                                  enum=is_enum, vs=vs, raw=raw, generic=uses_t,
                                  nontrivial=is_enum or any(flags))))
        return out

    def view(self, r, parts):
        return [(p[0], p[2]) if p[0] == 'IMPL' else p for p in parts if p[0] != 'ITEM']

    def oracle(self, tier, rng, suspicious):
        results = self.l1_results or R.run_cases(self.cases(tier, rng))
        mods, rejects = [], []
        for r in results:
            m = r.meta
            if any(sum(1 for _, f in fts if f in ('T', 'B')) > 1 for _, fts in m['vs']):
                rejects.append(l2.Module(r.cid, ('#[::derive_ex::derive_ex(%s)]\n' % r.attr if r.mode == 'A'
                                                 else '#[derive(::derive_ex::Ex)]\n') + r.item + '\npub fn run() {}', r))
                continue
            head = ('#[::derive_ex::derive_ex(%s)]\n' % r.attr) if r.mode == 'A' else '#[derive(::derive_ex::Ex)]\n'
            ty = 'E' if m['enum'] else 'X'
            g = '<T>' if m['generic'] else ''
            src = [l2.decl(head, r.item, r.cid)]
            twin = []
            for vi, (kind, fts) in enumerate(m['vs']):
                decl, _ = rust_fields(kind, fts, m['raw'], lambda f: f != 'I')
                if m['enum']:
                    decl = decl.replace('pub ', '')
                twin.append((vi, kind, decl))
            if m['enum']:
                src.append('pub mod twin { use super::*; #[derive(Debug)] pub enum E%s { %s %s } }' % (
                    g, ', '.join('%s %s' % (vn(vi, m['raw']), decl) for vi, kind, decl in twin),
                    (', _P(::core::marker::PhantomData<T>)' if m['generic'] else '')))
            else:
                vi, kind, decl = twin[0]
                uses_t_kept = any(FT[fi][1] in TGEN and f != 'I' for fi, f in m['vs'][0][1])
                if m['generic'] and not uses_t_kept:
                    src.append('pub mod twin { use super::*; #[derive(Debug)] pub struct X %s%s }' % (
                        decl, ';' if kind != 'named' else ''))
                    g_twin = ''
                else:
                    src.append('pub mod twin { use super::*; #[derive(Debug)] pub struct X%s %s%s }' % (
                        g, decl, ';' if kind != 'named' else ''))
            src.append('pub fn run() {')
            for vi, (kind, fts) in enumerate(m['vs']):
                path = ('E::%s' % vn(vi, m['raw'])) if m['enum'] else 'X'
                _, real = rust_fields(kind, fts, m['raw'], lambda f: True)
                _, tw = rust_fields(kind, fts, m['raw'], lambda f: f != 'I')
                tf = [FT[fi][2] for fi, f in fts if f in ('T', 'B')]
                for si, spec in enumerate(SPECS):
                    if tf:
                        ref = 'format!("%s", %s)' % (spec, tf[0])
                    else:
                        tpath = 'twin::' + path
                        if m['enum'] and m['generic']:
                            tpath = 'twin::E::<u16>::%s' % vn(vi, m['raw'])
                        ref = 'format!("%s", %s %s)' % (spec, tpath, tw)
                    rpath = path
                    if m['generic'] and not any(FT[fi][1] in TGEN for fi, _ in fts):
                        rpath = ('E::<u16>::%s' % vn(vi, m['raw'])) if m['enum'] else 'X::<u16>'
                    src.append('    println!("%d\\tv%ds%d\\t{}", format!("%s", %s %s) == %s);'
                               % (r.cid, vi, si, spec, rpath, real, ref))
            src.append('}')
            mods.append(l2.Module(r.cid, '\n'.join(src), r))
        class _Lit:
            def __init__(self, text, n):
                self.text, self.meta = text, dict(raw=False, nontrivial=True, vs=[None] * 0, n_expected=n)
            def input_text(self):
                return self.text
        for cid, src, text, n in unsized_modules() + inherent_modules() + bound_modules():
            mods.append(l2.Module(cid, src, _Lit(text, n)))
        nb = 8
        batches = [('c10_%d' % k, mods[k::nb]) for k in range(nb)]
        exes = l2.compile_parallel(batches, prelude=PRELUDE)
        obs = {}
        for name, exe in exes.items():
            if exe:
                obs.update(l2.run_exe(exe)[1])
        failures, validated, samples, n_obs = [], 0, [], 0
        for mo in mods:
            r = mo.meta
            if not mo.compiled:
                failures.append(dict(**{'class': 'debug-or-twin-does-not-compile', 'mode': 'compile'}, input=r.input_text(),
                                     expected='compiles', observed=[d['message'] for d in mo.diags if d['level'] == 'error'][:3]))
                continue
            got = obs.get(str(mo.cid), [])
            n_obs += len(got)
            bad = [g for g in got if g[1] != 'true']
            if bad or len(got) != r.meta.get('n_expected', len(SPECS) * len(r.meta['vs'])):
                failures.append(dict(**{'class': 'raw-identifier-printed-with-prefix' if r.meta['raw'] else 'debug-output-differs',
                                        'mode': 'format'}, input=r.input_text(),
                                     expected='same text as the std-derived twin under ' + ', '.join(
                                         SPECS[int(b[0].split('s')[1])] for b in bad[:4]), observed=[list(b) for b in bad[:4]]))
            else:
                validated += 1
                if len(samples) < 2 and r.meta['nontrivial']:
                    samples.append(dict(input=r.input_text()[:300], specs=len(SPECS)))
        l2.compile_batch('c10rej', rejects, prelude=PRELUDE, check_only=True)
        for mo in rejects:
            msgs = [d['message'] for d in mo.diags if d['level'] == 'error']
            if mo.compiled or not any('only one field can be set' in x for x in msgs):
                failures.append(dict(**{'class': 'several-transparent-fields-accepted', 'mode': 'compile'}, input=mo.meta.input_text(),
                                     expected='compile error: only one field can be set `#[debug(transparent)]`', observed=msgs[:3]))
            else:
                validated += 1
        l2.cleanup('c10rej')
        for name, _ in batches:
            l2.cleanup(name)
        return dict(evaluations=len(mods) + len(rejects), validated=validated, programs=len(mods) + len(rejects), observations=n_obs,
                    failures=failures, samples=samples)


PROP = C10()
