"""C18 — Deref / DerefMut target the single field itself."""
import itertools

from .. import sx, l2
from ..check import Prop
from ..pool import FIELD_TYPES, FT_BY_NAME, generics_for, VIS, FOREIGN_ATTRS


def mk_struct(ft_list, named, style, vis_i=0, raw=False, extra_attrs=()):
    needs = set()
    for ft in ft_list:
        needs.update(ft.needs)
    names = [['r#type', 'r#ref', 'r#fn'][style % 3], 'r#value', 'b', 'c'] if raw else ['a', 'b', 'c', 'd']
    if named:
        fs = sx.named([sx.field(ft.s, name=names[i], vis=VIS[(vis_i + i) % 3]) for i, ft in enumerate(ft_list)])
    elif ft_list:
        fs = sx.unnamed([sx.field(ft.s, vis=VIS[(vis_i + i) % 3]) for i, ft in enumerate(ft_list)])
    else:
        fs = sx.UNIT if style % 2 == 0 else sx.unnamed([])
    return sx.struct('X', fs, attrs=list(extra_attrs), vis=VIS[vis_i % 3], gen=generics_for(needs, style=style)), names


# (trait list, declaration, the trait-object type) for the unsized-target programs
UNSIZED_TARGETS = [
    ('Deref', 'pub struct X(dyn ::core::fmt::Debug + Sync);', 'dyn ::core::fmt::Debug + Sync'),
    ('Deref, DerefMut', 'pub struct X(dyn ::core::fmt::Debug + Sync);', 'dyn ::core::fmt::Debug + Sync'),
    ('Deref, DerefMut', 'pub struct X { pub a: dyn ::core::fmt::Debug }', 'dyn ::core::fmt::Debug'),
    ('DerefMut, Deref', "pub struct X { a: dyn ::core::fmt::Debug + Send + Sync + 'static }", "dyn ::core::fmt::Debug + Send + Sync + 'static"),
]


COERCIBLE_TARGET = [
    ('#[derive_ex(DerefMut)] struct X(String);  impl Deref for X { type Target = str; .. }',
     '#[::derive_ex::derive_ex(DerefMut)]\npub struct X(pub String);\n'
     'impl ::core::ops::Deref for X { type Target = str; fn deref(&self) -> &str { &self.0 } }\npub fn run() {}'),
    ('#[derive(Ex)] #[derive_ex(DerefMut)] struct X { v: Vec<u8> }  impl Deref for X { type Target = [u8]; .. }',
     '#[derive(::derive_ex::Ex)]\n#[derive_ex(DerefMut)]\npub struct X { pub v: Vec<u8> }\n'
     'impl ::core::ops::Deref for X { type Target = [u8]; fn deref(&self) -> &[u8] { &self.v } }\npub fn run() {}'),
    # ... the same on generic structs (a field type that mentions a parameter and coerces)
    ('#[derive_ex(DerefMut)] struct X<T>(Vec<T>);  impl<T> Deref for X<T> { type Target = [T]; .. }',
     '#[::derive_ex::derive_ex(DerefMut)]\npub struct X<T>(pub Vec<T>);\n'
     'impl<T> ::core::ops::Deref for X<T> { type Target = [T]; fn deref(&self) -> &[T] { &self.0 } }\npub fn run() {}'),
    ('#[derive(Ex)] #[derive_ex(DerefMut)] struct X<T> { b: Box<T> }  impl<T> Deref for X<T> { type Target = T; .. }',
     '#[derive(::derive_ex::Ex)]\n#[derive_ex(DerefMut)]\npub struct X<T> { pub b: Box<T> }\n'
     'impl<T> ::core::ops::Deref for X<T> { type Target = T; fn deref(&self) -> &T { &self.b } }\npub fn run() {}'),
    ('#[derive_ex(DerefMut)] struct X<const N: usize>([u8; N]);  impl<const N: usize> Deref for X<N> { type Target = [u8]; .. }',
     '#[::derive_ex::derive_ex(DerefMut)]\npub struct X<const N: usize>(pub [u8; N]);\n'
     'impl<const N: usize> ::core::ops::Deref for X<N> { type Target = [u8]; fn deref(&self) -> &[u8] { &self.0 } }\npub fn run() {}'),
]


STACKED_REQUESTS = [
    ('#[::derive_ex::derive_ex(Deref)]\n#[::derive_ex::derive_ex(DerefMut)]', 'pub struct X(pub u8);', '0'),
    ('#[derive_ex::derive_ex(Deref)]\n#[derive_ex::derive_ex(DerefMut, Clone)]', 'pub struct X<T> { pub a: T }', 'a'),
    ('#[::derive_ex::derive_ex(DerefMut)]\n#[::derive_ex::derive_ex(Deref)]', 'pub struct X { pub a: u8 }', 'a'),
    ('#[dx(Deref)]\n#[dx(DerefMut)]', 'pub struct X<T>(pub T);\nuse ::derive_ex::derive_ex as dx;', '0'),
    ('#[derive_ex(Deref)]\n#[::derive_ex::derive_ex(DerefMut)]', 'pub struct X(pub u8);\nuse ::derive_ex::derive_ex;', '0'),
    ('#[derive_ex(Deref)]\n#[derive_ex(DerefMut)]', 'pub struct X(pub u8);\nuse ::derive_ex::derive_ex;', '0'),
]


class C18(Prop):
    pid = 'C18'
    tag = 'Deref/DerefMut impls (header+body) and rejection messages'
    rule = ('single-field structs: {tuple,named} x field-type pool x generics styles x {Deref, DerefMut, both, '
            'with bound(..)} x both entry points; 0/2/3/4-field structs and enums for the rejection; '
            'non-trivial = every case (each has a distinct shape/type/trait-list/entry-point vector)')
    assumptions = ['place semantics of `&self.f` (a reference to the field itself) is Rust\'s; validated by the '
                   'compiled pointer-identity programs of this check']

    def exhaustive(self, tier):
        return True   # the grid below is enumerated completely in both tiers

    def cases(self, tier, rng):
        out = []
        trait_lists = [
            [('Deref', None)], [('DerefMut', None)], [('Deref', None), ('DerefMut', None)],
            [('Deref', ([sx.b_pred(sx.wty(sx.tid('u8'), [sx.tb_trait(['Copy'])]))], False))],
            [('DerefMut', None), ('Deref', ([], False))],
        ]
        for ft, named, style, (ti, tl), mode in itertools.product(
                FIELD_TYPES, [False, True], [0, 1, 2, 3], enumerate(trait_lists), ['attr', 'derive']):
            if style > 0 and 'T' not in ft.needs and not (style == 3 and 'N' in ft.needs):
                continue
            it, names = mk_struct([ft], named, style, vis_i=ti, raw=(named and ti in (1, 2)),
                                  extra_attrs=[sx.a_other(FOREIGN_ATTRS[ti % len(FOREIGN_ATTRS)])])
            out.append(self._inv(mode, tl, it, dict(
                features=('single', 'named' if named else 'tuple', ft.name, 'style%d' % style, 'traits%d' % ti, mode),
                ft=ft.name, named=named, traits=[t for t, _ in tl], fname=names[0], nfields=1)))
        # packed layouts whose single field stays aligned under the packing (a reference to it is legal)
        for (ftn, rp), named, (ti, tl), mode in itertools.product(
                (('u8', 'repr ( packed )'), ('u8', 'repr ( C , packed )'), ('ParenU8', 'repr ( packed )'), ('u8', 'repr ( packed ( 2 ) )'),
                 ('BoxSlice', 'repr ( align ( 16 ) )')),
                [False, True], enumerate(trait_lists[:3]), ['attr', 'derive']):
            ft = FT_BY_NAME[ftn]
            it, names = mk_struct([ft], named, 3 if 'N' in ft.needs else 0, vis_i=ti, extra_attrs=[sx.a_other(rp)])
            out.append(self._inv(mode, tl, it, dict(
                features=('single', 'layout:' + rp.replace(' ', ''), 'named' if named else 'tuple', ft.name, 'traits%d' % ti, mode),
                ft=ft.name, named=named, traits=[t for t, _ in tl], fname=names[0], nfields=1)))
        # rejection: 0, 2, 3, 4 fields
        for n, named, (ti, tl), mode in itertools.product([0, 2, 3, 4], [False, True], enumerate(trait_lists[:3]),
                                                          ['attr', 'derive']):
            fts = [FIELD_TYPES[(i * 3 + n) % len(FIELD_TYPES)] for i in range(n)]
            it, _ = mk_struct(fts, named, ti)
            out.append(self._inv(mode, tl, it, dict(
                features=('reject', 'n%d' % n, 'named' if named else 'tuple', 'traits%d' % ti, mode),
                nfields=n, traits=[t for t, _ in tl], reject=True)))
        # several fields of which all but one are markers (`PhantomData<..>`, however spelled): still several fields
        PH = [sx.tgen('PhantomData', sx.tid('T')),
              sx.tpath(['core', 'marker', sx.seg('PhantomData', ('angle', [sx.gty(sx.tid('T'))]))], lead=True),
              sx.tpath(['std', 'marker', sx.seg('PhantomData', ('angle', [sx.gty(sx.tref(sx.tid('T'), lt='a'))]))])]
        k = 0
        for pos, named, (ti, tl), mode in itertools.product([0, 1, 2], [False, True], enumerate(trait_lists[:3]), ['attr', 'derive']):
            k += 1
            ph = PH[k % 3]
            data = sx.tid('u8') if k % 2 else sx.tid('T')
            tys = [ph, ph]
            tys.insert(pos, data)
            tys = tys[:2 + (k % 2)]
            if data not in tys:
                tys[0] = data
            names = ['a', 'b', 'c']
            fs = [sx.field(t, name=names[i] if named else None) for i, t in enumerate(tys)]
            needs = {'T'} | ({"'a"} if ph is PH[2] else set())
            it = sx.struct('X', sx.named(fs) if named else sx.unnamed(fs), gen=generics_for(needs, style=0))
            out.append(self._inv(mode, tl, it, dict(
                features=('reject', 'markers', 'pos%d' % pos, 'named' if named else 'tuple', 'traits%d' % ti, mode, 'n%d' % len(tys)),
                nfields=len(tys), traits=[t for t, _ in tl], reject=True)))
        # enums are not supported
        for mode in ['attr', 'derive']:
            en = sx.enum('E', [sx.variant('A', sx.unnamed([sx.field(sx.tid('u8'))]))])
            out.append(self._inv(mode, [('Deref', None)], en, dict(features=('enum', mode), nfields=1,
                                                                    traits=['Deref'], reject=True, enum=True)))
        return out

    @staticmethod
    def _inv(mode, tl, item_s, meta):
        if mode == 'attr':
            return (sx.inv_attr(sx.dx(tl), item_s), meta)
        # derive: the list moves into a #[derive_ex(..)] attribute on the item
        item_s = item_s.replace('(struct (', '(struct (' + sx.a_derive_ex(sx.dx(tl)) + ' ', 1) \
            if item_s.startswith('(struct') else \
            item_s.replace('(enum (', '(enum (' + sx.a_derive_ex(sx.dx(tl)) + ' ', 1)
        return (sx.inv_derive(item_s), meta)

    def view(self, r, parts):
        return [p for p in parts if p[0] != 'ITEM']

    # ---- model-free oracle: compiled programs against the real proc-macro ---------------
    def oracle(self, tier, rng, suspicious):
        from .. import run as R
        results = self.l1_results or R.run_cases(self.cases(tier, rng))
        mods, rej = [], []
        for r in results:
            m = r.meta
            head = ('#[::derive_ex::derive_ex(%s)]\n' % r.attr) if r.mode == 'A' else '#[derive(::derive_ex::Ex)]\n'
            if m.get('reject'):
                rej.append(l2.Module(r.cid, head + r.item + '\npub fn run() {}', r))
                continue
            ft = FT_BY_NAME[m['ft']]
            acc = ('x.%s' % m['fname']) if m['named'] else 'x.0'
            ctor = ('X { %s: %s }' % (m['fname'], ft.v1)) if m['named'] else 'X(%s)' % ft.v1
            body = [head + r.item, 'pub fn run() {', '    let mut x = %s;' % ctor]
            body.append('    fn same<A: ?Sized, B: ?Sized + ::core::ops::Deref<Target = A>>(_a: &A, _b: &B) {}')
            if 'Deref' in m['traits']:
                body.append('    same(&%s, &x);' % acc)
                body.append('    let p1 = &%s as *const _ as *const u8 as usize;' % acc)
                body.append('    let p2 = ::core::ops::Deref::deref(&x) as *const _ as *const u8 as usize;')
                body.append('    println!("%d\\tptr\\t{}", p1 == p2);' % r.cid)
                if 'DerefMut' in m['traits']:
                    body.append('    let p3 = ::core::ops::DerefMut::deref_mut(&mut x) as *mut _ as *const u8 as usize;')
                    body.append('    println!("%d\\tmutptr\\t{}", p1 == p3);' % r.cid)
                    body.append('    *::core::ops::DerefMut::deref_mut(&mut x) = %s;' % ft.v2)
                    body.append('    println!("%d\\twrite\\t{}", %s == %s);' % (r.cid, acc, ft.v2))
            body.append('}')
            if 'Deref' in m['traits']:
                mods.append(l2.Module(r.cid, '\n'.join(body), r))
                if r.cid % 3 == 0:
                    # the same program with the struct declared through a macro_rules! macro
                    mods.append(l2.Module(r.cid + 10 ** 6, '\n'.join([l2.via_macro(head, r.item)] + body[1:]).replace(
                        '"%d\\t' % r.cid, '"%d\\t' % (r.cid + 10 ** 6)), r))
        # a possibly-unsized single field written as a bare trait object (with one bound / with several: `&dyn A + B`
        # would be ambiguous): hand-written, the value is reached through a pointer cast of a `&dyn` reference
        class _Lit:
            def __init__(self, text, traits):
                self.text, self.meta = text, dict(nontrivial=True, traits=traits, unsized=True)
            def input_text(self):
                return self.text
        for k, (tl, decl, dynty) in enumerate(UNSIZED_TARGETS):
            for mode in ('A', 'D'):
                cid = 2 * 10 ** 6 + 2 * k + (mode == 'D')
                head = ('#[::derive_ex::derive_ex(%s)]\n' % tl) if mode == 'A' else \
                    '#[derive(::derive_ex::Ex)]\n#[derive_ex(%s)]\n' % tl
                body = [head + '#[repr(transparent)]\n' + decl, 'pub fn run() {',
                        '    let mut v = 5u8;',
                        '    let p0 = &v as *const u8 as usize;',
                        '    let r: &mut (%s) = &mut v;' % dynty,
                        '    let x: &mut X = unsafe { &mut *(r as *mut (%s) as *mut X) };' % dynty,
                        '    let p2 = ::core::ops::Deref::deref(&*x) as *const (%s) as *const u8 as usize;' % dynty,
                        '    println!("%d\\tptr\\t{}", p0 == p2);' % cid]
                if 'DerefMut' in tl:
                    body.append('    let p3 = ::core::ops::DerefMut::deref_mut(x) as *mut (%s) as *const u8 as usize;' % dynty)
                    body.append('    println!("%d\\tmutptr\\t{}", p0 == p3);' % cid)
                body.append('}')
                text = ('#[derive_ex(%s)] %s' % (tl, decl)) if mode == 'A' else '#[derive(Ex)] #[derive_ex(%s)] %s' % (tl, decl)
                mods.append(l2.Module(cid, '\n'.join(body), _Lit(text, [t.strip() for t in tl.split(',')])))
        # the two traits requested by two attribute-macro invocations stacked on the struct, spelled with the crate path or
        # through a renamed import (each invocation reads its own list only)
        for k, (heads, decl, fld) in enumerate(STACKED_REQUESTS):
            cid = 4 * 10 ** 6 + k
            body = [heads + '\n' + decl, 'pub fn run() {', '    let mut x = X%s;' % (' { a: 5u8 }' if fld == 'a' else '(5u8)'),
                    '    let p0 = &x.%s as *const u8 as usize;' % fld,
                    '    let p1 = ::core::ops::Deref::deref(&x) as *const u8 as usize;', '    println!("%d\\tptr\\t{}", p0 == p1);' % cid,
                    '    let p2 = ::core::ops::DerefMut::deref_mut(&mut x) as *mut u8 as usize;', '    println!("%d\\tmutptr\\t{}", p0 == p2);' % cid,
                    '    *x = 7; println!("%d\\twrite\\t{}", x.%s == 7);' % (cid, fld), '}']
            m = _Lit(heads.replace('\n', ' ') + ' ' + decl.split('\n')[0], ['Deref', 'DerefMut'])
            m.meta['unsized'] = False
            mods.append(l2.Module(cid, '\n'.join(body), m))
        failures, samples = [], []
        validated = 0
        exe = l2.compile_batch('c18run', mods)
        obs = {}
        if exe:
            rc, obs, err = l2.run_exe(exe)
        for mo in mods:
            r = mo.meta
            if not mo.compiled:
                failures.append(dict(**{'class': 'deref-does-not-compile', 'mode': 'compile'},
                                     input=r.input_text() + ('   [item declared through a macro_rules! macro that writes the '
                                                             'attribute: see vlib/l2.py via_macro]' if 10 ** 6 <= mo.cid < 2 * 10 ** 6 else ''), observed=[d['message'] for d in mo.diags][:3],
                                     expected='compiles; deref returns the field itself'))
                continue
            got = obs.get(str(mo.cid), [])
            want = [('ptr', 'true')] + ([('mutptr', 'true'), ('write', 'true')] if 'DerefMut' in r.meta['traits'] else [])
            if r.meta.get('unsized'):
                want = [w for w in want if w[0] != 'write']
            if got != want:
                failures.append(dict(**{'class': 'deref-wrong-target', 'mode': 'behaviour'},
                                     input=r.input_text() + ('   [declared through macro_rules!]' if 10 ** 6 <= mo.cid < 2 * 10 ** 6 else ''), expected=want, observed=got))
            else:
                validated += 1
                if len(samples) < 2:
                    samples.append(dict(program_input=r.input_text()[:300], observed=got))
        # rejection through real rustc: derive_ex's own message, for exactly these modules
        l2.compile_batch('c18rej', rej, check_only=True)
        for mo in rej:
            r = mo.meta
            msgs = [d['message'] for d in mo.diags if d['level'] == 'error']
            want = 'for enum is not supported' if r.meta.get('enum') else 'supports only single field struct'
            if mo.compiled or not any(want in x for x in msgs):
                failures.append(dict(**{'class': 'deref-not-rejected', 'mode': 'compile'},
                                     input=r.input_text(), expected='compile error: ' + want, observed=msgs[:3]))
            else:
                validated += 1
        # DerefMut derived next to a HAND-WRITTEN Deref whose Target is not the field's type but one the field coerces to:
        # must not compile (the derived deref_mut would return a reference into the String's buffer, not to the field)
        guard = [l2.Module(3 * 10 ** 6 + k, src, _Lit(text, ['DerefMut'])) for k, (text, src) in enumerate(COERCIBLE_TARGET)]
        l2.compile_batch('c18guard', guard, check_only=True)
        for mo in guard:
            if mo.compiled:
                failures.append(dict(**{'class': 'deref-mut-accepts-a-coercible-target', 'mode': 'compile'}, input=mo.meta.input_text(),
                                     expected='refused by the compiler: Target is not the type of the field', observed='compiles'))
            else:
                validated += 1
        l2.cleanup('c18guard')
        l2.cleanup('c18run')
        l2.cleanup('c18rej')
        return dict(evaluations=len(mods) + len(rej) + len(guard), validated=validated, programs=len(mods) + len(rej) + len(guard),
                    failures=failures, samples=samples)


PROP = C18()
