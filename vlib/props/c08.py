"""C08 — operators derived from a struct act field-wise in all reference forms."""
import itertools

from .. import l2, sx
from .. import run as R
from ..check import Prop

BIN = [('Add', 'add', '+'), ('BitAnd', 'bitand', '&'), ('BitOr', 'bitor', '|'), ('BitXor', 'bitxor', '^'),
       ('Div', 'div', '/'), ('Mul', 'mul', '*'), ('Rem', 'rem', '%'), ('Shl', 'shl', '<<'), ('Shr', 'shr', '>>'),
       ('Sub', 'sub', '-')]
UN = [('Neg', 'neg', '-'), ('Not', 'not', '!')]


def prelude():
    """M: free monoid over operand names; every operator records its operands, their order, and whether each
    was taken by value (o) or by reference (r)"""
    s = ['''
use ::std::cell::Cell;
thread_local! { pub static CALLS: Cell<u32> = Cell::new(0); }
pub fn calls() -> u32 { CALLS.with(|c| c.replace(0)) }
fn tick() { CALLS.with(|c| c.set(c.get() + 1)); }
#[derive(Debug, Clone, PartialEq)]
pub struct M(pub String);
''']
    for tr, f, sym in BIN:
        for lref, rref in itertools.product((False, True), repeat=2):
            s.append('impl ::core::ops::%s<%sM> for %sM { type Output = M; fn %s(self, r: %sM) -> M { tick(); '
                     'M(format!("({}{}%s{}{})", "%s", self.0, "%s", r.0)) } }'
                     % (tr, '&' if rref else '', '&' if lref else '', f, '&' if rref else '', sym,
                        'r' if lref else 'o', 'r' if rref else 'o'))
        for rref in (False, True):
            s.append('impl ::core::ops::%sAssign<%sM> for M { fn %s_assign(&mut self, r: %sM) { tick(); '
                     'self.0 = format!("({}%s={}{})", self.0, "%s", r.0); } }'
                     % (tr, '&' if rref else '', f, '&' if rref else '', sym, 'r' if rref else 'o'))
    for tr, f, sym in UN:
        for lref in (False, True):
            s.append('impl ::core::ops::%s for %sM { type Output = M; fn %s(self) -> M { tick(); M(format!("(%s{}{})", "%s", self.0)) } }'
                     % (tr, '&' if lref else '', f, sym, 'r' if lref else 'o'))
    return '\n'.join(s)


MT = sx.tid('M')
SHAPES = [('unit', 0), ('tuple', 0), ('named', 0), ('tuple', 1), ('named', 2), ('tuple', 3), ('named', 4)]


def val(kind, n, base):
    vals = ['M("%s%d".to_string())' % (base, i) for i in range(n)]
    if kind == 'named':
        return 'X { %s }' % ', '.join('f%d: %s' % (i, v) for i, v in enumerate(vals))
    if kind == 'tuple':
        return 'X(%s)' % ', '.join(vals)
    return 'X'


def dbg(kind, strs):
    if kind == 'named' and strs:
        return 'X { %s }' % ', '.join('f%d: M("%s")' % (i, s) for i, s in enumerate(strs))
    if kind == 'tuple' and strs:
        return 'X(%s)' % ', '.join('M("%s")' % s for s in strs)
    return 'X'


_UN = ['pub trait Un { type Num; }', '#[derive(Debug, Clone, PartialEq)] pub struct Mt;', 'impl Un for Mt { type Num = M; }']
_TOM = ['pub trait ToM { type Out; }', 'impl<K> ToM for K { type Out = M; }', 'pub type Wrap<K> = <K as ToM>::Out;']
# (trait list, declarations before the struct, the struct, how a value is built)
PROJECTION_STRUCTS = [
    ('Add, SubAssign, Neg', _UN, 'pub struct L<T: Un>(pub T::Num, pub T::Num);', 'L::<Mt>'),
    # `Self` in an inline bound of the parameter / in the where-clause: the impls for `&L<T>` have to spell it out
    ('Add, SubAssign, Neg', ['pub trait PartOf<X: ?Sized> {}', 'impl<X: ?Sized> PartOf<X> for M {}'],
     'pub struct L<T: PartOf<Self>>(pub T, pub T);', 'L::<M>'),
    ('Add, SubAssign, Neg', ['pub trait PartOf<X: ?Sized> {}', 'impl<X: ?Sized> PartOf<X> for M {}'],
     'pub struct L<T: PartOf<Option<Self>>>(pub T, pub T) where Self: Sized, T: PartOf<(Self, u8)>;', 'L::<M>'),
    # field types that merely MENTION a well-known name (a marker type as an argument, the user's own type of that name):
    # they are ordinary operands
    ('Add, SubAssign, Neg', _TOM + ['pub type PhantomData = M;'],
     'pub struct L(pub Wrap<::core::marker::PhantomData<u8>>, pub PhantomData);', 'L'),
    ('Add, SubAssign, Neg', _TOM + ['pub type Option = M;', 'pub type Box = M;'],
     'pub struct L(pub Option, pub Wrap<(Box, ::std::string::String, [u8; 0])>);', 'L'),
    ('Add, SubAssign, Neg', _TOM + ['pub type Sized = M;', 'pub type Copy = M;'],
     'pub struct L(pub Wrap<fn(Self) -> Self>, pub Wrap<&\'static dyn ::core::marker::Send>);', 'L'),
]


class C08(Prop):
    pid = 'C08'
    tag = 'operator impls derived from a struct (headers + bodies)'
    rule = ('EXHAUSTIVE: all 10 binary operators, their 10 assign forms, Neg and Not x unit/tuple/named structs with 0-4 '
            'fields x both entry points; every field is a free-monoid string type whose operators record operand names, '
            'operand order and by-value/by-reference form and count calls; all 4 (2) reference forms are executed; expected '
            'results, unchanged borrowed operands and call counts computed from the property statement; non-trivial = >=1 field')

    def exhaustive(self, tier):
        return True

    def cases(self, tier, rng):
        out = []
        traits = [(t, 'bin', f, s) for t, f, s in BIN] + [(t + 'Assign', 'assign', f, s) for t, f, s in BIN] + \
                 [(t, 'un', f, s) for t, f, s in UN]
        plans = [(t, sh, mode, None) for t, sh, mode in itertools.product(traits, SHAPES, ('attr', 'derive'))]
        # many fields: two-digit tuple indices (`self.10`), named fields whose names sort differently from their order
        for k, t in enumerate(traits):
            plans.append((t, ('tuple', 12), 'attr' if k % 2 else 'derive', None))
            if k % 3 == 0:
                plans.append((t, ('named', 11), 'derive' if k % 2 else 'attr', None))
        # a field-level `#[derive_ex(Op(bound(..)))]` / `#[derive_ex(Op)]` on a field that is not the first one: the
        # results must still be paired with the fields in declaration order
        for k, (t, (sk, n)) in enumerate(itertools.product(traits, SHAPES)):
            if n >= 2:
                plans.append((t, (sk, n), 'attr' if k % 2 else 'derive', (n - 1 - (k % 2 if n >= 3 else 0), k % 3)))
        # explicit bound(...) lists on the trait entry / shared by the list (with and without `..`): they change the
        # where-clause only, never which fields take part
        for k, (t, (sk, n)) in enumerate(itertools.product(traits, SHAPES)):
            if n >= 1 and (k + n) % 2 == 0:
                plans.append((t, (sk, n), 'attr' if k % 2 else 'derive', ('list', k % 4)))
        # two operator traits on one struct: the binary and the assign form of one operator (either order, one list or
        # two stacked lists), two different operators, an operator next to a unary one
        bins = [t for t in traits if t[1] == 'bin']
        asgs = [t for t in traits if t[1] == 'assign']
        uns = [t for t in traits if t[1] == 'un']
        pairs = []
        for k, (b, a) in enumerate(zip(bins, asgs)):
            pairs += [(b, a), (a, b)]
            pairs.append((b, bins[(k + 1) % len(bins)]))
            pairs.append((a, asgs[(k + 3) % len(asgs)]))
            pairs.append((b, uns[k % len(uns)]))
        for k, (t1, t2) in enumerate(pairs):
            for sh in (('tuple', 2), ('named', 1)):
                plans.append((t1, sh, 'attr' if k % 2 else 'derive', ('second', t2, k % 3 == 0)))
        for (tr, kind, f, sym), (sk, n), mode, fattr in plans:
            larg, lshared = None, None
            second, stacked = None, False
            if fattr is not None and fattr[0] == 'second':
                second, stacked = fattr[1], fattr[2]
                fattr = None
            if fattr is not None and fattr[0] == 'list':
                larg = [([], False), None, ([sx.B_DOTS], False), None][fattr[1]]
                lshared = [None, [], None, [sx.b_pred(sx.wty(sx.tid('u8'), [sx.tb_trait(['Copy'])]))]][fattr[1]]
                fattr = None
            def fa(i):
                if fattr is None or fattr[0] != i:
                    return []
                arg = [None, ([sx.B_DOTS], False), ([], False)][fattr[1]] if fattr[1] < 2 else ([sx.B_DOTS], False)
                return [sx.a_derive_ex(sx.dx([(tr, arg)]))]
            fs = [sx.field(MT, name=('f%d' % i) if sk == 'named' else None, attrs=fa(i)) for i in range(n)]
            body = sx.named(fs) if sk == 'named' else (sx.unnamed(fs) if sk == 'tuple' else sx.UNIT)
            it = sx.struct('X', body)
            tl = [(tr, larg)] + ([(second[0], None)] if second and not stacked else [])
            if second and stacked:
                it = '(struct (' + sx.a_derive_ex(sx.dx([(second[0], None)])) + ' ' + it[len('(struct ('):]
            req = sx.inv_attr(sx.dx(tl, bnd=lshared), it) if mode == 'attr' else sx.inv_derive(
                '(struct (' + sx.a_derive_ex(sx.dx(tl, bnd=lshared)) + ' ' + it[len('(struct ('):])
            ops = [(tr, kind, f, sym)] + ([second] if second else [])
            out.append((req, dict(features=(tr, sk + str(n), mode, 'field-helper@%d' % fattr[0] if fattr else ('list-bound' if (larg or lshared is not None) else ('with-' + second[0] + ('-stacked' if stacked else '')) if second else 'plain')), trait=tr, kind=kind, fn=f, sym=sym, shape=(sk, n),
                                  ops=ops, nontrivial=n > 0)))
        return out

    def oracle(self, tier, rng, suspicious):
        results = self.l1_results or R.run_cases(self.cases(tier, rng))
        mods, expect = [], {}
        for r in results:
            m = r.meta
            head = ('#[::derive_ex::derive_ex(%s)]\n' % r.attr) if r.mode == 'A' else '#[derive(::derive_ex::Ex)]\n'
            sk, n = m['shape']
            a, b = val(sk, n, 'a'), val(sk, n, 'b')
            src = [l2.decl('#[derive(Debug, Clone, PartialEq)]\n' + head, r.item, r.cid), 'pub fn run() {',
                   '    let a0 = %s; let b0 = %s;' % (a, b)]
            exp = []
            for oi, (o_trait, o_kind, o_fn, sym) in enumerate(m.get('ops') or [(m['trait'], m['kind'], m['fn'], m['sym'])]):
              pre = '' if oi == 0 else 'op%d.' % oi
              m = dict(m, trait=o_trait, kind=o_kind, fn=o_fn)
              if m['kind'] == 'bin':
                for li, (lref, rref) in enumerate(itertools.product((False, True), repeat=2)):
                    src.append('    { let a = a0.clone(); let b = b0.clone(); calls(); let c = ::core::ops::%s::%s(%sa%s, %sb%s); '
                               'println!("%d\\t%sbin%d\\t{:?}\\t{}\\t{}", c, calls(), %s); }'
                               % (m['trait'], m['fn'], '&' if lref else '', '', '&' if rref else '', '',
                                  r.cid, pre, li, _unchanged(lref, rref)))
                    exp.append((pre + 'bin%d' % li, dbg(sk, ['(%sa%d%s%sb%d)' % ('r' if lref else 'o', i, sym, 'r' if rref else 'o', i)
                                                      for i in range(n)]), str(n), 'true'))
              elif m['kind'] == 'assign':
                for ri, rref in enumerate((False, True)):
                    src.append('    { let mut a = a0.clone(); let b = b0.clone(); calls(); ::core::ops::%s::%s_assign(&mut a, %sb); '
                               'println!("%d\\t%sasg%d\\t{:?}\\t{}\\t{}", a, calls(), %s); }'
                               % (m['trait'], m['fn'], '&' if rref else '', r.cid, pre, ri, 'b == b0' if rref else 'true'))
                    exp.append((pre + 'asg%d' % ri, dbg(sk, ['(a%d%s=%sb%d)' % (i, sym, 'r' if rref else 'o', i) for i in range(n)]),
                                str(n), 'true'))
              else:
                for li, lref in enumerate((False, True)):
                    src.append('    { let a = a0.clone(); calls(); let c = ::core::ops::%s::%s(%sa); '
                               'println!("%d\\t%sun%d\\t{:?}\\t{}\\t{}", c, calls(), %s); }'
                               % (m['trait'], m['fn'], '&' if lref else '', r.cid, pre, li, 'a == a0' if lref else 'true'))
                    exp.append((pre + 'un%d' % li, dbg(sk, ['(%s%sa%d)' % (sym, 'r' if lref else 'o', i) for i in range(n)]),
                                str(n), 'true'))
            m = r.meta
            src.append('}')
            expect[r.cid] = exp
            mods.append(l2.Module(r.cid, '\n'.join(src), r))
        nb = 8
        batches = [('c08_%d' % k, mods[k::nb]) for k in range(nb)]
        # generic structs whose fields reach the parameter through a PROJECTION (`T::Num`, `<T as Un>::Num`), hand-written:
        # the where-clause has to name the projections, and every form has to work
        class _Lit:
            def __init__(self, text):
                self.text, self.meta = text, dict(nontrivial=True, shape=('tuple', 2))
            def input_text(self):
                return self.text
        for k, (tl, setup, decl, ctor) in enumerate(PROJECTION_STRUCTS):
            for mode in ('A', 'D'):
                cid = 6 * 10 ** 6 + 2 * k + (mode == 'D')
                head = ('#[::derive_ex::derive_ex(%s)]\n' % tl) if mode == 'A' else '#[derive(::derive_ex::Ex)]\n#[derive_ex(%s)]\n' % tl
                mk = lambda p, ctor=ctor: '%s(M("%s0".to_string()), M("%s1".to_string()))' % (ctor, p, p)
                src = setup + [
                       '#[derive(Debug, Clone, PartialEq)]\n' + head + decl, 'pub fn run() {',
                       '    let _ = calls(); let c = %s + %s; println!("%d\\tvv\\t{:?}\\t{}", c, calls());' % (mk('a'), mk('b'), cid),
                       '    let (a, b) = (%s, %s); let c = &a + &b; println!("%d\\trr\\t{:?}\\t{}", c, calls());' % (mk('a'), mk('b'), cid),
                       '    let mut a = %s; a -= &%s; println!("%d\\tasg\\t{:?}\\t{}", a, calls());' % (mk('a'), mk('b'), cid),
                       '    let c = -&%s; println!("%d\\tneg\\t{:?}\\t{}", c, calls()); }' % (mk('a'), cid)]
                expect[cid] = [('vv', 'L(M("(oa0+ob0)"), M("(oa1+ob1)"))', '2'), ('rr', 'L(M("(ra0+rb0)"), M("(ra1+rb1)"))', '2'),
                               ('asg', 'L(M("(a0-=rb0)"), M("(a1-=rb1)"))', '2'), ('neg', 'L(M("(-ra0)"), M("(-ra1)"))', '2')]
                text = ('#[derive_ex(%s)] ' % tl if mode == 'A' else '#[derive(Ex)] #[derive_ex(%s)] ' % tl) + decl
                mods.append(l2.Module(cid, '\n'.join(src), _Lit(text)))
        batches.append(('c08lit', [mo for mo in mods if mo.cid >= 6 * 10 ** 6]))
        exes = l2.compile_parallel(batches, prelude=prelude())
        obs = {}
        for name, exe in exes.items():
            if exe:
                obs.update(l2.run_exe(exe)[1])
        failures, validated, samples, n_obs = [], 0, [], 0
        for mo in mods:
            r = mo.meta
            if not mo.compiled:
                failures.append(dict(**{'class': 'operator-does-not-compile', 'mode': 'compile'}, input=r.input_text(),
                                     expected='compiles', observed=[d['message'] for d in mo.diags if d['level'] == 'error'][:3]))
                continue
            got, want = obs.get(str(mo.cid), []), expect[mo.cid]
            n_obs += len(want)
            if got != want:
                bad = next(((w, g) for w, g in zip(want, got + [()] * len(want)) if w != g), (want, got))
                failures.append(dict(**{'class': 'operator-behaviour', 'mode': 'behaviour'}, input=r.input_text(),
                                     expected=list(bad[0]), observed=list(bad[1])))
            else:
                validated += 1
                if len(samples) < 2 and r.meta['shape'][1] >= 2:
                    samples.append(dict(input=r.input_text()[:200], observed=[list(x) for x in got[:2]]))
        for name, _ in batches:
            l2.cleanup(name)
        return dict(evaluations=len(mods), validated=validated, programs=len(mods), observations=n_obs,
                    failures=failures, samples=samples)


def _unchanged(lref, rref):
    conds = (['a == a0'] if lref else []) + (['b == b0'] if rref else [])
    return ' && '.join(conds) if conds else 'true'


PROP = C08()
