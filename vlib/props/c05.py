"""C05 — documented misuse of comparison attributes is rejected; valid use is accepted."""
import glob
import itertools
import os
import re

from .. import cmpgen as G
from .. import corpus, l2, sx
from .. import run as R
from ..check import Prop


def outcomes(parts, traits):
    """split the real parts into one outcome per requested trait: 'ERR' / 'OK' (model-free: an Ok entry is
    an IMPL whose header names the trait, followed by a CONST for Eq)"""
    out = []
    i = 0
    ps = [p for p in parts if p[0] != 'ITEM']
    for t in traits:
        if i >= len(ps):
            out.append('MISSING')
            continue
        p = ps[i]
        if p[0] == 'ERR':
            out.append('ERR')
            i += 1
        elif p[0] == 'IMPL':
            out.append('OK')
            i += 1
            if t == 'Eq' and i < len(ps) and ps[i][0] == 'CONST':
                i += 1
        else:
            out.append(p[0])
            i += 1
    if i != len(ps):
        out.append('EXTRA')
    return out


# accepted customisations on a field whose type is NOT Sized (the last field of a struct may be `str` / `[u8]`): the
# documentation allows them like on any other field
UNSIZED_PRELUDE = '''
pub fn us_ord(a: &str, b: &str) -> Ordering { a.len().cmp(&b.len()) }
pub fn us_partial_ord(a: &str, b: &str) -> Option<Ordering> { Some(a.len().cmp(&b.len())) }
pub fn us_eq(a: &str, b: &str) -> bool { a.len() == b.len() }
pub fn us_hash<H: Hasher>(a: &str, s: &mut H) { s.write_usize(a.len()) }
'''
UNSIZED_ACCEPTED = [(traits, '#[%s]' % attr, shape)
                    for traits, attr in [
                        ('PartialEq', 'partial_eq(by = us_eq)'), ('PartialEq', 'eq(by = us_eq)'), ('PartialEq', 'partial_eq(key = $.len())'),
                        ('PartialEq, Eq', 'eq(by = us_eq)'), ('PartialEq, Eq', 'eq(key = $.len())'),
                        ('PartialOrd, PartialEq', 'partial_ord(by = us_partial_ord)'), ('PartialOrd, PartialEq', 'ord(by = us_ord)'),
                        ('PartialOrd, PartialEq', 'partial_ord(key = $.len())'), ('PartialOrd, PartialEq', 'ord(key = $.len(), reverse)'),
                        ('Ord, PartialOrd, Eq, PartialEq', 'ord(by = us_ord)'), ('Ord, PartialOrd, Eq, PartialEq', 'ord(key = $.len())'),
                        ('Ord, PartialOrd, Eq, PartialEq', 'ord(by = us_ord, reverse)'),
                        ('Hash', 'hash(by = us_hash)'), ('Hash', 'hash(key = $.len())'),
                        ('Hash, Eq, PartialEq', 'ord(key = $.len())'), ('Hash, PartialEq', 'eq(key = $.len())'),
                        ('PartialOrd', 'partial_ord(by = us_partial_ord)'), ('PartialOrd', 'ord(by = us_ord)'), ('Ord', 'ord(by = us_ord)'),
                        ('Eq', 'eq(by = us_eq)'), ('Ord, PartialOrd, Eq, PartialEq, Hash', 'ord(key = $.len())'),
                        ('PartialOrd, PartialEq', 'partial_ord(ignore)'), ('Ord, PartialOrd, Eq, PartialEq, Hash', 'ord(ignore)'),
                        ('Ord, PartialOrd, Eq, PartialEq', 'ord(reverse)'),
                    ]
                    for shape in ('struct X(u8, %s str);', 'struct X { a: u8, %s b: str }')]


# accepted: a more specific attribute that carries ONLY a `bound(..)` (no `..` in it) next to a less specific one with the
# customisation - the bound list ends the search for BOUNDS, not the search for `key` / `by`
BOUND_ONLY_ACCEPTED = [
    ('Eq, PartialEq', 'pub struct X { #[partial_eq(bound())] #[eq(key = $.0)] pub a: (u8, u8) }'),
    ('PartialEq, PartialOrd', 'pub struct X(#[partial_ord(bound())] #[ord(by = by_ord)] pub u8);'),
    ('Eq, PartialEq, Hash', 'pub enum X { A(#[eq(bound())] #[ord(key = $ % 3)] u8), B }'),
    ('Ord, PartialOrd, Eq, PartialEq, Hash', 'pub struct X<T: Copy>(#[partial_ord(bound(T: Copy))] #[eq(bound(T: Copy))] #[hash(bound())] #[ord(key = 1u8)] pub T);'),
    ('PartialEq', 'pub struct X<T>(#[partial_eq(bound(T: Copy))] #[partial_ord(by = |_, _| None)] pub T);'),
    ('Hash, PartialEq', 'pub struct X(#[hash(bound())] #[eq(key = $ / 2)] pub u8, pub u8);'),
]


class C05(Prop):
    pid = 'C05'
    tag = 'which requested traits expand to compile_error! (and the messages), which to impls'
    rule = ('EXHAUSTIVE in both tiers: all 7*7*4*4*4 = 3136 per-field attribute combinations x the five traits (derived '
            'together, so that every attribute is read) x {named struct field, tuple struct field, enum-variant field} x '
            '{attribute macro, derive macro} = 18816 expansions deciding 94080 (combination, trait) points; every combination again after a plain field of the same type and in a second variant (isolation); plus sampled trait '
            'subsets, the 4x5 misplaced arguments on types and on variants, the compile_fail corpus of the repository '
            '(messages compared with the committed .stderr), and a rustc-compiled sample; non-trivial = combination with at '
            'least one attribute; distinct by input text')
    assumptions = ['the compile_error! message reaches the user unchanged (sampled through real rustc)']

    def exhaustive(self, tier):
        return True

    def cases(self, tier, rng):
        out = []
        combos = list(G.all_combos())
        for ci, combo in enumerate(combos):
            for shape, mode in itertools.product(('named', 'tuple', 'variant'), ('attr', 'derive')):
                traits = G.TRAITS
                out.append(self.mk(combo, shape, mode, traits, ci))
            # the verdict on a field does not depend on its neighbours: the same field after a plain field of the same
            # type, and in the second variant after a variant with the same payload
            for shape in ('after-same-type', 'second-variant'):
                out.append(self.mk(combo, shape, 'attr' if ci % 2 else 'derive', G.TRAITS, ci))
        # trait subsets: attributes that affect no derived trait must not matter
        sets = [list(c) for n in range(1, 5) for c in itertools.combinations(G.TRAITS, n)]
        for k in range(1500 if tier == 'quick' else 100000):
            combo = combos[rng.randrange(len(combos))]
            traits = sets[rng.randrange(len(sets))]
            out.append(self.mk(G.relevant_combo(traits, combo), rng.choice(['named', 'tuple', 'variant', 'after-same-type', 'second-variant']),
                               rng.choice(['attr', 'derive']), traits, -1))
        # the verdict does not depend on explicit `bound(..)` lists either (without `..` they switch the generated bounds
        # off, not the checks): shared by the list, or on every derived trait
        stop = [sx.b_pred(sx.wty(sx.tid('u8'), [sx.tb_trait(['Copy'])]))]
        for k in range(600 if tier == 'quick' else 40000):
            combo = combos[rng.randrange(len(combos))]
            traits = sets[rng.randrange(len(sets))]
            how = k % 3
            bnd = [[], stop, None][how]
            targs = {t: ([], False) for t in traits} if how == 2 else None
            out.append(self.mk(G.relevant_combo(traits, combo), rng.choice(['named', 'tuple', 'variant', 'after-same-type']),
                               rng.choice(['attr', 'derive']), traits, -1, bnd=bnd, targs=targs))
        # misplaced arguments
        mis = []
        for a, arg, where, mode in itertools.product(G.ATTRS, ['ignore', 'reverse', 'key', 'by'], ['type', 'variant', 'enum-type'],
                                                     ['attr', 'derive']):
            if arg == 'reverse' and a not in ('ord', 'partial_ord'):
                continue
            mis.append((a, arg, where, mode, G.TRAITS))
            # ... and with every single derived trait the attribute acts on (the attribute is then parsed although
            # "its own" trait is not derived)
            for t in G.TRAITS:
                if t in G.AFFECTS[a]:
                    mis.append((a, arg, where, mode, [t]))
        for a, arg, where, mode, mtraits in mis:
            combo = {a: arg}
            attrs = G.combo_attrs(combo)
            f = sx.field(sx.tid('u8'))
            if where == 'type':
                it = sx.struct('X', sx.unnamed([f]), attrs=attrs)
            elif where == 'enum-type':     # the type itself, when it is an enum (its own code path)
                it = sx.enum('E', [sx.variant('A', sx.unnamed([f])), sx.variant('B')], attrs=attrs)
            else:
                it = sx.enum('E', [sx.variant('A', sx.unnamed([f]), attrs=attrs), sx.variant('B')])
            tl = [(t, None) for t in mtraits]
            req = sx.inv_attr(sx.dx(tl), it) if mode == 'attr' else sx.inv_derive(
                it.replace('(struct (', '(struct (' + sx.a_derive_ex(sx.dx(tl)) + ' ', 1)
                if where == 'type' else it.replace('(enum (', '(enum (' + sx.a_derive_ex(sx.dx(tl)) + ' ', 1))
            out.append((req, dict(features=('misplaced', a, arg, where, mode, '+'.join(mtraits) if len(mtraits) < 5 else 'all'),
                                  traits=list(mtraits), misplaced=True,
                                  nontrivial=True)))
        return out

    @staticmethod
    def mk(combo, shape, mode, traits, ci, bnd=None, targs=None):
        named = shape != 'tuple'
        variants = [(named, [('u8', combo)])]
        is_enum = shape in ('variant', 'second-variant')
        if shape == 'after-same-type':
            variants = [(ci % 3 != 0, [('u8', {}), ('u8', combo), ('u8', {})][:2 + ci % 2])]
        elif shape == 'second-variant':
            variants = [(False, [('u8', {})]), (ci % 3 != 0, [('u8', combo)])]
        elif is_enum:
            variants.append((False, []))
        req = G.make_item('E' if is_enum else 'X', variants, is_enum, traits, mode, bnd=bnd, targs=targs)
        feats = [shape, mode] + ['%s(%s)' % (a, o) for a, o in sorted(combo.items()) if o != '-'] + \
                (['shared-bound'] if bnd is not None else []) + (['trait-bound'] if targs else [])
        return (req, dict(features=tuple(feats), traits=list(traits), combo=combo,
                          nontrivial=any(o != '-' for o in combo.values())))

    def view(self, r, parts):
        return [(p[0], p[1]) if p[0] == 'ERR' else (p[0],) for p in parts if p[0] != 'ITEM']

    def oracle(self, tier, rng, suspicious):
        results = self.l1_results or R.run_cases(self.cases(tier, rng))
        failures, validated, points, samples = [], 0, 0, []
        accepted_cases = []
        for r in results:
            m = r.meta
            if m.get('misplaced'):
                ps = [p for p in r.actual if p[0] != 'ITEM']
                if len(ps) == 1 and ps[0][0] == 'ERR' and 'cannot specify' in ps[0][1]:
                    validated += 1
                else:
                    failures.append(dict(**{'class': 'misplaced-argument-accepted', 'mode': 'reject'}, input=r.input_text(),
                                         expected='one compile error "cannot specify .."', observed=[list(p)[:2] for p in ps][:4]))
                continue
            want = ['ERR' if G.rejected(t, m['combo']) else 'OK' for t in m['traits']]
            got = outcomes(r.actual, m['traits'])
            points += len(want)
            if want != got:
                failures.append(dict(**{'class': 'acceptance-differs-from-documentation', 'mode': 'reject'},
                                     input=r.input_text(), traits=m['traits'], expected=want, observed=got))
            else:
                validated += 1
                if 'ERR' not in want:
                    accepted_cases.append(r)
                if len(samples) < 2 and 'ERR' in want and 'OK' in want:
                    samples.append(dict(input=r.input_text()[:400], per_trait=list(zip(m['traits'], got))))
        # the repository's own compile_fail corpus: message vs committed .stderr
        cf = 0
        for rs in sorted(glob.glob('/repo/derive-ex-tests/tests/compile_fail/*/*.rs')):
            err = open(rs[:-3] + '.stderr').read()
            if re.search(r'^error\[E', err, re.M):
                continue            # a rustc diagnostic (trait not satisfied ...), not derive_ex's own message
            m = re.match(r'error: (.*?)\n\s+--> ', err, re.S)
            if not m:
                continue
            want_msg = re.sub(r'\n {7}', '\n', m.group(1)).strip()
            for mode, attr, item in corpus.extract(open(rs).read()):
                line = '0\t%s\t%s\t%s' % (mode, attr, item)
                out = R._group(R._run_sharded(R.EXPANDER, [line], 'cf')).get('0', [])
                msgs = [p[1].replace('\\n', '\n').strip() for p in out if p[0] == 'ERR']
                cf += 1
                if want_msg not in msgs:
                    failures.append(dict(**{'class': 'compile-fail-corpus-message', 'mode': 'message'},
                                         input=os.path.basename(rs), expected=want_msg, observed=msgs[:3]))
                else:
                    validated += 1
        # a rustc-compiled sample: accepted combinations compile, rejected ones show derive_ex's message
        sample = [r for r in results if not r.meta.get('misplaced')]
        rng.shuffle(sample)
        # directed: refusals with two or more customisations on the field (several errors for one field must all reach
        # the user - in the real compiler, where spans cannot be joined, not only in-process)
        def n_custom(r):
            return sum(1 for o in r.meta.get('combo', {}).values() if 'key' in o.split('+') or 'by' in o.split('+'))
        multi = [r for r in sample if n_custom(r) >= 2 and any(G.rejected(t, r.meta['combo']) for t in r.meta['traits'])]
        sample = multi[:40 if tier == 'quick' else 400] + sample[:60 if tier == 'quick' else 3000]
        mods = []
        for r in sample:
            m = r.meta
            head = ('#[::derive_ex::derive_ex(%s)]\n' % r.attr) if r.mode == 'A' else '#[derive(::derive_ex::Ex)]\n'
            variants = [(True, [('u8', m['combo'])])]
            # only the item matters here; supertrait stand-ins as in C01
            name = 'E' if re.search(r'\benum E\b', r.item) else 'X'
            src = [head + r.item]
            tr = m['traits']
            if ('Eq' in tr or 'PartialOrd' in tr or 'Ord' in tr) and 'PartialEq' not in tr:
                src.append('impl PartialEq for %s { fn eq(&self, _: &Self) -> bool { true } }' % name)
            if 'Ord' in tr and 'Eq' not in tr:
                src.append('impl Eq for %s {}' % name)
            if 'Ord' in tr and 'PartialOrd' not in tr:
                src.append('impl PartialOrd for %s { fn partial_cmp(&self, _: &Self) -> Option<Ordering> { None } }' % name)
            src.append('pub fn run() {}')
            mods.append(l2.Module(r.cid, '\n'.join(src), r))
        l2.compile_parallel([('c05rustc', mods)], prelude=G.PRELUDE, check_only=True)
        for mo in mods:
            m = mo.meta.meta
            rej = [t for t in m['traits'] if G.rejected(t, m['combo'])]
            msgs = [d['message'] for d in mo.diags if d['level'] == 'error']
            own = [x for x in msgs if 'must be used instead of' in x or 'cannot be used' in x]
            if rej and (mo.compiled or len(own) != len(rej)):
                failures.append(dict(**{'class': 'rustc-does-not-show-the-rejection', 'mode': 'rustc'},
                                     input=mo.meta.input_text(), expected='%d derive_ex errors' % len(rej), observed=msgs[:4]))
            elif not rej and not mo.compiled:
                failures.append(dict(**{'class': 'accepted-combination-does-not-compile', 'mode': 'rustc'},
                                     input=mo.meta.input_text(), expected='compiles', observed=msgs[:4]))
            else:
                validated += 1
        l2.cleanup('c05rustc')
        # accepted customisations on an unsized last field, hand-written, compiled against the real macro
        class _Lit:
            def __init__(self, text):
                self.text, self.meta = text, dict(nontrivial=True)
            def input_text(self):
                return self.text
        lits = []
        for k, (traits, attr, shape) in enumerate(UNSIZED_ACCEPTED + [(t, None, d) for t, d in BOUND_ONLY_ACCEPTED]):
            decl = ('pub ' + shape % attr) if attr is not None else shape
            text = '#[derive_ex(%s)] %s' % (traits, decl)
            src = [('#[::derive_ex::derive_ex(%s)]\n' if k % 2 else '#[derive(::derive_ex::Ex)]\n#[derive_ex(%s)]\n') % traits + decl]
            tr = [t.strip() for t in traits.split(',')]
            if ('Eq' in tr or 'PartialOrd' in tr or 'Ord' in tr) and 'PartialEq' not in tr:
                src.append('impl PartialEq for X { fn eq(&self, _: &Self) -> bool { true } }')
            if 'Ord' in tr and 'Eq' not in tr:
                src.append('impl Eq for X {}')
            if 'Ord' in tr and 'PartialOrd' not in tr:
                src.append('impl PartialOrd for X { fn partial_cmp(&self, _: &Self) -> Option<Ordering> { None } }')
            src.append('pub fn run() {}')
            lits.append(l2.Module(9 * 10 ** 6 + k, '\n'.join(src), _Lit(text)))
        l2.compile_parallel([('c05unsized', lits)], prelude=G.PRELUDE + UNSIZED_PRELUDE, check_only=True)
        for mo in lits:
            if mo.compiled:
                validated += 1
            else:
                failures.append(dict(**{'class': 'accepted-combination-does-not-compile', 'mode': 'rustc-unsized'},
                                     input=mo.meta.input_text(), expected='compiles (a combination the documentation allows' + (' - here on the unsized tail of the struct)' if 'str' in mo.meta.input_text() else ')'),
                                     observed=[d['message'] for d in mo.diags if d['level'] == 'error'][:4]))
        l2.cleanup('c05unsized')
        mods = mods + lits
        return dict(evaluations=len(results) + cf + len(mods), validated=validated, failures=failures, samples=samples,
                    combination_trait_points=points, compile_fail_corpus=cf, programs=len(mods))


PROP = C05()
