"""C14 — the item is re-emitted unchanged apart from derive_ex's own attributes."""
from .. import run as R
from ..check import Prop
from ..gen import Gen, ImplGen
from ..tokutil import owned_names, strip_attrs, HELPER_NAMES


class C14(Prop):
    pid = 'C14'
    tag = 'ITEM part (the re-emitted item)'
    rule = ('random struct/enum/impl items from the shape grammar of vlib/gen.py with dense, interleaved helper and '
            'foreign attributes on type, variants and fields, helper-named attributes of traits that are not derived, '
            'duplicate / name=value / misplaced attributes and unsupported traits (error paths), through the attribute '
            'macro; non-trivial = carries at least one attribute; distinct by (feature vector, item text)')
    assumptions = ['syn re-prints an unmodified item with the tokens it parsed (validated by the token-level oracle on every case)']

    def n(self, tier):
        return 4000 if tier == 'quick' else 250000

    def cases(self, tier, rng):
        g, gi = Gen(rng), ImplGen(rng)
        out = []
        for _ in range(self.n(tier)):
            c = g.item(density=0.6)
            c[1]['nontrivial'] = any(f.startswith(('cmp-', 'debug-', 'default-')) for f in c[1]['features'])
            out.append(c)
        out += [gi.impl_item() for _ in range(self.n(tier) // 10)]
        return out

    def view(self, r, parts):
        return [p for p in parts if p[0] == 'ITEM']

    def oracle(self, tier, rng, suspicious):
        """model-free: the real ITEM against the input item minus the attributes the documentation
        assigns to the derived traits, computed on tokens"""
        results = self.l1_results or R.run_cases(self.cases(tier, rng))
        flat_in = R.tokenize([r.item for r in results])
        failures, validated, samples = [], 0, []
        for r, fi in zip(results, flat_in):
            if fi[0] != 'FLAT':
                continue
            inp = fi[1]
            items = [p for p in r.actual if p[0] == 'ITEM']
            if r.mode == 'D':
                if items:
                    failures.append(dict(**{'class': 'derive-reemits-item', 'mode': 'item'}, input=r.input_text(),
                                         expected='no item', observed=items))
                else:
                    validated += 1
                continue
            if len(items) != 1:
                failures.append(dict(**{'class': 'item-missing', 'mode': 'item'}, input=r.input_text(),
                                     expected='the item', observed=[p[0] for p in r.actual]))
                continue
            got = items[0][1]
            ok_derivation = any(p[0] in ('IMPL', 'DUMP') for p in r.actual)
            if r.meta.get('impl'):
                want, strict = inp, True
            elif ok_derivation:
                want, strict = strip_attrs(inp, owned_names(r.meta['traits'])), True
            else:
                # derivation failed: the item is still emitted, never with its `derive_ex` attributes (they would be
                # expanded again) - and with the helper attributes of the requested traits removed, unless the request
                # itself could not be read (then no helper attribute is known yet and only `derive_ex` goes)
                full = strip_attrs(inp, owned_names(r.meta['traits']) | {'derive_ex'})
                only_dx = strip_attrs(inp, {'derive_ex'})
                # (an unreadable request shows as `unsupported trait` or as a parse error of the argument list)
                import re
                unreadable = any(p[0] == 'ERR' and re.match(r'unsupported trait|expected |unexpected ', p[1]) for p in r.actual)
                if got != full and not (unreadable and got == only_dx):
                    failures.append(dict(**{'class': 'item-on-error-keeps-attributes', 'mode': 'item'}, input=r.input_text(),
                                         expected=[full, only_dx], observed=got, strict=True))
                    continue
                want, got, strict = strip_attrs(inp, HELPER_NAMES), strip_attrs(got, HELPER_NAMES), False
            if want != got:
                failures.append(dict(**{'class': classify(r, want, got), 'mode': 'item'}, input=r.input_text(),
                                     expected=want, observed=got, strict=strict))
            else:
                validated += 1
                if len(samples) < 2 and strict and want != inp:
                    samples.append(dict(input=r.input_text()[:500], reemitted=got[:500]))
        # items NESTED inside the annotated item (in the block of a discriminant, in an array length) are foreign content:
        # their attributes are not the annotated item's, whatever they are called (hand-written; real macro only)
        raw = R.run_raw([('A', a, it, dict(nontrivial=True)) for a, it, _ in NESTED_ITEMS])
        want_flat = R.tokenize([w for _, _, w in NESTED_ITEMS])
        for r, wf in zip(raw, want_flat):
            items = [p for p in r.actual if p[0] == 'ITEM']
            got = items[0][1] if len(items) == 1 else None
            if wf[0] != 'FLAT' or got != wf[1]:
                failures.append(dict(**{'class': 'nested-item-attributes-touched', 'mode': 'item'}, input=r.input_text(),
                                     expected=wf[1] if wf[0] == 'FLAT' else wf, observed=got, strict=True))
            else:
                validated += 1
        return dict(evaluations=len(results) + len(raw), validated=validated, failures=failures, samples=samples,
                    nested_item_requests=len(raw))


# (argument list, item, the item as it has to be re-emitted)
NESTED_ITEMS = [
    ('Default, Debug, Eq, PartialEq',
     'enum Level { #[default] Low = { #[derive(Default)] enum Inner { #[default] X, Y } 1 }, High = 7 }',
     'enum Level { Low = { #[derive(Default)] enum Inner { #[default] X, Y } 1 }, High = 7 }'),
    ('Default, Debug',
     'struct Buf { #[default([9; 3])] data: [u8; { #[derive_ex(Default)] struct Len { #[default(3)] n: usize } 3 }], #[debug(ignore)] hidden: u8 }',
     'struct Buf { data: [u8; { #[derive_ex(Default)] struct Len { #[default(3)] n: usize } 3 }], hidden: u8 }'),
    ('PartialEq, Hash',
     'struct K { #[partial_eq(ignore)] a: [u8; { struct I { #[partial_eq(ignore)] #[hash(ignore)] x: u8 } 2 }], #[hash(ignore)] b: u8 }',
     'struct K { a: [u8; { struct I { #[partial_eq(ignore)] #[hash(ignore)] x: u8 } 2 }], b: u8 }'),
    ('', 'struct X<T> { #[derive_ex(Clone(bound(T)))] a: T, b: u8 }', 'struct X<T> { a: T, b: u8 }'),
    # the name of a trait INSIDE the arguments of a list (a bound) derives nothing: the helper-named attributes of that
    # trait are foreign (here: the standard derive's `#[default]` marker, a `#[debug]` / `#[hash]` of another macro)
    ('Clone(bound(T: Clone + Default))', '#[derive(Default)] enum E<T> { #[default] A, B(T) }', '#[derive(Default)] enum E<T> { #[default] A, B(T) }'),
    ('Clone, bound(T: Default, ..)', '#[derive(Default)] enum E<T> { #[default] A, #[debug(skip)] B(#[hash(x)] T) }',
     '#[derive(Default)] enum E<T> { #[default] A, #[debug(skip)] B(#[hash(x)] T) }'),
    ('PartialEq', '#[derive_ex(Clone, bound(Wrap<T>: Hash + Debug + Default))] struct X<T> { #[hash(skip)] #[debug(with = "f")] #[default] a: Wrap<T>, #[partial_eq(ignore)] b: u8 }',
     'struct X<T> { #[hash(skip)] #[debug(with = "f")] #[default] a: Wrap<T>, b: u8 }'),
    # lists spelled with the crate name in front are lists of the request: read and removed; other paths are foreign
    ('Clone', '#[::derive_ex::derive_ex(Debug)] #[foo::derive_ex(Hash)] struct X(#[derive_ex::derive_ex(Clone)] u8, #[debug(ignore)] u8);',
     '#[foo::derive_ex(Hash)] struct X(u8, u8);'),
    ('PartialEq', '#[derive_ex::derive_ex(Hash)] #[::derive_ex(Clone)] enum E { A(#[eq(key = $ % 3)] u8), #[derive_ex::derive_ex::derive_ex(Clone)] B }',
     '#[::derive_ex(Clone)] enum E { A(u8), #[derive_ex::derive_ex::derive_ex(Clone)] B }'),
    ('bound(T)', 'enum E<T> { #[derive_ex(Clone(bound(T)))] A(#[derive_ex(Debug)] T), B }', 'enum E<T> { A(T), B }'),
    ('', '#[derive_ex()] #[derive_ex(bound(T))] struct X<T>(#[derive_ex(Clone)] T);', 'struct X<T>(T);'),
    ('Clone',
     'enum E { A = { enum J { #[derive_ex(Clone)] P(#[derive_ex(Clone(bound()))] u8) } 0 }, #[derive_ex(Clone)] B }',
     'enum E { A = { enum J { #[derive_ex(Clone)] P(#[derive_ex(Clone(bound()))] u8) } 0 }, B }'),
]


def classify(r, want, got):
    """name the defect class of a failure (used only to match known findings)"""
    return 'item-differs'


PROP = C14()
