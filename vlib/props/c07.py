"""C07 — clone is field-wise; clone_from leaves the target equal to a clone of the source."""
import itertools

from .. import l2, sx
from .. import run as R
from ..check import Prop

PRELUDE = '''
use ::std::cell::RefCell;
thread_local! { pub static LOG: RefCell<Vec<String>> = RefCell::new(Vec::new()); }
pub fn take_log() -> String { LOG.with(|l| l.borrow_mut().drain(..).collect::<Vec<_>>().join(",")) }
/// call-recording field type: clone adds 100 to the id, clone_from stores source id + 1000
#[derive(Debug, PartialEq)]
pub struct Rc_(pub u32);
impl Copy for Rc_ {}
impl Clone for Rc_ {
    fn clone(&self) -> Rc_ { LOG.with(|l| l.borrow_mut().push(format!("clone:{}", self.0))); Rc_(self.0 + 100) }
    fn clone_from(&mut self, s: &Rc_) { LOG.with(|l| l.borrow_mut().push(format!("clone_from:{}<-{}", self.0, s.0))); self.0 = s.0 + 1000; }
}
'''
RT = sx.tid('Rc_')


def shapes():
    """(is_enum, variants) with variants = list of (kind, nfields); kind in named/tuple/unit"""
    out = []
    for kind, n in [('unit', 0), ('tuple', 0), ('named', 0), ('tuple', 1), ('named', 1), ('tuple', 2), ('named', 3), ('tuple', 4)]:
        out.append((False, [(kind, n)]))
    out.append((True, []))
    for vs in [[('unit', 0)], [('tuple', 2)], [('unit', 0), ('tuple', 1)], [('named', 2), ('tuple', 2), ('unit', 0)],
               [('tuple', 1), ('tuple', 1)], [('named', 1), ('named', 1), ('tuple', 3), ('unit', 0)],
               # several field-less variants of every form (distinct field-less variants are distinct values too)
               [('unit', 0), ('unit', 0)], [('unit', 0), ('tuple', 0), ('named', 0)],
               [('unit', 0), ('tuple', 1), ('unit', 0)], [('tuple', 0), ('named', 2), ('named', 0), ('unit', 0), ('tuple', 1)],
               # plain-data fields (u8) mixed with the recording type, in every position: fields are cloned one by one
               # whatever their types are
               [('tuple', 2, 'Ru'), ('named', 2, 'uR')], [('named', 3, 'RuR'), ('tuple', 3, 'uuR'), ('unit', 0)],
               [('tuple', 2, 'uu'), ('tuple', 1, 'u')]]:
        out.append((True, vs))
    # the same GENERIC field type several times (within a struct / variant and across variants): T is instantiated with
    # the recording type, so every field must still get its own clone / clone_from
    out.append((False, [('tuple', 2, 'TT')]))
    out.append((False, [('named', 3, 'TuT')]))
    out.append((True, [('tuple', 2, 'TT'), ('named', 2, 'TR'), ('unit', 0)]))
    out.append((True, [('tuple', 1, 'T'), ('tuple', 1, 'T')]))
    out.append((False, [('tuple', 2, 'Ru')]))
    out.append((False, [('named', 3, 'uRu')]))
    # MANY fields (more than ten: positions with two digits): each field keeps its own place
    out.append((False, [('tuple', 12, 'RRRRRRRRRRRR')]))
    out.append((False, [('named', 11, 'RuRRRRRRRRR')]))
    out.append((True, [('tuple', 12, 'RRuRRRRRRRRR'), ('named', 11, 'RRRRRRRRRRR'), ('unit', 0)]))
    out.append((True, [('named', 12, 'TRRRRRRRRRuT')]))
    return [(e, [v if len(v) == 3 else (v[0], v[1], 'R' * v[1]) for v in vs]) for e, vs in out]


# names of named fields: pairs that differ only by an underscore or by case (bindings derived from them must not collide)
FNAMES = ['id', '_id', 'x', 'X', 'foo_bar', 'fooBar', 'f6', 'f7', 'f8', 'F8', 'f10', 'f_10']


def fields_s(kind, n, pat=None):
    pat = pat or 'R' * n
    fs = [sx.field(RT if pat[i] == 'R' else sx.tid('T') if pat[i] == 'T' else sx.tid('u8'), name=FNAMES[i] if kind == 'named' else None) for i in range(n)]
    return sx.named(fs) if kind == 'named' else (sx.unnamed(fs) if kind == 'tuple' else sx.UNIT)


def value_expr(is_enum, vi, kind, n, base, pat=None):
    pat = pat or 'R' * n
    path = ('E::V%d' % vi) if is_enum else 'X'
    vals = [('Rc_(%d)' if pat[i] in 'RT' else '%du8') % (base + i) for i in range(n)]
    if kind == 'named':
        return '%s { %s }' % (path, ', '.join('%s: %s' % (FNAMES[i], v) for i, v in enumerate(vals)))
    if kind == 'tuple':
        return '%s(%s)' % (path, ', '.join(vals))
    return path


# (declaration, a, b, Debug of a after a.clone_from(&b), the calls recorded)
RECURSIVE = [
    ('pub struct N { pub v: Rc_, pub next: Option<Box<N>> }',
     'N { v: Rc_(1), next: Some(Box::new(N { v: Rc_(2), next: None })) }',
     'N { v: Rc_(11), next: Some(Box::new(N { v: Rc_(12), next: None })) }',
     'N { v: Rc_(1011), next: Some(N { v: Rc_(1012), next: None }) }', 'clone_from:1<-11,clone_from:2<-12'),
    ('pub enum L { Nil, Cons(Rc_, Box<L>) }',
     'L::Cons(Rc_(1), Box::new(L::Cons(Rc_(2), Box::new(L::Nil))))',
     'L::Cons(Rc_(11), Box::new(L::Cons(Rc_(12), Box::new(L::Nil))))',
     'Cons(Rc_(1011), Cons(Rc_(1012), Nil))', 'clone_from:1<-11,clone_from:2<-12'),
    # a variant (and a field) under a `cfg` that HOLDS: it is a variant like any other
    ('pub enum L { Nil, #[cfg(all())] Two(Rc_, Rc_), #[cfg(not(any()))] One { #[cfg(all())] v: Rc_ } }',
     'L::Two(Rc_(1), Rc_(2))', 'L::Two(Rc_(11), Rc_(12))', 'Two(Rc_(1011), Rc_(1012))', 'clone_from:1<-11,clone_from:2<-12'),
    ('pub enum L { Nil, #[cfg(all())] Two(Rc_, Rc_), #[cfg(not(any()))] One { #[cfg(all())] v: Rc_ } }',
     'L::One { v: Rc_(1) }', 'L::One { v: Rc_(11) }', 'One { v: Rc_(1011) }', 'clone_from:1<-11'),
    # (a GENERIC recursive type gets the cyclic bound `Option<Box<T<A>>>: Clone` and never implements Clone: the documented
    # field-type bounds; recursive shapes are outside C12 as well)
]


class C07(Prop):
    pid = 'C07'
    tag = 'body of the Clone impl'
    rule = ('EXHAUSTIVE over a shape list: unit/tuple/named structs with 0-4 fields, enums with 0-4 variants mixing kinds, '
            'both entry points, Clone alone and together with a derived Copy (either order), with layout attributes (repr(C), repr(packed(4)), repr(align(8)), repr(u8), non_exhaustive); every field is a call-recording (Copy) type whose clone and clone_from have distinguishable '
            'effects; clone on every value, clone_from on all ordered pairs of values incl. every pair of distinct variants; '
            'expected values and call traces computed from the property statement; non-trivial = at least one field')

    def exhaustive(self, tier):
        return True

    def cases(self, tier, rng):
        out = []
        REPRS = [None, 'repr ( C )', 'repr ( packed ( 4 ) )', 'repr ( C , packed ( 4 ) )', 'repr ( align ( 8 ) )']
        EREPRS = [None, 'repr ( u8 )', 'repr ( C )', 'non_exhaustive']
        plans = [(sh, mode, tn, None) for sh, mode, tn in itertools.product(
            shapes(), ('attr', 'derive'), (['Clone'], ['Copy', 'Clone'], ['Clone', 'Copy']))]
        # foreign attributes of the item (layout attributes in particular) must not change what clone / clone_from do
        for k, sh in enumerate(shapes()):
            for j, rp in enumerate(EREPRS[1:] if sh[0] else REPRS[1:]):
                if sh[0] and not sh[1]:
                    continue          # no repr on an empty enum
                if 'packed' in rp and any('T' in v[2] for v in sh[1]):
                    continue          # a reference to a field of unknown alignment in a packed struct is the user's E0793
                plans.append((sh, 'attr' if (k + j) % 2 else 'derive', ['Clone'], rp))
        # explicit bound(...) lists (entry / shared / on a variant; empty, `T`, with `..`): they shape the where-clause,
        # never which fields are cloned
        for k, sh in enumerate(shapes()):
            if not any(v[1] for v in sh[1]):
                continue
            for j, how in enumerate(('entry', 'shared', 'variant', 'entry-dots')):
                if how == 'variant' and not sh[0]:
                    continue
                plans.append((sh, 'attr' if (k + j) % 2 else 'derive', ['Clone'], ('bound', how)))
        for (is_enum, vs), mode, tnames, rp in plans:
            bhow = None
            if isinstance(rp, tuple):
                bhow, rp = rp[1], None
            ia = [sx.a_other(rp)] if rp else []
            generic = any('T' in v[2] for v in vs)
            gen = sx.generics([sx.gp_ty('T')]) if generic else None
            if is_enum:
                bl = ([sx.b_ty(sx.tid('T'))] if generic else [])
                vattr = [sx.a_derive_ex(sx.dx([('Clone', (bl, False))]))] if bhow == 'variant' else []
                it = sx.enum('E', [sx.variant('V%d' % i, fields_s(k, n, pt), attrs=(vattr if n else []))
                                   for i, (k, n, pt) in enumerate(vs)], attrs=ia, gen=gen)
                kw = '(enum ('
            else:
                it = sx.struct('X', fields_s(*vs[0]), attrs=ia, gen=gen)
                kw = '(struct ('
            bl = ([sx.b_ty(sx.tid('T'))] if generic else [])
            targ = (bl, False) if bhow == 'entry' else (bl + [sx.B_DOTS], False) if bhow == 'entry-dots' else None
            tl = [(t, targ if t == 'Clone' else None) for t in tnames]
            sb = bl if bhow == 'shared' else None
            req = sx.inv_attr(sx.dx(tl, bnd=sb), it) if mode == 'attr' else sx.inv_derive(
                kw + sx.a_derive_ex(sx.dx(tl, bnd=sb)) + ' ' + it[len(kw):])
            out.append((req, dict(features=('enum' if is_enum else 'struct', mode, '+'.join(tnames), rp or ('bound-' + bhow if bhow else 'no-repr')) + tuple('%s%d%s' % (v[0], v[1], v[2] if ('u' in v[2] or 'T' in v[2]) else '') for v in vs),
                                  enum=is_enum, vs=vs, generic=generic, nontrivial=any(v[1] for v in vs))))
        return out

    def view(self, r, parts):
        return [(p[0], p[2]) if p[0] == 'IMPL' else p for p in parts if p[0] != 'ITEM']

    def oracle(self, tier, rng, suspicious):
        results = self.l1_results or R.run_cases(self.cases(tier, rng))
        mods, expect = [], {}
        for r in results:
            m = r.meta
            head = ('#[::derive_ex::derive_ex(%s)]\n' % r.attr) if r.mode == 'A' else '#[derive(::derive_ex::Ex)]\n'
            ty = ('E' if m['enum'] else 'X') + ('<Rc_>' if m.get('generic') else '')
            src = [l2.decl('#[derive(Debug, PartialEq)]\n' + head, r.item, r.cid), 'pub fn run() {']
            exp = []
            vs = m['vs']
            for ai, (ka, na, pa) in enumerate(vs):
                a = value_expr(m['enum'], ai, ka, na, 1, pa)
                src.append('    { let a: %s = %s; let _ = take_log(); let c = a.clone(); println!("%d\\tclone%d\\t{:?}\\t{}", c, take_log()); }'
                           % (ty, a, r.cid, ai))
                exp.append(('clone%d' % ai, _dbg(m['enum'], ai, ka, [1 + i + (100 if pa[i] in 'RT' else 0) for i in range(na)], pa),
                            ','.join('clone:%d' % (1 + i) for i in range(na) if pa[i] in 'RT')))
                for bi, (kb, nb, pb) in enumerate(vs):
                    b = value_expr(m['enum'], bi, kb, nb, 11, pb)
                    src.append('    { let mut a: %s = %s; let b: %s = %s; let _ = take_log(); a.clone_from(&b); '
                               'println!("%d\\tfrom%d_%d\\t{:?}\\t{:?}\\t{}", a, b, take_log()); }' % (ty, a, ty, b, r.cid, ai, bi))
                    if ai == bi:
                        want_a = _dbg(m['enum'], ai, ka, [11 + i + (1000 if pa[i] in 'RT' else 0) for i in range(na)], pa)
                        log = ','.join('clone_from:%d<-%d' % (1 + i, 11 + i) for i in range(na) if pa[i] in 'RT')
                    else:
                        want_a = _dbg(m['enum'], bi, kb, [11 + i + (100 if pb[i] in 'RT' else 0) for i in range(nb)], pb)
                        log = ','.join('clone:%d' % (11 + i) for i in range(nb) if pb[i] in 'RT')
                    exp.append(('from%d_%d' % (ai, bi), want_a, _dbg(m['enum'], bi, kb, [11 + i for i in range(nb)], pb), log))
            src.append('}')
            expect[r.cid] = exp
            mods.append(l2.Module(r.cid, '\n'.join(src), r))
        # recursive types (hand-written): `clone_from` on the same variant reaches the recording fields behind the recursive
        # link through the link's own `clone_from` (Option / Box forward it), never by cloning them afresh
        class _Lit:
            def __init__(self, text):
                self.text, self.meta = text, dict(nontrivial=True)
            def input_text(self):
                return self.text
        for k, (decl, a, b, want_a, want_log) in enumerate(RECURSIVE):
            for mode in ('A', 'D'):
                cid = 5 * 10 ** 6 + 2 * k + (mode == 'D')
                head = '#[::derive_ex::derive_ex(Clone)]\n' if mode == 'A' else '#[derive(::derive_ex::Ex)]\n#[derive_ex(Clone)]\n'
                src = ['#[derive(Debug, PartialEq)]\n' + head + decl, 'pub fn run() {',
                       '    let mut a = %s; let b = %s; let _ = take_log(); a.clone_from(&b); '
                       'println!("%d\\trec\\t{:?}\\t{}", a, take_log()); }' % (a, b, cid)]
                expect[cid] = [('rec', want_a, want_log)]
                text = ('#[derive_ex(Clone)] ' if mode == 'A' else '#[derive(Ex)] #[derive_ex(Clone)] ') + decl
                mods.append(l2.Module(cid, '\n'.join(src), _Lit(text)))
        exes = l2.compile_parallel([('c07', mods)], prelude=PRELUDE)
        obs = {}
        if exes['c07']:
            obs = l2.run_exe(exes['c07'])[1]
        failures, validated, samples, n_obs = [], 0, [], 0
        for mo in mods:
            r = mo.meta
            if not mo.compiled:
                # empty enum etc.: whether this shape must compile is C12's / C20's business
                failures.append(dict(**{'class': 'clone-does-not-compile', 'mode': 'compile'}, input=r.input_text(),
                                     expected='compiles', observed=[d['message'] for d in mo.diags if d['level'] == 'error'][:3]))
                continue
            got = obs.get(str(mo.cid), [])
            want = expect[mo.cid]
            n_obs += len(want)
            if got != want:
                bad = next(((w, g) for w, g in zip(want, got + [()] * len(want)) if w != g), (want, got))
                failures.append(dict(**{'class': 'clone-behaviour', 'mode': 'behaviour'}, input=r.input_text(),
                                     expected=list(bad[0]), observed=list(bad[1])))
            else:
                validated += 1
                if len(samples) < 2 and len(want) > 3:
                    samples.append(dict(input=r.input_text()[:300], observed=[list(x) for x in got[:3]]))
        l2.cleanup('c07')
        return dict(evaluations=len(mods), validated=validated, programs=len(mods), observations=n_obs,
                    failures=failures, samples=samples)


def _dbg(is_enum, vi, kind, ids, pat=None):
    """Debug text of the std-derived Debug of the value"""
    pat = pat or 'R' * len(ids)
    name = ('V%d' % vi) if is_enum else 'X'
    show = lambda i, x: ('Rc_(%d)' % x) if pat[i] in 'RT' else str(x)
    if kind == 'named':
        if not ids:
            return name
        return '%s { %s }' % (name, ', '.join('%s: %s' % (FNAMES[i], show(i, x)) for i, x in enumerate(ids)))
    if kind == 'tuple':
        return '%s(%s)' % (name, ', '.join(show(i, x) for i, x in enumerate(ids))) if ids else name
    return name


PROP = C07()
