"""C12 — without helper attributes derive_ex is a drop-in for the standard derives."""
import itertools

from .. import l2, sx
from .. import run as R
from ..check import Prop

PRELUDE = '''
use ::core::hash::{Hash, Hasher};
pub struct Rec(pub String);
impl Hasher for Rec {
    fn finish(&self) -> u64 { 0 }
    fn write(&mut self, bytes: &[u8]) { self.0.push_str(&format!("b{:?};", bytes)); }
    fn write_u8(&mut self, i: u8) { self.0.push_str(&format!("u8:{};", i)); }
    fn write_usize(&mut self, i: usize) { self.0.push_str(&format!("usize:{};", i)); }
    fn write_isize(&mut self, i: isize) { self.0.push_str(&format!("isize:{};", i)); }
    fn write_u32(&mut self, i: u32) { self.0.push_str(&format!("u32:{};", i)); }
    fn write_u64(&mut self, i: u64) { self.0.push_str(&format!("u64:{};", i)); }
}
/// a field type whose `partial_cmp` is NOT `Some(cmp)` (255 is incomparable, but `cmp` is total): a derived
/// `partial_cmp` must ask the fields for their `partial_cmp`, as the standard derive does
#[derive(Debug, Clone, Copy, Default, PartialEq, Eq, Hash)]
pub struct Pn(pub u8);
impl Ord for Pn { fn cmp(&self, o: &Pn) -> ::core::cmp::Ordering { self.0.cmp(&o.0) } }
impl PartialOrd for Pn { fn partial_cmp(&self, o: &Pn) -> Option<::core::cmp::Ordering> {
    if self.0 == 255 || o.0 == 255 { None } else { Some(self.0.cmp(&o.0)) } } }
pub type Sl = [u8];
pub fn feed<T: Hash + ?Sized>(x: &T) -> String { let mut h = Rec(String::new()); x.hash(&mut h); h.0 }
'''
# field types: (name, sexp, rust, values, needs)
T = sx.tid('T')
FT = [
    ('u8', sx.tid('u8'), 'u8', ['0u8', '1u8', '2u8'], ()),
    ('str', sx.tref(sx.tid('str'), lt='a'), "&'a str", ['"a"', '"b"'], ("'a",)),
    ('T', T, 'T', ['3u16', '4u16'], ('T',)),
    ('arr', sx.tarray(sx.tid('u8'), sx.cpath(['N'])), '[u8; N]', ['[0u8, 1]', '[1u8, 0]'], ('N',)),
    ('opt', sx.tgen('Option', T), 'Option<T>', ['None', 'Some(5u16)'], ('T',)),
    ('unit', sx.ttuple([]), '()', ['()'], ()),
    # a type whose `==` is not reflexive (only where no Eq / Ord / Hash is derived): `x == x` must be computed
    ('f64', sx.tid('f64'), 'f64', ['0.5f64', 'f64::NAN'], ()),
    ('pn', sx.tid('Pn'), 'Pn', ['Pn(0)', 'Pn(255)'], ()),
    # the parameter reached only through the generic arguments of an ABSOLUTE path / of a tuple / of a reference
    ('lopt', sx.tpath(['core', 'option', sx.seg('Option', ('angle', [sx.gty(T)]))], lead=True), '::core::option::Option<T>',
     ['None', 'Some(6u16)'], ('T',)),
    ('tup', sx.ttuple([sx.tid('u8'), T]), '(u8, T)', ['(0u8, 7u16)', '(1u8, 7u16)'], ('T',)),
]
TRAITS = ['Clone', 'Debug', 'Default', 'PartialEq', 'Eq', 'PartialOrd', 'Ord', 'Hash']
SUPER = {'Eq': ['PartialEq'], 'PartialOrd': ['PartialEq'], 'Ord': ['Eq', 'PartialOrd', 'PartialEq']}


def close(ts):
    s = set(ts) | {'Debug'}
    for t in list(s):
        s.update(SUPER.get(t, []))
    return [t for t in TRAITS if t in s]


class C12(Prop):
    pid = 'C12'
    tag = 'all generated impls (no helper attributes present)'
    rule = ('shape grammar: unit/tuple/named structs and enums with 0-5 variants mixing kinds, 0-4 fields from {u8, &\'a str, T, '
            '[u8; N], Option<T>, ()}, lifetime / type / const parameters (const with default), where-clauses, ?Sized tail parameter (inline or in the where-clause, '
            'after other parameters) with an unsized last field, raw identifiers, repr(C) / non_exhaustive / doc attributes; supertrait-closed trait sets from '
            '{Clone, Debug, Default, PartialEq, Eq, PartialOrd, Ord, Hash}; both entry points, the trait list in one attribute or stacked over two or three; compiled next to a twin carrying the '
            'standard derives; clone / {:?} / {:#?} / default / == / partial_cmp / cmp compared on all values / ordered pairs, '
            'hash feeds of ==-equal values compared; non-trivial = at least one field or two variants')

    def n(self, tier):
        return 240 if tier == 'quick' else 16000

    def cases(self, tier, rng):
        out = []
        for k in range(self.n(tier)):
            is_enum = rng.random() < 0.5
            unsized = (not is_enum) and rng.random() < 0.25
            raw = rng.random() < 0.15
            traits = close([t for t in TRAITS if rng.random() < 0.45])
            if unsized:
                traits = [t for t in traits if t not in ('Clone', 'Default')]
            no_arr = 'Default' in traits     # `[u8; N]: Default` does not hold for a generic N (std derive fails alike)
            nvar = rng.randrange(0, 6) if is_enum else 1
            variants = []
            for vi in range(nvar):
                kind = rng.choice(['named', 'tuple', 'unit'])
                n = 0 if kind == 'unit' else rng.randrange(0, 5)
                no_float = bool(set(traits) & {'Eq', 'Ord', 'Hash'})
                variants.append((kind, [rng.choice([i for i in range(len(FT)) if not (no_arr and FT[i][0] == 'arr')
                                                    and not (no_float and FT[i][0] == 'f64')])
                                        for _ in range(n)]))
            if unsized:
                kind = rng.choice(['named', 'tuple'])
                variants = [(kind, [rng.choice([0, 1, 2, 3, 4]) for _ in range(rng.randrange(0, 3))] + ['TAIL'])]
            dv = None
            if 'Default' in traits and is_enum:
                units = [i for i, (kd, fl) in enumerate(variants) if kd == 'unit']
                if units:
                    dv = rng.choice(units)
                else:
                    traits = [t for t in traits if t != 'Default']
            needs = set()
            for _, fl in variants:
                for fi in fl:
                    needs.update(('U',) if fi == 'TAIL' else FT[fi][4])
            params, decl_g, inst, use_g = [], [], [], []
            if "'a" in needs:
                params.append(sx.gp_lt('a'))
                decl_g.append("'a")
                use_g.append("'a")
                inst.append("'static")
            if 'T' in needs:
                style = rng.randrange(3)
                params.append(sx.gp_ty('T', [sx.tb_trait(['Copy'])] if style == 1 else []))
                decl_g.append('T: Copy' if style == 1 else 'T')
                use_g.append('T')
                inst.append('u16')
            u_where = 'U' in needs and rng.random() < 0.35      # `?Sized` written in the where-clause instead
            if 'U' in needs:
                params.append(sx.gp_ty('U', [] if u_where else [sx.tb_trait(['Sized'], maybe=True)]))
                decl_g.append('U' if u_where else 'U: ?Sized')
                use_g.append('U')
                inst.append('[u8]')
            if 'N' in needs:
                dflt = rng.random() < 0.3 and not ("'a" in needs and False)
                params.append(sx.gp_const('N', sx.tid('usize'), default=sx.clit('2') if dflt else None))
                decl_g.append('const N: usize' + (' = 2' if dflt else ''))
                use_g.append('N')
                inst.append('2')
            where, where_l = [], []
            if 'T' in needs and rng.random() < 0.3:
                where.append(sx.wty(T, [sx.tb_trait(['Sized'])]))
                where_l.append('T: Sized')
            if u_where:
                where.append(sx.wty(sx.tid('U'), [sx.tb_trait(['Sized'], maybe=True)]))
                where_l.append('U: ?Sized')
            where_r = (' where ' + ', '.join(where_l)) if where_l else ''
            attrs, attrs_r = [], []
            r = rng.random()
            if r < 0.15 and not (is_enum and nvar == 0):
                attrs.append(sx.a_other('repr ( C )'))
                attrs_r.append('#[repr(C)]')
            elif r < 0.25 and is_enum:
                attrs.append(sx.a_other('non_exhaustive'))
                attrs_r.append('#[non_exhaustive]')
            elif r < 0.35:
                attrs.append(sx.a_other('doc = "text"'))
            names = ['a', 'r#type' if raw else 'b', '_c', 'r#fn' if raw else 'd', '_marker']

            def fields_s(kind, fl):
                fs = [sx.field(sx.tid('U') if fi == 'TAIL' else FT[fi][1], name=names[i] if kind == 'named' else None)
                      for i, fi in enumerate(fl)]
                return sx.named(fs) if kind == 'named' else (sx.unnamed(fs) if kind == 'tuple' else sx.UNIT)
            gen = sx.generics(params, where)
            vname = (lambda i: 'r#loop' if (raw and i == 0) else 'V%d' % i)
            if is_enum:
                it = sx.enum('E', [sx.variant(vname(i), fields_s(kd, fl),
                                              attrs=[sx.a_default(sx.M_PATH)] if i == dv else [])
                                   for i, (kd, fl) in enumerate(variants)], attrs=attrs, gen=gen)
                kw = '(enum ('
            else:
                it = sx.struct('X', fields_s(*variants[0]), attrs=attrs, gen=gen)
                kw = '(struct ('
            mode = 'attr' if k % 2 else 'derive'
            tl = [(t, None) for t in traits]
            # the trait list written as one attribute or stacked over several, the way `#[derive(..)]` lines are stacked
            stacked = len(tl) >= 2 and k % 3 == 0
            if stacked:
                cut = 1 + rng.randrange(len(tl) - 1)
                lists = [tl[:cut], tl[cut:]] if len(tl) < 3 or rng.random() < 0.5 else [tl[:1], tl[1:cut + 1], tl[cut + 1:]]
                lists = [l for l in lists if l]
            else:
                lists = [tl]
            rest = ' '.join(sx.a_derive_ex(sx.dx(l)) for l in lists[1:])
            it2 = (kw + rest + ' ' + it[len(kw):]) if rest else it
            req = sx.inv_attr(sx.dx(lists[0]), it2) if mode == 'attr' else sx.inv_derive(
                kw + sx.a_derive_ex(sx.dx(lists[0])) + ' ' + it2[len(kw):])
            feats = ['enum%d' % nvar if is_enum else 'struct', mode] + ['tr-' + t for t in traits] + \
                    (['unsized-tail', 'unsized-where' if u_where else 'unsized-inline'] if unsized else []) + (['raw'] if raw else []) + (['stacked-lists'] if stacked else []) + ['gen-' + x for x in sorted(needs)] + \
                    ['%s%d' % (kd, len(fl)) for kd, fl in variants] + attrs_r
            out.append((req, dict(features=tuple(sorted(set(feats))), enum=is_enum, variants=variants, traits=traits, dv=dv,
                                  decl_g=decl_g, inst=inst, where_r=where_r, attrs_r=attrs_r, names=names, raw=raw,
                                  unsized=unsized, vname=[vname(i) for i in range(nvar)],
                                  nontrivial=any(fl for _, fl in variants) or nvar > 1)))
        return out

    def oracle(self, tier, rng, suspicious):
        results = self.l1_results or R.run_cases(self.cases(tier, rng))
        mods = []
        for r in results:
            m = r.meta
            head = ('#[::derive_ex::derive_ex(%s)]\n' % r.attr) if r.mode == 'A' else '#[derive(::derive_ex::Ex)]\n'
            ty = 'E' if m['enum'] else 'X'
            g = ('<%s>' % ', '.join(m['decl_g'])) if m['decl_g'] else ''
            names = m['names']

            def decl(kind, fl):
                ts = ['U' if fi == 'TAIL' else FT[fi][2] for fi in fl]
                if kind == 'named':
                    return '{ %s }' % ', '.join('pub %s: %s' % (names[i], t) for i, t in enumerate(ts))
                if kind == 'tuple':
                    return '( %s )' % ', '.join('pub ' + t for t in ts)
                return ''
            std = ', '.join(m['traits'])
            if m['enum']:
                body = ', '.join(('#[default] ' if i == m['dv'] else '') + m['vname'][i] + decl(kd, fl).replace('pub ', '')
                                 for i, (kd, fl) in enumerate(m['variants']))
                twin = '#[derive(%s)] %s pub enum E%s%s { %s }' % (std, ' '.join(m['attrs_r']), g, m['where_r'], body)
            else:
                kd, fl = m['variants'][0]
                d = decl(kd, fl)
                twin = '#[derive(%s)] %s pub struct X%s %s' % (std, ' '.join(m['attrs_r']), g, (
                    m['where_r'] + ' ' + d) if kd == 'named' else (d + m['where_r'] + ';'))
            src = [l2.decl(head, r.item, r.cid), 'pub mod twin { use super::*; %s }' % twin, 'pub fn run() {']
            # values: cartesian product (capped) per variant
            inst = ('::<%s>' % ', '.join(m['inst'])) if m['inst'] else ''
            vals = []
            for vi, (kd, fl) in enumerate(m['variants']):
                doms = [['[1u8, 2]', '[2u8, 1]'] if fi == 'TAIL' else FT[fi][3] for fi in fl]
                combos = list(itertools.product(*doms))[:6]
                for c in combos:
                    path = ('%s::%s' % (ty, m['vname'][vi])) if m['enum'] else ty
                    if kd == 'named':
                        v = '%s { %s }' % (path, ', '.join('%s: %s' % (names[i], x) for i, x in enumerate(c)))
                    elif kd == 'tuple':
                        v = '%s( %s )' % (path, ', '.join(c))
                    else:
                        v = path
                    vals.append(v)
            tyi = ty + (('<%s>' % ', '.join(m['inst'])) if m['inst'] else '')
            if m['unsized']:
                sized_inst = [x if x != '[u8]' else '[u8; 2]' for x in m['inst']]
                st = '%s<%s>' % (ty, ', '.join(sized_inst))
                src.append('    let xs0: Vec<Box<%s>> = vec![%s];' % (st, ', '.join('Box::new(%s)' % v for v in vals)))
                src.append('    let ts0: Vec<Box<twin::%s>> = vec![%s];' % (st, ', '.join('Box::new(twin::%s)' % v for v in vals)))
                src.append('    let xs: Vec<Box<%s>> = xs0.into_iter().map(|b| b as Box<%s>).collect();' % (tyi, tyi))
                src.append('    let ts: Vec<Box<twin::%s>> = ts0.into_iter().map(|b| b as Box<twin::%s>).collect();' % (tyi, tyi))
                deref = '&**'
            else:
                src.append('    let xs: Vec<%s> = vec![%s];' % (tyi, ', '.join(vals)))
                src.append('    let ts: Vec<twin::%s> = vec![%s];' % (tyi, ', '.join('twin::' + v for v in vals)))
                deref = '&*'
            tr = m['traits']
            p = lambda tag, cond: src.append('    println!("%d\\t%s\\t{}", %s);' % (r.cid, tag, cond))
            src.append('    let n = xs.len(); let mut ok;')
            src.append('    ok = true; for i in 0..n { ok &= format!("{:?}", %s(&xs[i])) == format!("{:?}", %s(&ts[i])) && '
                       'format!("{:#?}", %s(&xs[i])) == format!("{:#?}", %s(&ts[i])); }' % (deref, deref, deref, deref))
            p('debug', 'ok')
            if 'Clone' in tr:
                src.append('    ok = true; for i in 0..n { ok &= format!("{:?}", xs[i].clone()) == format!("{:?}", ts[i].clone()); }')
                p('clone', 'ok')
            if 'Default' in tr:
                p('default', 'format!("{:?}", <%s as Default>::default()) == format!("{:?}", <twin::%s as Default>::default())' % (tyi, tyi))
            if 'PartialEq' in tr:
                src.append('    ok = true; for i in 0..n { for j in 0..n { ok &= (xs[i] == xs[j]) == (ts[i] == ts[j]); } }')
                p('eq', 'ok')
            if 'PartialOrd' in tr:
                src.append('    ok = true; for i in 0..n { for j in 0..n { ok &= xs[i].partial_cmp(&xs[j]) == ts[i].partial_cmp(&ts[j]); } }')
                p('pcmp', 'ok')
            if 'Ord' in tr:
                src.append('    ok = true; for i in 0..n { for j in 0..n { ok &= xs[i].cmp(&xs[j]) == ts[i].cmp(&ts[j]); } }')
                p('cmp', 'ok')
            if 'Hash' in tr and 'PartialEq' in tr:
                src.append('    ok = true; for i in 0..n { for j in 0..n { if xs[i] == xs[j] { ok &= feed(%s(&xs[i])) == feed(%s(&xs[j])); } } }' % (deref, deref))
                p('hash', 'ok')
            src.append('    let _ = ok; }')
            mods.append(l2.Module(r.cid, '\n'.join(src), r))
        nb = 8
        batches = [('c12_%d' % k, mods[k::nb]) for k in range(nb)]
        exes = l2.compile_parallel(batches, prelude=PRELUDE)
        obs = {}
        for name, exe in exes.items():
            if exe:
                obs.update(l2.run_exe(exe)[1])
        failures, validated, samples, n_obs = [], 0, [], 0
        for mo in mods:
            r = mo.meta
            if not mo.compiled:
                errs = [d for d in mo.diags if d['level'] == 'error']
                in_macro = [d for d in errs if d['in_macro']]
                failures.append(dict(**{'class': _compile_class(r, errs), 'mode': 'compile'}, input=r.input_text(),
                                     expected='compiles like the standard derives', observed=[d['message'] for d in errs][:3],
                                     in_generated_code=bool(in_macro)))
                continue
            got = obs.get(str(mo.cid), [])
            n_obs += len(got)
            bad = [g for g in got if g[1] != 'true']
            if bad or not got:
                failures.append(dict(**{'class': 'behaviour-differs-from-std-derive', 'mode': bad[0][0] if bad else 'none'},
                                     input=r.input_text(), expected='identical to the standard derive', observed=[list(b) for b in bad]))
            else:
                validated += 1
                if len(samples) < 2 and r.meta['nontrivial']:
                    samples.append(dict(input=r.input_text()[:300], observed=[g[0] for g in got]))
        for name, _ in batches:
            l2.cleanup(name)
        # hand-written shapes the standard derives accept, compiled next to their std twin (check only)
        class _Lit:
            def __init__(self, text):
                self.text, self.meta = text, dict(nontrivial=True, unsized=False, traits=[])
            def input_text(self):
                return self.text
        lits = []
        for k, (traits, decl) in enumerate(STD_ACCEPTED_SHAPES):
            for mode in ('A', 'D'):
                head = ('#[::derive_ex::derive_ex(%s)]\n' % traits) if mode == 'A' else '#[derive(::derive_ex::Ex)]\n#[derive_ex(%s)]\n' % traits
                text = ('#[derive_ex(%s)] %s' % (traits, decl)) if mode == 'A' else '#[derive(Ex)] #[derive_ex(%s)] %s' % (traits, decl)
                lits.append(l2.Module(4 * 10 ** 6 + 2 * k + (mode == 'D'),
                                      head + decl + '\npub mod twin { #[allow(unused_imports)] use super::*; #[derive(%s)] %s }\npub fn run() {}' % (traits, decl), _Lit(text)))
        # the same requests under other SPELLINGS of the attribute: several attribute-macro invocations stacked on the item,
        # written with the crate path or through a renamed import
        for k, (head, traits, decl) in enumerate(REQUEST_SPELLINGS):
            lits.append(l2.Module(5 * 10 ** 6 + k, head + '\n' + decl + '\npub mod twin { #[allow(unused_imports)] use super::*; '
                                  '#[derive(%s)] %s }\npub fn run() {}' % (traits, decl), _Lit(head.replace('\n', ' ') + ' ' + decl)))
        l2.compile_parallel([('c12lit', lits)], prelude=PRELUDE, check_only=True)
        for mo in lits:
            if not mo.compiled:
                errs = [d for d in mo.diags if d['level'] == 'error']
                failures.append(dict(**{'class': 'std-accepted-shape-does-not-compile', 'mode': 'compile'}, input=mo.meta.input_text(),
                                     expected='compiles like the standard derives', observed=[d['message'] for d in errs][:3],
                                     in_generated_code=any(d['in_macro'] for d in errs)))
            else:
                validated += 1
        l2.cleanup('c12lit')
        return dict(evaluations=len(mods) + len(lits), validated=validated, programs=len(mods) + len(lits), observations=n_obs,
                    failures=failures, samples=samples)


# (traits, declaration): shapes outside the random grammar
STD_ACCEPTED_SHAPES = [
    # two used field types that differ only in a lifetime (the recorded C12 finding, known_findings.json)
    ('Clone, Debug, PartialEq', "pub struct X<'a, 'b, T>(pub &'a T, pub &'b T);"),
    # a reference field BEFORE the last field of the same parameter: the where-clause has `&'a T: Debug`, and the last field
    # (passed by double reference) must not be matched against it (regression of fix 5f7c0f6, found by the thorough C20 tier)
    ('Clone, Debug, PartialEq, Hash', "pub struct X<'a, T> { pub a: &'a T, pub b: T }"),
    ('Debug, PartialEq, PartialOrd', "pub struct X<'a, T: ?Sized>(pub &'a T, pub u8, #[allow(dead_code)] pub T);"),
    ('Debug, Default', "pub struct X<'a, T>(pub Option<&'a T>, pub Vec<T>);"),
    # ... and the same with one lifetime (no ambiguity)
    ('Clone, Debug, PartialEq', "pub struct X<'a, T>(pub &'a T, pub &'a T);"),
    # an unsized last field that its tokens do not give away
    ('Debug, PartialEq', 'pub struct X(pub u8, pub Sl);'),
    # `Self` in the where-clause (the hidden `Eq` assertion is a free function: `Self` has to be spelled out there)
    ('Clone, Debug, Default, PartialEq, Eq, PartialOrd, Ord, Hash', 'pub struct X<T>(pub T, pub u8) where Self: Sized, T: Copy;'),
    ('Clone, Debug, PartialEq, Eq, Hash', 'pub enum X<T> where Self: ::core::marker::Send { A(T), B { x: u8 } }'),
    ('Debug, PartialEq, Eq, PartialOrd, Ord, Hash', '#[allow(unused_parens)] pub struct X { pub a: u8, pub b: (str) }'),
    # KNOWN FINDINGS (known_findings.json): a field or variant that is configured out (the attribute macro sees the item before
    # `cfg` is evaluated; through `#[derive(Ex)]` the same item compiles), and a packed struct with a field wider than a byte
    ('Clone, Debug', 'pub struct X { #[cfg(any())] pub a: Missing, pub b: u8 }'),
    ('Clone, Debug, PartialEq', 'pub enum X { #[cfg(any())] A(Missing), B(u8) }'),
    ('Clone, Copy, Debug, PartialEq', '#[repr(packed)] pub struct X(pub u8, pub u32);'),
]


_E = 'pub enum X<T> { A(T), #[default] B, C { c: u8 } }'
_S = 'pub struct X<T>(pub T, pub u8);'
REQUEST_SPELLINGS = [
    ('#[::derive_ex::derive_ex(Clone, Debug)]\n#[::derive_ex::derive_ex(PartialEq, Default)]', 'Clone, Debug, PartialEq, Default', _S),
    ('#[::derive_ex::derive_ex(Clone, Debug)]\n#[::derive_ex::derive_ex(PartialEq, Default)]', 'Clone, Debug, PartialEq, Default', _E),
    ('#[derive_ex::derive_ex(Clone)]\n#[derive_ex::derive_ex(Default)]\n#[derive_ex::derive_ex(Debug)]', 'Clone, Default, Debug', _E),
    ('#[derive_ex::derive_ex(Default)]\n#[derive_ex::derive_ex(PartialEq, Eq, PartialOrd, Ord, Hash)]', 'Default, PartialEq, Eq, PartialOrd, Ord, Hash', _E),
    ('#[dx(Clone)]\n#[dx(Default, Debug)]', 'Clone, Default, Debug', _E + '\nuse ::derive_ex::derive_ex as dx;'),
    ('#[derive_ex(Clone)]\n#[::derive_ex::derive_ex(Default, Debug)]', 'Clone, Default, Debug', _E + '\nuse ::derive_ex::derive_ex;'),
    ('#[::derive_ex::derive_ex(Default, Debug)]\n#[derive_ex(Clone)]', 'Clone, Default, Debug', _E + '\nuse ::derive_ex::derive_ex;'),
    ('#[derive_ex(Clone)]\n#[derive_ex(Default, Debug)]', 'Clone, Default, Debug', _E + '\nuse ::derive_ex::derive_ex;'),
]


def _compile_class(r, errs):
    if r.meta['unsized'] and 'Debug' in r.meta['traits']:
        return 'debug-with-unsized-last-field'
    return 'std-accepted-shape-does-not-compile'


PROP = C12()
