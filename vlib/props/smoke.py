"""broad L1 smoke test over every builder (development aid; not a registered check)"""
from ..check import Prop
from ..gen import Gen, ImplGen


class Smoke(Prop):
    pid = 'SMOKE'

    def cases(self, tier, rng):
        g = Gen(rng)
        gi = ImplGen(rng)
        n = 3000 if tier == 'quick' else 30000
        return [g.item() for _ in range(n)] + [gi.impl_item() for _ in range(n // 3)]


PROP = Smoke()
