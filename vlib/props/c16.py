"""C16 — expansion is total and deterministic."""
import collections
import re
import subprocess

from .. import corpus
from .. import run as R
from ..check import Prop
from ..gen import Gen, ImplGen
from ..tokutil import match_close, CLOSE


def split_tokens(text):
    """tokenise source text through the expander (T mode) -> list of flat tokens"""
    r = R.tokenize([text])[0]
    return r[1].split(' ') if r[0] == 'FLAT' else None


def groups_of(toks):
    """(start, end) of every balanced group and of every attribute `# [ .. ]`"""
    gs, attrs = [], []
    stack = []
    for i, t in enumerate(toks):
        if t in CLOSE:
            stack.append(i)
        elif t in CLOSE.values() and stack:
            s = stack.pop()
            gs.append((s, i))
            if s > 0 and toks[s - 1] == '#' and t == ']':
                attrs.append((s - 1, i))
    return gs, attrs


JOIN = {(':', ':'): '::', ('-', '>'): '->', ('=', '>'): '=>', ('.', '.'): '..', ('&', '&'): '&&', ('=', '='): '=='}


def to_text(toks):
    """flat tokens -> source text (re-join the multi-character puncts the generator knows)"""
    out = []
    i = 0
    while i < len(toks):
        if i + 1 < len(toks) and (toks[i], toks[i + 1]) in JOIN:
            out.append(JOIN[(toks[i], toks[i + 1])])
            i += 2
        elif toks[i] == "'" and i + 1 < len(toks):
            out.append("'" + toks[i + 1])
            i += 2
        else:
            out.append(toks[i])
            i += 1
    return ' '.join(out)


def angle_groups(toks):
    """(start, end) of `<` .. `>` pairs (generic argument / parameter lists); `->`, `=>` and `>=`-like puncts are skipped"""
    out, stack = [], []
    for i, t in enumerate(toks):
        if t == '<' and i > 0 and (toks[i - 1].isidentifier() or toks[i - 1] in ('impl', 'for', ':')):
            stack.append(i)
        elif t == '>' and stack and toks[i - 1] not in ('-', '='):
            out.append((stack.pop(), i))
    return out


# trait names with a multi-byte character at every distance from the end of the name (2-, 3- and 4-byte characters)
NON_ASCII_NAMES = [pre + ch + 'n' * k for ch in ('\u00e9', '\u8a9e', '\U00010400') for k in range(0, 9) for pre in ('', 'A')]

# legal (or at least parseable) but unusual spellings: every one must expand without a panic, as is and mutated
EXTRA_SEEDS = [
    # identifiers that are not ASCII (legal Rust): trait names of every length around the `Assign` suffix, items, fields
    ('A', 'Ünsupported', 'struct X(u8);'), ('A', 'é', 'struct X(u8);'), ('A', 'ÄddAssign, Clone', 'struct X(u8);'),
    ('A', 'Clone, αβγδεζAssign', 'struct X(u8);'), ('A', '日本語のトレイト', 'enum E { A }'), ('A', 'AddAssig\u00f1', 'struct X(u8);'),
    ('A', 'Añadir', 'impl Add for X { type Output = X; fn add(self, r: X) -> X { self } }'),
    ('A', 'ÀAssign', 'impl Add for X { type Output = X; fn add(self, r: X) -> X { self } }'),
    ('A', 'Clone, Debug, PartialEq, Default', 'struct Größe { länge: u8, #[debug(ignore)] breite: Ünit }'),
    ('D', '', '#[derive_ex(Clone, Debug, Ord, Hash)] enum Ärger { Öl(#[ord(key = $.größe())] Wert), Übel { straße: u8 } }'),
    ('A', 'Clone(bound(Τ)), Debug', 'struct X<Τ>(Τ);'),
    # a bare trait object with several bounds as the (unsized) field: `&dyn A + B` in the output would be ambiguous
    ('A', 'Debug, Clone, PartialEq, Hash, Default', 'struct X { a: u8, b: () }'),
    ('D', '', '#[derive_ex(Debug, PartialOrd, PartialEq)] struct X((), (u8, ()));'),
    ('A', 'Debug, Clone', 'enum E { A((), ()), B { x: ((),) } }'),
    ('A', 'Deref, DerefMut', 'struct X(dyn ::core::fmt::Debug + Sync);'),
    # the recorded finding (known_findings.json): a bare trait object written with a trailing `+`
    ('A', 'Clone, Mul', 'struct X { c: dyn ::core::fmt::Debug + }'),
    ('A', 'Neg, Add, SubAssign', 'struct X(dyn ::core::fmt::Debug + Sync);'),
    ('D', '', '#[derive_ex(Deref, Not, Mul, ShlAssign)] struct X<T> { a: dyn AsRef<T> + Send + \'static }'),
    ('A', 'Clone, Debug, PartialEq, Hash, PartialOrd', "struct X<'a>(u8, dyn ::core::fmt::Debug + 'a + Sync);"),
    ('A', 'Add', 'impl Add<dyn A + Send> for X { type Output = X; fn add(self, r: X) -> X { self } }'),
    ('A', 'Sub, SubAssign', "impl Sub<X> for dyn A + Send + 'static { type Output = X; fn sub(self, r: X) -> X { r } }"),
    ('A', 'Mul', 'impl MulAssign<dyn A + > for X { fn mul_assign(&mut self, r: X) { } }'),
    ('A', 'Add', 'impl Add<dyn A + > for X { type Output = X; fn add(self, r: X) -> X { self } }'),
    ('A', 'BitOr, BitOrAssign', 'impl BitOr<impl A + B> for X { type Output = X; fn bitor(self, r: X) -> X { self } }'),
    # the recorded finding (known_findings.json) in its impl-level spelling: a trait object WITHOUT `dyn` written with a trailing
    # `+`; and `Self` standing for a bare trait object with several bounds, after `&` / `*const` (parenthesised since the last fix of round 13)
    ('A', 'Add', 'impl Add<A +> for X { type Output = X; fn add(self, r: X) -> X { self } }'),
    ('A', 'BitXor', 'impl BitXorAssign<&Self> for dyn A + Send { fn bitxor_assign(&mut self, rhs: &Self) { } }'),
    ('A', 'Add, AddAssign', 'impl<T: Tr<*const Self>> Add<Vec<&Self>> for dyn A + Send + Sync where &\'static Self: Copy { type Output = *mut Self; fn add(self, r: Vec<&Self>) -> *mut Self { todo!() } }'),
    ('A', 'Add', 'impl Add<> for X { type Output = X; fn add(self, r: X) -> X { self } }'),
    ('A', 'AddAssign', 'impl AddAssign<> for X { fn add_assign(&mut self, r: X) {} }'),
    ('A', 'Add', 'impl ::core::ops::Add<X,> for X { type Output = X; fn add(self, r: X) -> X { self } }'),
    ('A', 'Add', 'impl core::ops::Add<X, X> for X { type Output = X; fn add(self, r: X) -> X { self } }'),
    ('A', 'Add', "impl<'a> Add<&'a X> for &'a X { type Output = X; fn add(self, r: &'a X) -> X { X } }"),
    ('A', 'Add', 'impl Add<(X, X)> for X { type Output = X; fn add(self, r: (X, X)) -> X { self } }'),
    ('A', 'Add', 'impl Add<X, Output = X> for X { fn add(self, r: X) -> X { self } }'),
    ('A', 'Add', 'impl Add for X { }'),
    ('A', 'Add', 'impl Add for X { type Output = X; }'),
    ('A', 'Add', 'impl X { fn add(self, r: X) -> X { self } }'),
    ('A', 'Add', 'impl !Add for X { }'),
    ('A', 'Add', 'unsafe impl Add for X { type Output = X; fn add(self, r: X) -> X { self } }'),
    ('A', 'Add, AddAssign', 'impl<T> Add<T> for X<T> where { type Output = Self; fn add(self, r: T) -> Self { self } }'),
    ('A', 'Neg', 'impl Neg for X { type Output = X; fn neg(self) -> X { self } }'),
    ('A', 'Clone', 'struct X<>(u8);'),
    ('A', 'Clone,', 'enum E<> {}'),
    ('A', 'Clone', 'struct X<T,>(T,) where T: Copy,;'),
    ('A', 'Clone', 'struct X where;'),
    ('A', 'Clone', 'struct X<T> where { a: T }'),
    ('A', 'Default', 'struct X { #[default(_,)] a: u8, }'),
    ('A', 'Debug, bound(),', 'struct X;'),
    ('A', '', 'struct X;'),
    ('A', 'Clone', 'union U { a: u8 }'),
    ('A', 'Clone', 'fn f() {}'),
    ('A', 'Clone', 'trait T {}'),
    ('A', 'Clone', 'type A = u8;'),
    ('A', 'Clone', 'mod m {}'),
    ('A', 'Deref', 'struct X<T: ?Sized = [u8], const N: usize = { 1 + 1 }>(Box<T>);'),
    ('A', 'PartialEq', "enum E<'a, T: 'a + ?Sized> { A(&'a T) = 1, B { x: u8, } = 2, C, }"),
    ('A', 'Ord, PartialOrd, Eq, PartialEq, Hash', 'struct X(#[ord(key = $)] #[hash(key = ($))] u8, #[eq(key = $.0,)] (u8,),);'),
    ('D', '', '#[derive_ex(Clone)] #[derive_ex()] #[derive_ex(Debug,)] struct X<>();'),
    ('D', '', '#[derive_ex] struct X;'),
    ('D', '', '#[derive_ex = "Clone"] struct X;'),
    ('D', '', 'struct X;'),
    ('D', '', '#[derive_ex(Clone)] union U { a: u8 }'),
]


def mutate(rng, toks, donors):
    toks = list(toks)
    if not toks:
        return toks, 'empty'
    gs, attrs = groups_of(toks)
    k = rng.randrange(13)
    if k >= 11:
        ags = angle_groups(toks)
        if ags:
            s, e = ags[rng.randrange(len(ags))]
            if k == 11:
                del toks[s + 1:e]
                return toks, 'empty-angle-list'
            commas = [i for i in range(s + 1, e) if toks[i] == ',']
            if commas:
                c = commas[rng.randrange(len(commas))]
                del toks[s + 1:c + 1]
            else:
                toks.insert(e, ',')
            return toks, 'angle-list-element'
        k = rng.randrange(11)
    if k == 0:
        i = rng.randrange(len(toks))
        if toks[i] not in CLOSE and toks[i] not in CLOSE.values():
            del toks[i]
        return toks, 'delete-token'
    if k == 1:
        i = rng.randrange(len(toks))
        if toks[i] not in CLOSE and toks[i] not in CLOSE.values():
            toks.insert(i, toks[i])
        return toks, 'duplicate-token'
    if k == 2 and len(toks) > 1:
        i = rng.randrange(len(toks) - 1)
        if all(t not in CLOSE and t not in CLOSE.values() for t in toks[i:i + 2]):
            toks[i], toks[i + 1] = toks[i + 1], toks[i]
        return toks, 'swap-tokens'
    if k == 3 and attrs:
        s, e = attrs[rng.randrange(len(attrs))]
        del toks[s:e + 1]
        return toks, 'delete-attr'
    if k == 4 and attrs:
        s, e = attrs[rng.randrange(len(attrs))]
        toks[s:s] = toks[s:e + 1]
        return toks, 'duplicate-attr'
    if k == 5 and len(attrs) > 1:
        (s, e), (s2, _) = attrs[rng.randrange(len(attrs))], attrs[rng.randrange(len(attrs))]
        a = toks[s:e + 1]
        if not (s <= s2 <= e):
            if s2 > e:
                toks[s2:s2] = a
                del toks[s:e + 1]
            else:
                del toks[s:e + 1]
                toks[s2:s2] = a
        return toks, 'move-attr'
    if k == 6 and gs:
        s, e = gs[rng.randrange(len(gs))]
        del toks[s + 1:e]
        return toks, 'empty-group'
    if k == 7 and gs and donors:
        s, e = gs[rng.randrange(len(gs))]
        d = donors[rng.randrange(len(donors))]
        dg, _ = groups_of(d)
        dg = [g for g in dg if d[g[0]] == toks[s]]
        if dg:
            ds, de = dg[rng.randrange(len(dg))]
            toks[s:e + 1] = d[ds:de + 1]
        return toks, 'splice-group'
    if k == 8 and gs:
        # delete one comma-separated element of a group
        s, e = gs[rng.randrange(len(gs))]
        commas = [i for i in range(s + 1, e) if toks[i] == ',' and _depth0(toks, s + 1, i)]
        if commas:
            c = commas[rng.randrange(len(commas))]
            nxt = [x for x in commas if x > c]
            del toks[c:(nxt[0] if nxt else e)]
        return toks, 'delete-element'
    if k == 9 and gs:
        s, e = gs[rng.randrange(len(gs))]
        commas = [s] + [i for i in range(s + 1, e) if toks[i] == ',' and _depth0(toks, s + 1, i)] + [e]
        if len(commas) > 2:
            j = rng.randrange(len(commas) - 1)
            el = toks[commas[j] + 1:commas[j + 1]]
            toks[commas[j] + 1:commas[j] + 1] = el + [',']
        return toks, 'duplicate-element'
    i = rng.randrange(len(toks))
    toks[i:i] = [rng.choice(['ignore', 'reverse', 'dump', 'bound ( )', 'key = $', 'by = f', '..', 'Ord', 'Self',
                             '_', '0', '"s"', '$', '#', '= 1', 'transparent', 'Clone', 'r#type', "'a"])]
    return toks, 'insert-token'


def _depth0(toks, start, idx):
    d = 0
    for t in toks[start:idx]:
        if t in CLOSE:
            d += 1
        elif t in CLOSE.values():
            d -= 1
    return d == 0


# (description, module source): helper-attribute arguments that come out of macro_rules fragments
FRAGMENT_PROGRAMS = [
    ('macro_rules! m { ($e:expr) => { #[derive_ex(Default, Debug)] struct X { #[default($e)] a: u8 } } }  m!(1 + 2);',
     'macro_rules! m { ($e:expr) => { #[::derive_ex::derive_ex(Default, Debug)] pub struct X { #[default($e)] pub a: u8 } } }\nm!(1 + 2);\npub fn run() {}'),
     ('macro_rules! m { ($e:expr, $l:literal, $p:path, $t:ty) => { #[derive(Ex)] #[derive_ex(Default, Clone)] struct X { #[default($l)] a: $t, #[default($p)] b: u8, #[default($e)] c: String } } }  m!("s", 5, N7, u8);',
     'pub const N7: u8 = 7;\nmacro_rules! m { ($e:expr, $l:literal, $p:path, $t:ty) => { #[derive(::derive_ex::Ex)] #[derive_ex(Default, Clone)] pub struct X { #[default($l)] pub a: $t, #[default($p)] pub b: u8, #[default($e)] pub c: String } } }\nm!(String::new(), 5, N7, u8);\npub fn run() {}'),
    ('macro_rules! m { ($k:expr, $t:ty) => { #[derive_ex(PartialEq, Hash, PartialOrd)] enum E { A(#[partial_ord(key = $k)] $t), B } } }  m!(1u8, u8);',
     'macro_rules! m { ($k:expr, $t:ty) => { #[::derive_ex::derive_ex(PartialEq, Hash, PartialOrd)] pub enum E { A(#[partial_ord(key = $k)] $t), B } } }\nm!(1u8, u8);\npub fn run() {}'),
    ('macro_rules! m { ($t:ty, $b:path) => { #[derive_ex(Clone, Debug, bound($t: $b))] struct X<T>($t); } }  m!(T, Clone);',
     'macro_rules! m { ($t:ty) => { #[::derive_ex::derive_ex(Clone, Debug, bound($t))] pub struct X<T>(pub $t); } }\nm!(T);\npub fn run() {}'),
]


class C16(Prop):
    pid = 'C16'
    tag = 'all parts + no panic + output re-parses + second run identical'
    rule = ('L1: random items/impls of the shape grammar incl. its error paths (model compared, both runs identical). '
            'Oracle: structure-aware token mutation (delete/duplicate/swap tokens, attributes, group elements; empty or '
            'splice groups between seeds; empty / shorten `<..>` lists; insert stray arguments), 1-3 mutations each, of a seed corpus = every '
            'derive_ex item of the test-suite, compile_fail cases, documentation and README, a list of unusual-but-parseable spellings (`impl Add<> for X`, `struct X<>()`, `where` without predicates, trailing commas, non-struct items, ...) plus generator output, as '
            'attribute- and derive-macro input; a sample (all seeds + mutants with a parseable item) is also expanded by the REAL compiler and its diagnostics searched for a proc-macro panic; non-trivial = mutant differs from its seed; distinct by input text')
    assumptions = ['panics inside syn/structmeta/quote are observable only by running them: covered by the mutation run (a test), not by the theorem']

    def n(self, tier):
        return 1500 if tier == 'quick' else 60000

    def cases(self, tier, rng):
        g, gi = Gen(rng), ImplGen(rng)
        return [g.item(density=0.5) for _ in range(self.n(tier))] + [gi.impl_item() for _ in range(self.n(tier) // 5)]

    def check_end(self, r):
        if any(p[0] == 'PANIC' for p in r.actual):
            return 'panic'
        if r.end is None:
            return 'no-end'
        if r.end[2] != '1':
            return 'second run differs'
        if len(r.end) > 3 and r.end[3] == '1' and r.end[1] != '1':
            return 'output does not re-parse'
        return None

    def direct_failure(self, r, expected, observed, bad_end):
        if bad_end:
            return dict(**{'class': 'expansion-' + bad_end.replace(' ', '-'), 'mode': 'expand'},
                        input=r.input_text(), expected='no panic, well-formed output, deterministic',
                        observed=[list(p) for p in r.actual][:3])
        return None

    def oracle(self, tier, rng, suspicious):
        seeds = corpus.load() + list(EXTRA_SEEDS)
        seeds += [('A', nm + (', Clone' if k % 2 else ''), 'struct X(u8);') for k, nm in enumerate(NON_ASCII_NAMES)]
        seeds += [('A', nm, 'impl Add for X { type Output = X; fn add(self, r: X) -> X { self } }') for nm in NON_ASCII_NAMES[::3]]
        # generator output as additional seeds
        gen_res = R.run_cases(self.cases('quick', rng)[:400])
        seeds += [(r.mode, r.attr, r.item) for r in gen_res]
        flat = R.tokenize([s[1] for s in seeds] + [s[2] for s in seeds])
        n = len(seeds)
        tok_seeds = []
        for i, s in enumerate(seeds):
            a, it = flat[i], flat[n + i]
            if a[0] != 'FLAT' or it[0] != 'FLAT':
                continue
            tok_seeds.append((s[0], [t for t in a[1].split(' ') if t], [t for t in it[1].split(' ') if t]))
        donors = [t[2] for t in tok_seeds]
        total = 6000 if tier == 'quick' else 600000
        inputs, metas = [], []
        kinds = collections.Counter()
        seen = set()
        # the unmutated seeds first
        for mode, a, it in tok_seeds:
            inputs.append((mode, to_text(a), to_text(it)))
            metas.append('seed')
        while len(inputs) < total:
            mode, a, it = tok_seeds[rng.randrange(len(tok_seeds))]
            a, it = list(a), list(it)
            names = []
            for _ in range(1 + rng.randrange(3)):
                if mode == 'A' and rng.random() < 0.3:
                    a, nm = mutate(rng, a, [t[1] for t in tok_seeds if t[1]])
                else:
                    it, nm = mutate(rng, it, donors)
                names.append(nm)
            if rng.random() < 0.1:
                mode = 'D' if mode == 'A' else 'A'
                names.append('switch-entry-point')
                if mode == 'D':
                    it = ['#', '[', 'derive_ex', '('] + a + [')', ']'] + it
                    a = []
            key = (mode, ' '.join(a), ' '.join(it))
            if key in seen:
                continue
            seen.add(key)
            inputs.append((mode, to_text(a), to_text(it)))
            metas.append('+'.join(names))
            for nm in names:
                kinds[nm] += 1
        lines = ['%d\t%s\t%s\t%s' % (i, m, a, it) for i, (m, a, it) in enumerate(inputs)]
        out = R._group(R._run_sharded(R.EXPANDER, lines, 'mut'))
        failures, validated, samples = [], 0, []
        stats = collections.Counter()
        for i, (m, a, it) in enumerate(inputs):
            parts = out.get(str(i), [])
            text = ('#[derive_ex(%s)] %s' % (a, it)) if m == 'A' else '#[derive(Ex)] ' + it
            if any(p[0] == 'LEXERR' for p in parts):
                stats['not-lexable'] += 1
                continue
            if re.search(r'([{,]|\]) (pub (\( [a-z]+ \) )?)?_ :', ' ' + it):
                # a field NAMED `_` (`struct X { _ : u32 }`): syn accepts it (the retired `unnamed_fields` syntax), rustc does
                # not ("expected identifier, found reserved identifier `_`") - not a syntactically valid item, so not an
                # input the property quantifies over
                stats['field-named-underscore'] += 1
                continue
            if re.search(r'^[^({]*[<,] (const )?_ [>,:=]', it):
                # a generic PARAMETER named `_` (`enum X<_> { .. }`): accepted by syn, refused by rustc for the same reason
                stats['parameter-named-underscore'] += 1
                continue
            end = next((p for p in parts if p[0] == 'END'), None)
            bad = None
            if any(p[0] == 'PANIC' for p in parts):
                bad = 'panic: ' + next(p[1] for p in parts if p[0] == 'PANIC')
            elif end is None:
                bad = 'no result'
            elif end[2] != '1':
                bad = 'second run differs'
            elif end[3] == '1' and end[1] != '1':
                bad = 'output does not re-parse'
            elif any(p[0] == 'ERR' and not p[1].strip() for p in parts):
                bad = 'compile_error without message'
            elif any(p[0] == 'OTHER' for p in parts) and end[3] == '1' and m == 'D':
                bad = 'unexpected item kind in derive output'
            if bad:
                failures.append(dict(**{'class': 'expansion-' + bad.split(':')[0].replace(' ', '-'), 'mode': 'expand'},
                                     input=text, mutation=metas[i], expected='no panic, well-formed items or '
                                     'compile_error with a message, same output twice', observed=bad))
            else:
                validated += 1
                stats['input-item-valid' if end[3] == '1' else 'input-item-invalid'] += 1
                stats['has-impl' if any(p[0] == 'IMPL' for p in parts) else
                      'error-only' if any(p[0] == 'ERR' for p in parts) else 'other'] += 1
                if len(samples) < 3 and metas[i] != 'seed' and i % 97 == 0:
                    samples.append(dict(input=text[:300], mutation=metas[i], outcome=[p[0] for p in parts][:6]))
        # the same through the REAL compiler for a sample (seeds first): proc_macro spans behave differently there
        # (joins fail, hygiene contexts exist), so a panic may only happen in rustc
        from .. import l2
        from concurrent.futures import ThreadPoolExecutor
        valid = [i for i, (m, a, it) in enumerate(inputs)
                 if (lambda e: e is not None and e[3] == '1')(next((p for p in out.get(str(i), []) if p[0] == 'END'), None))]
        n_seed = len(tok_seeds)
        seeds_valid = [i for i in valid if i < n_seed]
        rest = [i for i in valid if i >= n_seed]
        pick = seeds_valid + rest[::max(1, len(rest) // (500 if tier == 'quick' else 6000))]
        rmods, vmods = [], []
        for i in pick:
            m, a, it = inputs[i]
            head = ('#[::derive_ex::derive_ex(%s)]\n' % a) if m == 'A' else '#[derive(::derive_ex::Ex)]\n'
            rmods.append(l2.Module(i, head + it + '\npub fn run() {}', (m, a, it)))
            if i < n_seed:
                # the unmutated seeds once more, declared THROUGH a macro_rules! macro (two hygiene contexts in one request):
                # the expansion must stay as well-formed as it is when the item is written out directly
                vmods.append(l2.Module(i, l2.via_macro(head, it) + 'pub fn run() {}', (m, a, it)))
        nb = 16
        l2.ensure_macro()
        with ThreadPoolExecutor(max_workers=R.NPROC) as ex:
            futs = [ex.submit(l2.first_round_diags, 'c16r_%d' % k, rmods[k::nb], '',
                              '#![allow(warnings)]\n') for k in range(nb)]
            vfuts = [ex.submit(l2.first_round_diags, 'c16v_%d' % k,
                               [mo for mo in rmods[k::nb] if mo.cid >= n_seed] + vmods[k::nb], '',
                               '#![allow(warnings)]\n') for k in range(nb)]
            rdiags = [x for f in futs for x in f.result()]
            vdiags = [x for f in vfuts for x in f.result()]
        for k in range(nb):
            l2.cleanup('c16r_%d' % k)
            l2.cleanup('c16v_%d' % k)
        rustc_panics = 0
        for owner, level, message in rdiags + vdiags:
            if 'panicked' in message:
                rustc_panics += 1
                m, a, it = owner.meta if owner is not None else ('?', '', '')
                text = ('#[derive_ex(%s)] %s' % (a, it)) if m == 'A' else '#[derive(Ex)] ' + it
                failures.append(dict(**{'class': 'expansion-panic-in-rustc', 'mode': 'expand'}, input=text,
                                     expected='no panic in the real compiler either', observed=message[:300]))
        # errors the compiler reports for the macro-declared form only (same crate otherwise, same compiler phase)
        def errs(diags):
            d = collections.defaultdict(collections.Counter)
            for owner, level, message in diags:
                if owner is not None and level == 'error' and 'aborting due to' not in message:
                    d[owner.cid][message] += 1
            return d
        de, ve = errs(rdiags), errs(vdiags)
        via_only = 0
        for mo in vmods:
            extra = ve.get(mo.cid, collections.Counter()) - de.get(mo.cid, collections.Counter())
            if extra:
                via_only += 1
                m, a, it = mo.meta
                text = ('#[derive_ex(%s)] %s' % (a, it)) if m == 'A' else '#[derive(Ex)] ' + it
                failures.append(dict(**{'class': 'expansion-ill-formed-when-declared-through-macro_rules', 'mode': 'expand'},
                                     input=text, expected='the errors rustc reports for the directly written item, no more',
                                     observed=sorted(extra)[:3]))
        # macro_rules FRAGMENTS inside helper attributes (`#[default($e)]` with `$e:expr` arrives as a None-delimited group,
        # which no token stream parsed from text contains): the expansion must terminate - rustc must survive it
        fmods = [l2.Module(7 * 10 ** 6 + k, src, text) for k, (text, src) in enumerate(FRAGMENT_PROGRAMS)]
        rc, errs, raw = l2.compile_status('c16frag', fmods, '', '#![allow(warnings)]\n')
        died = rc not in (0, 1) or any(w in ' '.join(raw) for w in ('SIGSEGV', 'overflowed its stack', 'SIGABRT', 'timed out'))
        if died or any('panicked' in e for e in errs):
            culprit = fmods[0]
            for mo in fmods:            # find the program that kills the compiler
                rc1, errs1, raw1 = l2.compile_status('c16frag1', [mo], '', '#![allow(warnings)]\n')
                if rc1 not in (0, 1) or any('panicked' in e for e in errs1):
                    culprit, raw, errs = mo, raw1, errs1
                    break
            l2.cleanup('c16frag1')
            failures.append(dict(**{'class': 'expansion-does-not-terminate-or-panics-in-rustc', 'mode': 'expand'}, input=culprit.meta,
                                 expected='rustc survives the expansion', observed=(raw + errs)[-4:]))
        else:
            validated += len(fmods)
        l2.cleanup('c16frag')
        validated += (len(rmods) + len(vmods)) if not (rustc_panics or via_only) else 0
        return dict(evaluations=len(inputs) + len(rmods) + len(vmods), validated=validated, failures=failures, samples=samples,
                    seeds=len(tok_seeds), mutation_kinds=dict(kinds), outcome_stats=dict(stats),
                    compiled_by_rustc=len(rmods) + len(vmods) + len(fmods), rustc_panics=rustc_panics, fragment_programs=len(fmods),
                    declared_through_macro_rules=len(vmods), errors_only_through_macro_rules=via_only)


PROP = C16()
