"""Comparison family (C01, C02, C05, C06, C17): case generator, Python reference of the documented
rule, and emitter of the Rust programs that observe the REAL derived impls.

A field is a u8 (or the partially ordered `P`) and carries one of the 3136 attribute combinations:
{ord, partial_ord} x {-, ignore, reverse, key, by, reverse+key, reverse+by}, {eq, partial_eq, hash} x
{-, ignore, key, by}.  Every attribute kind has its own key / by function so that precedence is
observable in behaviour."""
import itertools

from . import sx

ATTRS = ['ord', 'partial_ord', 'eq', 'partial_eq', 'hash']
ORD_OPTS = ['-', 'ignore', 'reverse', 'key', 'by', 'reverse+key', 'reverse+by']
EQ_OPTS = ['-', 'ignore', 'key', 'by']
TRAITS = ['Ord', 'PartialOrd', 'Eq', 'PartialEq', 'Hash']
AFFECTS = {
    'ord': {'Ord', 'PartialOrd', 'Eq', 'PartialEq', 'Hash'},
    'partial_ord': {'PartialOrd', 'PartialEq'},
    'eq': {'Eq', 'PartialEq', 'Hash'},
    'partial_eq': {'PartialEq'},
    'hash': {'Hash'},
}
SPECIFIC_FIRST = {
    'PartialEq': ['partial_eq', 'eq', 'partial_ord', 'ord'],
    'Eq': ['eq', 'ord'],
    'PartialOrd': ['partial_ord', 'ord'],
    'Ord': ['ord'],
    'Hash': ['hash', 'eq', 'ord'],
}

# one key function per attribute kind (on u8 values 0..3): all distinct as functions, and distinct from the identity
KEY = {'ord': ('( 3 - $ )', lambda x: 3 - x), 'partial_ord': ('( $ / 2 )', lambda x: x // 2),
       'eq': ('( $ % 3 )', lambda x: x % 3), 'partial_eq': ('( $ % 2 )', lambda x: x % 2),
       'hash': ('( $ / 3 )', lambda x: x // 3)}
# `by` functions: name -> underlying key (the function compares / hashes through that key)
BY = {'ord': ('by_ord', lambda x: (x + 1) % 4), 'partial_ord': ('by_partial_ord', lambda x: (x + 2) % 4),
      'eq': ('by_eq', lambda x: min(x, 2)), 'partial_eq': ('by_partial_eq', lambda x: max(x, 1)),
      'hash': ('by_hash', lambda x: x % 2 + 7)}

PRELUDE = '''
use ::core::cmp::Ordering;
use ::core::hash::{Hash, Hasher};
// deliberately NOT antisymmetric about Equal: (0, 1) compares Equal, (1, 0) does not - the ORDER in which the derived code hands
// the two fields to a `by` function is observable (the documented rule: `by(self.x, other.x)`)
pub fn by_ord(a: &u8, b: &u8) -> Ordering { if (*a, *b) == (0, 1) { return Ordering::Equal; } ((a + 1) % 4).cmp(&((b + 1) % 4)) }
pub fn by_partial_ord(a: &u8, b: &u8) -> Option<Ordering> { if (*a, *b) == (0, 1) { return Some(Ordering::Equal); } Some(((a + 2) % 4).cmp(&((b + 2) % 4))) }
pub fn by_eq(a: &u8, b: &u8) -> bool { (*a).min(2) == (*b).min(2) }
pub fn by_partial_eq(a: &u8, b: &u8) -> bool { (*a).max(1) == (*b).max(1) }
pub fn by_hash<H: Hasher>(a: &u8, s: &mut H) { s.write_u8(a % 2 + 7) }
pub fn fn0(_: u8) -> u8 { 0 } pub fn fn1(_: u8) -> u8 { 1 } pub fn fn2(x: u8) -> u8 { x + 1 } pub fn fn3(_: u8) -> u8 { 2 }
pub fn o2c(o: Option<Ordering>) -> char { match o { None => 'N', Some(Ordering::Less) => 'L', Some(Ordering::Equal) => 'E', Some(Ordering::Greater) => 'G' } }
pub struct Rec(pub String);
impl Hasher for Rec {
    fn finish(&self) -> u64 { 0 }
    fn write(&mut self, bytes: &[u8]) { self.0.push_str(&format!("b{:?};", bytes)); }
    fn write_u8(&mut self, i: u8) { self.0.push_str(&format!("u8:{};", i)); }
    fn write_u32(&mut self, i: u32) { self.0.push_str(&format!("u32:{};", i)); }
    fn write_u64(&mut self, i: u64) { self.0.push_str(&format!("u64:{};", i)); }
    fn write_usize(&mut self, i: usize) { self.0.push_str(&format!("usize:{};", i)); }
    fn write_isize(&mut self, i: isize) { self.0.push_str(&format!("isize:{};", i)); }
}
'''


FK = [0, 1, 1, 2]     # fn0..fn3 applied to 0: fn1 and fn2 are different functions with the same key


def combo_attrs(combo, ftype='u8'):
    """combo: dict attr -> option string; returns list of attribute S-expressions"""
    out = []
    for a in ATTRS:
        o = combo.get(a, '-')
        if o == '-':
            continue
        kw = {}
        for part in o.split('+'):
            if part == 'ignore':
                kw['ignore'] = True
            elif part == 'reverse':
                kw['reverse'] = True
            elif part == 'key':
                kw['key'] = '( ( $ ) ( 0 ) )' if ftype == 'F' else KEY[a][0]
            elif part == 'by':
                kw['by'] = BY[a][0]
        out.append(sx.a_cmp(a, sx.m_list(sx.cargs(**kw))))
    return out


def has(combo, a, what):
    return what in combo.get(a, '-').split('+')


# ---- the documented rule -----------------------------------------------------------------
def ignored(tr, combo):
    return any(has(combo, a, 'ignore') for a in ATTRS if tr in AFFECTS[a])


def selected(tr, combo):
    """('by', attr) | ('key', attr) | None — first attribute, most specific first, carrying by/key"""
    for a in SPECIFIC_FIRST[tr]:
        if has(combo, a, 'by') and (tr != 'Hash' or a == 'hash'):
            return ('by', a)
        if has(combo, a, 'key'):
            return ('key', a)
    return None


def reversed_(tr, combo):
    return any(has(combo, a, 'reverse') for a in ('partial_ord', 'ord') if tr in AFFECTS[a])


def rejected(tr, combo):
    """does the documentation demand a compile error for trait `tr` on a field with `combo`?"""
    if ignored(tr, combo):
        return False
    custom = any(has(combo, a, 'by') or has(combo, a, 'key') for a in ATTRS)
    if selected(tr, combo) is None and custom:
        return True
    if tr in ('Ord', 'PartialOrd', 'Eq') and any(has(combo, a, 'ignore') for a in ('partial_eq', 'eq', 'partial_ord', 'ord')):
        return True
    if tr == 'Hash' and (has(combo, 'partial_eq', 'ignore') or has(combo, 'partial_ord', 'ignore')):
        return True
    if tr == 'Ord' and has(combo, 'partial_ord', 'reverse'):
        return True
    return False


ASYM = (0, 1)      # the one ordered pair on which `by_ord` / `by_partial_ord` say Equal although the reverse pair does not


def _cmp(x, y):
    return 'L' if x < y else 'G' if x > y else 'E'


REV = {'L': 'G', 'G': 'L', 'E': 'E', 'N': 'N'}


def field_pcmp(ftype, combo, tr, x, y):
    """one field, trait PartialOrd / Ord: 'L' 'E' 'G' 'N'"""
    s = selected(tr, combo)
    if s is None:
        r = p_pcmp(x, y) if ftype == 'P' else ('L' if x <= y else 'G') if ftype == 'W' else _cmp(x, y)
    elif s[0] == 'key':
        k = (lambda i: FK[i]) if ftype == 'F' else KEY[s[1]][1]
        r = _cmp(k(x), k(y))
    else:
        k = BY[s[1]][1]
        r = 'E' if (x, y) == ASYM and s[1] in ('ord', 'partial_ord') else _cmp(k(x), k(y))
    return REV[r] if reversed_(tr, combo) else r


def field_eq(ftype, combo, x, y):
    s = selected('PartialEq', combo)
    if s is None:
        return x == y and not (ftype == 'P' and x == 9)
    if s[0] == 'by' and s[1] in ('ord', 'partial_ord') and (x, y) == ASYM:
        return True
    k = (lambda i: FK[i]) if ftype == 'F' else KEY[s[1]][1] if s[0] == 'key' else BY[s[1]][1]
    return k(x) == k(y)


def p_pcmp(x, y):
    """the partially ordered field type P: 9 behaves like NaN - unequal to and incomparable with everything, itself
    included (so `x == x` must be computed, not assumed)"""
    if x == 9 or y == 9:
        return 'N'
    return _cmp(x, y)


def field_feed(combo, x, ftype='u8'):
    s = selected('Hash', combo)
    if s is None:
        if ftype == 'A':       # an array feeds its length prefix, then its elements (as the field's own Hash impl does)
            return 'usize:2;b[%d, 0];' % x
        return 'u8:%d;' % x
    if s[0] == 'key':
        v = FK[x] if ftype == 'F' else KEY[s[1]][1](x)
        return v if isinstance(v, str) else 'u8:%d;' % v
    return 'u8:%d;' % BY[s[1]][1](x)


def ref_eq(variants, a, b):
    if a[0] != b[0]:
        return False
    fields = variants[a[0]]
    return all(field_eq(ft, cb, x, y) for (ft, cb), x, y in zip(fields, a[1], b[1]) if not ignored('PartialEq', cb))


def ref_ord(variants, tr, a, b):
    if a[0] != b[0]:
        return _cmp(a[0], b[0])
    for (ft, cb), x, y in zip(variants[a[0]], a[1], b[1]):
        if ignored(tr, cb):
            continue
        r = field_pcmp(ft, cb, tr, x, y)
        if r != 'E':
            return r
    return 'E'


def ref_feed(variants, a):
    return ''.join(field_feed(cb, x, ft) for (ft, cb), x in zip(variants[a[0]], a[1]) if not ignored('Hash', cb))


# ---- enumeration / sampling of combos ------------------------------------------------------
def all_combos():
    for o, po, e, pe, h in itertools.product(ORD_OPTS, ORD_OPTS, EQ_OPTS, EQ_OPTS, EQ_OPTS):
        yield {'ord': o, 'partial_ord': po, 'eq': e, 'partial_eq': pe, 'hash': h}


def accepted_for(traits, combo):
    return not any(rejected(t, combo) for t in traits)


def relevant_combo(traits, combo):
    """restrict a combo to the attributes that affect a derived trait (others are foreign to rustc:
    an attribute derive_ex does not own would not compile under the attribute macro)"""
    return {a: o for a, o in combo.items() if AFFECTS[a] & set(traits)}


# ---- items ---------------------------------------------------------------------------------
def make_item(name, variants, is_enum, traits, mode, extra_derives=(), discrs=None, item_attrs=(), bnd=None, targs=None):
    """variants: list of (named: bool, [(ftype, combo)]) ; returns request S-expression"""
    def fields_s(named, fl):
        fs = [sx.field(sx.tarray(sx.tid('u8'), sx.clit('2')) if ft == 'A' else sx.tfn([sx.tid('u8')], sx.tid('u8')) if ft == 'F' else sx.tid('u8' if ft == 'u8' else 'W' if ft == 'W' else 'I' if ft == 'I' else 'P'), name=('f%d' % i) if named else None,
                       attrs=combo_attrs(cb, ft)) for i, (ft, cb) in enumerate(fl)]
        if named:
            return sx.named(fs)
        return sx.unnamed(fs) if fs else sx.UNIT
    if is_enum:
        it = sx.enum(name, [sx.variant('V%d' % i, fields_s(nm, fl), discr=(discrs[i] if discrs else None))
                            for i, (nm, fl) in enumerate(variants)], attrs=list(item_attrs))
    else:
        it = sx.struct(name, fields_s(*variants[0]))
    # bnd: the `bound(..)` shared by the list; targs: trait -> (bound items, dump) for `Trait(bound(..))`
    tl = [(t, (targs or {}).get(t)) for t in traits]
    if mode == 'attr':
        return sx.inv_attr(sx.dx(tl, bnd=bnd), it)
    kw = '(enum (' if is_enum else '(struct ('
    return sx.inv_derive(kw + sx.a_derive_ex(sx.dx(tl, bnd=bnd)) + ' ' + it[len(kw):])


def values_of(variants, dom_u8, dom_p):
    """all values: (variant index, tuple of field values)"""
    out = []
    for vi, (_, fl) in enumerate(variants):
        doms = [dom_p if ft == 'P' else [0, 1, 2, 3] if ft == 'F' else dom_u8 for ft, _ in fl]
        for t in itertools.product(*doms):
            out.append((vi, t))
    return out


def rust_value(name, variants, is_enum, v):
    vi, t = v
    named, fl = variants[vi]
    def fv(ft, x):
        return ('P(%d)' % x) if ft == 'P' else ('W(%d)' % x) if ft == 'W' else ('I(%d)' % x) if ft == 'I' else ('[%du8, 0]' % x) if ft == 'A' else ('(fn%d as fn(u8) -> u8)' % x) if ft == 'F' else ('%du8' % x)
    path = '%s::V%d' % (name, vi) if is_enum else name
    if named:
        return '%s { %s }' % (path, ', '.join('f%d: %s' % (i, fv(ft, x)) for i, ((ft, _), x) in enumerate(zip(fl, t))))
    if fl:
        return '%s(%s)' % (path, ', '.join(fv(ft, x) for (ft, _), x in zip(fl, t)))
    return path


P_TYPE = '''
#[derive(Debug, Clone, Copy)]
pub struct P(pub u8);
impl PartialEq for P { fn eq(&self, o: &P) -> bool { self.0 == o.0 && self.0 != 9 } }
impl PartialOrd for P { fn partial_cmp(&self, o: &P) -> Option<Ordering> {
    if self.0 == 9 || o.0 == 9 { None } else { self.0.partial_cmp(&o.0) } } }
impl Hash for P { fn hash<H: Hasher>(&self, s: &mut H) { s.write_u8(self.0) } }
/// a field type whose order is NOT antisymmetric (`a.cmp(&a)` is Less): reversing a result and swapping the operands differ
#[derive(Debug, Clone, Copy, PartialEq, Eq, Hash)]
pub struct W(pub u8);
impl Ord for W { fn cmp(&self, o: &W) -> Ordering { if self.0 <= o.0 { Ordering::Less } else { Ordering::Greater } } }
impl PartialOrd for W { fn partial_cmp(&self, o: &W) -> Option<Ordering> { Some(self.cmp(o)) } }
/// a field type with INHERENT methods named like the trait methods, which mean something else (the reverse order, `!=`, another
/// feed): generated code has to name the trait, not rely on method resolution
#[derive(Debug, Clone, Copy, PartialEq, Eq, PartialOrd, Ord, Hash)]
pub struct I(pub u8);
#[allow(clippy::should_implement_trait)]
impl I {
    pub fn cmp(&self, o: &I) -> Ordering { o.0.cmp(&self.0) }
    pub fn partial_cmp(&self, o: &I) -> Option<Ordering> { Some(o.0.cmp(&self.0)) }
    pub fn eq(&self, o: &I) -> bool { self.0 != o.0 }
    pub fn hash<H: Hasher>(&self, s: &mut H) { s.write_u8(200) }
    pub fn clone(&self) -> I { I(99) }
}
'''


def module_source(cid, head, item_text, name, variants, is_enum, traits, values):
    """Rust module: the item with the real derive_ex, manual stand-ins for missing supertraits, and
    `run` printing one line per derived trait: results over all ordered pairs / values."""
    from . import l2
    src = [l2.decl(head, item_text, cid, every=5)]
    # supertraits rustc demands but the case does not derive: trivial manual impls
    if ('Eq' in traits or 'PartialOrd' in traits or 'Ord' in traits) and 'PartialEq' not in traits:
        src.append('impl PartialEq for %s { fn eq(&self, _: &Self) -> bool { true } }' % name)
    if 'Ord' in traits and 'Eq' not in traits:
        src.append('impl Eq for %s {}' % name)
    if 'Ord' in traits and 'PartialOrd' not in traits:
        src.append('impl PartialOrd for %s { fn partial_cmp(&self, _: &Self) -> Option<Ordering> { None } }' % name)
    vals = ', '.join(rust_value(name, variants, is_enum, v) for v in values)
    src.append('pub fn run() {')
    src.append('    let vs: Vec<%s> = vec![%s];' % (name, vals))
    if 'PartialEq' in traits:
        src.append('    let mut s = String::new(); for a in &vs { for b in &vs { s.push(if a == b {\'T\'} else {\'F\'}); } }')
        src.append('    println!("%d\\teq\\t{}", s);' % cid)
    if 'PartialOrd' in traits:
        src.append('    let mut s = String::new(); for a in &vs { for b in &vs { s.push(o2c(PartialOrd::partial_cmp(a, b))); } }')
        src.append('    println!("%d\\tpcmp\\t{}", s);' % cid)
    if 'Ord' in traits:
        src.append('    let mut s = String::new(); for a in &vs { for b in &vs { s.push(o2c(Some(Ord::cmp(a, b)))); } }')
        src.append('    println!("%d\\tcmp\\t{}", s);' % cid)
    if 'Hash' in traits:
        src.append('    let mut s = String::new(); for a in &vs { let mut h = Rec(String::new()); Hash::hash(a, &mut h); s.push_str(&h.0); s.push(\'|\'); }')
        src.append('    println!("%d\\thash\\t{}", s);' % cid)
    src.append('}')
    return '\n'.join(src)


def expected_lines(variants, traits, values):
    vmap = {i: fl for i, (_, fl) in enumerate(variants)}
    out = []
    if 'PartialEq' in traits:
        out.append(('eq', ''.join('T' if ref_eq(vmap, a, b) else 'F' for a in values for b in values)))
    if 'PartialOrd' in traits:
        out.append(('pcmp', ''.join(ref_ord(vmap, 'PartialOrd', a, b) for a in values for b in values)))
    if 'Ord' in traits:
        out.append(('cmp', ''.join(ref_ord(vmap, 'Ord', a, b) for a in values for b in values)))
    if 'Hash' in traits:
        out.append(('hash', ''.join(ref_feed(vmap, a) + '|' for a in values)))
    return out
