"""Structured random generator of macro invocations (items with attributes), used by several
properties.  Every random choice derives from the one `random.Random` passed in."""
from . import sx
from .pool import FIELD_TYPES, TOKEN_FIELD_TYPES, FOREIGN_ATTRS, FOREIGN_PATH_ATTRS, VIS

BINOPS = ['Add', 'BitAnd', 'BitOr', 'BitXor', 'Div', 'Mul', 'Rem', 'Shl', 'Shr', 'Sub']
STRUCT_ONLY = BINOPS + [b + 'Assign' for b in BINOPS] + ['Neg', 'Not', 'Deref', 'DerefMut']
CMP = ['Ord', 'PartialOrd', 'Eq', 'PartialEq', 'Hash']
BOTH = ['Copy', 'Clone', 'Debug', 'Default'] + CMP
CMP_ATTR = {'Ord': 'ord', 'PartialOrd': 'partial_ord', 'Eq': 'eq', 'PartialEq': 'partial_eq', 'Hash': 'hash'}
SNAKES = ['ord', 'partial_ord', 'eq', 'partial_eq', 'hash']

KEYS = ['$ . len ( )', '$ . 0', '( $ , 1 )', 'f ( & $ )', '$ % 3', '! $']
BYS = ['cmp_fn', 'Self :: by', '| a , b | a == b', 'f64 :: total_cmp', 'path :: to :: f']
DEFAULT_VALUES = ['_', '1', '- 1', 'true', "'c'", '"abc"', 'S', 'Self :: C', 'T :: new ( )', '{ 1 + 1 }',
                  '( 2 )', 'a :: b', '1.5', 'vec ! [ 1 ]', ':: std :: f64 :: consts :: PI', 'r"raw"', 'b"bytes"',
                  'String :: new ( )', '[ 0 ; 3 ]', 'None']


class Gen:
    def __init__(self, rng):
        self.r = rng
        self.marker = 0

    def pick(self, xs):
        return xs[self.r.randrange(len(xs))]

    def chance(self, p):
        return self.r.random() < p

    # ---- bound(...) ---------------------------------------------------------------------
    def marker_pred(self):
        self.marker += 1
        return sx.b_pred(sx.wty(sx.tid('T'), [sx.tb_trait(['P%d' % self.marker])]))

    def bound_items(self):
        """one of: absent, (), (P), (..), (P, ..), (T), (T, P, ..)"""
        k = self.r.randrange(11)
        if k <= 2:
            return None, 'absent'
        if k == 9:
            return [sx.B_DOTS, self.marker_pred()], 'dots+pred'
        if k == 10:
            return [sx.b_ty(sx.tid('T')), sx.B_DOTS, self.marker_pred()], 'type+dots+pred'
        if k == 3:
            return [], 'empty'
        if k == 4:
            return [self.marker_pred()], 'pred'
        if k == 5:
            return [sx.B_DOTS], 'dots'
        if k == 6:
            return [self.marker_pred(), sx.B_DOTS], 'pred+dots'
        if k == 7:
            return [sx.b_ty(sx.tid('T'))], 'type'
        return [sx.b_ty(sx.tgen('Vec', sx.tid('T'))), self.marker_pred(), sx.B_DOTS], 'type+pred+dots'

    # ---- attributes ---------------------------------------------------------------------
    def foreign(self):
        return sx.a_other(self.pick(FOREIGN_PATH_ATTRS if self.chance(0.3) else FOREIGN_ATTRS))

    def derive_ex_attr(self, traits, feats, where):
        """a #[derive_ex(Trait(bound(..)), bound(..))] on a variant or field"""
        tl = []
        for t in traits:
            if self.chance(0.5):
                b, bf = self.bound_items()
                tl.append((t, (b, False)) if self.chance(0.8) else (t, None))
                feats.add('%s-dx-%s' % (where, bf))
        if not tl:
            return None
        b, bf = self.bound_items()
        return sx.a_derive_ex(sx.dx(tl, bnd=b))

    def cmp_attr(self, op, feats, target):
        """target: 'field' | 'variant' | 'type' (only bound(..) is legal off fields)"""
        form = self.r.randrange(12)
        if form == 0:
            feats.add('cmp-meta-path')
            return sx.a_cmp(op, sx.M_PATH)
        kw = dict()
        if target == 'field' or self.chance(0.03):
            k = self.r.randrange(10)
            if k == 0:
                kw['ignore'] = True
            elif k == 1 and op in ('ord', 'partial_ord'):
                kw['reverse'] = True
            elif k in (2, 3):
                kw['key'] = self.pick(KEYS)
            elif k in (4, 5):
                kw['by'] = self.pick(BYS)
            elif k == 6 and op in ('ord', 'partial_ord'):
                kw['reverse'] = True
                kw['key'] = self.pick(KEYS)
            elif k == 7:
                kw['key'] = self.pick(KEYS)
                kw['by'] = self.pick(BYS)
        b, bf = self.bound_items()
        kw['bnd'] = b
        feats.add('cmp-%s-%s-%s' % (target, op, '+'.join(sorted(k for k in kw if k != 'bnd')) or 'plain'))
        feats.add('cmp-%s-bound-%s' % (target, bf))
        return sx.a_cmp(op, sx.m_list(sx.cargs(**kw)))

    def debug_attr(self, feats, target):
        if self.chance(0.1):
            return sx.a_debug(sx.M_PATH)
        b, bf = self.bound_items()
        tr = target == 'field' and self.chance(0.2)
        ig = target == 'field' and self.chance(0.3)
        feats.add('debug-%s-%s%s-%s' % (target, 'T' if tr else '', 'I' if ig else '', bf))
        return sx.a_debug(sx.m_list(sx.gargs(transparent=tr, ignore=ig, bnd=b)))

    def default_attr(self, feats, target):
        if self.chance(0.25):
            feats.add('default-%s-path' % target)
            return sx.a_default(sx.M_PATH)
        b, bf = self.bound_items()
        v = self.pick(DEFAULT_VALUES) if (target != 'variant' or self.chance(0.1)) else '_'
        if target == 'type' and self.chance(0.6):
            v = '_'
        feats.add('default-%s-%s-%s' % (target, 'value' if v != '_' else 'infer', bf))
        return sx.a_default(sx.m_list(sx.dargs(v, bnd=b)))

    def helper_attrs(self, traits, feats, target, density=0.35, dup=0.02):
        """helper attributes for one position, in random order, interleaved with foreign ones"""
        attrs = []
        if self.chance(density):
            for op in SNAKES:
                if self.chance(0.35):
                    attrs.append(self.cmp_attr(op, feats, target))
                    if self.chance(dup):
                        attrs.append(self.cmp_attr(op, feats, target))
                        feats.add('dup-attr')
        if self.chance(density * 0.7):
            attrs.append(self.debug_attr(feats, target))
        if self.chance(density * 0.7) and target != 'variant':
            attrs.append(self.default_attr(feats, target))
        if self.chance(0.02):
            attrs.append(sx.a_debug(sx.m_nv('1')))
            feats.add('name-value-attr')
        if target != 'type' and self.chance(density * 0.6):
            a = self.derive_ex_attr(traits, feats, target)
            if a:
                attrs.append(a)
        if self.chance(0.2):
            attrs.append(self.foreign())
        self.r.shuffle(attrs)
        return attrs

    # ---- items --------------------------------------------------------------------------
    def field_type(self):
        return self.pick(TOKEN_FIELD_TYPES)

    def fields(self, traits, feats, maxn=4, density=0.35, raw=False):
        kind = self.r.randrange(5)
        n = self.r.randrange(maxn + 1)
        fts = [self.field_type() for _ in range(n)]
        names = ['a', 'b', 'r#type' if raw else 'c', 'd', 'e']
        if kind <= 1:
            fs = sx.named([sx.field(ft.s, name=names[i], vis=self.pick(VIS) if self.chance(0.2) else '',
                                    attrs=self.helper_attrs(traits, feats, 'field', density))
                           for i, ft in enumerate(fts)])
            feats.add('named%d' % n)
        elif kind <= 3:
            fs = sx.unnamed([sx.field(ft.s, vis=self.pick(VIS) if self.chance(0.2) else '',
                                      attrs=self.helper_attrs(traits, feats, 'field', density))
                             for ft in fts])
            feats.add('tuple%d' % n)
        else:
            fs, fts = sx.UNIT, []
            feats.add('unit')
        return fs, fts

    def generics(self, needs, feats):
        params, where = [], []
        if "'a" in needs or self.chance(0.1):
            params.append(sx.gp_lt('a'))
            if self.chance(0.3):
                params.append(sx.gp_lt('b', ['a']))
        if 'T' in needs or self.chance(0.3):
            style = self.r.randrange(5)
            bs = [[], [sx.tb_trait(['Clone'])], [sx.tb_trait(['Sized'], maybe=True)],
                  [sx.tb_trait(['core', 'fmt', 'Debug'], lead=True), sx.tb_lt('static')], []][style]
            params.append(sx.gp_ty('T', bs, default=sx.tid('u8') if self.chance(0.15) else None))
            if style == 4:
                where.append(sx.wty(sx.tid('T'), [sx.tb_trait(['Copy'])]))
            if self.chance(0.2):
                params.append(sx.gp_ty('U'))
                where.append(sx.wty(sx.tgen('Vec', sx.tid('U')), [sx.tb_trait(['Default'])]))
            feats.add('gen-T%d' % style)
        if 'N' in needs or self.chance(0.1):
            params.append(sx.gp_const('N', sx.tid('usize'), default=sx.clit('3') if self.chance(0.2) else None))
            feats.add('gen-N')
        if self.chance(0.05) and params:
            where.append(sx.wty(sx.tid('Self'), [sx.tb_trait(['Sized'])]))
            feats.add('where-Self')
        return sx.generics(params, where)

    def trait_list(self, pool, feats, kmax=4):
        k = 1 + self.r.randrange(kmax)
        ts = [self.pick(pool) for _ in range(k)]
        items = []
        for t in ts:
            if self.chance(0.3):
                b, bf = self.bound_items()
                dump = self.chance(0.05)
                items.append((t, (b, dump)))
                feats.add('trait-bound-%s' % bf)
                if dump:
                    feats.add('dump-trait')
            else:
                items.append((t, None))
        b, bf = self.bound_items()
        dump = self.chance(0.03)
        feats.add('shared-bound-%s' % bf)
        if dump:
            feats.add('dump-shared')
        return ts, items, b, dump

    def plan(self, pool_struct=None, pool_enum=None, density=0.35, enum_p=0.5):
        """a random item plus the trait list to request for it"""
        feats = set()
        is_enum = self.chance(enum_p)
        pool = (pool_enum or BOTH) if is_enum else (pool_struct or (BOTH + STRUCT_ONLY))
        ts, items, sb, sdump = self.trait_list(pool, feats)
        needs = set()
        tattrs = self.helper_attrs(ts, feats, 'type', density * 0.6)
        if is_enum:
            nv = self.r.randrange(5)
            vs = []
            for i in range(nv):
                fs, fts = self.fields(ts, feats, 3, density)
                for ft in fts:
                    needs.update(ft.needs)
                va = self.helper_attrs(ts, feats, 'variant', density * 0.6)
                if 'Default' in ts and self.chance(0.4):
                    va.append(sx.a_default(sx.M_PATH))
                vs.append(sx.variant('V%d' % i, fs, attrs=va,
                                     discr=('%d' % (i * 2)) if (fs == sx.UNIT and self.chance(0.1)) else None))
            feats.add('enum%d' % nv)
            it = sx.enum('E', vs, attrs=tattrs, vis=self.pick(VIS), gen=self.generics(needs, feats))
        else:
            fs, fts = self.fields(ts, feats, 4, density, raw=self.chance(0.1))
            for ft in fts:
                needs.update(ft.needs)
            feats.add('struct')
            it = sx.struct('X', fs, attrs=tattrs, vis=self.pick(VIS), gen=self.generics(needs, feats))
        plan = dict(item=it, items=items, shared_bound=sb, shared_dump=sdump, traits=ts, enum=is_enum,
                    feats=feats)
        return plan

    def item(self, **kw):
        """returns (request, meta): random entry point, list possibly split"""
        plan = self.plan(**kw)
        mode = 'attr' if self.chance(0.5) else 'derive'
        cuts = []
        if self.chance(0.25) and len(plan['items']) > 1:
            cuts = [1 + self.r.randrange(len(plan['items']) - 1)]
        return assemble(plan, mode, cuts)


def assemble(plan, mode, cuts=(), items=None, extra_feats=(), list_flags=None):
    """build the request for a plan: entry point `mode`, trait list split at `cuts`;
    `list_flags[k] = (shared bound, shared dump)` overrides the plan's shared arguments for list k"""
    items = plan['items'] if items is None else items
    sb, sdump = plan['shared_bound'], plan['shared_dump']
    feats = set(plan['feats']) | set(extra_feats) | {mode}
    for t, _ in items:
        feats.add('trait-' + t)
    lists, prev = [], 0
    for c in list(cuts) + [len(items)]:
        lists.append(items[prev:c])
        prev = c
    if len(lists) > 1:
        feats.add('split-list')
    it = plan['item']
    lf = list_flags if list_flags is not None else [(sb, sdump)] * len(lists)
    if list_flags is not None:
        feats.add('per-list-flags')
    extra = [sx.a_derive_ex(sx.dx(l, bnd=lf[k + 1][0], dump=lf[k + 1][1])) for k, l in enumerate(lists[1:])]
    if mode == 'attr':
        it = _prepend_attrs(it, extra)
        req = sx.inv_attr(sx.dx(lists[0], bnd=lf[0][0], dump=lf[0][1]), it)
    else:
        it = _prepend_attrs(it, [sx.a_derive_ex(sx.dx(lists[0], bnd=lf[0][0], dump=lf[0][1]))] + extra)
        req = sx.inv_derive(it)
    return req, dict(features=tuple(sorted(feats)), traits=[t for t, _ in items], enum=plan['enum'])


def _prepend_attrs(item_s, attrs):
    if not attrs:
        return item_s
    for kw in ('(struct (', '(enum (', '(impl ('):
        if item_s.startswith(kw):
            return kw + ' '.join(attrs) + ' ' + item_s[len(kw):]
    raise ValueError(item_s[:40])


class ImplGen(Gen):
    """`impl Op<Rhs> for T { type Output = ..; fn .. }` items for the operator derivation"""

    def impl_item(self):
        feats = set()
        op = self.pick(BINOPS)
        base_assign = self.chance(0.25)
        tname = op + ('Assign' if base_assign else '')
        generic = self.chance(0.4)
        this_elem = sx.tgen('X', sx.tid('T')) if generic else sx.tid('X')
        self_form = self.r.randrange(4)       # owned, &, &'a, &mut
        this = [this_elem, sx.tref(this_elem), sx.tref(this_elem, lt='a'), sx.tref(this_elem, mut=True)][
            self_form if self.chance(0.85) or self_form < 2 else 0]
        rhs_kind = self.r.randrange(7)
        other = sx.tid('Y')
        # bare trait objects as operand types (syntactically valid whatever rustc says about their size): with several
        # bounds they need parentheses wherever the derived impls put a `&` in front of them
        dyn2 = sx.tdyn([sx.tb_trait(['A']), sx.tb_trait(['Send'])])
        dyn1 = sx.tdyn([sx.tb_trait(['A'])])
        if self.chance(0.08):
            this = self.pick([dyn2, dyn1, sx.tref(sx.tparen(dyn2)), sx.tparen(dyn2)])
            feats.add('self-dyn')
        rhs = [None, sx.tid('Self'), other, sx.tref(other), sx.tref(sx.tid('Self')), this_elem,
               sx.tgen('Vec', sx.tid('Self'))][rhs_kind]
        if self.chance(0.1):
            rhs = self.pick([dyn2, dyn1, sx.tref(dyn1), sx.tref(sx.tparen(dyn2)), sx.tdyn([sx.tb_trait(['A']), sx.tb_lt('static'), sx.tb_trait(['Sync'])])])
            feats.add('rhs-dyn')
        feats.add('rhs%d' % rhs_kind)
        feats.add('self%d' % self_form)
        if rhs is None:
            trait = [tname]
        else:
            trait = [sx.seg(tname, ('angle', [sx.gty(rhs)]))]
        if self.chance(0.3):
            trait = ['core', 'ops'] + trait
        lead = len(trait) > 1 and self.chance(0.5)
        params, where = [], []
        if self_form == 2:
            params.append(sx.gp_lt('a'))
        if generic:
            params.append(sx.gp_ty('T', [sx.tb_trait([sx.seg('Add', ('angle', [sx.gty(sx.tid('Self'))]))])]
                                   if self.chance(0.3) else []))
            if self.chance(0.5):
                where.append(sx.wty(sx.tid('Self'), [sx.tb_trait(['Clone'])]))
            if self.chance(0.3):
                where.append(sx.wty(sx.tid('T'), [sx.tb_trait(['Copy'])]))
        members = []
        out_kind = self.r.randrange(5)
        if not base_assign and out_kind != 4:
            members.append(sx.m_type('Output', [this_elem, sx.tid('Self'), sx.tid('u8'),
                                                sx.tgen('Option', sx.tid('Self'))][out_kind]))
        elif not base_assign:
            feats.add('no-output')
        if self.chance(0.1):
            members.insert(0, sx.m_type('Other', sx.tid('u8')))
        fn = 'fn %s ( self , rhs : R ) -> Self :: Output { todo ! ( ) }' % op.lower()
        members.append(sx.m_other(fn))
        want = self.r.randrange(8)
        names = [[op], [op + 'Assign'], [op, op + 'Assign'], [op + 'Assign', op], [], ['Sub' if op != 'Sub' else 'Mul'],
                 ['Clone'], [op, op]][want]
        feats.add('want%d' % want)
        neg = self.chance(0.03)
        inherent = self.chance(0.03)
        bad_trait = self.chance(0.04)
        if bad_trait:
            trait = ['Foo']
            feats.add('bad-trait')
        dump = self.chance(0.1)
        feats.update(['impl', 'op-' + op, 'base-assign' if base_assign else 'base-binary'] +
                     (['dump'] if dump else []) + (['neg'] if neg else []) + (['inherent'] if inherent else []))
        it = sx.impl(None if inherent else trait, this, members, gen=sx.generics(params, where),
                     attrs=[self.foreign()] if self.chance(0.2) else [], neg=neg and not inherent, lead=lead)
        req = sx.inv_attr(sx.dx([(n, None) for n in names], dump=dump), it)
        return req, dict(features=tuple(sorted(feats)), impl=True)
