"""Seed corpus for C16: every derive_ex item of the repository's test-suite and documentation."""
import glob
import re

OPEN, CLOSE = '([{', ')]}'


def _scan_item(src, start):
    """src[start:] begins with `#[`; returns end index of the item (exclusive) or None"""
    depth, i, n = 0, start, len(src)
    in_str = False
    seen_kw = False
    while i < n:
        c = src[i]
        if in_str:
            if c == '\\':
                i += 2
                continue
            if c == '"':
                in_str = False
        elif c == '"':
            in_str = True
        elif c == '/' and src.startswith('//', i):
            j = src.find('\n', i)
            i = n if j < 0 else j
            continue
        elif c in OPEN:
            depth += 1
        elif c in CLOSE:
            depth -= 1
            if depth < 0:
                return None
            if depth == 0 and c == '}' and seen_kw:
                return i + 1
        elif c == ';' and depth == 0 and seen_kw:
            return i + 1
        elif depth == 0 and re.match(r'(struct|enum|impl|union|fn)\b', src[i:i + 7]):
            seen_kw = True
        i += 1
    return None


def extract(src):
    """all (mode, attr, item) found in a Rust source text"""
    out = []
    for m in re.finditer(r'#\[derive_ex\(|#\[derive\([^\]]*\bEx\b', src):
        # walk back over preceding attributes on earlier lines is not needed: start here
        start = m.start()
        end = _scan_item(src, start)
        if end is None:
            continue
        text = src[start:end]
        text = re.sub(r'^\s*(///|//!|#\s)[^\n]*\n', '', text, flags=re.M) if False else text
        text = '\n'.join(l[2:] if l.lstrip().startswith('# ') else l for l in text.split('\n'))
        text = re.sub(r'//[^\n]*', '', text)
        derive = re.search(r'#\[derive\([^\]]*\bEx\b[^\]]*\)\]', text)
        body = re.sub(r'#\[derive\([^\]]*\)\]', '', text)
        if derive:
            out.append(('D', '', ' '.join(body.split())))
        else:
            mm = re.match(r'#\[derive_ex\(', body)
            if not mm:
                continue
            # matching paren of the first attribute
            d, j = 0, mm.end() - 1
            while j < len(body):
                if body[j] in OPEN:
                    d += 1
                elif body[j] in CLOSE:
                    d -= 1
                    if d == 0:
                        break
                j += 1
            attr = body[mm.end():j]
            rest = body[j + 2:]
            out.append(('A', ' '.join(attr.split()), ' '.join(rest.split())))
    return out


def load():
    seeds = []
    for f in sorted(glob.glob('/repo/derive-ex-tests/tests/*.rs')) + sorted(
            glob.glob('/repo/derive-ex-tests/tests/compile_fail/*/*.rs')) + ['/repo/doc/derive_ex.md', '/repo/README.md']:
        try:
            src = open(f).read()
        except OSError:
            continue
        seeds.extend(extract(src))
    # de-duplicate, keep order
    seen, out = set(), []
    for s in seeds:
        if s not in seen:
            seen.add(s)
            out.append(s)
    return out
