"""Generator + reference resolution for the where-clause properties (C03, C04).

Every case is built together with a structured description of its priority levels, from which
`expected_where` computes — from the documentation's rule only — the where-clause every
generated impl must carry.  Nothing here consults the Coq model or the Rust source."""
from . import sx

T = sx.tid('T')
U = sx.tid('U')

# field types: (sexp, flat tokens, mentions a parameter)
FTYPES = [
    (sx.tid('u8'), 'u8', False),
    (T, 'T', True),
    (sx.tgen('Vec', T), 'Vec < T >', True),
    (sx.tgen('Option', T), 'Option < T >', True),
    (sx.tgen('PhantomData', U), 'PhantomData < U >', True),
    (sx.tid('String'), 'String', False),
    (sx.ttuple([T, sx.tid('u8')]), '( T , u8 )', True),
    (sx.tarray(sx.tid('u8'), sx.cpath(['N'])), '[ u8 ; N ]', True),
    (sx.tref(T, lt='a'), "& ' a T", True),
    (sx.tpath(['T', 'Assoc']), 'T : : Assoc', True),
    (sx.tpath([sx.seg('Vec', ('angle', [sx.gty(sx.tid('u8'))]))], lead=True), ': : Vec < u8 >', False),
    (sx.tfn([T], U), 'fn ( T ) - > U', True),
    (sx.tptr(T), '* const T', True),
    (sx.tgen('Box', sx.tid('T2')), 'Box < T2 >', False),      # T2 is not a parameter
    (sx.tpath(['Tr', 'Assoc'], qself=(T, 1)), '< T as Tr > : : Assoc', True),
    (sx.tpath(['std', 'vec', sx.seg('Vec', ('angle', [sx.gty(T)]))], lead=True), ': : std : : vec : : Vec < T >', True),
    (sx.tgen('Wrap', sx.tid('r#T')), 'Wrap < r#T >', True),
    (sx.tpath([sx.seg('Arr', ('angle', [sx.gconst(sx.cpath(['N']))]))]), 'Arr < N >', True),
    # names the item only through `Self`: no parameter is mentioned - except in the operator impls, which see the field types
    # with `Self` written out (C03_mentions_after_self_expansion in Coq)
    (sx.tgen('Option', sx.tgen('Box', sx.tid('Self'))), 'Option < Box < Self > >', False, 'self-only'),
]

GENERICS = sx.generics([sx.gp_lt('a'), sx.gp_ty('T'), sx.gp_ty('U'), sx.gp_const('N', sx.tid('usize'))],
                       [sx.wty(T, [sx.tb_trait(['Tr'])])])
DECLARED = ['T : Tr']
# the same with an inline bound that mentions `Self` (it must be expanded wherever the impl is not for the type itself)
GENERICS_SELF = sx.generics([sx.gp_lt('a'), sx.gp_ty('T'),
                             sx.gp_ty('U', [sx.tb_trait([sx.seg('Wt', ('angle', [sx.gty(sx.tid('Self'))]))])]),
                             sx.gp_const('N', sx.tid('usize'))],
                            [sx.wty(T, [sx.tb_trait(['Tr'])])])

# ... and with `Self` NESTED inside other types, in an inline bound and in the declared where-clause
_SELF = sx.tid('Self')
GENERICS_SELF_NESTED = sx.generics(
    [sx.gp_lt('a'), sx.gp_ty('T'),
     sx.gp_ty('U', [sx.tb_trait([sx.seg('Wt', ('angle', [sx.gty(sx.tgen('Option', _SELF))]))])]),
     sx.gp_const('N', sx.tid('usize'))],
    [sx.wty(T, [sx.tb_trait(['Tr'])]),
     sx.wty(sx.tgen('Option', sx.tref(_SELF)), [sx.tb_trait(['Tr'])]),
     sx.wty(sx.tpath(['Tr', 'Assoc'], qself=(_SELF, 1)), [sx.tb_trait(['Tr'])])])
DECLARED_SELF_NESTED = ['T : Tr', 'Option < & Self > : Tr', '< Self as Tr > : : Assoc : Tr']

TRAIT_PATH = {
    'Clone': 'core clone Clone', 'Copy': 'core marker Copy', 'Debug': 'core fmt Debug',
    'Default': 'core default Default', 'Deref': 'core ops Deref', 'Ord': 'core cmp Ord',
    'PartialOrd': 'core cmp PartialOrd', 'Eq': 'core cmp Eq', 'PartialEq': 'core cmp PartialEq',
    'Hash': 'core hash Hash', 'Add': 'core ops Add', 'Sub': 'core ops Sub', 'AddAssign': 'core ops AddAssign',
    'Neg': 'core ops Neg', 'Not': 'core ops Not', 'BitXorAssign': 'core ops BitXorAssign', 'Shl': 'core ops Shl',
}


def tpath(tr):
    return ' '.join(': : ' + s for s in TRAIT_PATH[tr].split())


# doc: which helper attribute affects which trait; most specific first
SPECIFIC_FIRST = {
    'PartialEq': ['partial_eq', 'eq', 'partial_ord', 'ord'],
    'Eq': ['eq', 'ord'],
    'PartialOrd': ['partial_ord', 'ord'],
    'Ord': ['ord'],
    'Hash': ['hash', 'eq', 'ord'],
}
CMP = list(SPECIFIC_FIRST)
STRUCT_ONLY = ['Add', 'Sub', 'AddAssign', 'BitXorAssign', 'Neg', 'Not', 'Shl']
FORMS = {  # number of impls and their where-clause forms
    'bin': [(False, False), (False, True), (True, False), (True, True)],
    'assign': [False, True],
    'un': [False, True],
}


class Level:
    """one `bound(...)`; None stands for an absent level"""

    def __init__(self, items, types, preds, dots, label):
        self.items, self.types, self.preds, self.dots, self.label = items, types, preds, dots, label


class BoundGen:
    def __init__(self, rng, p_absent=0.45):
        self.r = rng
        self.marker = 0
        self.p_absent = p_absent

    def level(self):
        """absent | () | (P) | (..) | (P, ..) | (T) | (Vec<T>, P, ..)"""
        if self.r.random() < self.p_absent:
            return None
        k = self.r.randrange(10)
        self.marker += 1
        p = 'P%d' % self.marker
        pred_s = sx.b_pred(sx.wty(T, [sx.tb_trait([p])]))
        pred_f = 'T : ' + p
        if k == 0:
            return Level([], [], [], False, 'empty')
        if k == 1:
            return Level([pred_s], [], [pred_f], False, 'pred')
        if k == 2:
            return Level([sx.B_DOTS], [], [], True, 'dots')
        if k == 3:
            return Level([pred_s, sx.B_DOTS], [], [pred_f], True, 'pred+dots')
        if k == 4:
            return Level([sx.b_ty(T)], ['T'], [], False, 'type')
        if k == 8:      # a bounded type that mentions no type / const parameter of the item: kept like any other entry
            return Level([sx.b_ty(sx.tgen('Vec', sx.tid('u8')))], ['Vec < u8 >'], [], False, 'type-noparam')
        if k == 9:      # ... or only a lifetime parameter
            return Level([sx.b_ty(sx.tref(sx.tid('str'), lt='a')), sx.B_DOTS, pred_s], ["& ' a str"], [pred_f], True, 'lifetime-type+dots+pred')
        if k == 6:      # `..` may stand anywhere in the list
            return Level([sx.B_DOTS, pred_s], [], [pred_f], True, 'dots+pred')
        if k == 7:
            return Level([sx.b_ty(T), sx.B_DOTS, pred_s], ['T'], [pred_f], True, 'type+dots+pred')
        return Level([sx.b_ty(sx.tgen('Vec', T)), pred_s, sx.B_DOTS], ['Vec < T >'], [pred_f], True, 'type+pred+dots')

    @staticmethod
    def barg(lv):
        return None if lv is None else lv.items

    # ---- one position (type / variant / field) -------------------------------------------
    def position(self, tr, where, feats, field_opts=None):
        """attributes of one position + its levels in documented priority order.
        field_opts: dict(ignore=bool, by/key selection for cmp, debug flags, default value)"""
        attrs, levels = [], []
        fo = field_opts or {}
        if tr in CMP:
            cut = False
            for name in SPECIFIC_FIRST[tr]:
                if self.r.random() < 0.45 or name == fo.get('sel_attr') or name == fo.get('ignore_attr'):
                    lv = self.level()
                    kw = dict(bnd=self.barg(lv))
                    if name == fo.get('sel_attr'):
                        kw[fo['sel_kind']] = fo['sel_expr']
                    if name == fo.get('ignore_attr'):
                        kw['ignore'] = True
                    if lv is None and len(kw) == 1 and self.r.random() < 0.3:
                        attrs.append(sx.a_cmp(name, sx.M_PATH))
                    else:
                        attrs.append(sx.a_cmp(name, sx.m_list(sx.cargs(**kw))))
                    if not cut:
                        levels.append(lv)
                        feats.add('%s-helper-%s' % (where, lv.label if lv else 'absent'))
                    if name == fo.get('sel_attr'):
                        cut = True     # by / key: lower-priority helper attributes are not consulted
            # helper attributes that do not affect this trait must not matter (they are not even read)
        elif tr == 'Debug':
            if self.r.random() < 0.6 or fo.get('debug_ignore') or fo.get('debug_transparent'):
                lv = self.level()
                attrs.append(sx.a_debug(sx.m_list(sx.gargs(transparent=bool(fo.get('debug_transparent')),
                                                           ignore=bool(fo.get('debug_ignore')), bnd=self.barg(lv)))))
                levels.append(lv)
                feats.add('%s-helper-%s' % (where, lv.label if lv else 'absent'))
        elif tr == 'Default' and not (where == 'variant' and not fo.get('default_marker')):
            if self.r.random() < 0.6 or fo.get('default_value') or fo.get('default_marker'):
                lv = self.level()
                if fo.get('default_marker') and lv is None and self.r.random() < 0.5:
                    attrs.append(sx.a_default(sx.M_PATH))
                else:
                    attrs.append(sx.a_default(sx.m_list(sx.dargs(fo.get('default_value') or '_', bnd=self.barg(lv)))))
                levels.append(lv)
                feats.add('%s-helper-%s' % (where, lv.label if lv else 'absent'))
        if where != 'type':
            # #[derive_ex(Trait(bound(..)), bound(..))] on the variant / field; a later attribute for the
            # same trait replaces an earlier one
            n = 0 if self.r.random() < 0.4 else 1      # (repeating a trait on one position is not documented)
            last = None
            for _ in range(n):
                this, common = self.level(), self.level()
                other = [('Clone' if tr != 'Clone' else 'Copy', None)] if self.r.random() < 0.3 else []
                attrs.append(sx.a_derive_ex(sx.dx(other + [(tr, (self.barg(this), False))] if this is not None or self.r.random() < 0.5
                                                  else other + [(tr, None)], bnd=self.barg(common))))
                last = (this, common)
            if last:
                levels.extend(last)
                for lv in last:
                    feats.add('%s-dx-%s' % (where, lv.label if lv else 'absent'))
                if n == 2:
                    feats.add('dx-twice')
        self.r.shuffle(attrs)
        return attrs, levels

    # ---- whole case ------------------------------------------------------------------------
    def case(self, tr, is_enum, mode):
        feats = {tr, 'enum' if is_enum else 'struct', mode}
        kind = 'bin' if tr in ('Add', 'Sub', 'Shl') else 'assign' if tr.endswith('Assign') else \
            'un' if tr in ('Neg', 'Not') else 'plain'
        this_lv, common_lv = self.level(), self.level()
        tattrs, tlevels = self.position(tr, 'type', feats,
                                        dict(default_value=('Self :: new ( )' if tr == 'Default' and self.r.random() < 0.15 else None)))
        type_value = tr == 'Default' and any('Self :: new' in a for a in tattrs)
        top = tlevels + [this_lv, common_lv]
        for lv in (this_lv, common_lv):
            feats.add('type-arg-%s' % (lv.label if lv else 'absent'))
        nvar = (1 + self.r.randrange(3)) if is_enum else 1
        default_variant = self.r.randrange(nvar)
        variants_s, plan = [], []
        for vi in range(nvar):
            named = self.r.random() < 0.5
            nf = 1 if tr == 'Deref' else self.r.randrange(4)
            fopts = []
            for fi in range(nf):
                fo = {}
                if tr in CMP:
                    r = self.r.random()
                    if r < 0.15:
                        fo['ignore_attr'] = 'ord'          # ignored for every trait
                    elif r < 0.45:
                        cand = SPECIFIC_FIRST[tr] if tr != 'Hash' else ['hash', 'eq', 'ord']
                        fo['sel_attr'] = self.r.choice(cand)
                        fo['sel_kind'] = 'key' if (tr == 'Hash' and fo['sel_attr'] != 'hash') or self.r.random() < 0.5 else 'by'
                        fo['sel_expr'] = '$ . k' if fo['sel_kind'] == 'key' else 'f'
                elif tr == 'Debug':
                    fo['debug_ignore'] = self.r.random() < 0.25
                elif tr == 'Default':
                    if self.r.random() < 0.3:
                        fo['default_value'] = self.r.choice(['1', '"s"', 'C', 'T :: new ( )'])
                fopts.append(fo)
            if tr == 'Debug' and nf and self.r.random() < 0.25:
                fopts[self.r.randrange(nf)]['debug_transparent'] = True
            vattrs, vlevels = ([], [])
            if is_enum:
                vattrs, vlevels = self.position(tr, 'variant', feats,
                                                dict(default_marker=(tr == 'Default' and vi == default_variant)))
            fields_s, fplans = [], []
            for fi in range(nf):
                ft = FTYPES[self.r.randrange(len(FTYPES))]
                fattrs, flevels = self.position(tr, 'field', feats, fopts[fi])
                fields_s.append(sx.field(ft[0], name=('f%d' % fi) if named else None, attrs=fattrs))
                fplans.append(dict(levels=flevels, ty=ft[1], mentions=ft[2], opts=fopts[fi], self_only=len(ft) > 3))
                if len(ft) > 3:
                    feats.add('Self-only-field-type')
            fs = sx.named(fields_s) if named else (sx.unnamed(fields_s) if (nf or self.r.random() < 0.5) else sx.UNIT)
            variants_s.append((vattrs, fs))
            plan.append(dict(levels=vlevels, fields=fplans))
        gen = GENERICS
        if self.r.random() < 0.25:
            gen = GENERICS_SELF
            feats.add('inline-Self-bound')
        declared = DECLARED
        if self.r.random() < 0.15:
            gen, declared = GENERICS_SELF_NESTED, DECLARED_SELF_NESTED
            feats.add('nested-Self-in-generics-and-where')
        if is_enum:
            it = sx.enum('E', [sx.variant('V%d' % i, fs, attrs=va) for i, (va, fs) in enumerate(variants_s)],
                         attrs=tattrs, gen=gen)
        else:
            it = sx.struct('X', variants_s[0][1], attrs=tattrs, gen=gen)
        items = [(tr, (self.barg(this_lv), False) if this_lv is not None or self.r.random() < 0.3 else None)]
        second = None
        if self.r.random() < 0.3:
            second = 'Clone' if tr != 'Clone' else 'Copy'
            items.append((second, None))   # a co-derived trait shares bound(..)
        if mode == 'attr':
            req = sx.inv_attr(sx.dx(items, bnd=self.barg(common_lv)), it)
        else:
            kw = '(enum (' if is_enum else '(struct ('
            it = kw + sx.a_derive_ex(sx.dx(items, bnd=self.barg(common_lv))) + ' ' + it[len(kw):]
            req = sx.inv_derive(it)
        meta = dict(features=tuple(sorted(feats)), trait=tr, kind=kind, enum=is_enum, top=top, plan=plan,
                    default_variant=default_variant, type_value=type_value, nvar=nvar, second=second, common=common_lv,
                    declared=declared, this=('E' if is_enum else 'X') + " < ' a , T , U , N >")
        return req, meta


# ---------------------------------------------------------------------------------------------
# the reference rule (doc/derive_ex.md "Specify trait bound" + per-trait chapters)
# ---------------------------------------------------------------------------------------------
def resolve(levels, cont):
    ts, ps = [], []
    for lv in levels:
        if not cont:
            break
        if lv is None:
            continue
        ts += lv.types
        ps += lv.preds
        cont = lv.dots
    return ts, ps, cont


def expected_where(meta):
    """(types, preds) in emission order, or None if the trait errors for another reason"""
    tr = meta['trait']
    ts, ps, c0 = resolve(meta['top'], True)
    variants = meta['plan']
    if tr == 'Default':
        if meta['type_value']:
            variants = []
        elif meta['enum']:
            variants = [variants[meta['default_variant']]]
    if tr == 'Deref':
        variants = []
    for v in variants:
        vt, vp, cv = resolve(v['levels'], c0)
        ts += vt
        ps += vp
        fields = v['fields']
        if tr == 'Debug':
            tf = [f for f in fields if f['opts'].get('debug_transparent')]
            fields = tf if tf else [f for f in fields if not f['opts'].get('debug_ignore')]
        if tr in CMP:
            fields = [f for f in fields if not f['opts'].get('ignore_attr')]
        for f in fields:
            ft, fp, cf = resolve(f['levels'], cv)
            ts += ft
            ps += fp
            used = True
            if tr in CMP and f['opts'].get('sel_attr'):
                used = False
            if tr == 'Default' and f['opts'].get('default_value'):
                used = False
            ty, mentions = f['ty'], f['mentions']
            if f.get('self_only') and meta['kind'] != 'plain':
                ty, mentions = ty.replace('Self', meta['this']), True
            if cf and used and mentions:
                ts.append(ty)
    return ts, ps


def expected_where_second(meta):
    """the where-clause of the co-derived Clone / Copy: it shares only the list-level `bound(..)`; the helper attributes and
    the nested `#[derive_ex(Trait..)]` arguments of the other trait say nothing about it, and every field is used"""
    ts, ps, c = resolve([meta['common']], True)
    if c:
        for v in meta['plan']:
            for f in v['fields']:
                if f['mentions']:
                    ts.append(f['ty'])
    return ts, ps


def where_text(tr, kind, form, ts, ps, declared=None):
    """flat tokens of the where-clause of one impl"""
    declared = DECLARED if declared is None else declared
    p = tpath(tr)
    items = []
    for t in ts:
        if kind == 'plain':
            items.append('%s : %s' % (t, p))
        elif kind == 'bin':
            l, r = form
            lhs = ("for < ' __h > & ' __h %s" % t) if l else (("for < ' __h > %s" % t) if r else t)
            items.append('%s : %s < %s , Output = %s >' % (lhs, p, ("& ' __h " + t) if r else t, t))
        elif kind == 'assign':
            items.append(("for < ' __h > %s : %s < & ' __h %s >" % (t, p, t)) if form else ('%s : %s < %s >' % (t, p, t)))
        else:
            items.append(("for < ' __h > & ' __h %s : %s < Output = %s >" % (t, p, t)) if form
                         else ('%s : %s < Output = %s >' % (t, p, t)))
    items += declared + ps
    return 'where ' + ' '.join(i + ' ,' for i in items)
