"""debug helper: python3 -m vlib.dbg C18 [n]  -> print the first n L1 mismatches"""
import importlib, random, sys
from . import run as R

def main():
    pid = sys.argv[1]; n = int(sys.argv[2]) if len(sys.argv) > 2 else 3
    tier = sys.argv[3] if len(sys.argv) > 3 else 'quick'
    for b in (R.build_coq, R.build_driver, R.build_harness):
        ok, out = b()
        if not ok: print(out[-3000:]); return
    prop = importlib.import_module('vlib.props.' + pid.lower()).PROP
    cases = prop.cases(tier, random.Random(20260930))
    res = R.run_cases(cases)
    k = 0
    for r in res:
        e, x = prop.view(r, r.expected), prop.view(r, r.actual)
        if e != x:
            k += 1
            if k <= n:
                print('INPUT', r.input_text())
                for a, b in zip(e + [None] * len(x), x + [None] * len(e)):
                    if a != b and (a or b):
                        print('  EXP', a); print('  ACT', b)
                        if a and b:
                            for fa, fb in zip(a, b):
                                if fa != fb:
                                    ta, tb = fa.split(' '), fb.split(' ')
                                    i = next((i for i, (u, v) in enumerate(zip(ta, tb)) if u != v), min(len(ta), len(tb)))
                                    print('   first diff at token', i, ':', ' '.join(ta[max(0,i-5):i+8]), ' <> ', ' '.join(tb[max(0,i-5):i+8]))
                        break
    print('mismatches', k, 'of', len(res))
main()
