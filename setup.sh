#!/bin/sh
# Builds the whole framework from files on disk only (offline): Coq development (full .vo build),
# extracted OCaml driver, Rust harness (real macro from /repo with hooks on), and warms the
# cargo target used by the rustc-in-the-loop oracles.
set -e
cd "$(dirname "$0")"
export CARGO_NET_OFFLINE=true
mkdir -p .work evidence replays
(cd coq && coq_makefile -f _CoqProject -o Makefile >/dev/null && timeout 3000 make -j16 >.make.log 2>&1 || { tail -50 .make.log; exit 1; })
timeout 600 ./driver/build.sh
(cd harness && timeout 1200 cargo build --release --offline 2>&1 | tail -3)
python3 - <<'PY'
import sys
sys.path.insert(0, '.')
from vlib import l2
print('real proc-macro built:', l2.ensure_macro()[0])
PY
echo setup done
