From DX Require Import Syntax GenBound GenAttrs IR GenType GenCmp GenImpl GenTop SemDeref LemTop.

Definition is_deref_kind (k : kind) : bool :=
  match k with KDeref | KDerefMut => true | _ => false end.

(** where-clause of the impl: the entry's own `bound(..)` types, and the declared
    predicates followed by the entry's predicates *)
Definition deref_wcb (s : item_struct) (e : entry) : wcb :=
  fst (entry_push_bounds_to e (wcb_new (s_generics s))).

Lemma deref_wcb_declared s e :
  exists extra, w_preds (deref_wcb s e) = g_where (s_generics s) ++ extra.
Proof.
  unfold deref_wcb, entry_push_bounds_to, push_bounds, wcb_new. cbn.
  destruct (b_default (en_this e)); cbn.
  - exists (b_pred (en_this e) ++ b_pred (en_common e)). now rewrite app_assoc.
  - now exists (b_pred (en_this e)).
Qed.

Lemma deref_single s h f e :
  is_deref_kind (en_kind e) = true ->
  exists ir,
    build_struct_entry s h [f] e = Ok [ir] /\
    deref_place (ir_body ir)
      = Some (PField PSelf (fe_member f), match en_kind e with KDerefMut => true | _ => false end) /\
    deref_target (ir_body ir) = Some (f_ty (fe_field f)) /\
    ih_trait (ir_hdr ir) = en_kind e /\
    ih_generics (ir_hdr ir) = s_generics s /\
    ih_this (ir_hdr ir) = this_ty_of (s_name s) (s_generics s) /\
    ih_self_ref (ir_hdr ir) = false /\ ih_rhs (ir_hdr ir) = None /\
    ih_wpreds (ir_hdr ir) = w_preds (deref_wcb s e) /\
    ih_wtypes (ir_hdr ir) = w_types (deref_wcb s e).
Proof.
  intros Hk. unfold build_struct_entry, build_deref_for_struct, deref_wcb.
  destruct (entry_push_bounds_to e (wcb_new (s_generics s))) as [w ub] eqn:Ew.
  destruct (en_kind e) eqn:Ek; try discriminate Hk; cbn;
    eexists; (split; [reflexivity|]); cbn; repeat split; reflexivity.
Qed.

Lemma deref_reject s h fs e :
  is_deref_kind (en_kind e) = true ->
  length fs <> 1 ->
  build_struct_entry s h fs e = Err (deref_msg (en_kind e)).
Proof.
  intros Hk Hl. unfold build_struct_entry, build_deref_for_struct.
  destruct (entry_push_bounds_to e (wcb_new (s_generics s))) as [w ub].
  destruct (en_kind e) eqn:Ek; try discriminate Hk;
    destruct fs as [|f [|f' fs]]; cbn in Hl; try congruence; reflexivity.
Qed.

Lemma deref_ok_single s h fs e irs :
  is_deref_kind (en_kind e) = true ->
  build_struct_entry s h fs e = Ok irs -> length fs = 1.
Proof.
  intros Hk Hb. destruct (Nat.eq_dec (length fs) 1) as [E|N]; [exact E|].
  rewrite (deref_reject s h fs e Hk N) in Hb. discriminate.
Qed.

Lemma deref_enum_unsupported en h vs e rest :
  is_deref_kind (en_kind e) = true ->
  build_enum_entries en h vs (e :: rest) = Err (unsupported_for_enum_msg (en_kind e)).
Proof.
  intros Hk. cbn. destruct (en_kind e); try discriminate Hk; reflexivity.
Qed.
