(** * C06 — Hash feeds exactly the effective inputs of non-ignored fields, in order *)
From DX Require Import Syntax Tables GenBound GenAttrs IR GenType GenCmp SpecAttrs SpecBound SemCmp SpecCmp
     LemBound LemCmp.

(** the sequence of `Hash::hash` calls of the derived impl is the documented feed *)
Theorem C06_struct_feed :
  forall V s fs e h ir (a : value V),
    build_compare_op CHash (SrcStruct s fs) e h = Ok [ir] ->
    eval_hash V (ir_body ir) a = Some (sp_fields_feed V fs a).
Proof.
  intros V s fs e h ir a H. rewrite (compare_op_body _ _ _ _ _ H). cbn. f_equal. apply fields_feed_spec.
Qed.

Theorem C06_enum_feed :
  forall V en vs e h ir (a : value V),
    build_compare_op CHash (SrcEnum en vs) e h = Ok [ir] ->
    eval_hash V (ir_body ir) a = sp_enum_feed V vs a.
Proof. intros V en vs e h ir a H. rewrite (compare_op_body _ _ _ _ _ H). apply enum_hash_spec. Qed.

(** equal effective inputs => identical feeds (for every hasher: the feed is all a hasher sees);
    and the feed determines every effective input (changing one changes the feed) *)
Theorem C06_feed_determined_by_inputs :
  forall V fs (a b : value V),
    (forall f, In f (cmp_used_fields CHash fs) -> at_ V a f = at_ V b f) ->
    sp_fields_feed V fs a = sp_fields_feed V fs b.
Proof. exact feed_determined. Qed.

Theorem C06_feed_sensitive :
  forall V fs (a b : value V),
    sp_fields_feed V fs a = sp_fields_feed V fs b ->
    forall f, In f (cmp_used_fields CHash fs) -> at_ V a f = at_ V b f.
Proof. exact feed_sensitive. Qed.

Print Assumptions C06_struct_feed.
Print Assumptions C06_enum_feed.
Print Assumptions C06_feed_determined_by_inputs.
Print Assumptions C06_feed_sensitive.
