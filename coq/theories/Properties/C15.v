(** * C15 — same impls via either entry point, merged or split lists, any co-derived set *)
From DX Require Import Syntax Tables GenBound GenAttrs IR GenType GenCmp GenImpl GenTop SpecAttrs LemTop LemAttrs LemEntry LemLists.

(** The attribute macro `#[derive_ex(a)] item` and the derive macro on the same item carrying
    `#[derive_ex(a)]` as its first attribute generate the same impls (and the same fatal error,
    if any), for every struct and enum. *)
Theorem C15_entry_points :
  forall a a' it,
    (exists s, it = IStruct s) \/ (exists e, it = IEnum e) ->
    x_entries (expand {| inv_mode := Attr; inv_args := a; inv_item := it |})
    = x_entries (expand {| inv_mode := Derive; inv_args := a'; inv_item := derive_form a it |}) /\
    x_fatal (expand {| inv_mode := Attr; inv_args := a; inv_item := it |})
    = x_fatal (expand {| inv_mode := Derive; inv_args := a'; inv_item := derive_form a it |}).
Proof. exact entry_points. Qed.

(** One `derive_ex` list `A ++ B` (with its shared arguments) and the two lists `A`, `B` carrying
    the same shared arguments request the same entries, in the same order. *)
Theorem C15_split :
  forall A B b d rest,
    from_args_list (mk_args (A ++ B) b d :: rest)
    = from_args_list (mk_args A b d :: mk_args B b d :: rest).
Proof. exact split_list. Qed.

(** What one trait expands to does not depend on the other requested traits, as long as no
    attribute of the item is owned under one trait list and not under the other. *)
Theorem C15_coderived :
  forall s es es' h fs h' fs' e,
    struct_agree (kinds_extend (kinds_new true) es) (kinds_extend (kinds_new true) es') s ->
    hattrs_from_attrs (s_attrs s) TType (without_derive_ex (kinds_extend (kinds_new true) es)) = Ok h ->
    fentries_from_fields (s_fields s) (kinds_extend (kinds_new true) es) = Ok fs ->
    hattrs_from_attrs (s_attrs s) TType (without_derive_ex (kinds_extend (kinds_new true) es')) = Ok h' ->
    fentries_from_fields (s_fields s) (kinds_extend (kinds_new true) es') = Ok fs' ->
    struct_outcome s h fs e = struct_outcome s h' fs' e.
Proof. exact coderived_struct. Qed.

(** ... where "owned" is the documentation's table *)
Theorem C15_agree_of_owned :
  forall es es' attrs,
    (forall a, In a attrs -> owned (map en_kind es) a = owned (map en_kind es') a) ->
    kinds_agree (kinds_extend (kinds_new true) es) (kinds_extend (kinds_new true) es') attrs.
Proof. exact agree_of_owned. Qed.

(** Impls appear in the order the traits were listed: the i-th outcome is that of the i-th entry. *)
Theorem C15_order :
  forall arg s es h fs,
    struct_parsed arg s es h fs ->
    snd (build_by_item_struct_core arg s) = Ok (map (struct_outcome s h fs) es).
Proof. exact struct_core_entries. Qed.

(** stacked `#[derive_ex(..)]` lists: the entries are those of each list on its own, in order - what a list shares
    (`bound(..)`, `dump`) never reaches an entry of another list *)
Theorem C15_lists_are_independent :
  forall l1 l2, from_args_list (l1 ++ l2) =
                (do es1 <- from_args_list l1; do es2 <- from_args_list l2; Ok (es1 ++ es2)).
Proof. exact from_args_list_app. Qed.

Print Assumptions C15_entry_points.
Print Assumptions C15_split.
Print Assumptions C15_coderived.
Print Assumptions C15_agree_of_owned.
Print Assumptions C15_order.
Print Assumptions C15_lists_are_independent.
