(** * C05 — documented misuse of comparison attributes is rejected; valid use is accepted *)
From DX Require Import Syntax Tables GenBound GenAttrs IR GenType GenCmp GenImpl GenTop
     SpecAttrs SpecBound SemCmp SpecCmp LemTop LemBound LemCmp LemNoPanic LemReject.

(** The fields of a struct / variant are accepted for a trait iff none of them is rejected by the
    documented rule ([field_rejected], SpecCmp.v): custom behaviour elsewhere with the default here,
    `ignore` for only some of the traits, `partial_ord(reverse)` with `Ord`. *)
Theorem C05_fields :
  forall op fs ub w,
    is_ok (build_from_fields op fs ub w) = forallb (field_ok op) fs.
Proof. exact from_fields_ok. Qed.

(** ... and never by a panic: a refusal is always an error message *)
Theorem C05_refusal_is_an_error :
  forall op fs ub w, np (build_from_fields op fs ub w).
Proof. exact np_build_from_fields. Qed.

(** `ignore` / `reverse` / `key` / `by` on a type or on a variant is refused (for every trait:
    the whole derivation fails), and nothing else is. *)
Theorem C05_misplaced :
  forall t c, t <> TField -> is_ok (verify t c) = negb (misplaced c).
Proof. exact verify_ok. Qed.
Theorem C05_fields_may_carry_anything : forall c, verify TField c = Ok tt.
Proof. intros c. unfold verify. reflexivity. Qed.

(** "for exactly the offending trait, the other traits still being generated": each requested
    trait's outcome is computed from its own entry only *)
Theorem C05_isolation :
  forall arg s es h fs,
    struct_parsed arg s es h fs ->
    snd (build_by_item_struct_core arg s) = Ok (map (struct_outcome s h fs) es).
Proof. exact struct_core_entries. Qed.

(** non-vacuity: the three rejection classes, and an accepted mix *)
Example C05_examples :
  let none := cmp_attr_default in
  let key := {| c_ignore := false; c_reverse := false; c_by := None; c_key := Some [TI "k"]; c_bounds := bounds_new |} in
  let ign := {| c_ignore := true; c_reverse := false; c_by := None; c_key := None; c_bounds := bounds_new |} in
  let rev := {| c_ignore := false; c_reverse := true; c_by := None; c_key := None; c_bounds := bounds_new |} in
  let mk o po e pe h := {| h_ord := o; h_partial_ord := po; h_eq := e; h_partial_eq := pe; h_hash := h |} in
  (* partial_eq(key) : PartialEq fine, Eq must be customised too *)
  field_rejected CPartialEq (mk none none none key none) = false /\
  field_rejected CEq (mk none none none key none) = true /\
  (* eq(ignore): Eq / PartialEq / Hash fine, Ord / PartialOrd refused *)
  field_rejected CEq (mk none none ign none none) = false /\
  field_rejected CHash (mk none none ign none none) = false /\
  field_rejected COrd (mk none none ign none none) = true /\
  field_rejected CPartialOrd (mk none none ign none none) = true /\
  (* hash(ignore): only Hash skips the field, allowed *)
  field_rejected CPartialEq (mk none none none none ign) = false /\
  (* partial_ord(reverse) with Ord *)
  field_rejected COrd (mk none rev none none none) = true /\
  field_rejected CPartialOrd (mk none rev none none none) = false /\
  (* ord(key): every trait follows *)
  forallb (fun tr => negb (field_rejected tr (mk key none none none none))) [COrd; CPartialOrd; CEq; CPartialEq; CHash] = true.
Proof. vm_compute. repeat split. Qed.

Print Assumptions C05_fields.
Print Assumptions C05_refusal_is_an_error.
Print Assumptions C05_misplaced.
Print Assumptions C05_fields_may_carry_anything.
Print Assumptions C05_isolation.
