(** * C10 — Debug prints like the std derive minus ignored fields; transparent delegates

    The meaning of a `fmt` body is its builder-call sequence: equal call sequences on the same
    Formatter print equal text under every flag (a fact about core::fmt: trusted, sampled by the
    compiled programs of this check). *)
From DX Require Import Syntax Tables GenBound GenAttrs IR GenType GenCmp GenImpl GenTop
     SpecAttrs SpecBound SemCmp SemData LemBound LemData.

(** struct: the transparent field alone, or `debug_struct` / `debug_tuple` over the non-ignored fields
    in order; two transparent fields are refused *)
Theorem C10_struct :
  forall s e h fs,
    match transparent_fields fs with
    | _ :: _ :: _ => build_debug_for_struct s e h fs = Err transparent_msg
    | _ => exists ir, build_debug_for_struct s e h fs = Ok [ir] /\
                      ir_body ir = BDebugStruct (debug_body_spec (s_name s) (s_fields s) fs) (last_double_ref s fs)
    end.
Proof. exact debug_struct_body. Qed.

(** enum: one arm per variant, each as a struct of that name *)
Theorem C10_enum :
  forall en e h vs,
    if existsb (fun v => two_transparent (ve_fields v)) vs
    then build_debug_for_enum en e h vs = Err transparent_msg
    else exists ir, build_debug_for_enum en e h vs = Ok [ir] /\ ir_body ir = BDebugEnum (map debug_arm_spec vs).
Proof. exact debug_enum_body. Qed.

(** what [debug_body_spec] means: the standard derive's call sequence for the item with its ignored
    fields deleted *)
Theorem C10_meaning :
  forall V name src fs (a : value V),
    eval_debug_body V (debug_body_spec name src fs) a =
    match transparent_fields fs with
    | f :: _ => FmtDelegate V (v_field a (fe_index f))
    | [] =>
        let kept := filter (fun f => negb (g_ignore (ha_debug (fe_hattrs f)))) fs in
        match shape_of src with
        | ShNamed => FmtStruct V (unraw name) (map (fun f => (member_text (fe_member f), v_field a (fe_index f))) kept)
        | _ => FmtTuple V (unraw name) (map (fun f => v_field a (fe_index f)) kept)
        end
    end.
Proof.
  intros V name src fs a. unfold debug_body_spec. destruct (transparent_fields fs); [|reflexivity].
  cbn. destruct (shape_of src); now rewrite map_map.
Qed.

Print Assumptions C10_struct.
Print Assumptions C10_enum.
Print Assumptions C10_meaning.
