(** * C04 — explicit `bound(...)` follows the documented nine-level priority

    [spec_where] (SpecBound.v) is the documentation's rule: walk the levels in priority order, every
    level reached contributes its predicates verbatim and its types as `Type: Trait`, continue past a
    level only if it is absent or contains `..`; a stop on a variant / field is local to it; the field
    type is added only if the end is reached, the field is used, and its type mentions a parameter;
    the declared where-clause is always kept.  [struct_vplans] / [enum_vplans] say which positions
    take part for each trait.  Comparison helper attributes: most specific first at every placement. *)
From DX Require Import Syntax Tables GenBound GenAttrs IR GenType GenCmp GenImpl GenTop
     SpecAttrs SpecBound LemDump LemBound LemBoundList.

(** every impl derived from a struct — any trait, any fields, any assignment of bounds to levels *)
Theorem C04_struct :
  forall s h fs e irs ir,
    ha_items h = [] ->
    build_struct_entry s h fs e = Ok irs -> In ir irs ->
    (ih_wtypes (ir_hdr ir), ih_wpreds (ir_hdr ir)) = spec_struct_where s e h fs.
Proof. exact struct_entry_where. Qed.

(** every impl derived from an enum *)
Theorem C04_enum :
  forall en h vs e ir,
    ha_items h = [] ->
    enum_entry en h vs e = Ok (Ok [ir]) ->
    exists vp, enum_vplans (en_kind e) h vs = Some vp /\
               (ih_wtypes (ir_hdr ir), ih_wpreds (ir_hdr ir))
               = spec_where (decl_generics (en_kind e) (e_name en) (e_generics en)) (top_levels (en_kind e) e h) vp.
Proof. exact enum_entry_where. Qed.

(** the type-level attributes are parsed without `derive_ex`: the hypothesis above always holds *)
Theorem C04_type_level_has_no_arg_levels :
  forall attrs t k h,
    k_derive_ex k = false -> hattrs_from_attrs attrs t k = Ok h -> ha_items h = [].
Proof. exact type_hattrs_no_items. Qed.

(** the declared where-clause is always retained, in front *)
Theorem C04_declared_kept :
  forall g top vs, exists extra, snd (spec_where g top vs) = g_where g ++ extra.
Proof.
  intros g top vs. unfold spec_where. destruct (resolve top true) as [c k]. cbn. eexists. reflexivity.
Qed.

(** non-vacuity: a stop in the middle of the chain, with `..` before it *)
Example C04_example :
  let P n := WPTy (ident_ty "T") [TBTrait false false [Seg n SANone]] in
  let lv1 := {| b_ty := []; b_pred := [P "P1"]; b_default := true |} in       (* bound(T: P1, ..) *)
  let lv2 := {| b_ty := [ident_ty "T"]; b_pred := [P "P2"]; b_default := false |} in   (* bound(T, T: P2) *)
  let lv3 := {| b_ty := []; b_pred := [P "P3"]; b_default := true |} in
  fst (resolve [lv1; bounds_new; lv2; lv3] true) = ([ident_ty "T"], [P "P1"; P "P2"]) /\
  snd (resolve [lv1; bounds_new; lv2; lv3] true) = false.
Proof. split; reflexivity. Qed.

(** what one `bound(...)` list contributes: its types and predicates in the order written; the lower levels stay
    in play iff `..` occurs ANYWHERE in it *)
Theorem C04_bound_list_reading :
  forall l, bounds_from (Some l) = {| b_ty := types_of l; b_pred := preds_of l; b_default := existsb is_dots l |}.
Proof. exact bounds_from_reading. Qed.

Theorem C04_dots_position_immaterial :
  forall l1 l2,
    b_default (bounds_from (Some (l1 ++ BDefault :: l2))) = true /\
    b_ty (bounds_from (Some (l1 ++ BDefault :: l2))) = b_ty (bounds_from (Some (BDefault :: l1 ++ l2))) /\
    b_pred (bounds_from (Some (l1 ++ BDefault :: l2))) = b_pred (bounds_from (Some (BDefault :: l1 ++ l2))).
Proof. exact bounds_from_dots_position. Qed.

Print Assumptions C04_struct.
Print Assumptions C04_enum.
Print Assumptions C04_type_level_has_no_arg_levels.
Print Assumptions C04_declared_kept.
Print Assumptions C04_bound_list_reading.
Print Assumptions C04_dots_position_immaterial.
