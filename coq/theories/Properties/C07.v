(** * C07 — clone is field-wise; clone_from leaves the target equal to a clone of the source *)
From DX Require Import Syntax Tables GenBound GenAttrs IR GenType GenCmp GenImpl GenTop
     SpecAttrs SpecBound SemCmp SemData LemBound LemData.

Section C07.
  Variable V : Type.
  Variable clone : ty -> V -> V.
  Variable clone_from : ty -> V -> V -> V.

  Definition fields_cloned (fs : list fentry) (a : value V) : list (nat * V) :=
    map (fun f => (fe_index f, clone (fty f) (v_field a (fe_index f)))) fs.
  Definition fields_cloned_from (fs : list fentry) (a s : value V) : list (nat * V) :=
    map (fun f => (fe_index f, clone_from (fty f) (v_field a (fe_index f)) (v_field s (fe_index f)))) fs.

  (** struct: every field is the result of exactly one call of its own `clone`, in declaration order *)
  Theorem C07_struct_clone :
    forall s e fs ir a,
      build_clone_for_struct s e fs = Ok [ir] ->
      eval_clone V clone (ir_body ir) a
      = Some ({| b_variant := v_variant a; b_args := fields_cloned fs a |}, map (fun f => CClone (fe_index f)) fs).
  Proof.
    intros s e fs ir a H. destruct (clone_struct_body s e fs ir H) as [-> _]. cbn.
    unfold clone_fields, fields_cloned. now rewrite !map_map.
  Qed.

  (** struct: exactly one `clone_from` per field and no `clone` *)
  Theorem C07_struct_clone_from :
    forall s e fs ir a src,
      build_clone_for_struct s e fs = Ok [ir] ->
      eval_clone_from V clone clone_from (ir_body ir) a src
      = Some ({| b_variant := v_variant a; b_args := fields_cloned_from fs a src |},
              map (fun f => CCloneFrom (fe_index f)) fs).
  Proof.
    intros s e fs ir a src H. destruct (clone_struct_body s e fs ir H) as [-> _]. cbn.
    unfold clone_from_fields, fields_cloned_from. now rewrite !map_map.
  Qed.

  (** enum *)
  Definition variant_of (vs : list ventry) (name : string) : option ventry :=
    find (fun v => String.eqb (v_name (ve_variant v)) name) vs.

  Lemma find_arm3_variant vs name :
    find_arm3 (map variant_arm vs) name = option_map variant_arm (variant_of vs name).
  Proof.
    unfold find_arm3, variant_of. induction vs as [|v vs IH]; cbn; [reflexivity|].
    unfold arm3_name at 1. cbn. destruct (String.eqb _ name); [reflexivity | exact IH].
  Qed.

  Theorem C07_enum_clone :
    forall en e vs ir a,
      build_clone_for_enum en e vs = Ok [ir] ->
      eval_clone V clone (ir_body ir) a
      = option_map (fun v => ({| b_variant := v_name (ve_variant v); b_args := fields_cloned (ve_fields v) a |},
                              map (fun f => CClone (fe_index f)) (ve_fields v)))
                   (variant_of vs (v_variant a)).
  Proof.
    intros en e vs ir a H. destruct (clone_enum_body en e vs ir H) as [-> _]. cbn [eval_clone].
    rewrite find_arm3_variant. destruct (variant_of vs (v_variant a)) as [v|]; cbn; [|reflexivity].
    unfold clone_fields, fields_cloned. now rewrite !map_map.
  Qed.

  (** same variant: one `clone_from` per field, no `clone`; different variants: `*self = source.clone()` *)
  Theorem C07_enum_clone_from_same :
    forall en e vs ir a src v,
      build_clone_for_enum en e vs = Ok [ir] ->
      v_variant a = v_variant src -> variant_of vs (v_variant a) = Some v ->
      eval_clone_from V clone clone_from (ir_body ir) a src
      = Some ({| b_variant := v_name (ve_variant v); b_args := fields_cloned_from (ve_fields v) a src |},
              map (fun f => CCloneFrom (fe_index f)) (ve_fields v)).
  Proof.
    intros en e vs ir a src v H E Hv. destruct (clone_enum_body en e vs ir H) as [-> _]. cbn [eval_clone_from].
    rewrite <- E.
    assert (F : find (fun x => String.eqb (arm3_name x) (v_variant a) && String.eqb (arm3_name x) (v_variant a))
                     (map variant_arm vs) = Some (variant_arm v)).
    { unfold variant_of in Hv. clear H. induction vs as [|v0 vs IH]; cbn in *; [discriminate|].
      unfold arm3_name at 1 2. cbn. destruct (String.eqb (v_name (ve_variant v0)) (v_variant a)); cbn.
      - now inversion Hv.
      - apply IH. exact Hv. }
    rewrite F. cbn. unfold clone_from_fields, fields_cloned_from. now rewrite !map_map.
  Qed.

  Theorem C07_enum_clone_from_diff :
    forall en e vs ir a src,
      build_clone_for_enum en e vs = Ok [ir] ->
      v_variant a <> v_variant src ->
      eval_clone_from V clone clone_from (ir_body ir) a src = eval_clone V clone (ir_body ir) src.
  Proof.
    intros en e vs ir a src H N. destruct (clone_enum_body en e vs ir H) as [-> _]. cbn [eval_clone_from].
    assert (F : find (fun x => String.eqb (arm3_name x) (v_variant a) && String.eqb (arm3_name x) (v_variant src))
                     (map variant_arm vs) = None).
    { clear H. induction vs as [|v0 vs IH]; cbn; [reflexivity|].
      destruct (String.eqb _ (v_variant a)) eqn:E1; cbn [andb]; [|exact IH].
      destruct (String.eqb _ (v_variant src)) eqn:E2; [|exact IH].
      apply String.eqb_eq in E1, E2. congruence. }
    now rewrite F.
  Qed.

  (** if every field type's `clone_from` agrees with its `clone`, `a.clone_from(&b)` leaves `a` equal to
      `b.clone()` (struct; the enum case follows the same way from the two theorems above) *)
  Theorem C07_law :
    (forall t x y, clone_from t x y = clone t y) ->
    forall fs a src, fields_cloned_from fs a src = fields_cloned fs src.
  Proof. intros L fs a src. unfold fields_cloned_from, fields_cloned. apply map_ext. intros f. now rewrite L. Qed.
End C07.

Print Assumptions C07_struct_clone.
Print Assumptions C07_struct_clone_from.
Print Assumptions C07_enum_clone.
Print Assumptions C07_enum_clone_from_same.
Print Assumptions C07_enum_clone_from_diff.
Print Assumptions C07_law.
