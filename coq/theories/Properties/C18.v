(** * C18 — Deref / DerefMut target the single field itself

    Only statements closed by `exact`, pinned by `Check`, with `Print Assumptions`. *)
From DX Require Import Syntax GenBound GenAttrs IR GenType GenCmp GenImpl GenTop SemDeref LemTop LemDeref.

(** Both entry points yield, for the i-th requested trait, [struct_outcome] of that entry. *)
Theorem C18_entry_points :
  forall args s es h fs,
    (struct_parsed (Some args) s es h fs ->
     x_entries (expand {| inv_mode := Attr; inv_args := args; inv_item := IStruct s |})
     = map (struct_outcome s h fs) es /\
     x_fatal (expand {| inv_mode := Attr; inv_args := args; inv_item := IStruct s |}) = None) /\
    (struct_parsed None s es h fs ->
     x_entries (expand {| inv_mode := Derive; inv_args := args; inv_item := IStruct s |})
     = map (struct_outcome s h fs) es /\
     x_fatal (expand {| inv_mode := Derive; inv_args := args; inv_item := IStruct s |}) = None).
Proof. intros; split; [exact (expand_attr_struct _ _ _ _ _) | exact (expand_derive_struct _ _ _ _ _)]. Qed.

(** A single-field struct: the impl returns a reference to the place `self.<that field>`,
    `Target` is the field's type, generics / self type / where-clause are the user's. *)
Theorem C18_deref :
  forall s h f e,
    is_deref_kind (en_kind e) = true ->
    exists ir,
      build_struct_entry s h [f] e = Ok [ir] /\
      deref_place (ir_body ir)
        = Some (PField PSelf (fe_member f), match en_kind e with KDerefMut => true | _ => false end) /\
      deref_target (ir_body ir) = Some (f_ty (fe_field f)) /\
      ih_trait (ir_hdr ir) = en_kind e /\
      ih_generics (ir_hdr ir) = s_generics s /\
      ih_this (ir_hdr ir) = this_ty_of (s_name s) (s_generics s) /\
      ih_self_ref (ir_hdr ir) = false /\ ih_rhs (ir_hdr ir) = None /\
      ih_wpreds (ir_hdr ir) = w_preds (deref_wcb s e) /\
      ih_wtypes (ir_hdr ir) = w_types (deref_wcb s e).
Proof. exact deref_single. Qed.

(** the declared where-clause is always retained *)
Theorem C18_declared_where :
  forall s e, exists extra, w_preds (deref_wcb s e) = g_where (s_generics s) ++ extra.
Proof. exact deref_wcb_declared. Qed.

(** Zero or several fields are rejected, and only those. *)
Theorem C18_reject :
  forall s h fs e,
    is_deref_kind (en_kind e) = true ->
    (length fs <> 1 -> build_struct_entry s h fs e = Err (deref_msg (en_kind e))) /\
    (forall irs, build_struct_entry s h fs e = Ok irs -> length fs = 1).
Proof. intros s h fs e Hk; split; [exact (deref_reject s h fs e Hk) | intros irs; exact (deref_ok_single s h fs e irs Hk)]. Qed.

(** Enums are refused. *)
Theorem C18_enum :
  forall en h vs e rest,
    is_deref_kind (en_kind e) = true ->
    build_enum_entries en h vs (e :: rest) = Err (unsupported_for_enum_msg (en_kind e)).
Proof. exact deref_enum_unsupported. Qed.

Check C18_deref : forall s h f e, is_deref_kind (en_kind e) = true -> exists ir,
      build_struct_entry s h [f] e = Ok [ir] /\
      deref_place (ir_body ir)
        = Some (PField PSelf (fe_member f), match en_kind e with KDerefMut => true | _ => false end) /\
      deref_target (ir_body ir) = Some (f_ty (fe_field f)) /\ _.

Print Assumptions C18_entry_points.
Print Assumptions C18_deref.
Print Assumptions C18_declared_where.
Print Assumptions C18_reject.
Print Assumptions C18_enum.
