(** * C02 — accepted attribute combinations give mutually coherent Eq / Ord / Hash impls

    Hypotheses are the property's own presuppositions: every key / by function expresses one and the
    same lawful comparator family ([lawful]: == agrees with partial_cmp, partial_cmp = Some ∘ cmp,
    cmp flips under swap and is transitive), and the field types' own impls are lawful.  No further
    assumption; in particular nothing about which attributes were used beyond "derive_ex accepted
    them" ([all_accepted] = no field is rejected by the documented rule of C05, for any of the five
    traits). *)
From DX Require Import Syntax Tables GenBound GenAttrs IR GenType GenCmp SpecAttrs SpecBound SemCmp SpecCmp
     LemBound LemCmp LemReject LemCoh LemCohEnum.

Section C02.
  Variable V : Type.
  Variable d_eq : ty -> V -> V -> bool.
  Variable d_pcmp : ty -> V -> V -> option comparison.
  Variable d_cmp : ty -> V -> V -> comparison.
  Variable k_eq : toks -> V -> V -> bool.
  Variable k_pcmp : toks -> V -> V -> option comparison.
  Variable k_cmp : toks -> V -> V -> comparison.
  Variable by_eq : toks -> V -> V -> bool.
  Variable by_pcmp : toks -> V -> V -> option comparison.
  Variable by_cmp : toks -> V -> V -> comparison.
  Variable ce : V -> V -> bool.
  Variable cp : V -> V -> option comparison.
  Variable cc : V -> V -> comparison.
  Hypothesis one_key_lawful : lawful V ce cp cc.
  Hypothesis keys_express_it : forall t x y, k_eq t x y = ce x y /\ k_pcmp t x y = cp x y /\ k_cmp t x y = cc x y.
  Hypothesis bys_express_it : forall g x y, by_eq g x y = ce x y /\ by_pcmp g x y = cp x y /\ by_cmp g x y = cc x y.
  Hypothesis field_types_lawful : forall t, lawful V (d_eq t) (d_pcmp t) (d_cmp t).

  Variable fs : list fentry.
  Hypothesis accepted : all_accepted [CPartialEq; CEq; CPartialOrd; COrd; CHash] fs.

  Notation s_eq := (sp_fields_eq V d_eq k_eq by_eq by_pcmp by_cmp).
  Notation s_pc := (sp_fields_pcmp V d_pcmp k_pcmp by_pcmp by_cmp).
  Notation s_c := (sp_fields_cmp V d_cmp k_cmp by_cmp).

  Lemma fields_lawful f :
    In f (cmp_used_fields CPartialEq fs) ->
    lawful V (sp_field_eq V d_eq k_eq by_eq by_pcmp by_cmp f) (sp_field_pcmp V d_pcmp k_pcmp by_pcmp by_cmp f)
           (sp_field_cmp V d_cmp k_cmp by_cmp f).
  Proof.
    intros Hf. unfold cmp_used_fields in Hf. apply filter_In in Hf as [Hin Hn].
    apply (field_lawful V d_eq d_pcmp d_cmp k_eq k_pcmp k_cmp by_eq by_pcmp by_cmp ce cp cc); auto;
      try (apply accepted; cbn; auto 6).
    now destruct (cmp_ignored CPartialEq (ha_cmp (fe_hattrs f))).
  Qed.

  Ltac laws := intros f Hf; destruct (fields_lawful f Hf) as [L1 L2 L3 L4];
               first [exact L1 | exact L2 | exact L3 | exact L4].

  (** a == b  <->  partial_cmp(a, b) == Some(Equal)  <->  cmp(a, b) == Equal;  partial_cmp = Some(cmp) *)
  Theorem C02_eq_iff_partial_cmp : forall a b, s_eq fs a b = true <-> s_pc fs a b = Some Eq.
  Proof. apply (coh_eq_iff_pcmp V d_eq d_pcmp d_cmp k_eq k_pcmp k_cmp by_eq by_pcmp by_cmp fs accepted); laws. Qed.
  Theorem C02_partial_cmp_is_cmp : forall a b, s_pc fs a b = Some (s_c fs a b).
  Proof. apply (coh_pcmp_is_cmp V d_pcmp d_cmp k_pcmp k_cmp by_pcmp by_cmp fs accepted); laws. Qed.
  Theorem C02_eq_iff_cmp : forall a b, s_eq fs a b = true <-> s_c fs a b = Eq.
  Proof. apply (coh_eq_iff_cmp V d_eq d_pcmp d_cmp k_eq k_pcmp k_cmp by_eq by_pcmp by_cmp fs accepted); laws. Qed.

  (** cmp is a total order that flips under argument swap *)
  Theorem C02_cmp_flips : forall a b, s_c fs b a = CompOpp (s_c fs a b).
  Proof. apply (coh_cmp_flip V d_cmp k_cmp by_cmp fs accepted); laws. Qed.
  Theorem C02_cmp_transitive : forall a b c, s_c fs a b = Lt -> s_c fs b c = Lt -> s_c fs a c = Lt.
  Proof. apply (coh_cmp_trans V d_cmp k_cmp by_cmp fs accepted); laws. Qed.

  (** == is an equivalence relation *)
  Theorem C02_eq_equivalence :
    (forall a, s_eq fs a a = true) /\
    (forall a b, s_eq fs a b = true -> s_eq fs b a = true) /\
    (forall a b c, s_eq fs a b = true -> s_eq fs b c = true -> s_eq fs a c = true).
  Proof.
    split; [|split].
    - apply (coh_eq_refl V d_eq d_pcmp d_cmp k_eq k_pcmp k_cmp by_eq by_pcmp by_cmp fs accepted); laws.
    - apply (coh_eq_sym V d_eq d_pcmp d_cmp k_eq k_pcmp k_cmp by_eq by_pcmp by_cmp fs accepted); laws.
    - apply (coh_eq_trans V d_eq d_pcmp d_cmp k_eq k_pcmp k_cmp by_eq by_pcmp by_cmp fs accepted); laws.
  Qed.

  (** a == b implies equal hashes: the hasher is fed, field by field, equal inputs *)
  Variable H : Type.
  Variable hd : ty -> V -> H.
  Variable hk : toks -> V -> H.
  Variable hb : toks -> V -> H.
  Variable kh : V -> H.
  Hypothesis key_hash : forall t x, hk t x = kh x.
  Hypothesis by_hash : forall g x, hb g x = kh x.
  Hypothesis key_hash_consistent : forall x y, ce x y = true -> kh x = kh y.
  Hypothesis field_hash_consistent_ : forall t x y, d_eq t x y = true -> hd t x = hd t y.

  Theorem C02_eq_implies_equal_hash :
    forall a b, s_eq fs a b = true ->
      map (fun f => h_field V H hd hk hb f (at_ V a f)) (cmp_used_fields CHash fs)
      = map (fun f => h_field V H hd hk hb f (at_ V b f)) (cmp_used_fields CHash fs).
  Proof.
    apply (coh_eq_hash V d_eq k_eq by_eq by_pcmp by_cmp fs accepted H (h_field V H hd hk hb)).
    intros f x y Hf. unfold cmp_used_fields in Hf. apply filter_In in Hf as [Hin Hn].
    apply (field_hash_consistent V H d_eq k_eq by_eq by_pcmp by_cmp ce cp cc one_key_lawful
             (fun t x y => proj1 (keys_express_it t x y)) bys_express_it hd hk hb kh key_hash by_hash
             key_hash_consistent field_hash_consistent_ f x y);
      try (apply accepted; cbn; auto 6).
    now destruct (cmp_ignored CHash (ha_cmp (fe_hattrs f))).
  Qed.
End C02.

(** ** enums: the same laws for values of any variants (variants ordered by declaration position) *)
Section C02_enum.
  Variable V : Type.
  Variable d_eq : ty -> V -> V -> bool.
  Variable d_pcmp : ty -> V -> V -> option comparison.
  Variable d_cmp : ty -> V -> V -> comparison.
  Variable k_eq : toks -> V -> V -> bool.
  Variable k_pcmp : toks -> V -> V -> option comparison.
  Variable k_cmp : toks -> V -> V -> comparison.
  Variable by_eq : toks -> V -> V -> bool.
  Variable by_pcmp : toks -> V -> V -> option comparison.
  Variable by_cmp : toks -> V -> V -> comparison.
  Variable ce : V -> V -> bool.
  Variable cp : V -> V -> option comparison.
  Variable cc : V -> V -> comparison.
  Hypothesis one_key_lawful : lawful V ce cp cc.
  Hypothesis keys_express_it : forall t x y, k_eq t x y = ce x y /\ k_pcmp t x y = cp x y /\ k_cmp t x y = cc x y.
  Hypothesis bys_express_it : forall g x y, by_eq g x y = ce x y /\ by_pcmp g x y = cp x y /\ by_cmp g x y = cc x y.
  Hypothesis field_types_lawful : forall t, lawful V (d_eq t) (d_pcmp t) (d_cmp t).

  Variable vs : list ventry.
  Hypothesis accepted : forall v, In v vs -> all_accepted [CPartialEq; CEq; CPartialOrd; COrd; CHash] (ve_fields v).

  Notation e_eq := (sp_enum_eq V d_eq k_eq by_eq by_pcmp by_cmp vs).
  Notation e_pc := (sp_enum_pcmp V d_pcmp k_pcmp by_pcmp by_cmp vs).
  Notation e_c := (sp_enum_cmp V d_cmp k_cmp by_cmp vs).
  Notation S_eq_pc := (C02_eq_iff_partial_cmp V d_eq d_pcmp d_cmp k_eq k_pcmp k_cmp by_eq by_pcmp by_cmp ce cp cc
                         one_key_lawful keys_express_it bys_express_it field_types_lawful).
  Notation S_pc_c := (C02_partial_cmp_is_cmp V d_eq d_pcmp d_cmp k_eq k_pcmp k_cmp by_eq by_pcmp by_cmp ce cp cc
                         one_key_lawful keys_express_it bys_express_it field_types_lawful).
  Notation S_flip := (C02_cmp_flips V d_eq d_pcmp d_cmp k_eq k_pcmp k_cmp by_eq by_pcmp by_cmp ce cp cc
                         one_key_lawful keys_express_it bys_express_it field_types_lawful).
  Notation S_trans := (C02_cmp_transitive V d_eq d_pcmp d_cmp k_eq k_pcmp k_cmp by_eq by_pcmp by_cmp ce cp cc
                         one_key_lawful keys_express_it bys_express_it field_types_lawful).

  (** partial_cmp == Some(cmp), for values of declared variants (and both are undefined otherwise) *)
  Theorem C02_enum_partial_cmp_is_cmp : forall a b, e_pc a b = option_map Some (e_c a b).
  Proof.
    intros a b. unfold sp_enum_pcmp, sp_enum_cmp.
    destruct (position vs (v_variant a) 0) as [i|] eqn:Pa; [|reflexivity].
    destruct (position vs (v_variant b) 0) as [j|]; [|reflexivity].
    destruct (String.eqb (v_variant a) (v_variant b)); [|reflexivity].
    destruct (position_variant vs _ _ _ Pa) as (v & Hv & Hin). rewrite Hv. cbn [option_map].
    rewrite (S_pc_c (ve_fields v) (accepted v Hin)). reflexivity.
  Qed.

  (** a == b  <->  cmp(a, b) == Equal *)
  Theorem C02_enum_eq_iff_cmp :
    forall a b i j, position vs (v_variant a) 0 = Some i -> position vs (v_variant b) 0 = Some j ->
                    (e_eq a b = true <-> e_c a b = Some Eq).
  Proof.
    intros a b i j Pa Pb. unfold sp_enum_eq, sp_enum_cmp. rewrite Pa, Pb.
    destruct (String.eqb (v_variant a) (v_variant b)) eqn:E.
    - destruct (position_variant vs _ _ _ Pa) as (v & Hv & Hin). rewrite Hv. cbn [option_map].
      rewrite (C02_eq_iff_cmp V d_eq d_pcmp d_cmp k_eq k_pcmp k_cmp by_eq by_pcmp by_cmp ce cp cc
                 one_key_lawful keys_express_it bys_express_it field_types_lawful (ve_fields v) (accepted v Hin)).
      split; [intros ->; reflexivity | intros [= ->]; reflexivity].
    - split; [discriminate|]. intros [= H]. apply Nat.compare_eq in H. subst j.
      rewrite (position_inj vs _ _ _ _ Pa Pb), String.eqb_refl in E. discriminate.
  Qed.

  Theorem C02_enum_eq_iff_partial_cmp :
    forall a b i j, position vs (v_variant a) 0 = Some i -> position vs (v_variant b) 0 = Some j ->
                    (e_eq a b = true <-> e_pc a b = Some (Some Eq)).
  Proof.
    intros a b i j Pa Pb. rewrite C02_enum_partial_cmp_is_cmp, (C02_enum_eq_iff_cmp a b i j Pa Pb).
    destruct (e_c a b) as [c|]; cbn [option_map]; split; intros H; try discriminate; congruence.
  Qed.

  (** cmp flips under argument swap *)
  Theorem C02_enum_cmp_flips : forall a b, e_c b a = option_map CompOpp (e_c a b).
  Proof.
    intros a b. unfold sp_enum_cmp.
    destruct (position vs (v_variant a) 0) as [i|] eqn:Pa, (position vs (v_variant b) 0) as [j|] eqn:Pb; try reflexivity.
    rewrite (String.eqb_sym (v_variant b) (v_variant a)).
    destruct (String.eqb (v_variant a) (v_variant b)) eqn:E.
    - apply String.eqb_eq in E. rewrite <- E.
      destruct (position_variant vs _ _ _ Pa) as (v & Hv & Hin). rewrite Hv. cbn [option_map].
      rewrite (S_flip (ve_fields v) (accepted v Hin)). reflexivity.
    - cbn [option_map]. rewrite Nat.compare_antisym. reflexivity.
  Qed.

  (** cmp is transitive (a strict total order on the values of declared variants) *)
  Theorem C02_enum_cmp_transitive :
    forall a b c, e_c a b = Some Lt -> e_c b c = Some Lt -> e_c a c = Some Lt.
  Proof.
    intros a b c. unfold sp_enum_cmp.
    destruct (position vs (v_variant a) 0) as [i|] eqn:Pa; [|discriminate].
    destruct (position vs (v_variant b) 0) as [j|] eqn:Pb; [|discriminate].
    destruct (position vs (v_variant c) 0) as [k|] eqn:Pc; [|intros _; discriminate].
    destruct (String.eqb (v_variant a) (v_variant b)) eqn:Eab, (String.eqb (v_variant b) (v_variant c)) eqn:Ebc.
    - apply String.eqb_eq in Eab, Ebc. rewrite <- Ebc, <- Eab, String.eqb_refl.
      destruct (position_variant vs _ _ _ Pa) as (v & Hv & Hin). rewrite Hv. cbn [option_map].
      intros [= H1] [= H2]. f_equal. exact (S_trans (ve_fields v) (accepted v Hin) a b c H1 H2).
    - apply String.eqb_eq in Eab. rewrite Eab, Ebc. rewrite Eab, Pb in Pa. injection Pa as ->.
      intros _ H. exact H.
    - apply String.eqb_eq in Ebc. rewrite <- Ebc, Eab. rewrite <- Ebc, Pb in Pc. injection Pc as ->.
      intros H _. exact H.
    - intros [= H1] [= H2]. apply Nat.compare_lt_iff in H1, H2.
      assert (Hik : i < k) by (eapply Nat.lt_trans; eassumption).
      destruct (String.eqb (v_variant a) (v_variant c)) eqn:Eac.
      + apply String.eqb_eq in Eac. rewrite Eac, Pc in Pa. injection Pa as ->. exfalso. exact (Nat.lt_irrefl _ Hik).
      + f_equal. apply Nat.compare_lt_iff. exact Hik.
  Qed.

  (** a == b implies equal hash feeds: equal values are values of the same variant, hashed field by field *)
  Variable H : Type.
  Variable hd : ty -> V -> H.
  Variable hk : toks -> V -> H.
  Variable hb : toks -> V -> H.
  Variable kh : V -> H.
  Hypothesis key_hash : forall t x, hk t x = kh x.
  Hypothesis by_hash : forall g x, hb g x = kh x.
  Hypothesis key_hash_consistent : forall x y, ce x y = true -> kh x = kh y.
  Hypothesis field_hash_consistent_ : forall t x y, d_eq t x y = true -> hd t x = hd t y.

  Theorem C02_enum_eq_implies_equal_hash :
    forall a b, e_eq a b = true ->
      exists v, variant_named vs (v_variant a) = Some v /\ variant_named vs (v_variant b) = Some v /\
                map (fun f => h_field V H hd hk hb f (at_ V a f)) (cmp_used_fields CHash (ve_fields v))
                = map (fun f => h_field V H hd hk hb f (at_ V b f)) (cmp_used_fields CHash (ve_fields v)).
  Proof.
    intros a b. unfold sp_enum_eq. destruct (String.eqb (v_variant a) (v_variant b)) eqn:E; [|discriminate].
    apply String.eqb_eq in E. destruct (variant_named vs (v_variant a)) as [v|] eqn:Hv; [|discriminate].
    intros Heq. exists v. rewrite <- E, Hv. repeat split.
    assert (Hin : In v vs) by (unfold variant_named in Hv; apply find_some in Hv; apply Hv).
    exact (C02_eq_implies_equal_hash V d_eq k_eq k_pcmp k_cmp by_eq by_pcmp by_cmp ce cp cc one_key_lawful
             keys_express_it bys_express_it (ve_fields v) (accepted v Hin) H hd hk hb kh key_hash by_hash
             key_hash_consistent field_hash_consistent_ a b Heq).
  Qed.
End C02_enum.

(** "A combination for which this cannot be guaranteed is refused at compile time": the three ways
    in which the traits could come to disagree are exactly what the rejection rule forbids *)
Theorem C02_refused_custom_mixed_with_default :
  forall tr c, cmp_ignored tr c = false -> is_own (selected tr c) = true -> has_custom c = true ->
               field_rejected tr c = true.
Proof. exact mixing_custom_and_default_refused. Qed.
Theorem C02_refused_uneven_ignore :
  forall tr c, (tr = CEq \/ tr = CPartialOrd \/ tr = COrd) ->
               cmp_ignored tr c <> cmp_ignored CPartialEq c -> field_rejected tr c = true.
Proof. exact uneven_ignore_refused. Qed.
Theorem C02_refused_hash_ignoring_less :
  forall c, cmp_ignored CPartialEq c = true -> cmp_ignored CHash c = false -> field_rejected CHash c = true.
Proof. exact hash_ignoring_less_refused. Qed.

Print Assumptions C02_eq_iff_partial_cmp.
Print Assumptions C02_enum_partial_cmp_is_cmp.
Print Assumptions C02_enum_eq_iff_cmp.
Print Assumptions C02_enum_eq_iff_partial_cmp.
Print Assumptions C02_enum_cmp_flips.
Print Assumptions C02_enum_cmp_transitive.
Print Assumptions C02_enum_eq_implies_equal_hash.
Print Assumptions C02_partial_cmp_is_cmp.
Print Assumptions C02_eq_iff_cmp.
Print Assumptions C02_cmp_flips.
Print Assumptions C02_cmp_transitive.
Print Assumptions C02_eq_equivalence.
Print Assumptions C02_eq_implies_equal_hash.
Print Assumptions C02_refused_custom_mixed_with_default.
Print Assumptions C02_refused_uneven_ignore.
Print Assumptions C02_refused_hash_ignoring_less.
