(** * C16 — expansion is total and deterministic

    The modelled generator is a total Gallina function (termination and determinism hold by
    construction: [expand] is a function accepted by Coq's guard checker).  What needs a proof
    is that none of the `unreachable!()` / `unwrap()` sites of the Rust source is reachable:
    the model gives those sites the outcome [Panic], and no expansion produces it. *)
From DX Require Import Syntax Tables GenBound GenAttrs IR GenType GenCmp GenImpl GenTop LemNoPanic.

Theorem C16_no_panic : forall inv, Forall not_panic (x_entries (expand inv)).
Proof. exact expand_no_panic. Qed.

(** the panic sites of the model, and why they are dead *)
Theorem C16_is_reverse_only_for_orders :
  forall op fs ub w, np (build_from_fields op fs ub w).
Proof. exact np_build_from_fields. Qed.

Theorem C16_deref_kind :
  forall s h fs e, np (build_struct_entry s h fs e).
Proof. exact np_build_struct_entry. Qed.

(** every outcome is one of: impls, an error message, a dump *)
Theorem C16_shape :
  forall inv o, In o (x_entries (expand inv)) ->
    (exists gs, o = OOk gs) \/ (exists m, o = OErr m) \/ (exists gs, o = ODump gs).
Proof.
  intros inv o Hin. pose proof (expand_no_panic inv) as H.
  rewrite Forall_forall in H. specialize (H o Hin).
  destruct o; [left | right; left | right; right | contradiction]; eauto.
Qed.

Print Assumptions C16_no_panic.
Print Assumptions C16_is_reverse_only_for_orders.
Print Assumptions C16_deref_kind.
Print Assumptions C16_shape.
