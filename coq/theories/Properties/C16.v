(** * C16 — expansion is total and deterministic

    The modelled generator is a total Gallina function (termination and determinism hold by
    construction: [expand] is a function accepted by Coq's guard checker).  What needs a proof
    is that none of the `unreachable!()` / `unwrap()` sites of the Rust source is reachable:
    the model gives those sites the outcome [Panic], and no expansion produces it. *)
From DX Require Import Syntax Tables Render GenBound GenAttrs IR GenType GenCmp GenImpl GenTop RenderOut LemNoPanic LemBalanced.

Theorem C16_no_panic : forall inv, Forall not_panic (x_entries (expand inv)).
Proof. exact expand_no_panic. Qed.

(** the panic sites of the model, and why they are dead *)
Theorem C16_is_reverse_only_for_orders :
  forall op fs ub w, np (build_from_fields op fs ub w).
Proof. exact np_build_from_fields. Qed.

Theorem C16_deref_kind :
  forall s h fs e, np (build_struct_entry s h fs e).
Proof. exact np_build_struct_entry. Qed.

(** every outcome is one of: impls, an error message, a dump *)
Theorem C16_shape :
  forall inv o, In o (x_entries (expand inv)) ->
    (exists gs, o = OOk gs) \/ (exists m, o = OErr m) \/ (exists gs, o = ODump gs).
Proof.
  intros inv o Hin. pose proof (expand_no_panic inv) as H.
  rewrite Forall_forall in H. specialize (H o Hin).
  destruct o; [left | right; left | right; right | contradiction]; eauto.
Qed.

(** ** the output is a token TREE: brackets match (LemBalanced.v)

    Tokens are flat in the model (a group is an opening and a closing token), so well-bracketedness is a statement.  `$` in a
    `key = ..` template is replaced by the expression of the field; that expression is ONE parenthesised group with no
    bracket inside, so whatever stands around `$` in the key, the field stays a single operand and the result is
    well-bracketed whenever the user's key is.  The same for every comparison expression and every list of them that the
    five comparison builders emit, given well-bracketed `key` / `by` expressions. *)
Theorem C16_field_operand_is_one_group :
  forall sk base f, exists inner,
    place_of sk base f = tparen inner /\
    forall t, In t inner -> match t with TO _ | TC _ => False | _ => True end.
Proof. exact place_of_is_one_group. Qed.

Theorem C16_key_substitution_well_bracketed :
  forall sk base f k, balanced k = true -> balanced (apply_template k (place_of sk base f)) = true.
Proof. exact key_operand_balanced. Qed.

Theorem C16_comparison_bodies_well_bracketed :
  forall op sk cs,
    Forall (fun c => match cf_expr c with
                     | CEDefault _ => True
                     | CEKey k => balanced k = true
                     | CEBy _ b => balanced b = true
                     end) cs ->
    balanced (r_cmp_fields op sk cs) = true.
Proof.
  intros op sk cs H. apply Bal_balanced, r_cmp_fields_Bal. eapply Forall_impl; [|exact H].
  intros c Hc. cbn beta in Hc. destruct (cf_expr c); cbn [cexpr_Bal]; [exact I | apply Bal_balanced, Hc | apply Bal_balanced, Hc].
Qed.

(** ... the whole `match` of an enum (patterns, the variant-index closure, the arms) and the hidden `Eq` assertion *)
Theorem C16_enum_comparison_bodies_well_bracketed :
  forall op vs,
    Forall (fun x => Forall (fun c => match cf_expr c with
                                      | CEDefault _ => True
                                      | CEKey k => balanced k = true
                                      | CEBy _ b => balanced b = true
                                      end) (snd x)) vs ->
    balanced (r_cmp_enum op vs) = true.
Proof.
  intros op vs H. apply Bal_balanced, r_cmp_enum_Bal. eapply Forall_impl; [|exact H].
  intros x Hx. cbn beta in Hx. unfold cfields_Bal. eapply Forall_impl; [|exact Hx].
  intros c Hc. cbn beta in Hc. destruct (cf_expr c); cbn [cexpr_Bal]; [exact I | apply Bal_balanced, Hc | apply Bal_balanced, Hc].
Qed.

Theorem C16_eq_assertion_well_bracketed :
  forall sk x, match snd x with QKey k => balanced k = true | _ => True end ->
               balanced (r_eq_check sk x) = true.
Proof.
  intros sk x H. apply Bal_balanced, r_eq_check_Bal. destruct (snd x); try exact I. apply Bal_balanced, H.
Qed.

(** ... the `Clone` bodies, which embed nothing but names and types of the item: unconditionally *)
Theorem C16_clone_bodies_well_bracketed :
  (forall name sh fs, balanced (r_clone_struct name sh fs) = true) /\
  (forall vs, balanced (r_clone_enum vs) = true).
Proof. split; intros; apply Bal_balanced; [apply r_clone_struct_Bal | apply r_clone_enum_Bal]. Qed.

(** ... the builder chain of `Debug` (for any well-bracketed way of naming a field) and the values of `Default` *)
Theorem C16_debug_and_default_pieces_well_bracketed :
  (forall d place, (forall f, balanced (place f) = true) -> balanced (r_debug_expr d place) = true) /\
  (forall v, match v with DVInto _ e | DVExpr e => balanced e = true | DVDefault _ => True end ->
             balanced (r_dvalue v) = true).
Proof.
  split.
  - intros d place H. apply Bal_balanced, r_debug_expr_Bal. intros f. apply Bal_balanced, H.
  - intros v H. apply Bal_balanced, r_dvalue_Bal. destruct v; try exact I; apply Bal_balanced, H.
Qed.

(** the user's types and where-predicates are printed from an AST: always well-bracketed *)
Theorem C16_printed_types_well_bracketed : forall t, balanced (r_ty t) = true.
Proof. exact r_ty_balanced. Qed.

Theorem C16_printed_predicates_well_bracketed : forall p, balanced (r_wpred p) = true.
Proof. exact r_wpred_balanced. Qed.

(** the hypotheses are met by an ordinary key, and violated by an ill-bracketed one (which no attribute can contain) *)
Example C16_key_instance :
  let k := dollar_to_placeholder (q "$ % ( 2 + 2 )") in
  let f := {| fl_member := MIndex 0; fl_index := 0; fl_ty := ident_ty "u8" |} in
  (balanced k, flat (apply_template k (place_of SKStruct "self" f)), balanced (q "$ % ( 2 + 2"))
  = (true, "( self . 0 ) % ( 2 + 2 )"%string, false).
Proof. vm_compute. reflexivity. Qed.

Print Assumptions C16_no_panic.
Print Assumptions C16_is_reverse_only_for_orders.
Print Assumptions C16_deref_kind.
Print Assumptions C16_shape.
Print Assumptions C16_field_operand_is_one_group.
Print Assumptions C16_key_substitution_well_bracketed.
Print Assumptions C16_comparison_bodies_well_bracketed.
Print Assumptions C16_printed_types_well_bracketed.
Print Assumptions C16_printed_predicates_well_bracketed.
Print Assumptions C16_enum_comparison_bodies_well_bracketed.
Print Assumptions C16_eq_assertion_well_bracketed.
Print Assumptions C16_clone_bodies_well_bracketed.
Print Assumptions C16_debug_and_default_pieces_well_bracketed.
