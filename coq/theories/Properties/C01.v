(** * C01 — derived ==, partial_cmp, cmp follow the documented lexicographic rule

    [sp_*] (SpecCmp.v) is the documentation's rule.  The theorems hold for EVERY environment: no law
    is assumed of the field types' impls, of the key expressions or of the `by` functions. *)
From DX Require Import Syntax Tables GenBound GenAttrs IR GenType GenCmp SpecAttrs SpecBound SemCmp SpecCmp
     LemBound LemCmp.

Section C01.
  Variable V : Type.
  Variable d_eq : ty -> V -> V -> bool.
  Variable d_pcmp : ty -> V -> V -> option comparison.
  Variable d_cmp : ty -> V -> V -> comparison.
  Variable k_eq : toks -> V -> V -> bool.
  Variable k_pcmp : toks -> V -> V -> option comparison.
  Variable k_cmp : toks -> V -> V -> comparison.
  Variable by_eq : toks -> V -> V -> bool.
  Variable by_pcmp : toks -> V -> V -> option comparison.
  Variable by_cmp : toks -> V -> V -> comparison.

  (** struct *)
  Theorem C01_struct_eq :
    forall s fs e h ir a b,
      build_compare_op CPartialEq (SrcStruct s fs) e h = Ok [ir] ->
      eval_eq V d_eq k_eq by_eq by_pcmp by_cmp (ir_body ir) a b
      = Some (sp_fields_eq V d_eq k_eq by_eq by_pcmp by_cmp fs a b).
  Proof.
    intros s fs e h ir a b H. rewrite (compare_op_body _ _ _ _ _ H). cbn. f_equal. apply fields_eq_spec.
  Qed.
  Theorem C01_struct_pcmp :
    forall s fs e h ir a b,
      build_compare_op CPartialOrd (SrcStruct s fs) e h = Ok [ir] ->
      eval_pcmp V d_pcmp k_pcmp by_pcmp by_cmp (ir_body ir) a b
      = Some (sp_fields_pcmp V d_pcmp k_pcmp by_pcmp by_cmp fs a b).
  Proof.
    intros s fs e h ir a b H. rewrite (compare_op_body _ _ _ _ _ H). cbn. f_equal. apply fields_pcmp_spec.
  Qed.
  Theorem C01_struct_cmp :
    forall s fs e h ir a b,
      build_compare_op COrd (SrcStruct s fs) e h = Ok [ir] ->
      eval_cmp V d_cmp k_cmp by_cmp (ir_body ir) a b
      = Some (sp_fields_cmp V d_cmp k_cmp by_cmp fs a b).
  Proof.
    intros s fs e h ir a b H. rewrite (compare_op_body _ _ _ _ _ H). cbn. f_equal. apply fields_cmp_spec.
  Qed.

  (** enum: declaration position across variants, the struct rule inside one variant *)
  Theorem C01_enum_eq :
    forall en vs e h ir a b,
      build_compare_op CPartialEq (SrcEnum en vs) e h = Ok [ir] ->
      eval_eq V d_eq k_eq by_eq by_pcmp by_cmp (ir_body ir) a b
      = Some (sp_enum_eq V d_eq k_eq by_eq by_pcmp by_cmp vs a b).
  Proof. intros en vs e h ir a b H. rewrite (compare_op_body _ _ _ _ _ H). apply enum_eq_spec. Qed.
  Theorem C01_enum_pcmp :
    forall en vs e h ir a b,
      build_compare_op CPartialOrd (SrcEnum en vs) e h = Ok [ir] ->
      eval_pcmp V d_pcmp k_pcmp by_pcmp by_cmp (ir_body ir) a b
      = sp_enum_pcmp V d_pcmp k_pcmp by_pcmp by_cmp vs a b.
  Proof. intros en vs e h ir a b H. rewrite (compare_op_body _ _ _ _ _ H). apply enum_pcmp_spec. Qed.
  Theorem C01_enum_cmp :
    forall en vs e h ir a b,
      build_compare_op COrd (SrcEnum en vs) e h = Ok [ir] ->
      eval_cmp V d_cmp k_cmp by_cmp (ir_body ir) a b
      = sp_enum_cmp V d_cmp k_cmp by_cmp vs a b.
  Proof. intros en vs e h ir a b H. rewrite (compare_op_body _ _ _ _ _ H). apply enum_cmp_spec. Qed.
End C01.

(** "whichever subset of the comparison traits is derived together": the attributes that affect a
    derived trait are parsed identically under any trait list containing that trait, and the rule
    reads nothing else. *)
Theorem C01_any_co_derived_set :
  forall attrs k k' c c' tr,
    kinds_derived k tr = true -> kinds_derived k' tr = true ->
    cmp_attrs_from_attrs attrs k = Ok c -> cmp_attrs_from_attrs attrs k' = Ok c' ->
    selected tr c = selected tr c' /\ cmp_ignored tr c = cmp_ignored tr c' /\ reversed tr c = reversed tr c'.
Proof.
  intros attrs k k' c c' tr Hk Hk' H H'. apply spec_relevant.
  exact (parsed_relevant attrs k k' c c' tr Hk Hk' H H').
Qed.

Check C01_enum_cmp.
Print Assumptions C01_struct_eq.
Print Assumptions C01_struct_pcmp.
Print Assumptions C01_struct_cmp.
Print Assumptions C01_enum_eq.
Print Assumptions C01_enum_pcmp.
Print Assumptions C01_enum_cmp.
Print Assumptions C01_any_co_derived_set.
