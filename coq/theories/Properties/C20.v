(** * C20 — whatever expansion accepts without an error of its own type-checks (PARTIAL)

    rustc's type checker is outside the model.  What is proved is the part of "the generated impl
    type-checks" that is the generator's own logic:
    - every trait obligation a generated body places on a field type is discharged by the impl's
      where-clause (or the type mentions no parameter and the obligation is closed) — no bound the body
      needs is omitted;
    - no expansion reaches a panic site, every outcome is impls / an error message / a dump.
    The rest (name resolution, inference, lints) is checked by compiling the generated programs of
    this check's grammar under #![deny(warnings)] against the real proc-macro. *)
From DX Require Import Syntax Tables GenBound GenAttrs IR GenType GenCmp GenImpl GenTop
     SpecAttrs SpecBound SemCmp SpecCmp LemDump LemBound LemCmp LemData LemStatic LemNoPanic.

(** [body_obligations b]: the field types on which body [b] calls a method of the derived trait *)
Theorem C20_obligations_are_used_fields :
  forall s h fs e irs ir,
    build_struct_entry s h fs e = Ok irs -> In ir irs ->
    incl (body_obligations (ir_body ir)) (used_types (struct_vplans (en_kind e) h fs)).
Proof. exact struct_body_obligations. Qed.

Theorem C20_obligations_discharged :
  forall s h fs e irs ir t,
    ha_items h = [] ->
    build_struct_entry s h fs e = Ok irs -> In ir irs ->
    no_bounds (top_levels (en_kind e) e h) (struct_vplans (en_kind e) h fs) ->
    In t (body_obligations (ir_body ir)) ->
    contains_in_type (gps_new (struct_decl_generics (en_kind e) s)) t = true ->
    In t (ih_wtypes (ir_hdr ir)).
Proof. exact struct_obligations_discharged. Qed.

Theorem C20_never_a_panic : forall inv, Forall not_panic (x_entries (expand inv)).
Proof. exact expand_no_panic. Qed.

Print Assumptions C20_obligations_are_used_fields.
Print Assumptions C20_obligations_discharged.
Print Assumptions C20_never_a_panic.
