(** * C20 — whatever expansion accepts without an error of its own type-checks (PARTIAL)

    rustc's type checker is outside the model.  What is proved is the part of "the generated impl
    type-checks" that is the generator's own logic:
    - every trait obligation a generated body places on a field type is discharged by the impl's
      where-clause (or the type mentions no parameter and the obligation is closed) — no bound the body
      needs is omitted;
    - no expansion reaches a panic site, every outcome is impls / an error message / a dump.
    The rest (name resolution, inference, lints) is checked by compiling the generated programs of
    this check's grammar under #![deny(warnings)] against the real proc-macro. *)
From DX Require Import Syntax Tables GenBound GenAttrs IR GenType GenCmp GenImpl GenTop
     SpecAttrs SpecBound SemCmp SpecCmp LemDump LemBound LemCmp LemData LemStatic LemStaticEnum LemNoPanic.

(** [body_obligations b]: the field types on which body [b] calls a method of the derived trait *)
Theorem C20_obligations_are_used_fields :
  forall s h fs e irs ir,
    build_struct_entry s h fs e = Ok irs -> In ir irs ->
    incl (body_obligations (ir_body ir)) (used_types (struct_vplans (en_kind e) h fs)).
Proof. exact struct_body_obligations. Qed.

Theorem C20_obligations_discharged :
  forall s h fs e irs ir t,
    ha_items h = [] ->
    build_struct_entry s h fs e = Ok irs -> In ir irs ->
    no_bounds (top_levels (en_kind e) e h) (struct_vplans (en_kind e) h fs) ->
    In t (body_obligations (ir_body ir)) ->
    contains_in_type (gps_new (struct_decl_generics (en_kind e) s)) t = true ->
    In t (ih_wtypes (ir_hdr ir)).
Proof. exact struct_obligations_discharged. Qed.

(** the same for enums ([enum_entry]: what [build_enum_entries] runs for each requested trait, LemDump.build_enum_entries_eq;
    [enum_vplans]: per variant, the fields the trait uses - for Default the fields of the default variant only) *)
Theorem C20_enum_obligations_are_used_fields :
  forall en h vs e ir vp,
    enum_entry en h vs e = Ok (Ok [ir]) ->
    enum_vplans (en_kind e) h vs = Some vp ->
    incl (body_obligations (ir_body ir)) (used_types vp).
Proof. exact enum_body_obligations. Qed.

Theorem C20_enum_obligations_discharged :
  forall en h vs e ir vp t,
    ha_items h = [] ->
    enum_entry en h vs e = Ok (Ok [ir]) ->
    enum_vplans (en_kind e) h vs = Some vp ->
    no_bounds (top_levels (en_kind e) e h) vp ->
    In t (body_obligations (ir_body ir)) ->
    contains_in_type (gps_new (decl_generics (en_kind e) (e_name en) (e_generics en))) t = true ->
    In t (ih_wtypes (ir_hdr ir)).
Proof. exact enum_obligations_discharged. Qed.

(** the hypotheses are met by a concrete generic enum: `enum E<T, U> { A(T, u8), B { x: Option<U> } }` deriving Clone
    calls `clone` on T, u8 and Option<U>; the where-clause lists the two that mention a parameter *)
Definition ex_h : hattrs :=
  {| ha_items := []; ha_default := None; ha_debug := debug_attr_default;
     ha_cmp := {| h_ord := cmp_attr_default; h_partial_ord := cmp_attr_default; h_eq := cmp_attr_default;
                  h_partial_eq := cmp_attr_default; h_hash := cmp_attr_default |} |}.
Definition ex_f (i : nat) (n : option string) (t : ty) : fentry :=
  {| fe_index := i; fe_field := {| f_attrs := []; f_vis := []; f_name := n; f_ty := t |}; fe_hattrs := ex_h |}.
Definition ex_opt_u : ty := TyPath None false [Seg "Option" (SAAngle [GTy (ident_ty "U")])].
Definition ex_va : ventry :=
  {| ve_variant := {| v_attrs := []; v_name := "A"; v_discr := None;
                      v_fields := FUnnamed (map fe_field [ex_f 0 None (ident_ty "T"); ex_f 1 None (ident_ty "u8")]) |};
     ve_fields := [ex_f 0 None (ident_ty "T"); ex_f 1 None (ident_ty "u8")]; ve_hattrs := ex_h |}.
Definition ex_vb : ventry :=
  {| ve_variant := {| v_attrs := []; v_name := "B"; v_discr := None;
                      v_fields := FNamed [fe_field (ex_f 0 (Some "x") ex_opt_u)] |};
     ve_fields := [ex_f 0 (Some "x") ex_opt_u]; ve_hattrs := ex_h |}.
Definition ex_en : item_enum :=
  {| e_attrs := []; e_vis := []; e_name := "E";
     e_generics := {| g_params := [GPTy "T" [] None; GPTy "U" [] None]; g_where := [] |};
     e_variants := [ve_variant ex_va; ve_variant ex_vb] |}.
Definition ex_e : entry := {| en_kind := KClone; en_dump := false; en_this := bounds_new; en_common := bounds_new |}.

Example C20_enum_hypotheses_met :
  exists ir vp,
    enum_entry ex_en ex_h [ex_va; ex_vb] ex_e = Ok (Ok [ir]) /\
    enum_vplans (en_kind ex_e) ex_h [ex_va; ex_vb] = Some vp /\
    no_bounds (top_levels (en_kind ex_e) ex_e ex_h) vp /\
    body_obligations (ir_body ir) = [ident_ty "T"; ident_ty "u8"; ex_opt_u] /\
    ih_wtypes (ir_hdr ir) = [ident_ty "T"; ex_opt_u].
Proof.
  eexists; eexists. split; [vm_compute; reflexivity|]. split; [vm_compute; reflexivity|].
  split; [|split; reflexivity].
  split.
  - repeat constructor.
  - intros v [<-|[<-|[]]]; (split; [repeat constructor|]); cbn; intros f Hf;
      repeat (destruct Hf as [<-|Hf]; [repeat constructor|]); destruct Hf.
Qed.

Theorem C20_never_a_panic : forall inv, Forall not_panic (x_entries (expand inv)).
Proof. exact expand_no_panic. Qed.

Print Assumptions C20_obligations_are_used_fields.
Print Assumptions C20_obligations_discharged.
Print Assumptions C20_enum_obligations_are_used_fields.
Print Assumptions C20_enum_obligations_discharged.
Print Assumptions C20_never_a_panic.
