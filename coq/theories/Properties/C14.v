(** * C14 — the item is re-emitted unchanged apart from derive_ex's own attributes *)
From DX Require Import Syntax Tables GenBound GenAttrs IR GenType GenCmp GenImpl GenTop SpecAttrs LemAttrs.

Definition attr_inv (args : dx_args) (it : item) : invocation :=
  {| inv_mode := Attr; inv_args := args; inv_item := it |}.

(** Whenever the trait list parses (whatever happens afterwards: per-trait errors, misplaced or
    duplicated helper attributes, dump), the attribute macro re-emits the item with exactly the
    attributes the documentation assigns to the requested traits removed — at type, variant and
    field positions — and every other component in place and in order. *)
Theorem C14_ok :
  forall args it es,
    (exists s, it = IStruct s) \/ (exists e, it = IEnum e) ->
    from_root (Some args) (root_attrs it) = Ok es ->
    x_item (expand (attr_inv args it)) = Some (strip_item (owned (map en_kind es)) it).
Proof. exact reemit_ok. Qed.

(** When the trait list itself is refused (unsupported trait), the item is emitted next to the
    error with only the `derive_ex` attributes removed. *)
Theorem C14_err :
  forall args it m,
    (exists s, it = IStruct s) \/ (exists e, it = IEnum e) ->
    from_root (Some args) (root_attrs it) = Err m ->
    x_item (expand (attr_inv args it)) = Some (strip_item is_derive_ex_attr it) /\
    x_fatal (expand (attr_inv args it)) = Some m.
Proof. exact reemit_fail. Qed.

(** In every case — success, per-trait error, fatal error, `impl` item, unsupported item kind —
    an item is emitted, and erasing the helper-named attributes from it and from the input
    gives the same item: foreign attributes, visibility, generics, fields, discriminants are
    intact and in order. *)
Theorem C14_foreign_intact :
  forall args it,
    x_item (expand (attr_inv args it)) <> None /\
    forall it', x_item (expand (attr_inv args it)) = Some it' ->
      strip_item is_helper_attr it' = strip_item is_helper_attr it.
Proof. exact reemit_always. Qed.

Theorem C14_impl_unchanged :
  forall args i, x_item (expand (attr_inv args (IImpl i))) = Some (IImpl i).
Proof. exact reemit_impl_unchanged. Qed.

(** The derive macro never re-emits the item. *)
Theorem C14_derive_no_item :
  forall args it, x_item (expand {| inv_mode := Derive; inv_args := args; inv_item := it |}) = None.
Proof. exact derive_no_item. Qed.

(** the generator's table is the documented one (with the one stated deviation) *)
Theorem C14_table : forall a tr, is_effects_to a tr = affects a tr.
Proof. exact is_effects_to_affects. Qed.

(** non-vacuity: interleaved foreign / owned / not-owned helper attributes *)
Example C14_example :
  let cargs := {| ca_ignore := false; ca_reverse := false; ca_by := None; ca_key := None; ca_bound := None |} in
  let f := {| f_attrs := [AOther [TI "doc"]; ACmp COrd (MList cargs); ACmp CPartialEq (MList cargs);
                          ADebug MPath; AOther [TI "must_use"]];
              f_vis := []; f_name := None; f_ty := ident_ty "u8" |} in
  let s := {| s_attrs := [AOther [TI "repr"]; ACmp CHash MPath; ADefault MPath];
              s_vis := [TI "pub"]; s_name := "X"; s_generics := {| g_params := []; g_where := [] |};
              s_fields := FUnnamed [f] |} in
  let args := {| dx_items := [("Hash", None); ("Clone", None)]; dx_bound := None; dx_dump := false |} in
  x_item (expand (attr_inv args (IStruct s)))
  = Some (IStruct {| s_attrs := [AOther [TI "repr"]; ADefault MPath]; s_vis := [TI "pub"]; s_name := "X";
                     s_generics := {| g_params := []; g_where := [] |};
                     s_fields := FUnnamed [{| f_attrs := [AOther [TI "doc"]; ACmp CPartialEq (MList cargs);
                                                          ADebug MPath; AOther [TI "must_use"]];
                                              f_vis := []; f_name := None; f_ty := ident_ty "u8" |}] |}).
Proof. vm_compute. reflexivity. Qed.

Check C14_ok : forall args it es,
    (exists s, it = IStruct s) \/ (exists e, it = IEnum e) ->
    from_root (Some args) (root_attrs it) = Ok es ->
    x_item (expand (attr_inv args it)) = Some (strip_item (owned (map en_kind es)) it).

Print Assumptions C14_ok.
Print Assumptions C14_err.
Print Assumptions C14_foreign_intact.
Print Assumptions C14_impl_unchanged.
Print Assumptions C14_derive_no_item.
Print Assumptions C14_table.
