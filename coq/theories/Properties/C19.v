(** * C19 — `dump` shows exactly the code that would have been generated *)
From DX Require Import Syntax Tables Render GenBound GenAttrs IR GenType GenCmp GenImpl GenTop RenderOut LemTop LemDump LemLists.

(** Struct: an entry with `dump` is the undumped entry's outcome with "impls" turned into
    "dump of those impls"; errors stay errors. *)
Theorem C19_struct :
  forall s h fs e,
    struct_outcome s h fs (set_dump e true) = dumped (struct_outcome s h fs (set_dump e false)).
Proof. exact struct_outcome_dump. Qed.

(** Enum: the same, entry by entry ([build_enum_entries] is the map of the per-entry function). *)
Theorem C19_enum_entries :
  forall en h vs es,
    build_enum_entries en h vs es
    = mapM (fun e => do r <- enum_entry en h vs e; Ok (apply_dump e r)) es.
Proof. exact build_enum_entries_eq. Qed.
Theorem C19_enum :
  forall en h vs e,
    (do r <- enum_entry en h vs (set_dump e true); Ok (apply_dump (set_dump e true) r))
    = (do o <- (do r <- enum_entry en h vs (set_dump e false); Ok (apply_dump (set_dump e false) r));
       Ok (dumped o)).
Proof. exact enum_outcome_dump. Qed.

(** `impl` item: `dump` replaces all generated impls by their dump. *)
Theorem C19_impl :
  forall a i,
    build_by_item_impl (set_dx_dump a true) i
    = (do o <- build_by_item_impl (set_dx_dump a false) i; Ok (dumped o)).
Proof. exact impl_dump. Qed.

(** The payload of the compile error is, token for token, the items of the undumped outcome. *)
Theorem C19_payload :
  forall gs,
    parts_of_outcome (ODump gs) = [PDump (concat (map part_toks (parts_of_outcome (OOk gs))))].
Proof. exact dump_payload. Qed.

(** The other entries and the item cannot be affected: the parsing context (which helper
    attributes are read) is independent of every dump flag, and an entry's dump flag is its
    own `dump` or the shared one of its list. *)
Theorem C19_context :
  forall es k (f : entry -> bool),
    kinds_extend k (map (fun e => set_dump e (f e)) es) = kinds_extend k es.
Proof. exact kinds_extend_set_dump. Qed.
Theorem C19_flags :
  forall a es,
    entries_of_args a = Ok es ->
    map en_dump es
    = map (fun '(_, ia) => dx_dump a || match ia with Some x => ia_dump x | None => false end) (dx_items a).
Proof. exact entries_of_args_dump. Qed.

(** a shared `dump` is worth exactly an entry-level `dump` on every entry of its own list (and, by
    [C15_lists_are_independent], on no entry of another list) *)
Theorem C19_shared_dump_is_entrywise :
  forall a, dx_dump a = true -> entries_of_args a = entries_of_args (with_entry_dumps a).
Proof. exact shared_dump_is_entrywise. Qed.

Print Assumptions C19_struct.
Print Assumptions C19_enum_entries.
Print Assumptions C19_enum.
Print Assumptions C19_impl.
Print Assumptions C19_payload.
Print Assumptions C19_context.
Print Assumptions C19_flags.
Print Assumptions C19_shared_dump_is_entrywise.
