(** * C12 — without helper attributes derive_ex is a drop-in for the standard derives

    Behaviour: with no helper attribute the documented rules of C01 / C06 / C07 / C10 / C11 collapse
    to the standard derives' semantics (SpecStd.v).  "The program compiles" is not provable in this
    model (rustc's type checker is outside it): see C20 and the compiled twins of this check. *)
From DX Require Import Syntax Tables GenBound GenAttrs IR GenType GenCmp GenImpl GenTop
     SpecAttrs SpecBound SemCmp SpecCmp SpecStd SemData LemBound LemCmp LemData.

Lemma plain_selected tr c : plain_cmp c -> selected tr c = SOwn /\ cmp_ignored tr c = false /\ reversed tr c = false.
Proof.
  intros H. unfold selected, attr_selection, cmp_ignored, reversed, specific_first, all_cmp.
  destruct tr; cbn [filter affects flat_map existsb andb by_counts cmpop_eqb];
    rewrite ?(H COrd), ?(H CPartialOrd), ?(H CEq), ?(H CPartialEq), ?(H CHash); cbn; auto.
Qed.

Lemma plain_used tr fs :
  (forall f, In f fs -> plain_cmp (ha_cmp (fe_hattrs f))) -> cmp_used_fields tr fs = fs.
Proof.
  intros H. unfold cmp_used_fields. induction fs as [|f fs IH]; cbn [filter]; [reflexivity|].
  destruct (plain_selected tr _ (H f (or_introl eq_refl))) as (_ & E & _). rewrite E. cbn [negb].
  f_equal. apply IH. intros g Hg. apply H. now right.
Qed.

Section C12.
  Variable V : Type.
  Variable d_eq : ty -> V -> V -> bool.
  Variable d_pcmp : ty -> V -> V -> option comparison.
  Variable d_cmp : ty -> V -> V -> comparison.
  Variable k_eq : toks -> V -> V -> bool.
  Variable k_pcmp : toks -> V -> V -> option comparison.
  Variable k_cmp : toks -> V -> V -> comparison.
  Variable by_eq : toks -> V -> V -> bool.
  Variable by_pcmp : toks -> V -> V -> option comparison.
  Variable by_cmp : toks -> V -> V -> comparison.

  Theorem C12_eq :
    forall fs a b, (forall f, In f fs -> plain_cmp (ha_cmp (fe_hattrs f))) ->
      sp_fields_eq V d_eq k_eq by_eq by_pcmp by_cmp fs a b = std_fields_eq V d_eq fs a b.
  Proof.
    intros fs a b H. unfold sp_fields_eq, std_fields_eq. rewrite plain_used by exact H.
    induction fs as [|f fs IH]; cbn; [reflexivity|].
    unfold sp_field_eq at 1. destruct (plain_selected CPartialEq _ (H f (or_introl eq_refl))) as (-> & _).
    f_equal. apply IH. intros g Hg. apply H. now right.
  Qed.

  Theorem C12_pcmp :
    forall fs a b, (forall f, In f fs -> plain_cmp (ha_cmp (fe_hattrs f))) ->
      sp_fields_pcmp V d_pcmp k_pcmp by_pcmp by_cmp fs a b = std_fields_pcmp V d_pcmp fs a b.
  Proof.
    intros fs a b H. unfold sp_fields_pcmp, std_fields_pcmp. rewrite plain_used by exact H. f_equal.
    apply map_ext_in. intros f Hf. unfold sp_field_pcmp.
    destruct (plain_selected CPartialOrd _ (H f Hf)) as (-> & _ & ->). reflexivity.
  Qed.

  Theorem C12_cmp :
    forall fs a b, (forall f, In f fs -> plain_cmp (ha_cmp (fe_hattrs f))) ->
      sp_fields_cmp V d_cmp k_cmp by_cmp fs a b = std_fields_cmp V d_cmp fs a b.
  Proof.
    intros fs a b H. unfold sp_fields_cmp, std_fields_cmp. rewrite plain_used by exact H. f_equal.
    apply map_ext_in. intros f Hf. unfold sp_field_cmp.
    destruct (plain_selected COrd _ (H f Hf)) as (-> & _ & ->). reflexivity.
  Qed.

  Theorem C12_hash :
    forall fs a, (forall f, In f fs -> plain_cmp (ha_cmp (fe_hattrs f))) ->
      sp_fields_feed V fs a = std_fields_feed V fs a.
  Proof.
    intros fs a H. unfold sp_fields_feed, std_fields_feed. rewrite plain_used by exact H.
    apply map_ext_in. intros f Hf. unfold sp_field_feed.
    destruct (plain_selected CHash _ (H f Hf)) as (-> & _). reflexivity.
  Qed.

  (** Hash stays consistent with ==: if every field type hashes ==-equal values alike, so does the type *)
  Theorem C12_hash_consistent :
    forall (H : Type) (h : ty -> V -> H) fs a b,
      (forall t x y, d_eq t x y = true -> h t x = h t y) ->
      std_fields_eq V d_eq fs a b = true ->
      map (fun f => h (fty f) (at_ V a f)) fs = map (fun f => h (fty f) (at_ V b f)) fs.
  Proof.
    intros H h fs a b L E. unfold std_fields_eq in E. rewrite forallb_forall in E.
    apply map_ext_in. intros f Hf. apply L, E, Hf.
  Qed.
End C12.

(** Debug without attributes: debug_struct / debug_tuple over all fields *)
Theorem C12_debug :
  forall name src fs,
    (forall f, In f fs -> ha_debug (fe_hattrs f) = debug_attr_default) ->
    debug_body_spec name src fs = DbgFields name (shape_of src) (map fld_of fs).
Proof.
  intros name src fs H. unfold debug_body_spec, transparent_fields.
  assert (E1 : filter (fun f => g_transparent (ha_debug (fe_hattrs f))) fs = []).
  { induction fs as [|f fs IH]; cbn; [reflexivity|]. rewrite (H f (or_introl eq_refl)). cbn.
    apply IH. intros g Hg. apply H. now right. }
  rewrite E1. f_equal. f_equal.
  induction fs as [|f fs IH]; cbn; [reflexivity|]. rewrite (H f (or_introl eq_refl)). cbn. f_equal.
  apply IH; [intros g Hg; apply H; now right|].
  clear -E1. cbn in E1. destruct (g_transparent _); [discriminate | exact E1].
Qed.

(** Default without values: every field `Default::default()` *)
Theorem C12_default :
  forall f, ha_default (fe_hattrs f) = None -> default_value_spec f = DVDefault (fty f).
Proof. intros f H. unfold default_value_spec, hattrs_default_value. now rewrite H. Qed.

Print Assumptions C12_eq.
Print Assumptions C12_pcmp.
Print Assumptions C12_cmp.
Print Assumptions C12_hash.
Print Assumptions C12_hash_consistent.
Print Assumptions C12_debug.
Print Assumptions C12_default.
