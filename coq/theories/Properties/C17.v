(** * C17 — derive_ex(Eq) is refused unless every compared component is Eq

    The `Eq` impl is followed by a hidden `const _: () = { fn _f<..>(this: &T) where .. { body } }`.
    Every `QField` / `QKey` of the body is a block `{ fn _eq<T: Eq + ?Sized>(_: &T) {}  _eq(&(x)) }`:
    one `Eq` obligation on the type of `x`.  That rustc enforces an obligation is trusted (sampled by
    the check's rustc runs); the theorem is about WHICH obligations exist. *)
From DX Require Import Syntax Tables GenBound GenAttrs IR GenType GenCmp GenImpl GenTop
     SpecAttrs SpecBound SemCmp SpecCmp LemBound LemCmp LemReject.

(** struct: exactly one obligation per compared component — the field itself, or the value of its
    key expression; ignored fields and fields compared with `by` are exempt *)
Theorem C17_struct :
  forall s fs e h ir,
    build_compare_op CEq (SrcStruct s fs) e h = Ok [ir] ->
    exists cs, ir_body ir = BEqStruct cs /\ flat_map check_component cs = eq_components fs.
Proof.
  intros s fs e h ir H. rewrite (compare_op_body _ _ _ _ _ H). cbn. eexists. split; [reflexivity|].
  apply eq_checks_components.
Qed.

(** enum: one arm per variant, in order, each with the obligations of its own fields;
    the arms name the variants through the type's own name *)
Theorem C17_enum :
  forall en vs e h ir,
    build_compare_op CEq (SrcEnum en vs) e h = Ok [ir] ->
    exists arms, ir_body ir = BEqEnum (e_name en) arms /\
                 map (fun x => fst (fst (fst x))) arms = map (fun v => v_name (ve_variant v)) vs /\
                 map (fun x => flat_map check_component (snd x)) arms
                 = map (fun v => eq_components (ve_fields v)) vs.
Proof.
  intros en vs e h ir H. rewrite (compare_op_body _ _ _ _ _ H). cbn. eexists. split; [reflexivity|].
  rewrite !map_map. split; apply map_ext; intros v; cbn; [reflexivity | apply eq_checks_components].
Qed.

(** on every field the generator accepts for `Eq` (C05: not customised only by attributes that do not reach `Eq`),
    the component that must be `Eq` is the selection of `PartialEq` - the very expression the derived `==` (C01:
    `sp_field_eq` reads `selected CPartialEq`) compares.  This is the statement "a float-like compared component can never
    silently become `Eq`" at the level of the model. *)
Theorem C17_asserts_what_eq_compares :
  forall c, negb (is_own (selected CEq c) && has_custom c) = true -> eq_selected c = selected CPartialEq c.
Proof. exact eq_selected_is_partial_eq_selection. Qed.

(** what "takes part in equality" means ([eq_components] is defined through [eq_selected], SpecCmp.v): a field
    customised for `Eq` by `#[eq(..)]` / `#[ord(..)]` is compared by `==` through the MOST SPECIFIC of
    `partial_eq`, `eq`, `partial_ord`, `ord` - that expression is the one whose type must be `Eq`
    (before fix 3 of round 12 the assertion looked at `#[eq]` / `#[ord]` only, and
    `#[partial_eq(key = $.0)] #[eq(key = $.1)] x: (f32, i32)` made a type `Eq` whose `==` compares a float) *)
Definition with_key (k : toks) : cmp_attr :=
  {| c_ignore := false; c_reverse := false; c_by := None; c_key := Some k; c_bounds := bounds_new |}.
Example C17_the_key_of_partial_eq_decides :
  forall k0 k1,
    eq_selected {| h_ord := cmp_attr_default; h_partial_ord := cmp_attr_default; h_eq := with_key k1;
                   h_partial_eq := with_key k0; h_hash := cmp_attr_default |} = SKey k0
    /\ eq_selected {| h_ord := with_key k1; h_partial_ord := with_key k0; h_eq := cmp_attr_default;
                      h_partial_eq := cmp_attr_default; h_hash := cmp_attr_default |} = SKey k0
    /\ eq_selected {| h_ord := cmp_attr_default; h_partial_ord := with_key k0; h_eq := cmp_attr_default;
                      h_partial_eq := cmp_attr_default; h_hash := cmp_attr_default |} = SOwn.
Proof. intros. repeat split; reflexivity. Qed.

Print Assumptions C17_struct.
Print Assumptions C17_asserts_what_eq_compares.
Print Assumptions C17_enum.
