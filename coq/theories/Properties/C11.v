(** * C11 — default() returns the documented value *)
From DX Require Import Syntax Tables GenBound GenAttrs IR GenType GenCmp GenImpl GenTop
     SpecAttrs SpecBound SemCmp SemData LemBound LemData.

(** struct: the type-level `#[default(expr)]` if given; otherwise the struct with every field set to its own
    `#[default(expr)]` or to `Default::default()` of the field type ([default_value_spec]) *)
Theorem C11_struct :
  forall s e h fs ir,
    build_default_for_struct s e h fs = Ok [ir] ->
    ir_body ir =
    match hattrs_default_value h self_ty_kw with
    | Some v => BDefaultSelf v
    | None => BDefaultCtor [s_name s] (shape_of (s_fields s)) (map (fun f => (fe_member f, default_value_spec f)) fs)
    end.
Proof. exact default_struct_body. Qed.

(** enum: the type-level value, else the `#[default]` variant or the only variant *)
Theorem C11_enum :
  forall en e h vs ir,
    build_default_for_enum en e h vs = Ok [ir] ->
    match hattrs_default_value h self_ty_kw with
    | Some v => ir_body ir = BDefaultSelf v
    | None => exists v, default_variant vs = Some v /\
                        ir_body ir = BDefaultCtor [e_name en; v_name (ve_variant v)]
                                       (shape_of (v_fields (ve_variant v)))
                                       (map (fun f => (fe_member f, default_value_spec f)) (ve_fields v))
    end.
Proof. exact default_enum_body. Qed.

(** no or several default variants are refused *)
Theorem C11_refused :
  forall en e h vs,
    hattrs_default_value h self_ty_kw = None -> default_variant vs = None ->
    exists m, build_default_for_enum en e h vs = Err m.
Proof. exact default_enum_refused. Qed.

(** `Into` exactly for a string literal or a path; `_` means no value *)
Theorem C11_into_boundary :
  forall a t,
    default_attr_value a t =
    match d_value a with
    | None => None
    | Some e => Some match classify_expr e with ELitStr | EPath => DVInto t e | EOtherExpr => DVExpr e end
    end.
Proof. intros a t. unfold default_attr_value. destruct (d_value a); reflexivity. Qed.

Example C11_classification :
  map classify_expr [[TL """abc"""]; [TI "S"]; [TI "a"; TP "::"; TI "B"]; [TP "::"; TI "a"; TP "::"; TI "b"];
                     [TL "1"]; [TP "-"; TL "1"]; [TI "true"]; [TL "'c'"]; [TI "f"; TO DParen; TC DParen];
                     [TO DBrace; TL "1"; TC DBrace]; [TL "b""x"""]; [TL "r""raw"""]]
  = [ELitStr; EPath; EPath; EPath; EOtherExpr; EOtherExpr; EOtherExpr; EOtherExpr; EOtherExpr; EOtherExpr;
     EOtherExpr; ELitStr].
Proof. reflexivity. Qed.

Print Assumptions C11_struct.
Print Assumptions C11_enum.
Print Assumptions C11_refused.
Print Assumptions C11_into_boundary.
