(** * C03 — default bounds are exactly the used field types that mention a parameter

    With no `bound(...)` anywhere every level is absent; C04's theorems give the where-clause as
    [spec_where], and for absent levels [spec_where] collapses to: the declared predicates, plus —
    as `FieldType: Trait` — exactly the types of the fields the trait uses ([fp_used] of the plans
    of SpecBound.v: not debug-ignored / the transparent one, not comparison-ignored, no explicit
    default value, not compared through key/by, inside the default variant) that mention a type or
    const parameter ([contains_in_type]). *)
From DX Require Import Syntax Tables GenBound GenAttrs IR GenType GenCmp GenImpl GenTop
     SpecAttrs SpecBound LemDump LemBound LemSelf LemMentions.

Theorem C03_default_bounds :
  forall g top vs,
    Forall absent top ->
    (forall v, In v vs -> Forall absent (vp_levels v) /\
                          forall f, In f (vp_fields v) -> Forall absent (fp_levels f)) ->
    spec_where g top vs = (default_types (gps_new g) vs, g_where g).
Proof. exact default_where. Qed.

(** never `T: Trait` merely because `T` is a parameter: a bounded type is a used field's type *)
Theorem C03_only_field_types :
  forall gps vs t, In t (default_types gps vs) ->
    exists v f, In v vs /\ In f (vp_fields v) /\ fp_ty f = t /\ fp_used f = true /\
                contains_in_type gps t = true.
Proof.
  intros gps vs t H. unfold default_types in H. apply in_flat_map in H as (v & Hv & H).
  apply in_flat_map in H as (f & Hf & H). exists v, f.
  destruct (fp_used f) eqn:Eu; cbn in H; [|contradiction].
  destruct (contains_in_type gps (fp_ty f)) eqn:Ec; cbn in H; [|contradiction].
  destruct H as [<-|[]]. repeat split; assumption.
Qed.

(** never omitting one: every used field whose type mentions a parameter is bounded *)
Theorem C03_all_needed :
  forall gps vs v f, In v vs -> In f (vp_fields v) -> fp_used f = true ->
    contains_in_type gps (fp_ty f) = true -> In (fp_ty f) (default_types gps vs).
Proof.
  intros gps vs v f Hv Hf Hu Hc. unfold default_types. apply in_flat_map. exists v. split; [exact Hv|].
  apply in_flat_map. exists f. split; [exact Hf|]. rewrite Hu, Hc. now left.
Qed.

(** the parameter set: type and const parameters (raw identifiers un-raw'd), not lifetimes *)
Example C03_params :
  gps_new {| g_params := [GPLt "a" []; GPTy "T" [] None; GPConst "N" (ident_ty "usize") None; GPTy "r#U" [] None];
             g_where := [] |} = ["T"; "N"; "U"].
Proof. reflexivity. Qed.

(** "mentions": first segment of a path without leading `::`, anywhere in the type *)
Example C03_mentions :
  let gps := ["T"; "N"] in
  map (contains_in_type gps)
      [ident_ty "T"; ident_ty "u8"; TyArray (ident_ty "u8") (CPath false ["N"]);
       TyPath None false [Seg "Vec" (SAAngle [GTy (ident_ty "T")])];
       TyPath None true [Seg "T" SANone];
       TyPath None false [Seg "T" SANone; Seg "Assoc" SANone];
       TyPath None false [Seg "a" SANone; Seg "T" SANone];
       TyPath (Some (ident_ty "T", 1)) false [Seg "Tr" SANone; Seg "Assoc" SANone];
       TyFn [ident_ty "u8"] (Some (ident_ty "T"));
       TyRef (Some "a") false (TyTuple [ident_ty "u8"; ident_ty "r#T"])]
  = [true; false; true; true; false; true; false; true; true; true].
Proof. reflexivity. Qed.

(** ** what "mentions a parameter" means, stated without the traversal of the code

    [heads_ty t] (LemMentions.v): for every path inside [t] that does not start with `::` - in type position, in a trait
    bound, in a const argument or an array length - the identifier of its first segment.  A type mentions a parameter
    exactly when one of those identifiers is (up to `r#`) a declared type or const parameter. *)
Theorem C03_mentions_characterised :
  forall gps t, contains_in_type gps t = true <-> exists n, In n (heads_ty t) /\ gps_contains gps n = true.
Proof. exact contains_in_type_witness. Qed.

(** an item without type or const parameters gets no default bound at all *)
Theorem C03_no_parameters_no_default_bounds :
  forall vs, default_types [] vs = [].
Proof.
  intros vs. unfold default_types. induction vs as [|v r IH]; [reflexivity|]. cbn [flat_map]. rewrite IH, app_nil_r.
  induction (vp_fields v) as [|f fs IHf]; [reflexivity|]. cbn [flat_map].
  rewrite contains_in_type_no_params, Bool.andb_false_r. exact IHf.
Qed.

(** only the parameters that head a path of the type matter: declaring further parameters the type does not name,
    or renaming those, changes nothing *)
Theorem C03_mentions_only_heads :
  forall gps gps' t, (forall n, In n (heads_ty t) -> gps_contains gps n = gps_contains gps' n) ->
                     contains_in_type gps t = contains_in_type gps' t.
Proof. exact contains_in_type_only_heads. Qed.

(** operator impls see the field types with `Self` written out ([fields_for], GenTop.v): such a field is bounded by
    default exactly when it mentions a parameter itself, or mentions `Self` and the item has a type or const parameter *)
Theorem C03_mentions_after_self_expansion :
  forall name g t, gps_contains (gps_new g) "Self" = false ->
    contains_in_type (gps_new g) (expand_self_ty (this_ty_of name g) t)
    = contains_in_type (gps_new g) t || (mentions_self_ty t && has_params g).
Proof. exact contains_in_type_expand_this. Qed.

(** ... tied to the generator: what [build_by_item_struct_core] hands a builder ([fields_for], GenTop.v) is the item's own
    field entries for every trait but the operators, and for those each entry with `Self` written out - whose type then
    mentions a parameter exactly as the previous theorem says *)
Definition is_operator (k : kind) : bool :=
  match k with KBin _ | KAssign _ | KUn _ => true | _ => false end.

Theorem C03_fields_seen_by_the_builders :
  forall s k fs,
    (is_operator k = false -> fields_for s k fs = fs) /\
    (is_operator k = true -> gps_contains (gps_new (s_generics s)) "Self" = false ->
     length (fields_for s k fs) = length fs /\
     forall f, In f (fields_for s k fs) ->
       exists f0, In f0 fs /\ fe_index f = fe_index f0 /\ fe_hattrs f = fe_hattrs f0 /\
                  f_name (fe_field f) = f_name (fe_field f0) /\
                  f_ty (fe_field f) = expand_self_ty (this_ty_of (s_name s) (s_generics s)) (f_ty (fe_field f0)) /\
                  contains_in_type (gps_new (s_generics s)) (f_ty (fe_field f))
                  = contains_in_type (gps_new (s_generics s)) (f_ty (fe_field f0))
                    || (mentions_self_ty (f_ty (fe_field f0)) && has_params (s_generics s))).
Proof.
  intros s k fs. split.
  - destruct k; cbn [is_operator fields_for]; try discriminate; reflexivity.
  - intros Hk Hself. assert (fields_for s k fs = map (fentry_expand_self (this_ty_of (s_name s) (s_generics s))) fs) as ->.
    { destruct k; cbn [is_operator] in Hk; try discriminate Hk; reflexivity. }
    split; [apply map_length|]. intros f Hf. apply in_map_iff in Hf as (f0 & <- & Hf0).
    exists f0. cbn [fentry_expand_self fe_index fe_hattrs fe_field f_name f_ty]. repeat split; try assumption.
    apply contains_in_type_expand_this, Hself.
Qed.

Example C03_self_field :
  let g := {| g_params := [GPLt "a" []; GPTy "T" [] None]; g_where := [] |} in
  let w_self := TyPath None false [Seg "W" (SAAngle [GTy self_ty_kw])] in
  (contains_in_type (gps_new g) w_self,
   contains_in_type (gps_new g) (expand_self_ty (this_ty_of "X" g) w_self),
   expand_self_ty (this_ty_of "X" g) w_self)
  = (false, true,
     TyPath None false [Seg "W" (SAAngle [GTy (TyPath None false [Seg "X" (SAAngle [GLt "a"; GTy (ident_ty "T")])])])]).
Proof. reflexivity. Qed.

Print Assumptions C03_default_bounds.
Print Assumptions C03_only_field_types.
Print Assumptions C03_all_needed.
Print Assumptions C03_mentions_characterised.
Print Assumptions C03_no_parameters_no_default_bounds.
Print Assumptions C03_mentions_only_heads.
Print Assumptions C03_mentions_after_self_expansion.
Print Assumptions C03_fields_seen_by_the_builders.
