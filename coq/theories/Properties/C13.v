(** * C13 — generated code is hygienic (PARTIAL)

    Rust's name resolution is outside the model; the metamorphic property itself (renaming / shadowing /
    no_std change neither the verdict nor the behaviour) is decided by this check's compiled programs.
    Proved here is the generator's side of the bargain:
    - every pattern binder the expansion makes for a field ([make_ident]) is in the reserved `__`
      namespace, whatever the field is called (raw identifiers are un-raw'd first);
    - the IR carries only user names: all other identifiers of the output come from the closed
      templates of RenderOut.v, whose identifier tokens are audited below ([template_audit]): each is a
      keyword, a segment of an absolute `::core` path / a method or associated-item name reached through
      one, or reserved. *)
From DX Require Import Syntax Tables Render GenBound GenAttrs IR GenType GenCmp GenImpl GenTop RenderOut LemDump LemClosed LemClosedGen LemClosedHdr LemClosedHdrGen LemBinders.

Theorem C13_binders_reserved :
  forall prefix m, reserved prefix = true -> reserved (make_ident prefix m) = true.
Proof. exact make_ident_reserved. Qed.

(** the prefixes in use *)
Example C13_prefixes :
  forallb reserved ["__l"; "__r"; "__v"; "__self"; "__other"; "__this"; "__eq"; "__partial_ord"; "__ord"; "__hash"] = true.
Proof. reflexivity. Qed.

(** ** the templates are closed, for EVERY impl the generator can describe

    [closed t]: token [t] is punctuation, a delimiter, a literal, or an identifier / lifetime that is a keyword, part of
    the absolute-path vocabulary ([allowed]) or reserved (`__..`).  [hdr_ok user h] / [body_ok user b] / [op_ok user o]:
    every piece of the IR that is copied from the user's program (types, names, `key` / `by` / `default` expressions,
    declared generics, bounds) consists of tokens that are closed or satisfy [user].  Then so does the whole rendering. *)
Theorem C13_templates_closed :
  forall (user : tok -> Prop) (i : impl_ir),
    hdr_ok user (ir_hdr i) -> body_ok user (ir_body i) ->
    TOk user (r_hdr (ir_hdr i)) /\ TOk user (r_body (ir_hdr i) (ir_body i)) /\
    match r_eq_checker (ir_hdr i) (ir_body i) with Some c => TOk user c | None => True end.
Proof.
  intros user i Hh Hb. split; [now apply Ok_hdr|]. split; [now apply Ok_body | now apply Ok_eq_checker].
Qed.

Theorem C13_operator_templates_closed :
  forall (user : tok -> Prop) (o : op_ir),
    op_ok user o -> TOk user (fst (r_op_ir o)) /\ TOk user (snd (r_op_ir o)).
Proof. exact Ok_op_ir. Qed.

(** read with [user := fun t => t <> x]: a token outside the closed vocabulary that occurs in none of the user's pieces
    occurs nowhere in the generated impl - in particular no identifier such as `this`, `other`, `state`, `f`, `H`, `'a`
    can be introduced by a template, whatever the item looks like *)
Lemma Ok_avoid (x : tok) (l : toks) : closed x = false -> TOk (fun t => t <> x) l -> ~ In x l.
Proof.
  intros Hx H Hin. unfold TOk in H. rewrite Forall_forall in H. destruct (H x Hin) as [Hc|Hn].
  - rewrite Hx in Hc. discriminate.
  - now apply Hn.
Qed.

Theorem C13_no_foreign_token :
  forall (i : impl_ir) (x : tok),
    closed x = false ->
    hdr_ok (fun t => t <> x) (ir_hdr i) -> body_ok (fun t => t <> x) (ir_body i) ->
    ~ In x (r_hdr (ir_hdr i)) /\ ~ In x (r_body (ir_hdr i) (ir_body i)) /\
    match r_eq_checker (ir_hdr i) (ir_body i) with Some c => ~ In x c | None => True end.
Proof.
  intros i x Hx Hh Hb. destruct (C13_templates_closed _ i Hh Hb) as (H1 & H2 & H3).
  split; [now apply Ok_avoid|]. split; [now apply Ok_avoid|].
  destruct (r_eq_checker _ _); [now apply Ok_avoid|exact I].
Qed.

(** the hypotheses are met, and the conclusion is about something: a Clone impl for `struct this<other>(other)` - the
    user's own `this` / `other` are the only non-closed identifiers of the output; `state` occurs nowhere *)
Definition ex_hdr : impl_hdr :=
  {| ih_allow := false; ih_generics := {| g_params := [GPTy "other" [] None]; g_where := [] |}; ih_trait := KClone;
     ih_rhs := None; ih_self_ref := false;
     ih_this := TyPath None false [Seg "this" (SAAngle [GTy (ident_ty "other")])];
     ih_wtypes := [ident_ty "other"]; ih_wpreds := []; ih_wform := WFPlain |}.
Definition ex_body : body := BCloneStruct "this" ShUnnamed [{| fl_index := 0; fl_member := MIndex 0; fl_ty := ident_ty "other" |}].
Example C13_no_foreign_token_instance :
  closed (TI "state") = false /\
  hdr_ok (fun t => t <> TI "state") ex_hdr /\ body_ok (fun t => t <> TI "state") ex_body /\
  In (TI "this") (r_body ex_hdr ex_body) /\ In (TI "other") (r_hdr ex_hdr).
Proof.
  split; [reflexivity|].
  assert (forall l, ~ In (TI "state") l -> TOk (fun t => t <> TI "state") l) as A.
  { intros l H. apply Forall_forall. intros t Ht. right. intros ->. exact (H Ht). }
  split; [|split; [|split]].
  - unfold hdr_ok. cbn [ih_generics ih_this ih_wtypes ih_wpreds ex_hdr].
    split; [apply A; vm_compute; intuition discriminate|].
    split; [apply A; vm_compute; intuition discriminate|].
    split; [constructor; [apply A; vm_compute; intuition discriminate|constructor]|constructor].
  - cbn [body_ok ex_body]. split; [right; discriminate|]. constructor; [|constructor].
    unfold fld_ok. cbn [fl_ty fl_member]. repeat split; apply A; vm_compute; intuition discriminate.
  - vm_compute. tauto.
  - vm_compute. tauto.
Qed.

(** ** the pieces of a generated body are pieces of the item (LemClosedGen.v)

    [fentry_ok user f]: the field's type, its name and the `key` / `by` / `default` expressions written on it consist of
    closed or [user] tokens; [ventry_ok] adds the variant's name; [dattr_ok h]: the type-level `#[default(..)]` value.
    For EVERY impl built from a struct / an enum the body's pieces then satisfy [body_ok]: with C13_templates_closed,
    each token of the body is from the closed vocabulary or one the user wrote in the item.  (The pieces of the header -
    [hdr_ok]: declared generics, the type applied to its parameters, bounds - are copied by [mk_hdr] and the where-clause
    rules; that copying is not restated here.) *)
Theorem C13_struct_body_pieces_come_from_the_item :
  forall (user : tok -> Prop) s h fs e irs ir,
    ok user (TI (s_name s)) -> ok user (TI (unraw (s_name s))) -> dattr_ok user h -> Forall (fentry_ok user) fs ->
    build_struct_entry s h fs e = Ok irs -> In ir irs ->
    body_ok user (ir_body ir).
Proof. exact struct_bodies_ok. Qed.

Theorem C13_enum_body_pieces_come_from_the_item :
  forall (user : tok -> Prop) en h vs e ir,
    ok user (TI (e_name en)) -> dattr_ok user h -> Forall (ventry_ok user) vs ->
    enum_entry en h vs e = Ok (Ok [ir]) ->
    body_ok user (ir_body ir).
Proof. exact enum_bodies_ok. Qed.

Theorem C13_struct_body_tokens :
  forall (user : tok -> Prop) s h fs e irs ir,
    ok user (TI (s_name s)) -> ok user (TI (unraw (s_name s))) -> dattr_ok user h -> Forall (fentry_ok user) fs ->
    build_struct_entry s h fs e = Ok irs -> In ir irs -> hdr_ok user (ir_hdr ir) ->
    TOk user (r_body (ir_hdr ir) (ir_body ir)) /\
    match r_eq_checker (ir_hdr ir) (ir_body ir) with Some c => TOk user c | None => True end.
Proof.
  intros user s h fs e irs ir Hn Hu Hd Hf Hb Hin Hh.
  pose proof (struct_bodies_ok user s h fs e irs ir Hn Hu Hd Hf Hb Hin) as B.
  split; [now apply Ok_body | now apply Ok_eq_checker].
Qed.

(** ** ... and so are the pieces of the header (LemClosedHdr.v, LemClosedHdrGen.v)

    [generics_okS] / [ty_okS] / [bounds_okS]: a structural reading of "every identifier and lifetime inside is closed or
    [user]" on the declared generics, the field types and every `bound(...)` the user wrote ([hattrs_bounds_okS],
    [entry_okS]).  The header of every impl built from a struct - its impl generics (the declared ones, for operators and
    the `Eq` assertion with `Self` expanded), the type applied to its own parameters, and the where-clause produced by the
    nine-level rules - then consists of such pieces. *)
Theorem C13_struct_header_pieces_come_from_the_item :
  forall (user : tok -> Prop) s h fs e irs ir,
    ok user (TI (s_name s)) -> generics_okS user (s_generics s) ->
    ha_items h = [] -> hattrs_bounds_okS user h -> entry_okS user e -> Forall (fentry_hdr_okS user) fs ->
    build_struct_entry s h fs e = Ok irs -> In ir irs ->
    hdr_ok user (ir_hdr ir).
Proof. exact struct_hdr_ok. Qed.

(** every token of every impl derived from a struct is from the closed vocabulary or one the user wrote in the item *)
Theorem C13_struct_impl_tokens :
  forall (user : tok -> Prop) s h fs e irs ir,
    ok user (TI (s_name s)) -> ok user (TI (unraw (s_name s))) -> generics_okS user (s_generics s) ->
    ha_items h = [] -> hattrs_bounds_okS user h -> dattr_ok user h -> entry_okS user e ->
    Forall (fentry_hdr_okS user) fs -> Forall (fentry_ok user) fs ->
    build_struct_entry s h fs e = Ok irs -> In ir irs ->
    TOk user (r_hdr (ir_hdr ir)) /\ TOk user (r_body (ir_hdr ir) (ir_body ir)) /\
    match r_eq_checker (ir_hdr ir) (ir_body ir) with Some c => TOk user c | None => True end.
Proof.
  intros user s h fs e irs ir Hn Hu Hg Hi Hb Hd He Hfh Hf Hbuild Hin.
  pose proof (struct_hdr_ok user s h fs e irs ir Hn Hg Hi Hb He Hfh Hbuild Hin) as Hh.
  pose proof (struct_bodies_ok user s h fs e irs ir Hn Hu Hd Hf Hbuild Hin) as B.
  split; [now apply Ok_hdr|]. split; [now apply Ok_body | now apply Ok_eq_checker].
Qed.

Theorem C13_enum_header_pieces_come_from_the_item :
  forall (user : tok -> Prop) en h vs e ir,
    ok user (TI (e_name en)) -> generics_okS user (e_generics en) ->
    ha_items h = [] -> hattrs_bounds_okS user h -> entry_okS user e -> Forall (ventry_hdr_okS user) vs ->
    enum_entry en h vs e = Ok (Ok [ir]) ->
    hdr_ok user (ir_hdr ir).
Proof. exact enum_hdr_ok. Qed.

(** every token of every impl derived from an enum is from the closed vocabulary or one the user wrote in the item *)
Theorem C13_enum_impl_tokens :
  forall (user : tok -> Prop) en h vs e ir,
    ok user (TI (e_name en)) -> generics_okS user (e_generics en) ->
    ha_items h = [] -> hattrs_bounds_okS user h -> dattr_ok user h -> entry_okS user e ->
    Forall (ventry_hdr_okS user) vs -> Forall (ventry_ok user) vs ->
    enum_entry en h vs e = Ok (Ok [ir]) ->
    TOk user (r_hdr (ir_hdr ir)) /\ TOk user (r_body (ir_hdr ir) (ir_body ir)) /\
    match r_eq_checker (ir_hdr ir) (ir_body ir) with Some c => TOk user c | None => True end.
Proof.
  intros user en h vs e ir Hn Hg Hi Hb Hd He Hvh Hv Hbuild.
  pose proof (enum_hdr_ok user en h vs e ir Hn Hg Hi Hb He Hvh Hbuild) as Hh.
  pose proof (enum_bodies_ok user en h vs e ir Hn Hd Hv Hbuild) as B.
  split; [now apply Ok_hdr|]. split; [now apply Ok_body | now apply Ok_eq_checker].
Qed.

(** ** bindings of distinct fields are distinct (LemBinders.v)

    Bindings are numbered by field position (fix 0085919); decimal printing is injective, so the bindings the patterns
    of one struct / variant introduce are pairwise distinct, whatever the fields are called. *)
Theorem C13_bindings_of_distinct_positions_differ :
  forall prefix i j, make_ident prefix (MIndex i) = make_ident prefix (MIndex j) -> i = j.
Proof. exact make_ident_index_inj. Qed.

Theorem C13_bindings_of_one_variant_are_distinct :
  forall prefix (fs : list fld), NoDup (map fl_index fs) -> NoDup (binders prefix fs).
Proof. exact binders_nodup. Qed.

Definition user_name (s : string) : bool :=      (* the sentinel names of the skeletons below *)
  str_mem s ["U"; "u"; "V"; "w"].

Definition tok_ok (t : tok) : bool :=
  match t with
  | TI s => reserved s || str_mem s allowed || user_name s
  | TLt s => reserved s || user_name s
  | _ => true
  end.

(** one skeleton per template-selecting choice: body constructor x shape x comparator kind x reverse x
    reference form x operator; user parts are the sentinels U (type), u / w (field), V (variant) *)
Definition sk_fld (i : nat) (m : member) : fld := {| fl_index := i; fl_member := m; fl_ty := ident_ty "U" |}.
Definition sk_flds : list fld := [sk_fld 0 (MNamed "u"); sk_fld 1 (MIndex 1)].
Definition sk_hdr (k : kind) (allow : bool) (rhs : option bool) (sref : bool) (form : where_form) : impl_hdr :=
  {| ih_allow := allow; ih_generics := {| g_params := [GPTy "U" [] None]; g_where := [] |}; ih_trait := k;
     ih_rhs := rhs; ih_self_ref := sref; ih_this := ident_ty "U"; ih_wtypes := [ident_ty "U"]; ih_wpreds := [];
     ih_wform := form |}.
Definition sk_cmp (e : cmp_expr) (rev : bool) : cmp_field := {| cf_fld := sk_fld 0 (MNamed "u"); cf_expr := e; cf_reverse := rev |}.
Definition sk_exprs : list cmp_expr :=
  [CEDefault (ident_ty "U"); CEKey [TI placeholder]; CEBy COrd [TI "w"]; CEBy CPartialOrd [TI "w"]; CEBy CEq [TI "w"];
   CEBy CPartialEq [TI "w"]; CEBy CHash [TI "w"]].
Definition sk_cmps : list cmp_field := flat_map (fun e => [sk_cmp e false; sk_cmp e true]) sk_exprs.
Definition sk_shapes : list shape := [ShNamed; ShUnnamed; ShUnit].
Definition sk_arms {A} (x : A) : list (string * shape * list fld * A) := map (fun sh => ("V", sh, sk_flds, x)) sk_shapes.
Definition bools := [false; true].
Definition binops := [Add; BitAnd; BitOr; BitXor; Div; Mul; Rem; Shl; Shr; Sub].

Definition sk_bodies : list (kind * body) :=
  [(KDeref, BDeref (ident_ty "U") (MNamed "u")); (KDerefMut, BDerefMut (ident_ty "U") (MIndex 0)); (KCopy, BCopy);
   (KDefault, BDefaultSelf (DVInto (ident_ty "U") [TI "w"])); (KDefault, BDefaultSelf (DVExpr [TI "w"]))]
  ++ flat_map (fun sh => [(KClone, BCloneStruct "U" sh sk_flds);
                          (KDebug, BDebugStruct (DbgFields "U" sh sk_flds) (Some 1));
                          (KDebug, BDebugStruct (DbgTransparent (sk_fld 0 (MNamed "u"))) None);
                          (KDefault, BDefaultCtor ["U"; "V"] sh [(MNamed "u", DVDefault (ident_ty "U")); (MIndex 1, DVExpr [TI "w"])])]) sk_shapes
  ++ [(KClone, BCloneEnum (map (fun sh => ("V", sh, sk_flds)) sk_shapes)); (KClone, BCloneEnum []);
      (KDebug, BDebugEnum (sk_arms (DbgFields "V" ShNamed sk_flds))); (KDebug, BDebugEnum []);
      (KCmp CPartialEq, BPartialEqStruct sk_cmps); (KCmp CPartialEq, BPartialEqStruct []); (KCmp CPartialEq, BPartialEqEnum (sk_arms sk_cmps));
      (KCmp CPartialOrd, BPartialOrdStruct sk_cmps); (KCmp CPartialOrd, BPartialOrdEnum (sk_arms sk_cmps));
      (KCmp COrd, BOrdStruct sk_cmps); (KCmp COrd, BOrdEnum (sk_arms sk_cmps));
      (KCmp CHash, BHashStruct sk_cmps); (KCmp CHash, BHashEnum (sk_arms sk_cmps));
      (KCmp CEq, BEqStruct [(sk_fld 0 (MNamed "u"), QField); (sk_fld 1 (MIndex 1), QKey [TI placeholder]); (sk_fld 0 (MNamed "u"), QNone)]);
      (KCmp CEq, BEqEnum "U" (sk_arms [(sk_fld 0 (MNamed "u"), QField)]))]
  ++ flat_map (fun op => flat_map (fun l => flat_map (fun r => [(KBin op, BBin op l r "U" ShNamed sk_flds)]) bools) bools) binops
  ++ flat_map (fun op => flat_map (fun r => [(KAssign op, BAssign op r sk_flds)]) bools) binops
  ++ flat_map (fun l => [(KUn Neg, BUn Neg l "U" ShUnnamed sk_flds); (KUn Not, BUn Not l "U" ShUnit sk_flds)]) bools.

Definition sk_forms : list where_form :=
  [WFPlain; WFBin false false; WFBin false true; WFBin true false; WFBin true true; WFAssign false; WFAssign true; WFUn false; WFUn true].

Definition template_audit : bool :=
  forallb (fun '(k, b) =>
             forallb (fun form =>
                        let h := sk_hdr k true (Some true) true form in
                        forallb tok_ok (r_hdr h) && forallb tok_ok (r_body h b) &&
                        match r_eq_checker h b with Some c => forallb tok_ok c | None => true end) sk_forms) sk_bodies
  && forallb (fun o => let '(h, b) := r_op_ir o in forallb tok_ok h && forallb tok_ok b)
       (flat_map (fun op =>
          flat_map (fun x => flat_map (fun y =>
            [OpBin {| g_params := []; g_where := [] |} op (ident_ty "U") (ident_ty "U") (ident_ty "U") x y (negb x) (negb y);
             OpAssignFromBin {| g_params := []; g_where := [] |} op (ident_ty "U") (ident_ty "U") x;
             OpBinFromAssign {| g_params := []; g_where := [] |} op (ident_ty "U") (ident_ty "U")]) bools) bools) binops).

(** A finite audit of the templates (a computation on the skeleton family above, NOT an unbounded claim):
    no template contains an identifier or lifetime outside keywords / absolute-path vocabulary / the
    reserved namespace.  In particular none of `H`, `'a`, `this`, `other`, `state`, `f`, `rhs`, `source`,
    `lhs`, `o`, `to_index`, `_eq`, `_f`, `l_0`, `_self_0` occurs any more. *)
Example C13_template_audit : template_audit = true.
Proof. vm_compute. reflexivity. Qed.

(** A second finite audit on the same skeleton family: names that are looked up in the SCOPE of the use site.
    An identifier of the closed vocabulary that names a module, type, trait, variant, function or macro is only
    harmless when it continues an absolute path (`:: core :: cmp :: Ordering :: Equal`, `:: core :: primitive :: bool`):
    written on its own it would mean whatever the user's scope calls so (`struct bool;`).  Method and field names after
    `.`, the names a trait impl must define (`fn eq`, `type Output`), associated-type bindings (`Output = ..`), and the
    generic parameter `T` that the nested function `__assert_eq` declares for itself are the only other places. *)
Definition keywords : list string :=
  ["impl"; "for"; "where"; "fn"; "trait"; "match"; "let"; "mut"; "return"; "type"; "const"; "as"; "self"; "Self"; "true"; "false"; "_"; "dyn";
   "automatically_derived"; "allow"; "clippy"; "double_parens"; "unused_parens"].
Definition scoped (s : string) : bool := str_mem s allowed && negb (str_mem s keywords).
Definition is_p (p : string) (t : option tok) : bool :=
  match t with Some (TP x) => String.eqb x p | _ => false end.
Definition is_i (p : string) (t : option tok) : bool :=
  match t with Some (TI x) => String.eqb x p | _ => false end.
Fixpoint rel_scan (p2 p1 : option tok) (l : toks) : bool :=
  match l with
  | [] => true
  | t :: rest =>
      (match t with
       | TI s =>
           if scoped s then
             is_p "::" p1 || is_p "." p1 || is_i "fn" p1 || is_i "type" p1
             || ((is_p "," p1 || is_p "<" p1) && match rest with TP "=" :: _ => true | _ => false end)
             || (String.eqb s "T" && (is_p "<" p1 && is_i "__assert_eq" p2 || is_p "&" p1 && is_p ":" p2))
           else true
       | _ => true
       end) && rel_scan p1 (Some t) rest
  end.
Definition rel_ok (l : toks) : bool := rel_scan None None l.

Definition relative_name_audit : bool :=
  forallb (fun '(k, b) =>
             forallb (fun form =>
                        let h := sk_hdr k true (Some true) true form in
                        rel_ok (r_hdr h ++ tbrace (r_body h b)) &&
                        match r_eq_checker h b with Some c => rel_ok c | None => true end) sk_forms) sk_bodies
  && forallb (fun o => let '(h, b) := r_op_ir o in rel_ok (h ++ tbrace b))
       (flat_map (fun op =>
          flat_map (fun x => flat_map (fun y =>
            [OpBin {| g_params := []; g_where := [] |} op (ident_ty "U") (ident_ty "U") (ident_ty "U") x y (negb x) (negb y);
             OpAssignFromBin {| g_params := []; g_where := [] |} op (ident_ty "U") (ident_ty "U") x;
             OpBinFromAssign {| g_params := []; g_where := [] |} op (ident_ty "U") (ident_ty "U")]) bools) bools) binops).

Example C13_relative_name_audit : relative_name_audit = true.
Proof. vm_compute. reflexivity. Qed.

(** the audit is not vacuous: it refuses the signatures the generator used before fix 2 of round 12
    (`-> bool`, `-> usize` written on their own) *)
Example C13_relative_name_audit_refuses_bare_primitives :
  rel_ok (q "fn eq ( & self , __other : & Self ) -> bool") = false /\
  rel_ok (q "let __to_index = | __this : & Self | -> usize") = false /\
  rel_ok (q "fn eq ( & self , __other : & Self ) -> :: core :: primitive :: bool") = true.
Proof. vm_compute. repeat split; reflexivity. Qed.

Print Assumptions C13_binders_reserved.
Print Assumptions C13_template_audit.
Print Assumptions C13_relative_name_audit.
Print Assumptions C13_templates_closed.
Print Assumptions C13_operator_templates_closed.
Print Assumptions C13_no_foreign_token.
Print Assumptions C13_struct_body_pieces_come_from_the_item.
Print Assumptions C13_enum_body_pieces_come_from_the_item.
Print Assumptions C13_struct_body_tokens.
Print Assumptions C13_struct_header_pieces_come_from_the_item.
Print Assumptions C13_struct_impl_tokens.
Print Assumptions C13_enum_header_pieces_come_from_the_item.
Print Assumptions C13_enum_impl_tokens.
Print Assumptions C13_bindings_of_distinct_positions_differ.
Print Assumptions C13_bindings_of_one_variant_are_distinct.
