(** * C08 — operators derived from a struct act field-wise in all reference forms *)
From DX Require Import Syntax Tables GenBound GenAttrs IR GenType GenCmp GenImpl GenTop
     SpecAttrs SpecBound SemCmp SemData LemBound LemData.

Section C08.
  Variable V : Type.
  Variable binop_ : binop -> bool -> bool -> ty -> V -> V -> V.
  Variable assign_ : binop -> bool -> ty -> V -> V -> V.
  Variable unop_ : unop -> bool -> ty -> V -> V.

  (** the four impls `T op T`, `T op &T`, `&T op T`, `&T op &T`, in this order; field i of the result is
      the field operator (in the same reference form) applied to field i of the operands, left operand on
      the left, each exactly once, in declaration order *)
  Theorem C08_binary :
    forall s op e fs x y,
      exists h1 h2 h3 h4 irs,
        build_binary_op s op e fs = Ok irs /\
        map ir_hdr irs = [h1; h2; h3; h4] /\
        map (fun h => (ih_self_ref h, ih_rhs h)) [h1; h2; h3; h4]
        = [(false, Some false); (false, Some true); (true, Some false); (true, Some true)] /\
        map (fun ir => eval_bin V binop_ (ir_body ir) x y) irs
        = map (fun '(l, r) =>
                 Some (map (fun f => (fe_index f, binop_ op l r (fty f) (v_field x (fe_index f)) (v_field y (fe_index f)))) fs,
                       map (fun f => COp (fe_index f)) fs))
              [(false, false); (false, true); (true, false); (true, true)].
  Proof.
    intros s op e fs x y. destruct (binary_op_bodies s op e fs) as (h1 & h2 & h3 & h4 & -> & E1 & E2 & E3 & E4 & _).
    exists h1, h2, h3, h4. eexists. split; [reflexivity|]. split; [reflexivity|]. split.
    - cbn. inversion E1; inversion E2; inversion E3; inversion E4. congruence.
    - cbn. now rewrite !map_map.
  Qed.

  Theorem C08_assign :
    forall s op e fs x y,
      exists irs,
        build_assign_op s op e fs = Ok irs /\
        map (fun ir => (ih_rhs (ir_hdr ir), eval_assign V assign_ (ir_body ir) x y)) irs
        = map (fun r =>
                 (Some r,
                  Some (map (fun f => (fe_index f, assign_ op r (fty f) (v_field x (fe_index f)) (v_field y (fe_index f)))) fs,
                        map (fun f => COp (fe_index f)) fs)))
              [false; true].
  Proof.
    intros s op e fs x y. destruct (assign_op_bodies s op e fs) as (h1 & h2 & -> & E1 & E2 & _).
    eexists. split; [reflexivity|]. cbn. rewrite E1, E2. now rewrite !map_map.
  Qed.

  Theorem C08_unary :
    forall s op e fs x,
      exists irs,
        build_unary_op s op e fs = Ok irs /\
        map (fun ir => (ih_self_ref (ir_hdr ir), eval_un V unop_ (ir_body ir) x)) irs
        = map (fun l =>
                 (l, Some (map (fun f => (fe_index f, unop_ op l (fty f) (v_field x (fe_index f)))) fs,
                           map (fun f => COp (fe_index f)) fs)))
              [false; true].
  Proof.
    intros s op e fs x. destruct (unary_op_bodies s op e fs) as (h1 & h2 & -> & E1 & E2 & _).
    eexists. split; [reflexivity|]. cbn. rewrite E1, E2. now rewrite !map_map.
  Qed.
End C08.

Print Assumptions C08_binary.
Print Assumptions C08_assign.
Print Assumptions C08_unary.
