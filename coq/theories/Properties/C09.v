(** * C09 — operators derived from a user impl forward to it faithfully *)
From DX Require Import Syntax Tables GenBound GenAttrs IR GenImpl SemImpl LemSelf LemMentions.

(** what [build_by_item_impl] generates, once its inputs are in normal form *)
Definition bin_forms (g : generics) (op : binop) (this rhs output : ty) (tr rr : bool) : list op_ir :=
  flat_map (fun '(il, ir) => if Bool.eqb il tr && Bool.eqb ir rr then []
                             else [OpBin g op this rhs output il ir tr rr])
           [(false, false); (false, true); (true, false); (true, true)].

(** from `impl Op<Rhs> for [&]T`: the three missing owned/reference forms, each calling the user's
    form; `OpAssign<Rhs>` and `OpAssign<&Rhs>` (through the `&T op ..` forms) when both are requested,
    or `OpAssign<Rhs as written>` calling the user's form directly when only OpAssign is *)
Theorem C09_generated_from_op :
  forall a i lead segs s op out0 mb ma,
    i_trait i = Some (lead, segs) -> i_neg i = false -> last_opt segs = Some s ->
    op_from_ident (match s with Seg n _ => n end) = Ok (op, FBinary) ->
    impl_args_ok a = true ->
    scan_items op (map fst (dx_items a)) false false = Ok (mb, ma) ->
    find_output_type (i_items i) = Ok out0 ->
    let this_orig := i_self i in
    let this := fst (to_ref_elem this_orig) in let tr := snd (to_ref_elem this_orig) in
    let rhs_orig := to_rhs s this_orig in
    let rhs := fst (to_ref_elem rhs_orig) in let rr := snd (to_ref_elem rhs_orig) in
    let g := expand_self_generics this_orig (i_generics i) in
    let output := expand_self_ty this_orig out0 in
    build_by_item_impl a i =
    Ok ((if dx_dump a then ODump else OOk)
          (map GO ((if mb then bin_forms g op this rhs output tr rr else []) ++
                   (if ma then if mb then [OpAssignFromBin g op this rhs true;
                                           OpAssignFromBin g op this (ref_type rhs) true]
                               else [OpAssignFromBin g op this rhs_orig tr]
                    else [])))).
Proof.
  intros a i lead segs s op out0 mb ma Ht Hn Hs Hop Hargs Hscan Hout. cbv zeta.
  unfold build_by_item_impl. rewrite Ht. cbn [bind]. rewrite Hn, Hs. cbn [bind].
  destruct (to_ref_elem (i_self i)) as [this tr] eqn:E1.
  destruct (to_ref_elem (to_rhs s (i_self i))) as [rhs rr] eqn:E2. cbn [fst snd].
  rewrite Hop. cbn [bind]. rewrite Hargs. cbn [negb]. rewrite Hscan. cbn [bind]. rewrite Hout. cbn [bind].
  unfold bin_forms. cbn [flat_map]. rewrite !app_nil_r.
  destruct (dx_dump a); reflexivity.
Qed.

(** from `impl OpAssign<Rhs> for T`: `T op Rhs` as `{ a op= b; a }`; requesting OpAssign is refused *)
Theorem C09_generated_from_assign :
  forall a i lead segs s op mb ma,
    i_trait i = Some (lead, segs) -> i_neg i = false -> last_opt segs = Some s ->
    op_from_ident (match s with Seg n _ => n end) = Ok (op, FAssign) ->
    impl_args_ok a = true ->
    scan_items op (map fst (dx_items a)) false false = Ok (mb, ma) ->
    build_by_item_impl a i =
    if ma then Err (assign_only_msg op)
    else Ok ((if dx_dump a then ODump else OOk)
               (map GO (if mb then [OpBinFromAssign (expand_self_generics (i_self i) (i_generics i)) op
                                                    (i_self i) (to_rhs s (i_self i))] else []))).
Proof.
  intros a i lead segs s op mb ma Ht Hn Hs Hop Hargs Hscan.
  unfold build_by_item_impl. rewrite Ht. cbn [bind]. rewrite Hn, Hs. cbn [bind].
  destruct (to_ref_elem (i_self i)) as [this tr].
  destruct (to_ref_elem (to_rhs s (i_self i))) as [rhs rr].
  rewrite Hop. cbn [bind]. rewrite Hargs. cbn [negb]. rewrite Hscan. cbn [bind].
  destruct ma; [reflexivity|]. cbn [bind]. destruct (dx_dump a); reflexivity.
Qed.

(** every generated form calls the user's form (tr, rr) exactly once, operands in order, cloning an
    operand exactly when it was received by reference but is needed by value, borrowing it when
    received by value but wanted by reference *)
Theorem C09_forwarding :
  forall g op this rhs output tr rr o,
    In o (bin_forms g op this rhs output tr rr) ->
    exists il ir,
      (il, ir) <> (tr, rr) /\
      meaning o = MForward {| fw_impl_l := il; fw_impl_r := ir; fw_call_l := tr; fw_call_r := rr;
                              fw_left := passing_of il tr; fw_right := passing_of ir rr |}.
Proof.
  intros g op this rhs output tr rr o H. unfold bin_forms in H. apply in_flat_map in H as ([il ir] & _ & H).
  destruct (Bool.eqb il tr && Bool.eqb ir rr) eqn:E; [contradiction|].
  destruct H as [<-|[]]. exists il, ir. split; [|reflexivity].
  intros X; inversion X; subst. rewrite !Bool.eqb_reflx in E. discriminate.
Qed.

Theorem C09_three_forms :
  forall g op this rhs output tr rr, length (bin_forms g op this rhs output tr rr) = 3.
Proof. intros g op this rhs output [] []; reflexivity. Qed.

(** the clone discipline, spelled out *)
Theorem C09_clone_exactly_when_needed :
  forall input_ref output_ref,
    passing_of input_ref output_ref = PClone <-> (input_ref = true /\ output_ref = false).
Proof. intros [] []; cbn; split; intros H; try discriminate; try (destruct H; discriminate); auto. Qed.

(** `a op= b` derived from `op`: `*self = (self or a clone of *self) op b`, cloning `*self` exactly
    when the form called takes `self` by value *)
Theorem C09_assign_from_op :
  forall g op this rhs cl,
    meaning (OpAssignFromBin g op this rhs cl) = MAssignFromOp cl (if cl then PAsIs else PClone).
Proof. intros g op this rhs []; reflexivity. Qed.

(** ** "the user's generics and where-clause (including uses of `Self`) carry over"

    Every derived impl carries [expand_self_generics (i_self i) (i_generics i)] (first two theorems).  rustc refuses a
    reference without a lifetime inside a bound or a where-predicate (E0637).  The expansion never creates one out of
    nothing: if neither the user's self type nor the user's generics contain one, the generics of the derived impls
    do not either; and generics that do not mention `Self` are carried over unchanged, whatever the self type is. *)
Theorem C09_self_expansion_well_formed :
  forall i, elided_ty (i_self i) = false -> elided_generics (i_generics i) = false ->
            elided_generics (expand_self_generics (i_self i) (i_generics i)) = false.
Proof. intros i H1 H2. apply expand_self_generics_no_elide; assumption. Qed.

Theorem C09_generics_without_Self_carry_over :
  forall i, mentions_self_generics (i_generics i) = false ->
            expand_self_generics (i_self i) (i_generics i) = i_generics i.
Proof. intros i H. apply expand_self_generics_id, H. Qed.

(** the expansion is COMPLETE: whatever the user's generics said about `Self`, the generics of the derived impls - which
    are impls for OTHER types (`&T`, the owned `T`), where `Self` would mean something else - no longer mention it, as long
    as the self type itself does not (it cannot in a program rustc accepts: E0391); a second pass changes nothing *)
Theorem C09_self_expansion_eliminates_Self :
  forall i, mentions_self_ty (i_self i) = false ->
            mentions_self_generics (expand_self_generics (i_self i) (i_generics i)) = false.
Proof. intros i H. apply expand_self_generics_eliminates, H. Qed.

Theorem C09_self_expansion_idempotent :
  forall i, mentions_self_ty (i_self i) = false ->
            expand_self_generics (i_self i) (expand_self_generics (i_self i) (i_generics i))
            = expand_self_generics (i_self i) (i_generics i).
Proof. intros i H. apply expand_self_generics_idempotent, H. Qed.

Example C09_self_expansion_eliminates_Self_instance :
  let this := TyRef (Some "a") false (TyPath None false [Seg "G" (SAAngle [GTy (ident_ty "T")])]) in
  let g := {| g_params := [GPLt "a" []; GPTy "T" [TBTrait false false [Seg "Wt" (SAAngle [GTy self_ty_kw])]] None];
              g_where := [WPTy (TyRef (Some "a") false self_ty_kw) [TBTrait false false [Seg "Copy" SANone]]] |} in
  (mentions_self_ty this, mentions_self_generics g, mentions_self_generics (expand_self_generics this g))
  = (false, true, false).
Proof. reflexivity. Qed.

(** ... and the KNOWN FINDING (known_findings.json, DESIGN.md §4): outside that class the carried-over generics can be
    ill-formed although the user's own impl is fine - `impl<T: Clone + Wt<Self>> Add for &G<T>`: *)
Theorem C09_self_expansion_ref_refuted :
  exists this g,
    elided_generics g = false /\ mentions_self_generics g = true /\ elided_ty this = true /\
    elided_generics (expand_self_generics this g) = true.
Proof.
  exists (TyRef None false (TyPath None false [Seg "G" (SAAngle [GTy (ident_ty "T")])])).
  exists {| g_params := [GPTy "T" [TBTrait false false [Seg "Clone" SANone];
                                   TBTrait false false [Seg "Wt" (SAAngle [GTy self_ty_kw])]] None];
            g_where := [] |}.
  vm_compute. repeat split.
Qed.

Print Assumptions C09_generated_from_op.
Print Assumptions C09_generated_from_assign.
Print Assumptions C09_forwarding.
Print Assumptions C09_three_forms.
Print Assumptions C09_clone_exactly_when_needed.
Print Assumptions C09_assign_from_op.
Print Assumptions C09_self_expansion_well_formed.
Print Assumptions C09_generics_without_Self_carry_over.
Print Assumptions C09_self_expansion_ref_refuted.
Print Assumptions C09_self_expansion_eliminates_Self.
Print Assumptions C09_self_expansion_idempotent.
