(** * SemData: meaning of the Clone / operator / Debug / Default bodies

    Values are as in SemCmp ([value]: variant name + a value per field index).  A constructed value
    is the list of (field index, value) pairs of the constructor expression, in the order written.
    Where the property counts calls, the evaluators return the trace of calls as well. *)
From DX Require Import Syntax Tables GenBound GenAttrs IR SemCmp.

Record built (V : Type) := { b_variant : string; b_args : list (nat * V) }.
Arguments b_variant {V}. Arguments b_args {V}.

Inductive call :=
| CClone (i : nat)            (* <FieldTy as Clone>::clone(&field i) *)
| CCloneFrom (i : nat)        (* <FieldTy as Clone>::clone_from(&mut field i, &source field i) *)
| COp (i : nat).              (* the operator of field i *)

Section Env.
  Variable V : Type.

  (** ** Clone *)
  Variable clone : ty -> V -> V.
  Variable clone_from : ty -> V -> V -> V.          (* target, source |-> new target *)

  Definition arm3 := (string * shape * list fld)%type.
  Definition arm3_name (x : arm3) : string := fst (fst x).
  Definition find_arm3 (vs : list arm3) (name : string) : option arm3 :=
    find (fun x => String.eqb (arm3_name x) name) vs.

  Definition clone_fields (fs : list fld) (a : value V) : list (nat * V) :=
    map (fun f => (fl_index f, clone (fl_ty f) (v_field a (fl_index f)))) fs.

  (** `fn clone(&self) -> Self` *)
  Definition eval_clone (b : body) (a : value V) : option (built V * list call) :=
    match b with
    | BCloneStruct _ _ fs =>
        Some ({| b_variant := v_variant a; b_args := clone_fields fs a |}, map (fun f => CClone (fl_index f)) fs)
    | BCloneEnum vs =>
        match find_arm3 vs (v_variant a) with
        | Some (n, _, fs) =>
            Some ({| b_variant := n; b_args := clone_fields fs a |}, map (fun f => CClone (fl_index f)) fs)
        | None => None                  (* no arm: ill-formed value *)
        end
    | _ => None
    end.

  Definition clone_from_fields (fs : list fld) (a s : value V) : list (nat * V) :=
    map (fun f => (fl_index f, clone_from (fl_ty f) (v_field a (fl_index f)) (v_field s (fl_index f)))) fs.

  (** `fn clone_from(&mut self, source: &Self)`: the new value of `*self`; `source` is only read *)
  Definition eval_clone_from (b : body) (a s : value V) : option (built V * list call) :=
    match b with
    | BCloneStruct _ _ fs =>
        Some ({| b_variant := v_variant a; b_args := clone_from_fields fs a s |},
              map (fun f => CCloneFrom (fl_index f)) fs)
    | BCloneEnum vs =>
        (* arms `(Self::V{l..}, Self::V{r..})`: first arm matching both; else `*lhs = Clone::clone(rhs)` *)
        match find (fun x => String.eqb (arm3_name x) (v_variant a) && String.eqb (arm3_name x) (v_variant s)) vs with
        | Some (n, _, fs) =>
            Some ({| b_variant := n; b_args := clone_from_fields fs a s |}, map (fun f => CCloneFrom (fl_index f)) fs)
        | None => eval_clone b s
        end
    | _ => None
    end.

  (** ** operators derived from a struct *)
  Variable binop_ : binop -> bool -> bool -> ty -> V -> V -> V.   (* op, lhs is ref, rhs is ref, field type *)
  Variable assign_ : binop -> bool -> ty -> V -> V -> V.          (* new value of the left field *)
  Variable unop_ : unop -> bool -> ty -> V -> V.

  Definition eval_bin (b : body) (x y : value V) : option (list (nat * V) * list call) :=
    match b with
    | BBin op l r _ _ fs =>
        Some (map (fun f => (fl_index f, binop_ op l r (fl_ty f) (v_field x (fl_index f)) (v_field y (fl_index f)))) fs,
              map (fun f => COp (fl_index f)) fs)
    | _ => None
    end.
  Definition eval_assign (b : body) (x y : value V) : option (list (nat * V) * list call) :=
    match b with
    | BAssign op r fs =>
        Some (map (fun f => (fl_index f, assign_ op r (fl_ty f) (v_field x (fl_index f)) (v_field y (fl_index f)))) fs,
              map (fun f => COp (fl_index f)) fs)
    | _ => None
    end.
  Definition eval_un (b : body) (x : value V) : option (list (nat * V) * list call) :=
    match b with
    | BUn op l _ _ fs =>
        Some (map (fun f => (fl_index f, unop_ op l (fl_ty f) (v_field x (fl_index f)))) fs,
              map (fun f => COp (fl_index f)) fs)
    | _ => None
    end.

  (** ** Debug: the builder-call sequence *)
  Inductive fmt_calls :=
  | FmtStruct (name : string) (fields : list (string * V))     (* f.debug_struct(name).field(n, v)...finish() *)
  | FmtTuple (name : string) (fields : list V)                 (* f.debug_tuple(name).field(v)...finish() *)
  | FmtDelegate (v : V).                                       (* Debug::fmt(v, f) *)

  (** `::core::stringify!(member)`, the member un-raw'd *)
  Definition member_text (m : member) : string :=
    match m with MNamed s => unraw s | MIndex _ => "" end.

  Definition eval_debug_body (d : debug_body) (a : value V) : fmt_calls :=
    match d with
    | DbgTransparent f => FmtDelegate (v_field a (fl_index f))
    | DbgFields name ShNamed fs =>
        FmtStruct (unraw name) (map (fun f => (member_text (fl_member f), v_field a (fl_index f))) fs)
    | DbgFields name _ fs => FmtTuple (unraw name) (map (fun f => v_field a (fl_index f)) fs)
    end.

  Definition eval_fmt (b : body) (a : value V) : option fmt_calls :=
    match b with
    | BDebugStruct d _ => Some (eval_debug_body d a)
    | BDebugEnum vs =>
        match find (fun x => String.eqb (arm3_name (fst x)) (v_variant a)) vs with
        | Some (_, d) => Some (eval_debug_body d a)
        | None => None
        end
    | _ => None
    end.

  (** ** Default *)
  Variable expr_value : toks -> V.              (* the user's expression *)
  Variable into_ : ty -> V -> V.                (* ::core::convert::Into::<ty>::into *)
  Variable default_of : ty -> V.                (* <ty as Default>::default() *)

  Definition eval_dvalue (v : dvalue) : V :=
    match v with
    | DVInto t e => into_ t (expr_value e)
    | DVExpr e => expr_value e
    | DVDefault t => default_of t
    end.

  Inductive default_result :=
  | DrWhole (v : V)                                           (* the type-level expression *)
  | DrCtor (path : list string) (args : list (member * V)).

  Definition eval_default (b : body) : option default_result :=
    match b with
    | BDefaultSelf v => Some (DrWhole (eval_dvalue v))
    | BDefaultCtor path _ args => Some (DrCtor path (map (fun '(m, v) => (m, eval_dvalue v)) args))
    | _ => None
    end.
End Env.
