(** * LemClosedHdr: the pieces of an impl HEADER are the user's (C13)

    A structural reading of "consists of the user's tokens" on the syntax itself ([ty_okS], [generics_okS], ...:
    every identifier and lifetime inside is closed-vocabulary or [user]), with
    - soundness: a structurally-ok type / generics / predicate renders to ok tokens;
    - closure under `expand_self` (the derived operator impls re-use the declared generics with `Self`
      replaced by the type itself);
    - closure under the where-clause rules of SpecBound.v ([spec_where]).
    Together: the header of every impl built from a struct ([hdr_ok]) consists of pieces of the item. *)
From DX Require Import Syntax Tables Render GenBound GenAttrs IR GenType GenCmp GenImpl GenTop RenderOut
     SpecAttrs SpecBound LemSelf LemClosed.

Section AllP.
  Context {A : Type} (f : A -> Prop).
  Fixpoint all_p (l : list A) : Prop :=
    match l with [] => True | x :: r => f x /\ all_p r end.
End AllP.
Lemma all_p_Forall {A} (f : A -> Prop) l : all_p f l <-> Forall f l.
Proof. induction l as [|a l IH]; cbn; split; intros H; try constructor; try tauto; inversion H; tauto. Qed.

Section Hdr.
  Variable user : tok -> Prop.
  Notation tok_ok := (ok user).
  Notation toks_ok := (TOk user).
  Definition oknm (s : string) : Prop := tok_ok (TI s).
  Definition oklt (s : string) : Prop := tok_ok (TLt s).
  Definition cexpr_okS (c : cexpr) : Prop := match c with CLit _ => True | CPath _ names => all_p oknm names end.
  Definition oopt {A} (f : A -> Prop) (o : option A) : Prop := match o with Some a => f a | None => True end.

  Fixpoint ty_okS (t : ty) : Prop :=
    match t with
    | TyPath q _ segs => match q with Some (qt, _) => ty_okS qt | None => True end /\ all_p seg_okS segs
    | TyRef lt _ t => oopt oklt lt /\ ty_okS t
    | TyTuple ts => all_p ty_okS ts
    | TyArray t len => ty_okS t /\ cexpr_okS len
    | TySlice t => ty_okS t
    | TyPtr _ t => ty_okS t
    | TyFn args ret => all_p ty_okS args /\ match ret with Some r => ty_okS r | None => True end
    | TyNever => True
    | TyParen t => ty_okS t
    | TyDyn bs => all_p tbound_okS bs
    end
  with seg_okS (s : seg) : Prop := match s with Seg n a => oknm n /\ segargs_okS a end
  with segargs_okS (a : segargs) : Prop :=
    match a with
    | SANone => True
    | SAAngle l => all_p garg_okS l
    | SAParen ins out => all_p ty_okS ins /\ match out with Some r => ty_okS r | None => True end
    end
  with garg_okS (g : garg) : Prop :=
    match g with
    | GTy t => ty_okS t
    | GLt l => oklt l
    | GConst c => cexpr_okS c
    | GAssoc n t => oknm n /\ ty_okS t
    end
  with tbound_okS (b : tbound) : Prop :=
    match b with TBTrait _ _ segs => all_p seg_okS segs | TBLt l => oklt l end.

  Definition wpred_okS (p : wpred) : Prop :=
    match p with
    | WPTy t bs => ty_okS t /\ all_p tbound_okS bs
    | WPLt l ls => oklt l /\ all_p oklt ls
    end.
  Definition gparam_okS (p : gparam) : Prop :=
    match p with
    | GPLt n bs => oklt n /\ all_p oklt bs
    | GPTy n bs d => oknm n /\ all_p tbound_okS bs /\ oopt ty_okS d
    | GPConst n t d => oknm n /\ ty_okS t /\ oopt cexpr_okS d
    end.
  Definition generics_okS (g : generics) : Prop := all_p gparam_okS (g_params g) /\ all_p wpred_okS (g_where g).

  (** *** soundness of the structural reading *)
  Lemma Forall_imp_map {A} (okS : A -> Prop) (r : A -> toks) l :
    Forall (fun x => okS x -> toks_ok (r x)) l -> all_p okS l -> Forall toks_ok (map r l).
  Proof.
    induction 1 as [|x l Hx Hl IH]; cbn; intros H; [constructor|]. destruct H as [H1 H2].
    constructor; [now apply Hx | now apply IH].
  Qed.
  Lemma Forall_firstn {A} (P : A -> Prop) n l : Forall P l -> Forall P (firstn n l).
  Proof. intros H. revert n. induction H; intros [|n]; cbn; constructor; auto. Qed.
  Lemma Forall_skipn {A} (P : A -> Prop) n l : Forall P l -> Forall P (skipn n l).
  Proof. intros H. revert n. induction H; intros [|n]; cbn; auto. Qed.

  Ltac okc := solve [apply Ok_closed; vm_compute; reflexivity].
  Lemma ok_cexpr c : cexpr_okS c -> toks_ok (r_cexpr c).
  Proof.
    destruct c as [s|lead names]; cbn; intros H; [okc|].
    apply Ok_app; [destruct lead; okc|]. apply Ok_sep_by; [okc|].
    apply all_p_Forall in H. apply Forall_map_in. intros n Hn. rewrite Forall_forall in H.
    apply Ok_cons; [exact (H n Hn)|constructor].
  Qed.

  Lemma names_ok l : all_p oklt l -> Forall toks_ok (map (fun x => [TLt x]) l).
  Proof.
    intros H. apply all_p_Forall in H. apply Forall_map_in. intros x Hx. rewrite Forall_forall in H.
    apply Ok_cons; [exact (H x Hx)|constructor].
  Qed.

  Lemma ty_sound : forall t, ty_okS t -> toks_ok (r_ty t).
  Proof.
    apply (ty_ind2 (fun t => ty_okS t -> toks_ok (r_ty t)) (fun s => seg_okS s -> toks_ok (r_seg s))
                   (fun a => segargs_okS a -> toks_ok (r_segargs a)) (fun g => garg_okS g -> toks_ok (r_garg g))
                   (fun b => tbound_okS b -> toks_ok (r_tbound b))).
    - (* path *)
      intros q lead segs Hq Hs [H1 H2]. pose proof (Forall_imp_map _ _ _ Hs H2) as Hm.
      destruct q as [[qt pos]|]; cbn [r_ty].
      + cbn [Pq fst] in Hq. specialize (Hq H1).
        repeat first [apply Ok_app | apply Ok_cons; [left; reflexivity|] | apply Ok_sep_by; [okc|]
                      | now apply Forall_firstn | now apply Forall_skipn | exact Hq | okc
                      | match goal with |- TOk _ (if ?b then _ else _) => destruct b end | constructor].
      + apply Ok_app; [destruct lead; okc|]. apply Ok_sep_by; [okc|exact Hm].
    - intros lt mt t IH [H1 H2]. cbn [r_ty]. apply Ok_cons; [left; reflexivity|]. apply Ok_app; [|apply Ok_app].
      + destruct lt; cbn in *; [apply Ok_cons; [exact H1|constructor]|constructor].
      + destruct mt; okc.
      + now apply IH.
    - intros ts IH H. cbn [r_ty]. pose proof (Forall_imp_map _ _ _ IH H) as Hm.
      destruct (map r_ty ts) as [|x [|y l]] eqn:E.
      + okc.
      + inversion Hm; subst. apply Ok_tparen. apply Ok_app; [assumption|okc].
      + apply Ok_tparen. apply Ok_sep_by; [okc|exact Hm].
    - intros t len IH [H1 H2]. cbn [r_ty]. unfold tbracket. apply Ok_cons; [left; reflexivity|].
      repeat apply Ok_app; try okc; [now apply IH | now apply ok_cexpr].
    - intros t IH H. cbn [r_ty]. unfold tbracket. apply Ok_cons; [left; reflexivity|]. apply Ok_app; [now apply IH|okc].
    - intros mt t IH H. cbn [r_ty]. apply Ok_app; [destruct mt; okc | now apply IH].
    - intros args ret IHa IHr [H1 H2]. cbn [r_ty]. apply Ok_app; [okc|]. apply Ok_app.
      + apply Ok_tparen. apply Ok_sep_by; [okc|]. exact (Forall_imp_map _ _ _ IHa H1).
      + destruct ret; cbn in *; [apply Ok_cons; [left; reflexivity|now apply IHr]|constructor].
    - intros _. okc.
    - intros t IH H. cbn [r_ty]. apply Ok_tparen. now apply IH.
    - intros bs IH H. cbn [r_ty]. apply Ok_app; [okc|]. apply Ok_sep_by; [okc|]. exact (Forall_imp_map _ _ _ IH H).
    - intros n a IH [H1 H2]. cbn [r_seg]. apply Ok_cons; [exact H1|now apply IH].
    - intros _. constructor.
    - intros l IH H. cbn [r_segargs]. apply Ok_app; [okc|]. apply Ok_app; [|okc]. apply Ok_sep_by; [okc|].
      exact (Forall_imp_map _ _ _ IH H).
    - intros ins out IHi IHo [H1 H2]. cbn [r_segargs]. apply Ok_app.
      + apply Ok_tparen. apply Ok_sep_by; [okc|]. exact (Forall_imp_map _ _ _ IHi H1).
      + destruct out; cbn in *; [apply Ok_cons; [left; reflexivity|now apply IHo]|constructor].
    - intros t IH H. cbn [r_garg]. now apply IH.
    - intros l H. cbn [r_garg] in *. apply Ok_cons; [exact H|constructor].
    - intros c H. cbn [r_garg]. now apply ok_cexpr.
    - intros n t IH [H1 H2]. cbn [r_garg]. apply Ok_cons; [exact H1|]. apply Ok_cons; [left; reflexivity|]. now apply IH.
    - intros m lead segs IH H. cbn [r_tbound]. apply Ok_app; [destruct m; okc|]. apply Ok_app; [destruct lead; okc|].
      apply Ok_sep_by; [okc|]. exact (Forall_imp_map _ _ _ IH H).
    - intros l H. cbn [r_tbound] in *. apply Ok_cons; [exact H|constructor].
  Qed.

  (** *** closure under `expand_self` *)
  Lemma all_p_map {A} (okS : A -> Prop) (h : A -> A) l :
    Forall (fun x => okS x -> okS (h x)) l -> all_p okS l -> all_p okS (map h l).
  Proof. induction 1 as [|x r Hx _ IH]; cbn; [tauto|]. intros [H1 H2]. split; [now apply Hx|now apply IH]. Qed.

  Lemma after_amp_okS_gen t : ty_okS t -> ty_okS (after_amp t).
  Proof. intros H. unfold after_amp. destruct t as [| | | | | | | | |bs]; try exact H. destruct bs as [|? [|? ?]]; exact H. Qed.

  Section Expand.
    Variable to : ty.
    Hypothesis Hto : ty_okS to.

    Lemma after_amp_okS : ty_okS (after_amp to).
    Proof. apply after_amp_okS_gen. exact Hto. Qed.

    Lemma expand_self_okS_all : forall t, ty_okS t -> ty_okS (expand_self_ty to t).
    Proof.
      apply (ty_ind2
               (fun t => ty_okS t -> ty_okS (expand_self_ty to t))
               (fun s => seg_okS s -> seg_okS (expand_self_seg to s))
               (fun a => forall n, seg_okS (Seg n a) -> seg_okS (expand_self_seg to (Seg n a)))
               (fun g => garg_okS g -> garg_okS (expand_self_garg to g))
               (fun b => tbound_okS b -> tbound_okS (expand_self_tbound to b))).
      - intros q lead segs Hq Hs H. cbn [expand_self_ty]. destruct (is_self_ty (TyPath q lead segs)); [exact Hto|].
        cbn [ty_okS] in *. destruct H as [H1 H2]. split; [|now apply all_p_map].
        destruct q as [[qt k]|]; [cbn [Pq fst] in Hq; now apply Hq | exact I].
      - intros lt mt t IH H. cbn [expand_self_ty is_self_ty ty_okS] in *. destruct H; split; auto.
        destruct (is_self_ty t); [exact after_amp_okS | auto].
      - intros ts IH H. cbn [expand_self_ty is_self_ty ty_okS] in *. now apply all_p_map.
      - intros t len IH H. cbn [expand_self_ty is_self_ty ty_okS] in *. destruct H; split; auto.
      - intros t IH H. cbn [expand_self_ty is_self_ty ty_okS] in *. auto.
      - intros mt t IH H. cbn [expand_self_ty is_self_ty ty_okS] in *.
        destruct (is_self_ty t); [exact after_amp_okS | auto].
      - intros args ret IHa IHr H. cbn [expand_self_ty is_self_ty ty_okS] in *. destruct H as [H1 H2].
        split; [now apply all_p_map|]. destruct ret as [r|]; [now apply IHr|exact I].
      - intros _. exact I.
      - intros t IH H. cbn [expand_self_ty is_self_ty ty_okS] in *. auto.
      - intros bs IH H. cbn [expand_self_ty is_self_ty ty_okS] in *. now apply all_p_map.
      - intros n a IH H. now apply IH.
      - intros n H. exact H.
      - intros l IH n H. cbn [expand_self_seg seg_okS segargs_okS] in *. destruct H; split; [assumption|now apply all_p_map].
      - intros ins out IHi IHo n H. cbn [expand_self_seg seg_okS segargs_okS] in *. destruct H as [Hn [H1 H2]].
        split; [exact Hn|]. split; [now apply all_p_map|]. destruct out as [r|]; [now apply IHo|exact I].
      - intros t IH H. cbn [expand_self_garg garg_okS] in *. auto.
      - intros l H. exact H.
      - intros c H. exact H.
      - intros n t IH H. cbn [expand_self_garg garg_okS] in *. destruct H; split; auto.
      - intros m lead segs IH H. cbn [expand_self_tbound tbound_okS] in *. now apply all_p_map.
      - intros l H. exact H.
    Qed.

    Lemma expand_self_okS_tbound b : tbound_okS b -> tbound_okS (expand_self_tbound to b).
    Proof.
      destruct b as [m lead segs|l]; [|auto]. cbn [expand_self_tbound tbound_okS]. intros H.
      apply all_p_map; [|exact H]. apply Forall_forall. intros [n a] _ Hs.
      destruct a as [|l|ins out]; cbn [expand_self_seg seg_okS segargs_okS] in *.
      - exact Hs.
      - destruct Hs as [Hn Hl]. split; [exact Hn|]. apply all_p_map; [|exact Hl]. apply Forall_forall. intros g _ Hg.
        destruct g; cbn [expand_self_garg garg_okS] in *; auto.
        + now apply expand_self_okS_all.
        + destruct Hg; split; [assumption|now apply expand_self_okS_all].
      - destruct Hs as [Hn [H1 H2]]. split; [exact Hn|]. split.
        + apply all_p_map; [|exact H1]. apply Forall_forall. intros t _ Ht. now apply expand_self_okS_all.
        + destruct out; [now apply expand_self_okS_all|exact I].
    Qed.

    Lemma tbounds_map bs : all_p tbound_okS bs -> all_p tbound_okS (map (expand_self_tbound to) bs).
    Proof. intros H. apply all_p_map; [|exact H]. apply Forall_forall. intros b _. apply expand_self_okS_tbound. Qed.

    Lemma expand_self_okS_generics g : generics_okS g -> generics_okS (expand_self_generics to g).
    Proof.
      intros [Hp Hw]. split; cbn [expand_self_generics g_params g_where].
      - apply all_p_map; [|exact Hp]. apply Forall_forall. intros p _ H. destruct p; cbn [expand_self_gparam gparam_okS] in *.
        + exact H.
        + destruct H as (Hn & Hb & Hd). split; [exact Hn|]. split; [now apply tbounds_map|].
          destruct dflt; cbn in *; [now apply expand_self_okS_all|exact I].
        + destruct H as (Hn & Ht & Hd). split; [exact Hn|]. split; [now apply expand_self_okS_all|exact Hd].
      - apply all_p_map; [|exact Hw]. apply Forall_forall. intros p _ H. destruct p; cbn [expand_self_wpred wpred_okS] in *.
        + destruct H; split; [now apply expand_self_okS_all|now apply tbounds_map].
        + exact H.
    Qed.
  End Expand.

  (** *** generics, predicates, the type applied to its own parameters *)
  Lemma tbounds_sound bs : all_p tbound_okS bs -> toks_ok (r_tbounds bs).
  Proof.
    intros H. unfold r_tbounds. apply Ok_sep_by; [okc|]. apply all_p_Forall in H. apply Forall_map_in. intros b Hb.
    rewrite Forall_forall in H. specialize (H b Hb). destruct b as [m lead segs|l]; cbn [r_tbound tbound_okS] in *.
    - apply Ok_app; [destruct m; okc|]. apply Ok_app; [destruct lead; okc|]. apply Ok_sep_by; [okc|].
      apply all_p_Forall in H. apply Forall_map_in. intros [n a] Hs. rewrite Forall_forall in H.
      pose proof (ty_sound (TyPath None false [Seg n a])) as T. cbn [ty_okS all_p r_ty sep_by map] in T.
      cbn [app] in T. apply T. split; [exact I|]. split; [exact (H _ Hs)|exact I].
    - apply Ok_cons; [exact H|constructor].
  Qed.

  Lemma wpred_sound p : wpred_okS p -> toks_ok (r_wpred p).
  Proof.
    destruct p as [t bs|l ls]; cbn [r_wpred wpred_okS]; intros [H1 H2].
    - apply Ok_app; [now apply ty_sound|]. apply Ok_app; [okc|now apply tbounds_sound].
    - apply Ok_cons; [exact H1|]. apply Ok_cons; [left; reflexivity|]. apply Ok_sep_by; [okc|now apply names_ok].
  Qed.

  Lemma Forall_lts_first (P : gparam -> Prop) ps : Forall P ps -> Forall P (lts_first ps).
  Proof.
    intros H. unfold lts_first. apply Forall_app. split; apply Forall_forall; intros x Hx;
      apply filter_In in Hx as [Hx _]; rewrite Forall_forall in H; auto.
  Qed.

  Lemma impl_g_sound g : generics_okS g -> toks_ok (r_impl_g g).
  Proof.
    intros [Hp _]. unfold r_impl_g. destruct (g_params g) as [|p ps] eqn:E; [constructor|]. rewrite <- E in *.
    apply all_p_Forall in Hp. apply Ok_app; [okc|]. apply Ok_app; [|okc]. apply Ok_sep_by; [okc|].
    apply Forall_map_in. intros x Hx. pose proof (Forall_lts_first _ _ Hp) as Hl. rewrite Forall_forall in Hl.
    specialize (Hl x Hx). destruct x; cbn [r_gparam_impl r_gparam_full gparam_okS] in *.
    - destruct Hl as [H1 H2]. apply Ok_app; [apply Ok_cons; [exact H1|constructor]|].
      destruct bounds; [constructor|]. apply Ok_app; [okc|]. apply Ok_sep_by; [okc|now apply names_ok].
    - destruct Hl as (H1 & H2 & _). apply Ok_app; [apply Ok_cons; [exact H1|constructor]|].
      destruct bounds; [constructor|]. apply Ok_app; [okc|now apply tbounds_sound].
    - destruct Hl as (H1 & H2 & _). apply Ok_cons; [left; reflexivity|]. apply Ok_cons; [exact H1|].
      apply Ok_cons; [left; reflexivity|]. now apply ty_sound.
  Qed.

  Lemma where_decl_sound g : generics_okS g -> toks_ok (r_where_decl g).
  Proof.
    intros [_ Hw]. unfold r_where_decl. destruct (g_where g) as [|p ps] eqn:E; [constructor|]. rewrite <- E in *.
    apply Ok_app; [okc|]. apply Ok_sep_by; [okc|]. apply all_p_Forall in Hw. apply Forall_map_in. intros x Hx.
    rewrite Forall_forall in Hw. now apply wpred_sound, Hw.
  Qed.

  Lemma param_name_okS p : gparam_okS p -> garg_okS (garg_of_param p).
  Proof.
    destruct p; cbn [gparam_okS garg_of_param garg_okS]; intros H.
    - exact (proj1 H).
    - cbn. split; [exact I|]. split; [split; [exact (proj1 H)|exact I]|exact I].
    - cbn. split; [exact I|]. split; [split; [exact (proj1 H)|exact I]|exact I].
  Qed.

  Lemma this_ty_okS name g : oknm name -> generics_okS g -> ty_okS (this_ty_of name g).
  Proof.
    intros Hn [Hp _]. unfold this_ty_of. cbn [ty_okS all_p seg_okS]. split; [exact I|]. split; [|exact I]. split; [exact Hn|].
    destruct (g_params g) as [|p ps] eqn:E; [exact I|]. rewrite <- E in *. cbn [segargs_okS].
    apply all_p_Forall. apply all_p_Forall in Hp. apply Forall_map_in. intros x Hx.
    pose proof (Forall_lts_first _ _ Hp) as Hl. rewrite Forall_forall in Hl. now apply param_name_okS, Hl.
  Qed.

  (** *** the where-clause rules only move the user's bounds and field types around *)
  Definition bounds_okS (b : bounds) : Prop := Forall ty_okS (b_ty b) /\ Forall wpred_okS (b_pred b).
  Definition contrib_okS (c : contrib) : Prop := Forall ty_okS (fst c) /\ Forall wpred_okS (snd c).

  Lemma cat_okS a b : contrib_okS a -> contrib_okS b -> contrib_okS (cat a b).
  Proof. intros [A1 A2] [B1 B2]. split; cbn; apply Forall_app; split; assumption. Qed.
  Lemma cnil_okS : contrib_okS cnil.
  Proof. split; constructor. Qed.
  Lemma concat_contrib_okS l : Forall contrib_okS l -> contrib_okS (concat_contrib l).
  Proof. induction 1; cbn; [apply cnil_okS|]. now apply cat_okS. Qed.

  Lemma resolve_okS ls c : Forall bounds_okS ls -> contrib_okS (fst (resolve ls c)).
  Proof.
    intros H. revert c. induction H as [|b ls Hb _ IH]; intros c; cbn; [apply cnil_okS|].
    destruct c; [|apply cnil_okS]. specialize (IH (b_default b)). destruct (resolve ls (b_default b)) as [c' k]. cbn in *.
    apply cat_okS; [exact Hb|exact IH].
  Qed.

  Definition fplan_okS (f : fplan) : Prop := Forall bounds_okS (fp_levels f) /\ ty_okS (fp_ty f).
  Definition vplan_okS (v : vplan) : Prop := Forall bounds_okS (vp_levels v) /\ Forall fplan_okS (vp_fields v).

  Lemma field_contrib_okS gps c f : fplan_okS f -> contrib_okS (field_contrib gps c f).
  Proof.
    intros [Hl Ht]. unfold field_contrib. pose proof (resolve_okS (fp_levels f) c Hl) as H.
    destruct (resolve (fp_levels f) c) as [c' k]. cbn in H. apply cat_okS; [exact H|].
    split; cbn; [|constructor]. destruct (k && fp_used f && contains_in_type gps (fp_ty f)); repeat constructor; exact Ht.
  Qed.

  Lemma variant_contrib_okS gps c v : vplan_okS v -> contrib_okS (variant_contrib gps c v).
  Proof.
    intros [Hl Hf]. unfold variant_contrib. pose proof (resolve_okS (vp_levels v) c Hl) as H.
    destruct (resolve (vp_levels v) c) as [c' k]. cbn in H. apply cat_okS; [exact H|].
    apply concat_contrib_okS. apply Forall_map_in. intros f Hin. apply field_contrib_okS.
    rewrite Forall_forall in Hf. now apply Hf.
  Qed.

  Theorem spec_where_okS g top vs :
    generics_okS g -> Forall bounds_okS top -> Forall vplan_okS vs ->
    Forall ty_okS (fst (spec_where g top vs)) /\ Forall wpred_okS (snd (spec_where g top vs)).
  Proof.
    intros [_ Hw] Ht Hv. unfold spec_where. pose proof (resolve_okS top true Ht) as H.
    destruct (resolve top true) as [c k]. cbn in H.
    assert (contrib_okS (cat c (concat_contrib (map (variant_contrib (gps_new g) k) vs)))) as [R1 R2].
    { apply cat_okS; [exact H|]. apply concat_contrib_okS. apply Forall_map_in. intros v Hin. apply variant_contrib_okS.
      rewrite Forall_forall in Hv. now apply Hv. }
    cbn [fst snd]. split; [exact R1|]. apply Forall_app. split; [now apply all_p_Forall|exact R2].
  Qed.

  (** *** a header whose generics / type / where-clause are such pieces is [hdr_ok] *)
  Theorem hdr_pieces_ok h name g :
    oknm name -> generics_okS g ->
    (ih_generics h = g \/ ih_generics h = expand_self_generics (this_ty_of name g) g) ->
    ih_this h = this_ty_of name g ->
    Forall ty_okS (ih_wtypes h) -> Forall wpred_okS (ih_wpreds h) ->
    hdr_ok user h.
  Proof.
    intros Hn Hg Hgen Hthis Ht Hp. pose proof (this_ty_okS name g Hn Hg) as Hty.
    repeat split.
    - destruct Hgen as [->| ->]; apply impl_g_sound; [exact Hg|now apply expand_self_okS_generics].
    - rewrite Hthis. now apply ty_sound.
    - apply Forall_forall. intros t Hin. rewrite Forall_forall in Ht. now apply ty_sound, Ht.
    - apply Forall_forall. intros p Hin. rewrite Forall_forall in Hp. now apply wpred_sound, Hp.
  Qed.
End Hdr.
