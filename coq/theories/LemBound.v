(** * LemBound: the threaded `use_bounds` flag of the generator computes the documented resolution *)
From DX Require Import Syntax Tables GenBound GenAttrs IR GenType GenCmp GenImpl GenTop SpecAttrs SpecBound LemDump.

Definition wadd (w : wcb) (c : contrib) : wcb :=
  {| w_types := w_types w ++ fst c; w_preds := w_preds w ++ snd c; w_gps := w_gps w |}.

Lemma wadd_cnil w : wadd w cnil = w.
Proof. destruct w; unfold wadd; cbn. now rewrite !app_nil_r. Qed.
Lemma wadd_cat w a b : wadd (wadd w a) b = wadd w (cat a b).
Proof. unfold wadd, cat; cbn. now rewrite !app_assoc. Qed.
Lemma wadd_gps w c : w_gps (wadd w c) = w_gps w.
Proof. reflexivity. Qed.
Lemma cat_cnil_l c : cat cnil c = c.
Proof. destruct c; reflexivity. Qed.
Lemma cat_cnil_r c : cat c cnil = c.
Proof. destruct c; unfold cat; cbn. now rewrite !app_nil_r. Qed.
Lemma cat_assoc a b c : cat (cat a b) c = cat a (cat b c).
Proof. unfold cat; cbn. now rewrite !app_assoc. Qed.

Lemma push_bounds_wadd w b : push_bounds w b = (wadd w (b_ty b, b_pred b), b_default b).
Proof. reflexivity. Qed.

(** pushing a list of levels while the flag is up *)
Fixpoint push_levels (ls : list bounds) (st : wcb * bool) : wcb * bool :=
  match ls with
  | [] => st
  | b :: rest => if snd st then push_levels rest (push_bounds (fst st) b) else (fst st, false)
  end.

Lemma push_levels_resolve ls w c :
  push_levels ls (w, c) = (wadd w (fst (resolve ls c)), snd (resolve ls c)).
Proof.
  revert w c. induction ls as [|b ls IH]; intros w c; cbn.
  - now rewrite wadd_cnil.
  - destruct c; cbn.
    + rewrite push_bounds_wadd, IH. destruct (resolve ls (b_default b)) as [c' k]; cbn.
      now rewrite wadd_cat.
    + now rewrite wadd_cnil.
Qed.

Lemma resolve_false ls : resolve ls false = (cnil, false).
Proof. destruct ls; reflexivity. Qed.

Lemma resolve_app l1 l2 c :
  resolve (l1 ++ l2) c
  = (cat (fst (resolve l1 c)) (fst (resolve l2 (snd (resolve l1 c)))), snd (resolve l2 (snd (resolve l1 c)))).
Proof.
  revert c. induction l1 as [|b l1 IH]; intros c; cbn.
  - rewrite cat_cnil_l. now destruct (resolve l2 c).
  - destruct c; cbn.
    + rewrite IH. destruct (resolve l1 (b_default b)) as [c1 k1]; cbn.
      destruct (resolve l2 k1) as [c2 k2]; cbn. now rewrite cat_assoc.
    + now rewrite resolve_false.
Qed.

Lemma push_levels_app l1 l2 st : push_levels (l1 ++ l2) st = push_levels l2 (push_levels l1 st).
Proof.
  revert st. induction l1 as [|b l1 IH]; intros [w c]; cbn; [reflexivity|].
  destruct c; cbn; [apply IH|]. destruct l2; reflexivity.
Qed.

(** ** the generator's chain functions are [push_levels] *)
Lemma entry_push_levels e w :
  entry_push_bounds_to e w = push_levels [en_this e; en_common e] (w, true).
Proof.
  unfold entry_push_bounds_to. cbn. destruct (b_default (en_this e)); reflexivity.
Qed.

Lemma cmp_push_levels c op w :
  cmp_push_bounds c op w
  = push_levels (map (fun a => c_bounds (cmp_get c a)) (specific_first op)) (w, true).
Proof.
  unfold cmp_push_bounds, specific_first, cmp_variants. destruct op; cbn;
    repeat match goal with |- context [if b_default ?x then _ else _] => destruct (b_default x); cbn end;
    reflexivity.
Qed.

Lemma push_levels_false l w : push_levels l (w, false) = (w, false).
Proof. destruct l; reflexivity. Qed.
Lemma push_levels_one b w : push_levels [b] (w, true) = push_bounds w b.
Proof. reflexivity. Qed.

Lemma helper_step_levels h k w :
  match k return wcb * bool with
  | KCmp o => cmp_push_bounds (ha_cmp h) o w
  | KDebug => push_bounds w (g_bounds (ha_debug h))
  | KDefault => match ha_default h with Some a => push_bounds w (d_bounds a) | None => (w, true) end
  | _ => (w, true)
  end = push_levels (helper_levels k h) (w, true).
Proof.
  destruct k; try reflexivity.
  - apply cmp_push_levels.
  - cbn [helper_levels]. destruct (ha_default h); reflexivity.
Qed.

Lemma arg_step_levels h k w (ub : bool) :
  (if ub then match items_get (ha_items h) k with
             | Some a => entry_push_bounds_to a w
             | None => (w, ub)
             end
   else (w, ub)) = push_levels (arg_levels k h) (w, ub).
Proof.
  unfold arg_levels. destruct ub.
  - destruct (items_get (ha_items h) k) as [a|]; [apply entry_push_levels | reflexivity].
  - now rewrite push_levels_false.
Qed.

Lemma push_bounds_to_raw_levels h ub use_helper k w :
  push_bounds_to_raw h ub use_helper k w
  = push_levels ((if use_helper then helper_levels k h else []) ++ arg_levels k h) (w, ub).
Proof.
  unfold push_bounds_to_raw. rewrite push_levels_app.
  destruct ub, use_helper; cbn [andb].
  - rewrite (helper_step_levels h k w).
    destruct (push_levels (helper_levels k h) (w, true)) as [w' ub']. apply arg_step_levels.
  - cbn [push_levels]. apply (arg_step_levels h k w true).
  - rewrite push_levels_false. apply (arg_step_levels h k w false).
  - cbn [push_levels]. apply (arg_step_levels h k w false).
Qed.

Lemma hattrs_push_levels h ub k w :
  hattrs_push_bounds_to h ub k w = push_levels (position_levels k h) (w, ub).
Proof. unfold hattrs_push_bounds_to. now rewrite push_bounds_to_raw_levels. Qed.

(** at type level the attributes are parsed without `derive_ex`: no argument levels there *)
Lemma type_hattrs_no_items attrs t k h :
  k_derive_ex k = false -> hattrs_from_attrs attrs t k = Ok h -> ha_items h = [].
Proof.
  intros Hk H. unfold hattrs_from_attrs in H. rewrite Hk in H. cbn [bind] in H.
  repeat match type of H with
         | bind ?r _ = _ => destruct r; cbn [bind] in H; try discriminate
         end.
  now inversion H.
Qed.

Lemma entry_push_with_levels e h k w :
  ha_items h = [] ->
  entry_push_bounds_to_with e h k w = push_levels (top_levels k e h) (w, true).
Proof.
  intros Hi. unfold entry_push_bounds_to_with, top_levels. rewrite push_levels_app.
  rewrite hattrs_push_levels. unfold position_levels, arg_levels. rewrite Hi. cbn [items_get].
  rewrite app_nil_r.
  destruct (push_levels (helper_levels k h) (w, true)) as [w' ub]. destruct ub; cbn.
  - destruct (b_default (en_this e)); reflexivity.
  - reflexivity.
Qed.

Definition where_of (w : wcb) : list ty * list wpred := (w_types w, w_preds w).

Lemma spec_where_wadd g top vs :
  spec_where g top vs
  = where_of (wadd (wcb_new g)
                   (cat (fst (resolve top true))
                        (concat_contrib (map (variant_contrib (gps_new g) (snd (resolve top true))) vs)))).
Proof. unfold spec_where, where_of. destruct (resolve top true) as [c k]. reflexivity. Qed.

(** ** fields *)
Lemma wadd_nil w : wadd w ([], []) = w.
Proof. apply wadd_cnil. Qed.

Lemma field_push_contrib ls used t st :
  (let '(w, ub) := push_levels ls st in if ub && used then push_bounds_for_field w t else w)
  = wadd (fst st) (field_contrib (w_gps (fst st)) (snd st) {| fp_levels := ls; fp_ty := t; fp_used := used |}).
Proof.
  destruct st as [w c]. rewrite push_levels_resolve. unfold field_contrib. cbn [fp_levels fp_ty fp_used fst snd].
  destruct (resolve ls c) as [cc k]. cbn [fst snd]. unfold push_bounds_for_field. rewrite wadd_gps.
  destruct k, used; cbn [andb]; try (now rewrite <- wadd_cat, (wadd_nil (wadd w cc))).
  destruct (contains_in_type (w_gps w) t).
  - rewrite <- wadd_cat. unfold wadd. cbn [fst snd w_types w_preds w_gps]. now rewrite app_nil_r.
  - now rewrite <- wadd_cat, (wadd_nil (wadd w cc)).
Qed.

Lemma fentry_push_contrib f ub k w :
  fentry_push_bounds_to f ub k w = wadd w (field_contrib (w_gps w) ub (fplan_all k f)).
Proof.
  unfold fentry_push_bounds_to, fplan_all. rewrite hattrs_push_levels.
  pose proof (field_push_contrib (position_levels k (fe_hattrs f)) true (fty f) (w, ub)) as H.
  cbn [fst snd] in H. rewrite <- H.
  destruct (push_levels _ (w, ub)) as [w' ub']. now rewrite andb_true_r.
Qed.

Lemma push_fields_contrib fs ub k w :
  push_fields fs ub k w
  = wadd w (concat_contrib (map (field_contrib (w_gps w) ub) (map (fplan_all k) fs))).
Proof.
  unfold push_fields. revert w. induction fs as [|f fs IH]; intros w; cbn.
  - now rewrite wadd_cnil.
  - rewrite IH, fentry_push_contrib, wadd_gps, wadd_cat. reflexivity.
Qed.

(** ** Clone / Copy / operators *)
Definition where_is (h : impl_hdr) (r : list ty * list wpred) : Prop :=
  (ih_wtypes h, ih_wpreds h) = r.

Lemma variant_contrib_nolevels gps c fps :
  variant_contrib gps c {| vp_levels := []; vp_fields := fps |}
  = concat_contrib (map (field_contrib gps c) fps).
Proof. unfold variant_contrib. cbn. now rewrite cat_cnil_l. Qed.

Lemma struct_fields_where g e k fs :
  let '(w, ub) := entry_push_bounds_to e (wcb_new g) in
  where_of (push_fields fs ub k w)
  = spec_where g [en_this e; en_common e] (struct_plan (fplan_all k) fs).
Proof.
  rewrite entry_push_levels, push_levels_resolve, spec_where_wadd.
  destruct (resolve [en_this e; en_common e] true) as [c ub]. cbn [fst snd].
  rewrite push_fields_contrib, wadd_gps, wadd_cat. unfold struct_plan. cbn [map concat_contrib fold_right].
  rewrite variant_contrib_nolevels, cat_cnil_r. reflexivity.
Qed.

Lemma clone_struct_where s e fs ir :
  build_clone_for_struct s e fs = Ok [ir] ->
  where_is (ir_hdr ir) (spec_where (s_generics s) [en_this e; en_common e] (struct_plan (fplan_all KClone) fs)).
Proof.
  unfold build_clone_for_struct. pose proof (struct_fields_where (s_generics s) e KClone fs) as H.
  destruct (entry_push_bounds_to e (wcb_new (s_generics s))) as [w ub]. intros X; inversion X; subst.
  exact H.
Qed.

Lemma copy_struct_where s e fs ir :
  build_copy_for_struct s e fs = Ok [ir] ->
  where_is (ir_hdr ir) (spec_where (s_generics s) [en_this e; en_common e] (struct_plan (fplan_all KCopy) fs)).
Proof.
  unfold build_copy_for_struct. pose proof (struct_fields_where (s_generics s) e KCopy fs) as H.
  destruct (entry_push_bounds_to e (wcb_new (s_generics s))) as [w ub]. intros X; inversion X; subst.
  exact H.
Qed.

(** operators: every generated form carries the same bounded types / predicates, over the
    generics with `Self` expanded *)

Lemma binary_op_where s op e fs irs ir :
  build_binary_op s op e fs = Ok irs -> In ir irs ->
  where_is (ir_hdr ir) (spec_where (op_generics s) [en_this e; en_common e] (struct_plan (fplan_all (KBin op)) fs)).
Proof.
  unfold build_binary_op. pose proof (struct_fields_where (op_generics s) e (KBin op) fs) as H.
  unfold op_generics in *.
  destruct (entry_push_bounds_to e (wcb_new _)) as [w ub]. intros X; inversion X; subst. clear X.
  intros [<-|[<-|[<-|[<-|[]]]]]; exact H.
Qed.
Lemma assign_op_where s op e fs irs ir :
  build_assign_op s op e fs = Ok irs -> In ir irs ->
  where_is (ir_hdr ir) (spec_where (op_generics s) [en_this e; en_common e] (struct_plan (fplan_all (KAssign op)) fs)).
Proof.
  unfold build_assign_op. pose proof (struct_fields_where (op_generics s) e (KAssign op) fs) as H.
  unfold op_generics in *.
  destruct (entry_push_bounds_to e (wcb_new _)) as [w ub]. intros X; inversion X; subst. clear X.
  intros [<-|[<-|[]]]; exact H.
Qed.
Lemma unary_op_where s op e fs irs ir :
  build_unary_op s op e fs = Ok irs -> In ir irs ->
  where_is (ir_hdr ir) (spec_where (op_generics s) [en_this e; en_common e] (struct_plan (fplan_all (KUn op)) fs)).
Proof.
  unfold build_unary_op. pose proof (struct_fields_where (op_generics s) e (KUn op) fs) as H.
  unfold op_generics in *.
  destruct (entry_push_bounds_to e (wcb_new _)) as [w ub]. intros X; inversion X; subst. clear X.
  intros [<-|[<-|[]]]; exact H.
Qed.

(** ** folding over variants *)
Lemma fold_wadd {A} (F : wcb -> A -> wcb) (G : list string -> A -> contrib) (l : list A) :
  (forall w a, F w a = wadd w (G (w_gps w) a)) ->
  forall w, fold_left F l w = wadd w (concat_contrib (map (G (w_gps w)) l)).
Proof.
  intros H. induction l as [|a l IH]; intros w; cbn.
  - now rewrite wadd_cnil.
  - rewrite IH, H, wadd_gps, wadd_cat. reflexivity.
Qed.

Definition no_helper (k : kind) : bool :=
  match k with KCmp _ | KDebug | KDefault => false | _ => true end.

Lemma raw_nohelper_levels h ub k w :
  no_helper k = true ->
  push_bounds_to_raw h ub false k w = push_levels (position_levels k h) (w, ub).
Proof.
  intros Hk. rewrite push_bounds_to_raw_levels. unfold position_levels.
  destruct k; try discriminate Hk; reflexivity.
Qed.

Lemma variant_all_contrib k v ub w :
  (let '(w', ubv) := push_levels (position_levels k (ve_hattrs v)) (w, ub) in
   push_fields (ve_fields v) ubv k w')
  = wadd w (variant_contrib (w_gps w) ub
              {| vp_levels := position_levels k (ve_hattrs v);
                 vp_fields := map (fplan_all k) (ve_fields v) |}).
Proof.
  rewrite push_levels_resolve. unfold variant_contrib. cbn [vp_levels vp_fields].
  destruct (resolve (position_levels k (ve_hattrs v)) ub) as [c ubv]. cbn [fst snd].
  now rewrite push_fields_contrib, wadd_gps, wadd_cat.
Qed.

Lemma enum_all_where g e k vs :
  no_helper k = true ->
  let '(w, ub) := entry_push_bounds_to e (wcb_new g) in
  where_of (fold_left (fun w v => let '(w, ubv) := push_bounds_to_raw (ve_hattrs v) ub false k w in
                                  push_fields (ve_fields v) ubv k w) vs w)
  = spec_where g [en_this e; en_common e] (enum_plan k (fplan_all k) (fun fs => fs) vs).
Proof.
  intros Hk. rewrite entry_push_levels, push_levels_resolve, spec_where_wadd.
  destruct (resolve [en_this e; en_common e] true) as [c ub]. cbn [fst snd].
  rewrite (fold_wadd _ (fun gps v => variant_contrib gps ub
                                       {| vp_levels := position_levels k (ve_hattrs v);
                                          vp_fields := map (fplan_all k) (ve_fields v) |})).
  - rewrite wadd_gps, wadd_cat. unfold enum_plan. now rewrite map_map.
  - intros w v. rewrite raw_nohelper_levels by exact Hk. apply variant_all_contrib.
Qed.

Lemma clone_enum_where en e vs ir :
  build_clone_for_enum en e vs = Ok [ir] ->
  where_is (ir_hdr ir) (spec_where (e_generics en) [en_this e; en_common e]
                                   (enum_plan KClone (fplan_all KClone) (fun fs => fs) vs)).
Proof.
  unfold build_clone_for_enum. pose proof (enum_all_where (e_generics en) e KClone vs eq_refl) as H.
  destruct (entry_push_bounds_to e (wcb_new (e_generics en))) as [w ub]. intros X; inversion X; subst.
  exact H.
Qed.
Lemma copy_enum_where en e vs ir :
  build_copy_for_enum en e vs = Ok [ir] ->
  where_is (ir_hdr ir) (spec_where (e_generics en) [en_this e; en_common e]
                                   (enum_plan KCopy (fplan_all KCopy) (fun fs => fs) vs)).
Proof.
  unfold build_copy_for_enum. pose proof (enum_all_where (e_generics en) e KCopy vs eq_refl) as H.
  destruct (entry_push_bounds_to e (wcb_new (e_generics en))) as [w ub]. intros X; inversion X; subst.
  exact H.
Qed.

(** ** Deref: no field contributes *)
Lemma deref_where s e fs ir :
  build_deref_for_struct s e fs = Ok [ir] ->
  where_is (ir_hdr ir) (spec_where (s_generics s) [en_this e; en_common e] []).
Proof.
  unfold build_deref_for_struct. rewrite entry_push_levels, push_levels_resolve, spec_where_wadd.
  destruct (resolve [en_this e; en_common e] true) as [c ub]. cbn [fst snd map concat_contrib fold_right].
  rewrite cat_cnil_r.
  destruct fs as [|f [|f' fs]]; try discriminate.
  destruct (en_kind e); cbn; try discriminate; intros X; inversion X; subst; reflexivity.
Qed.

(** ** Debug *)
Lemma find_transparent_spec fs found r :
  find_transparent fs found = Ok r ->
  r = match found with
      | Some f => Some f
      | None => find (fun f => g_transparent (ha_debug (fe_hattrs f))) fs
      end.
Proof.
  revert found r. induction fs as [|f fs IH]; intros found r H; cbn in *.
  - injection H as <-. now destruct found.
  - destruct (g_transparent (ha_debug (fe_hattrs f))) eqn:Et.
    + destruct found; [discriminate|]. apply IH in H. exact H.
    + apply IH in H. exact H.
Qed.

Lemma debug_expr_contrib name src fs ub w d w' :
  build_debug_expr name src fs ub w = Ok (d, w') ->
  w' = wadd w (concat_contrib (map (field_contrib (w_gps w) ub) (map (fplan_all KDebug) (debug_fields fs)))).
Proof.
  unfold build_debug_expr. destruct (find_transparent fs None) as [tf| |] eqn:Ef; cbn; try discriminate.
  apply find_transparent_spec in Ef. unfold debug_fields. rewrite <- Ef.
  destruct tf as [f|]; intros X; inversion X; subst.
  - rewrite fentry_push_contrib. cbn [map concat_contrib fold_right]. now rewrite cat_cnil_r.
  - now rewrite push_fields_contrib.
Qed.

Lemma debug_struct_where s e h fs ir :
  ha_items h = [] ->
  build_debug_for_struct s e h fs = Ok [ir] ->
  where_is (ir_hdr ir) (spec_where (s_generics s) (top_levels KDebug e h)
                                   (struct_plan (fplan_all KDebug) (debug_fields fs))).
Proof.
  intros Hi. unfold build_debug_for_struct. rewrite entry_push_with_levels by exact Hi.
  rewrite push_levels_resolve, spec_where_wadd.
  destruct (resolve (top_levels KDebug e h) true) as [c ub]. cbn [fst snd].
  destruct (build_debug_expr _ _ _ _ _) as [[d w']| |] eqn:Ed; cbn; try discriminate.
  apply debug_expr_contrib in Ed. intros X; inversion X; subst. unfold where_is, mk_hdr.
  cbn [ir_hdr ih_wtypes ih_wpreds].
  rewrite wadd_gps, wadd_cat. unfold struct_plan. cbn [map concat_contrib fold_right].
  rewrite ?variant_contrib_nolevels, ?cat_cnil_l, ?cat_cnil_r. reflexivity.
Qed.

Lemma debug_arms_contrib vs ub w arms w' :
  debug_arms vs ub w = Ok (arms, w') ->
  w' = wadd w (concat_contrib (map (variant_contrib (w_gps w) ub)
                                   (enum_plan KDebug (fplan_all KDebug) debug_fields vs))).
Proof.
  revert w arms w'. induction vs as [|v vs IH]; intros w arms w' H; cbn [debug_arms] in H.
  - inversion H. cbn. now rewrite wadd_cnil.
  - rewrite hattrs_push_levels, push_levels_resolve in H.
    destruct (resolve (position_levels KDebug (ve_hattrs v)) ub) as [c ubv] eqn:Er. cbn [fst snd] in H.
    destruct (build_debug_expr _ _ _ _ _) as [[d w1]| |] eqn:Ed; cbn in H; try discriminate.
    apply debug_expr_contrib in Ed.
    destruct (debug_arms vs ub w1) as [[arms' w2]| |] eqn:Ea; cbn in H; try discriminate.
    apply IH in Ea. inversion H; subst. cbn [enum_plan map concat_contrib fold_right].
    rewrite !wadd_gps, !wadd_cat.
    match goal with |- context [variant_contrib ?g ?u {| vp_levels := ?l; vp_fields := ?F |}] =>
      assert (E : variant_contrib g u {| vp_levels := l; vp_fields := F |}
                  = cat c (concat_contrib (map (field_contrib g ubv) F)))
        by (unfold variant_contrib; cbn [vp_levels vp_fields]; now rewrite Er);
      rewrite E
    end.
    rewrite cat_assoc. reflexivity.
Qed.

Lemma debug_enum_where en e h vs ir :
  ha_items h = [] ->
  build_debug_for_enum en e h vs = Ok [ir] ->
  where_is (ir_hdr ir) (spec_where (e_generics en) (top_levels KDebug e h)
                                   (enum_plan KDebug (fplan_all KDebug) debug_fields vs)).
Proof.
  intros Hi. unfold build_debug_for_enum. rewrite entry_push_with_levels by exact Hi.
  rewrite push_levels_resolve, spec_where_wadd.
  destruct (resolve (top_levels KDebug e h) true) as [c ub]. cbn [fst snd].
  destruct (debug_arms _ _ _) as [[arms w']| |] eqn:Ed; cbn; try discriminate.
  apply debug_arms_contrib in Ed. intros X; inversion X; subst. unfold where_is, mk_hdr.
  cbn [ir_hdr ih_wtypes ih_wpreds].
  now rewrite wadd_gps, wadd_cat.
Qed.

(** ** Default *)
Lemma default_value_none h t :
  match hattrs_default_value h t with None => true | Some _ => false end = negb (has_default_value h).
Proof.
  unfold hattrs_default_value, has_default_value, default_attr_value.
  destruct (ha_default h) as [a|]; [|reflexivity]. destruct (d_value a); reflexivity.
Qed.

Lemma default_ctor_contrib fs ub w args w' :
  build_default_ctor_args fs ub w = (args, w') ->
  w' = wadd w (concat_contrib (map (field_contrib (w_gps w) ub) (map fplan_default fs))).
Proof.
  revert w args w'. induction fs as [|f fs IH]; intros w args w' H; cbn [build_default_ctor_args] in H.
  - inversion H. cbn. now rewrite wadd_cnil.
  - rewrite hattrs_push_levels in H.
    pose proof (field_push_contrib (position_levels KDefault (fe_hattrs f))
                  (negb (has_default_value (fe_hattrs f))) (fty f) (w, ub)) as Hf.
    cbn [fst snd] in Hf.
    destruct (push_levels (position_levels KDefault (fe_hattrs f)) (w, ub)) as [w1 ubf].
    rewrite default_value_none in H. fold (fty f) in H. rewrite Hf in H.
    destruct (build_default_ctor_args fs ub _) as [args' w2] eqn:Er.
    apply IH in Er. inversion H; subst. cbn [map concat_contrib fold_right].
    now rewrite wadd_gps, wadd_cat.
Qed.

Lemma default_struct_where s e h fs ir :
  ha_items h = [] ->
  build_default_for_struct s e h fs = Ok [ir] ->
  where_is (ir_hdr ir)
    (spec_where (s_generics s) (top_levels KDefault e h)
       (if has_default_value h then [] else struct_plan fplan_default fs)).
Proof.
  intros Hi. unfold build_default_for_struct. rewrite entry_push_with_levels by exact Hi.
  rewrite push_levels_resolve, spec_where_wadd.
  destruct (resolve (top_levels KDefault e h) true) as [c ub]. cbn [fst snd].
  pose proof (default_value_none h self_ty_kw) as Hv.
  destruct (hattrs_default_value h self_ty_kw) as [v|].
  - destruct (has_default_value h); [|discriminate Hv].
    intros X; inversion X; subst. unfold where_is, mk_hdr. cbn [ir_hdr ih_wtypes ih_wpreds map concat_contrib fold_right].
    now rewrite cat_cnil_r.
  - destruct (has_default_value h); [discriminate Hv|].
    destruct (build_default_ctor_args fs ub _) as [args w'] eqn:Er. apply default_ctor_contrib in Er.
    intros X; inversion X; subst. unfold where_is, mk_hdr. cbn [ir_hdr ih_wtypes ih_wpreds].
    rewrite wadd_gps, wadd_cat. unfold struct_plan. cbn [map concat_contrib fold_right].
    rewrite ?variant_contrib_nolevels, ?cat_cnil_l, ?cat_cnil_r. reflexivity.
Qed.

Lemma marked_filter vs :
  map fst (flat_map (fun v => match ha_default (ve_hattrs v) with Some a => [(v, a)] | None => [] end) vs)
  = filter is_marked_default vs.
Proof.
  induction vs as [|v vs IH]; cbn; [reflexivity|]. unfold is_marked_default at 1.
  destruct (ha_default (ve_hattrs v)); cbn; now rewrite IH.
Qed.

Lemma default_enum_where en e h vs ir :
  ha_items h = [] ->
  build_default_for_enum en e h vs = Ok [ir] ->
  (has_default_value h = true /\
   where_is (ir_hdr ir) (spec_where (e_generics en) (top_levels KDefault e h) [])) \/
  (has_default_value h = false /\ exists v,
     default_variant vs = Some v /\
     where_is (ir_hdr ir) (spec_where (e_generics en) (top_levels KDefault e h) [default_vplan v])).
Proof.
  intros Hi. unfold build_default_for_enum. cbv zeta. rewrite entry_push_with_levels by exact Hi.
  rewrite push_levels_resolve.
  pose proof (spec_where_wadd (e_generics en) (top_levels KDefault e h)) as SW.
  destruct (resolve (top_levels KDefault e h) true) as [c ub]. cbn [fst snd] in *.
  pose proof (default_value_none h self_ty_kw) as Hv.
  destruct (hattrs_default_value h self_ty_kw) as [dv|].
  - destruct (has_default_value h); [|discriminate Hv]. cbn [bind].
    intros X; inversion X; subst. left. split; [reflexivity|]. rewrite SW.
    unfold where_is, mk_hdr. cbn [ir_hdr ih_wtypes ih_wpreds map concat_contrib fold_right].
    now rewrite cat_cnil_r.
  - destruct (has_default_value h); [discriminate Hv|]. intros H. right. split; [reflexivity|].
    pose proof (marked_filter vs) as Hm.
    set (marked := flat_map _ vs) in *.
    assert (Hsel : forall v a,
               match marked with
               | [] => match vs with [v0] => Ok (v0, {| d_value := None; d_bounds := bounds_new |}) | _ => Err no_default_variant_msg end
               | [va] => Ok va
               | _ => Err (multi_default_msg (map (fun va => v_name (ve_variant (fst va))) marked))
               end = Ok (v, a) -> default_variant vs = Some v).
    { intros v a Hs. unfold default_variant. rewrite <- Hm.
      destruct marked as [|[v1 a1] [|m2 ms]]; cbn [map fst].
      - destruct vs as [|v0 [|v1 vs']]; try discriminate. now inversion Hs.
      - now inversion Hs.
      - discriminate. }
    destruct (match marked with [] => _ | _ => _ end) as [[v a]| |] eqn:Es; cbn [bind] in H; try discriminate H.
    specialize (Hsel v a eq_refl).
    rewrite hattrs_push_levels, push_levels_resolve in H.
    destruct (resolve (position_levels KDefault (ve_hattrs v)) ub) as [cv ubv] eqn:Er. cbn [fst snd] in H.
    destruct (d_value a); [discriminate H|].
    destruct (build_default_ctor_args (ve_fields v) ubv _) as [args w'] eqn:Ec. apply default_ctor_contrib in Ec.
    cbn [bind] in H. inversion H; subst. exists v. split; [exact Hsel|]. rewrite SW.
    unfold where_is, mk_hdr. cbn [ir_hdr ih_wtypes ih_wpreds].
    rewrite !wadd_gps, !wadd_cat. cbn [map concat_contrib fold_right]. rewrite cat_cnil_r.
    unfold variant_contrib, default_vplan. cbn [vp_levels vp_fields]. rewrite Er. reflexivity.
Qed.

(** ** comparison traits *)
Lemma is_ignore_spec c op b : is_ignore c op = Ok b -> b = cmp_ignored op c.
Proof.
  unfold is_ignore, cmp_ignored, all_cmp, bad_flag. destruct op; cbn [existsb affects cmp_get andb orb];
    destruct (c_ignore (h_ord c)), (c_ignore (h_partial_ord c)), (c_ignore (h_eq c)),
      (c_ignore (h_partial_eq c)), (c_ignore (h_hash c)); cbn; intros H; inversion H; reflexivity.
Qed.

Definition sel_step (c : cmp_attrs) (a : cmpop) (allow_by : bool) : bool :=
  (allow_by && match c_by (cmp_get c a) with Some _ => true | None => false end)
  || match c_key (cmp_get c a) with Some _ => true | None => false end.

Fixpoint cut_steps (c : cmp_attrs) (l : list (cmpop * bool)) : list bounds :=
  match l with
  | [] => []
  | (a, ab) :: rest => c_bounds (cmp_get c a) :: if sel_step c a ab then [] else cut_steps c rest
  end.

Lemma attr_push_levels a st : attr_push a st = push_levels [c_bounds a] st.
Proof. destruct st as [w ub]. destruct ub; reflexivity. Qed.

Lemma push_levels_cons b L st : push_levels (b :: L) st = push_levels L (push_levels [b] st).
Proof. apply (push_levels_app [b] L). Qed.

Lemma chain_cut c l st :
  snd (chain c l st) = push_levels (cut_steps c l) st /\
  (match fst (chain c l st) with SelNone => true | _ => false end
   = negb (existsb (fun '(a, ab) => sel_step c a ab) l)).
Proof.
  revert st. induction l as [|[a ab] l IH]; intros st; cbn [chain cut_steps existsb].
  - split; reflexivity.
  - rewrite attr_push_levels. unfold sel_step.
    destruct ab; cbn [andb].
    + destruct (c_by (cmp_get c a)); cbn [orb snd fst negb].
      * split; reflexivity.
      * destruct (c_key (cmp_get c a)); cbn [orb snd fst negb]; [split; reflexivity |].
        rewrite (push_levels_cons (c_bounds (cmp_get c a)) (cut_steps c l)). apply IH.
    + destruct (c_key (cmp_get c a)); cbn [orb snd fst negb]; [split; reflexivity |].
      rewrite (push_levels_cons (c_bounds (cmp_get c a)) (cut_steps c l)). apply IH.
Qed.

Lemma cut_steps_spec op c : cut_steps c (steps op) = cut_after_selected op c (specific_first op).
Proof. destruct op; reflexivity. Qed.

Lemma sel_steps_spec op c :
  existsb (fun '(a, ab) => sel_step c a ab) (steps op) = field_selected op c.
Proof. destruct op; reflexivity. Qed.

Lemma build_expr_spec op f st e used st' :
  build_expr op f st = Ok (e, used, st') ->
  st' = push_levels (cut_after_selected op (ha_cmp (fe_hattrs f)) (specific_first op)) st /\
  used = negb (field_selected op (ha_cmp (fe_hattrs f))).
Proof.
  unfold build_expr. pose proof (chain_cut (ha_cmp (fe_hattrs f)) (steps op) st) as [H1 H2].
  rewrite cut_steps_spec in H1. rewrite sel_steps_spec in H2.
  destruct (chain (ha_cmp (fe_hattrs f)) (steps op) st) as [s st1]. cbn [fst snd] in *.
  destruct s; cbn in H2.
  - intros X; inversion X; subst. split; [reflexivity|]. exact H2.
  - intros X; inversion X; subst. split; [reflexivity|]. exact H2.
  - destruct (cmp_bad_attr _); [discriminate|]. intros X; inversion X; subst. split; [reflexivity|]. exact H2.
Qed.


Lemma from_fields_contrib op fs ub w l w' :
  build_from_fields op fs ub w = Ok (l, w') ->
  w' = wadd w (concat_contrib (map (field_contrib (w_gps w) ub) (map (fplan_cmp op) (cmp_used_fields op fs)))).
Proof.
  revert w l w'. induction fs as [|f fs IH]; intros w l w' H; cbn [build_from_fields] in H.
  - inversion H. cbn. now rewrite wadd_cnil.
  - destruct (is_ignore (ha_cmp (fe_hattrs f)) op) as [ign| |] eqn:Ei; cbn [bind] in H; try discriminate H.
    apply is_ignore_spec in Ei. unfold cmp_used_fields. cbn [filter]. rewrite <- Ei.
    destruct ign; cbn [negb].
    + apply IH in H. exact H.
    + destruct (build_expr op f (w, ub)) as [[[e used] [w1 ubf]]| |] eqn:Eb; cbn [bind] in H; try discriminate H.
      apply build_expr_spec in Eb as [Est Eused].
      destruct (match op with COrd | CPartialOrd => is_reverse _ op | _ => Ok false end) as [rev| |];
        cbn [bind] in H; try discriminate H.
      unfold hattrs_push_bounds_to_without_helper in H. rewrite push_bounds_to_raw_levels in H.
      cbn [app] in H.
      pose proof (field_push_contrib
                    (cut_after_selected op (ha_cmp (fe_hattrs f)) (specific_first op)
                     ++ arg_levels (KCmp op) (fe_hattrs f)) used (fty f) (w, ub)) as Hf.
      rewrite push_levels_app, <- Est in Hf. cbn [fst snd] in Hf.
      destruct (push_levels (arg_levels (KCmp op) (fe_hattrs f)) (w1, ubf)) as [w2 ubf2].
      fold (fty f) in H. rewrite Hf in H.
      destruct (build_from_fields op fs ub _) as [[r w3]| |] eqn:Er; cbn [bind] in H; try discriminate H.
      apply IH in Er. inversion H; subst. cbn [map concat_contrib fold_right].
      rewrite wadd_gps, wadd_cat. reflexivity.
Qed.

Lemma from_variants_contrib op vs ub w l w' :
  build_from_variants op vs ub w = Ok (l, w') ->
  w' = wadd w (concat_contrib (map (variant_contrib (w_gps w) ub)
                                   (enum_plan (KCmp op) (fplan_cmp op) (cmp_used_fields op) vs))).
Proof.
  revert w l w'. induction vs as [|v vs IH]; intros w l w' H; cbn [build_from_variants] in H.
  - inversion H. cbn. now rewrite wadd_cnil.
  - rewrite hattrs_push_levels, push_levels_resolve in H.
    destruct (resolve (position_levels (KCmp op) (ve_hattrs v)) ub) as [c ubv] eqn:Er. cbn [fst snd] in H.
    destruct (build_from_fields op (ve_fields v) ubv _) as [[b w1]| |] eqn:Eb; cbn [bind] in H; try discriminate H.
    apply from_fields_contrib in Eb.
    destruct (build_from_variants op vs ub w1) as [[r w2]| |] eqn:Ev; cbn [bind] in H; try discriminate H.
    apply IH in Ev. inversion H; subst. cbn [enum_plan map concat_contrib fold_right].
    rewrite !wadd_gps, !wadd_cat.
    match goal with |- context [variant_contrib ?g ?u {| vp_levels := ?l; vp_fields := ?F |}] =>
      assert (E : variant_contrib g u {| vp_levels := l; vp_fields := F |}
                  = cat c (concat_contrib (map (field_contrib g ubv) F)))
        by (unfold variant_contrib; cbn [vp_levels vp_fields]; now rewrite Er);
      rewrite E
    end.
    rewrite cat_assoc. reflexivity.
Qed.

Definition cmp_plan (op : cmpop) (src : source) : list vplan :=
  match src with
  | SrcStruct _ fs => struct_plan (fplan_cmp op) (cmp_used_fields op fs)
  | SrcEnum _ vs => enum_plan (KCmp op) (fplan_cmp op) (cmp_used_fields op) vs
  end.

Lemma compare_op_where op src e h ir :
  ha_items h = [] ->
  build_compare_op op src e h = Ok [ir] ->
  where_is (ir_hdr ir) (spec_where (decl_generics (KCmp op) (src_name src) (src_generics src))
                                   (top_levels (KCmp op) e h) (cmp_plan op src)).
Proof.
  intros Hi. unfold build_compare_op. cbv zeta.
  replace (match op with CEq => expand_self_generics (this_ty_of (src_name src) (src_generics src)) (src_generics src)
                    | _ => src_generics src end)
    with (decl_generics (KCmp op) (src_name src) (src_generics src)) by (destruct op; reflexivity).
  generalize (decl_generics (KCmp op) (src_name src) (src_generics src)) as g0. intros g0.
  rewrite entry_push_with_levels by exact Hi.
  rewrite push_levels_resolve, spec_where_wadd.
  destruct (resolve (top_levels (KCmp op) e h) true) as [c ub]. cbn [fst snd].
  destruct src as [s fs|en vs]; cbn [cmp_plan].
  - destruct (build_from_fields op fs ub _) as [[l w']| |] eqn:Eb; cbn [bind]; try discriminate.
    apply from_fields_contrib in Eb. intros X; inversion X; subst.
    unfold where_is, mk_hdr. cbn [ir_hdr ih_wtypes ih_wpreds].
    rewrite wadd_gps, wadd_cat. unfold struct_plan. cbn [map concat_contrib fold_right].
    rewrite ?variant_contrib_nolevels, ?cat_cnil_l, ?cat_cnil_r. reflexivity.
  - destruct (build_from_variants op vs ub _) as [[l w']| |] eqn:Eb; cbn [bind]; try discriminate.
    apply from_variants_contrib in Eb. intros X; inversion X; subst.
    unfold where_is, mk_hdr. cbn [ir_hdr ih_wtypes ih_wpreds].
    now rewrite wadd_gps, wadd_cat.
Qed.

(** ** all builders at once *)
Lemma top_levels_nohelper k e h : no_helper k = true -> top_levels k e h = [en_this e; en_common e].
Proof. intros H. unfold top_levels. destruct k; try discriminate H; reflexivity. Qed.

Lemma struct_entry_where s h fs e irs ir :
  ha_items h = [] ->
  build_struct_entry s h fs e = Ok irs -> In ir irs ->
  where_is (ir_hdr ir) (spec_struct_where s e h fs).
Proof.
  intros Hi Hb Hin. unfold build_struct_entry in Hb. unfold spec_struct_where.
  destruct (en_kind e) eqn:Ek; cbn [struct_decl_generics struct_vplans];
    rewrite ?top_levels_nohelper by reflexivity.
  - eapply binary_op_where; eassumption.
  - eapply assign_op_where; eassumption.
  - eapply unary_op_where; eassumption.
  - unfold build_compare_op in Hb.
    assert (exists x, irs = [x]) as [x ->].
    { revert Hb. cbv zeta. destruct (entry_push_bounds_to_with _ _ _ _) as [w ub].
      destruct (build_from_fields _ _ _ _) as [[l w']| |]; cbn [bind]; try discriminate.
      intros X; inversion X; eauto. }
    destruct Hin as [<-|[]]. apply (compare_op_where o (SrcStruct s fs) e h x Hi Hb).
  - assert (exists x, irs = [x]) as [x ->].
    { revert Hb. unfold build_copy_for_struct. cbv zeta. destruct (entry_push_bounds_to _ _) as [w ub].
      intros X; inversion X; eauto. }
    destruct Hin as [<-|[]]. now apply copy_struct_where.
  - assert (exists x, irs = [x]) as [x ->].
    { revert Hb. unfold build_clone_for_struct. cbv zeta. destruct (entry_push_bounds_to _ _) as [w ub].
      intros X; inversion X; eauto. }
    destruct Hin as [<-|[]]. now apply clone_struct_where.
  - assert (exists x, irs = [x]) as [x ->].
    { revert Hb. unfold build_debug_for_struct. cbv zeta. destruct (entry_push_bounds_to_with _ _ _ _) as [w ub].
      destruct (build_debug_expr _ _ _ _ _) as [[d w']| |]; cbn [bind]; try discriminate.
      intros X; inversion X; eauto. }
    destruct Hin as [<-|[]]. now apply debug_struct_where.
  - assert (exists x, irs = [x]) as [x ->].
    { revert Hb. unfold build_default_for_struct. cbv zeta. destruct (entry_push_bounds_to_with _ _ _ _) as [w ub].
      destruct (hattrs_default_value _ _); [|destruct (build_default_ctor_args _ _ _)];
        intros X; inversion X; eauto. }
    destruct Hin as [<-|[]]. now apply default_struct_where.
  - assert (exists x, irs = [x]) as [x ->].
    { revert Hb. unfold build_deref_for_struct. cbv zeta. destruct (entry_push_bounds_to _ _) as [w ub].
      destruct fs as [|f [|]]; try discriminate. rewrite Ek. cbn. intros X; inversion X; eauto. }
    destruct Hin as [<-|[]]. apply (deref_where s e _ x Hb).
  - assert (exists x, irs = [x]) as [x ->].
    { revert Hb. unfold build_deref_for_struct. cbv zeta. destruct (entry_push_bounds_to _ _) as [w ub].
      destruct fs as [|f [|]]; try discriminate. rewrite Ek. cbn. intros X; inversion X; eauto. }
    destruct Hin as [<-|[]]. apply (deref_where s e _ x Hb).
Qed.

Lemma enum_entry_where en h vs e ir :
  ha_items h = [] ->
  enum_entry en h vs e = Ok (Ok [ir]) ->
  exists vp, enum_vplans (en_kind e) h vs = Some vp /\
             where_is (ir_hdr ir) (spec_where (decl_generics (en_kind e) (e_name en) (e_generics en))
                                              (top_levels (en_kind e) e h) vp).
Proof.
  intros Hi. unfold enum_entry. destruct (en_kind e) eqn:Ek; try discriminate; intros X; inversion X as [Hb]; clear X;
    cbn [enum_vplans]; rewrite ?top_levels_nohelper by reflexivity.
  - eexists; split; [reflexivity|]. apply (compare_op_where o (SrcEnum en vs) e h ir Hi Hb).
  - eexists; split; [reflexivity|]. now apply copy_enum_where.
  - eexists; split; [reflexivity|]. now apply clone_enum_where.
  - eexists; split; [reflexivity|]. now apply debug_enum_where.
  - destruct (default_enum_where en e h vs ir Hi Hb) as [[Hv Hw]|[Hv (v & Hd & Hw)]]; rewrite Hv.
    + eexists; split; [reflexivity|]. exact Hw.
    + rewrite Hd. eexists; split; [reflexivity|]. exact Hw.
Qed.

(** ** no `bound(...)` anywhere: the default bounds (C03) *)
Definition absent (b : bounds) : Prop := b_ty b = [] /\ b_pred b = [] /\ b_default b = true.

Lemma resolve_absent ls c : Forall absent ls -> resolve ls c = (cnil, c).
Proof.
  intros H. revert c. induction H as [|b ls (Ht & Hp & Hd) _ IH]; intros c; cbn; [reflexivity|].
  destruct c; [|reflexivity]. rewrite Hd, IH, Ht, Hp. reflexivity.
Qed.

Definition default_types (gps : list string) (vs : list vplan) : list ty :=
  flat_map (fun v => flat_map (fun f => if fp_used f && contains_in_type gps (fp_ty f)
                                        then [fp_ty f] else []) (vp_fields v)) vs.

Lemma concat_contrib_types l :
  (forall c, In c l -> snd c = []) ->
  concat_contrib l = (concat (map fst l), []).
Proof.
  induction l as [|[a b] l IH]; intros H; [reflexivity|].
  change (concat_contrib ((a, b) :: l)) with (cat (a, b) (concat_contrib l)).
  rewrite IH by (intros c Hc; apply H; now right).
  specialize (H (a, b) (or_introl eq_refl)). cbn in H. subst. reflexivity.
Qed.

Lemma default_where g top vs :
  Forall absent top ->
  (forall v, In v vs -> Forall absent (vp_levels v) /\
                        forall f, In f (vp_fields v) -> Forall absent (fp_levels f)) ->
  spec_where g top vs = (default_types (gps_new g) vs, g_where g).
Proof.
  intros Ht Hv. unfold spec_where. rewrite (resolve_absent top true Ht). cbn [fst snd].
  rewrite cat_cnil_l.
  assert (E : forall v, In v vs ->
              variant_contrib (gps_new g) true v
              = (flat_map (fun f => if fp_used f && contains_in_type (gps_new g) (fp_ty f)
                                    then [fp_ty f] else []) (vp_fields v), [])).
  { intros v Hin. destruct (Hv v Hin) as [Hl Hf]. unfold variant_contrib.
    rewrite (resolve_absent _ true Hl). rewrite cat_cnil_l.
    rewrite concat_contrib_types.
    - rewrite map_map. f_equal. rewrite flat_map_concat_map. f_equal. apply map_ext_in.
      intros f Hfin. unfold field_contrib. rewrite (resolve_absent _ true (Hf f Hfin)). cbn.
      reflexivity.
    - intros c Hc. apply in_map_iff in Hc as (f & <- & Hfin). unfold field_contrib.
      rewrite (resolve_absent _ true (Hf f Hfin)). reflexivity. }
  rewrite concat_contrib_types.
  - cbn [fst snd]. rewrite app_nil_r. f_equal. unfold default_types. rewrite flat_map_concat_map, map_map.
    f_equal. apply map_ext_in. intros v Hin. now rewrite (E v Hin).
  - intros c Hc. apply in_map_iff in Hc as (v & <- & Hin). now rewrite (E v Hin).
Qed.
