(** * SemDeref: meaning of the Deref / DerefMut bodies *)
From DX Require Import Syntax GenBound GenAttrs IR.

(** place expressions *)
Inductive place := PSelf | PField (p : place) (m : member).

(** `&self.m` / `&mut self.m`: the place the returned reference points to, and whether the
    reference is mutable *)
Definition deref_place (b : body) : option (place * bool) :=
  match b with
  | BDeref _ m => Some (PField PSelf m, false)
  | BDerefMut _ m => Some (PField PSelf m, true)
  | _ => None
  end.

(** `type Target = ..` (Deref) / the declared return type (DerefMut) *)
Definition deref_target (b : body) : option ty :=
  match b with
  | BDeref t _ | BDerefMut t _ => Some t
  | _ => None
  end.
