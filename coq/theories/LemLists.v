(** * LemLists: what a `#[derive_ex(..)]` list shares stays inside that list *)
From DX Require Import Syntax Tables GenBound GenAttrs.

(** the entries of stacked lists are the entries of each list, concatenated: a list's shared `bound(..)` / `dump`
    never reaches an entry of another list *)
Theorem from_args_list_app l1 l2 :
  from_args_list (l1 ++ l2) =
  (do es1 <- from_args_list l1; do es2 <- from_args_list l2; Ok (es1 ++ es2)).
Proof.
  induction l1 as [|a l1 IH]; cbn [app from_args_list bind].
  - destruct (from_args_list l2); reflexivity.
  - destruct (entries_of_args a) as [es|m|m]; cbn [bind]; try reflexivity.
    rewrite IH. destruct (from_args_list l1) as [es1|m|m]; cbn [bind]; try reflexivity.
    destruct (from_args_list l2) as [es2|m|m]; cbn [bind]; try reflexivity.
    rewrite app_assoc. reflexivity.
Qed.

(** a shared `dump` is worth exactly an entry-level `dump` on every entry of its own list *)
Definition with_entry_dumps (a : dx_args) : dx_args :=
  {| dx_items := map (fun it => (fst it,
                                 Some {| ia_bound := match snd it with Some ia => ia_bound ia | None => None end;
                                         ia_dump := true |})) (dx_items a);
     dx_bound := dx_bound a; dx_dump := false |}.

Lemma mapM_map {A B C} (f : B -> result C) (h : A -> B) l : mapM f (map h l) = mapM (fun x => f (h x)) l.
Proof. induction l as [|x l IH]; cbn [map mapM]; [reflexivity|]. rewrite IH. reflexivity. Qed.

Lemma mapM_ext {A B} (f g : A -> result B) l : (forall x, f x = g x) -> mapM f l = mapM g l.
Proof. intros H. induction l as [|x l IH]; cbn [mapM]; [reflexivity|]. rewrite H, IH. reflexivity. Qed.

Theorem shared_dump_is_entrywise a :
  dx_dump a = true -> entries_of_args a = entries_of_args (with_entry_dumps a).
Proof.
  intros Hd. unfold entries_of_args, with_entry_dumps. cbn [dx_items dx_bound dx_dump]. rewrite mapM_map.
  apply mapM_ext. intros [name ia]. cbn [fst snd]. destruct (kind_from_str name); [|reflexivity].
  rewrite Hd. destruct ia as [ia|]; cbn [ia_dump ia_bound orb bounds_from]; reflexivity.
Qed.
