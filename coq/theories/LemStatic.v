(** * LemStatic: the trait obligations a generated body places on field types are discharged by the
    where-clause (one ingredient of "the generated impl type-checks", C20 / C03) *)
From DX Require Import Syntax Tables GenBound GenAttrs IR GenType GenCmp GenImpl GenTop
     SpecAttrs SpecBound SemCmp SpecCmp LemDump LemBound LemCmp LemData.

(** the field types on which the body calls a method of the derived trait
    (`<FieldTy as Trait>::method(..)` or `Trait::method(&field, ..)`) *)
Definition dbg_obligations (d : debug_body) : list ty :=
  match d with
  | DbgTransparent f => [fl_ty f]
  | DbgFields _ _ fs => map fl_ty fs
  end.
Definition cmp_obligations (cs : list cmp_field) : list ty :=
  flat_map (fun c => match cf_expr c with CEDefault t => [t] | _ => [] end) cs.

Definition body_obligations (b : body) : list ty :=
  match b with
  | BDeref _ _ | BDerefMut _ _ | BCopy | BDefaultSelf _ => []
  | BCloneStruct _ _ fs => map fl_ty fs
  | BCloneEnum vs => flat_map (fun x => map fl_ty (snd x)) vs
  | BDebugStruct d _ => dbg_obligations d
  | BDebugEnum vs => flat_map (fun x => dbg_obligations (snd x)) vs
  | BDefaultCtor _ _ vs => flat_map (fun x => match snd x with DVDefault t => [t] | _ => [] end) vs
  | BBin _ _ _ _ _ fs | BAssign _ _ fs | BUn _ _ _ _ fs => map fl_ty fs
  | BPartialEqStruct cs | BPartialOrdStruct cs | BOrdStruct cs | BHashStruct cs => cmp_obligations cs
  | BPartialEqEnum vs | BPartialOrdEnum vs | BOrdEnum vs | BHashEnum vs => flat_map (fun x => cmp_obligations (snd x)) vs
  | BEqStruct cs => flat_map (fun x => match snd x with QField => [fl_ty (fst x)] | _ => [] end) cs
  | BEqEnum _ vs => flat_map (fun x => flat_map (fun y => match snd y with QField => [fl_ty (fst y)] | _ => [] end) (snd x)) vs
  end.

Definition used_types (vs : list vplan) : list ty :=
  flat_map (fun v => flat_map (fun f => if fp_used f then [fp_ty f] else []) (vp_fields v)) vs.

Lemma flat_map_map {A B C} (f : A -> B) (g : B -> list C) l :
  flat_map g (map f l) = flat_map (fun x => g (f x)) l.
Proof. induction l as [|a l IH]; cbn; [reflexivity|]. now rewrite IH. Qed.

Lemma used_types_all k fs : used_types (struct_plan (fplan_all k) fs) = map fty fs.
Proof.
  unfold used_types, struct_plan. cbn. rewrite app_nil_r. induction fs as [|f fs IH]; cbn; [reflexivity|].
  now rewrite IH.
Qed.

Lemma map_fl_ty_fld fs : map fl_ty (map fld_of fs) = map fty fs.
Proof. rewrite map_map. reflexivity. Qed.

Lemma selected_own_iff op c : is_own (selected op c) = negb (field_selected op c).
Proof.
  unfold selected, attr_selection, field_selected, selects, specific_first.
  destruct op; cbn [filter affects flat_map existsb by_counts cmpop_eqb andb];
    repeat match goal with
           | |- context [c_by ?x] => destruct (c_by x); cbn
           | |- context [c_key ?x] => destruct (c_key x); cbn
           end; reflexivity.
Qed.

Lemma cmp_obligations_spec op l :
  cmp_obligations (map (spec_cmp_field op) l)
  = flat_map (fun f => if fp_used (fplan_cmp op f) then [fp_ty (fplan_cmp op f)] else []) l.
Proof.
  unfold cmp_obligations. induction l as [|f l IH]; cbn [map flat_map]; [reflexivity|].
  rewrite IH. f_equal. unfold spec_cmp_field, fplan_cmp. cbn [cf_expr fp_used fp_ty].
  rewrite <- selected_own_iff, <- sel_for_own. destruct (sel_for op _); reflexivity.
Qed.

Lemma eq_obligations_spec l :
  flat_map (fun x => match snd x with QField => [fl_ty (fst x)] | _ => [] end) (eq_checks (map (spec_cmp_field CEq) l))
  = flat_map (fun f => if fp_used (fplan_cmp CEq f) then [fp_ty (fplan_cmp CEq f)] else []) l.
Proof.
  unfold eq_checks. rewrite map_map. induction l as [|f l IH]; cbn [map flat_map]; [reflexivity|].
  rewrite IH. f_equal. unfold spec_cmp_field, fplan_cmp. cbn [sel_for]. cbn [cf_expr cf_fld fp_used fp_ty fst snd eq_check_of].
  rewrite <- selected_own_iff, <- (sel_for_own CEq). cbn [sel_for]. destruct (eq_selected _); reflexivity.
Qed.

Lemma find_filter {A} (p : A -> bool) l : find p l = match filter p l with x :: _ => Some x | [] => None end.
Proof. induction l as [|a l IH]; cbn; [reflexivity|]. destruct (p a); [reflexivity | exact IH]. Qed.

Lemma debug_fields_transparent fs :
  debug_fields fs = match transparent_fields fs with
                    | f :: _ => [f]
                    | [] => filter (fun f => negb (g_ignore (ha_debug (fe_hattrs f)))) fs
                    end.
Proof. unfold debug_fields, transparent_fields. rewrite find_filter. destruct (filter _ fs); reflexivity. Qed.

Lemma debug_obligations_spec name src fs :
  dbg_obligations (debug_body_spec name src fs) = map fty (debug_fields fs).
Proof.
  rewrite debug_fields_transparent. unfold debug_body_spec. destruct (transparent_fields fs); cbn.
  - now rewrite map_map.
  - reflexivity.
Qed.

Lemma default_obligations_spec fs :
  flat_map (fun x : member * dvalue => match snd x with DVDefault t => [t] | _ => [] end)
           (map (fun f => (fe_member f, default_value_spec f)) fs)
  = flat_map (fun f => if fp_used (fplan_default f) then [fp_ty (fplan_default f)] else []) fs.
Proof.
  induction fs as [|f fs IH]; cbn [map flat_map]; [reflexivity|]. rewrite IH. f_equal.
  cbn [snd fplan_default fp_used fp_ty]. unfold default_value_spec, has_default_value, hattrs_default_value, default_attr_value.
  destruct (ha_default (fe_hattrs f)) as [a|]; [|reflexivity]. destruct (d_value a); [|reflexivity].
  destruct (classify_expr t); reflexivity.
Qed.

(** every obligation of the body is the type of a used field of the trait's plan *)
Lemma struct_body_obligations s h fs e irs ir :
  build_struct_entry s h fs e = Ok irs -> In ir irs ->
  incl (body_obligations (ir_body ir)) (used_types (struct_vplans (en_kind e) h fs)).
Proof.
  intros Hb Hin. unfold build_struct_entry in Hb. destruct (en_kind e) eqn:Ek; cbn [struct_vplans].
  - destruct (binary_op_bodies s o e fs) as (h1 & h2 & h3 & h4 & E & _). rewrite E in Hb. inversion Hb; subst.
    rewrite used_types_all, <- map_fl_ty_fld. destruct Hin as [<-|[<-|[<-|[<-|[]]]]]; apply incl_refl.
  - destruct (assign_op_bodies s o e fs) as (h1 & h2 & E & _). rewrite E in Hb. inversion Hb; subst.
    rewrite used_types_all, <- map_fl_ty_fld. destruct Hin as [<-|[<-|[]]]; apply incl_refl.
  - destruct (unary_op_bodies s o e fs) as (h1 & h2 & E & _). rewrite E in Hb. inversion Hb; subst.
    rewrite used_types_all, <- map_fl_ty_fld. destruct Hin as [<-|[<-|[]]]; apply incl_refl.
  - assert (exists x, irs = [x]) as [x ->].
    { revert Hb. unfold build_compare_op. cbv zeta. destruct (entry_push_bounds_to_with _ _ _ _) as [w ub].
      destruct (build_from_fields _ _ _ _) as [[l w']| |]; cbn [bind]; try discriminate. intros X; inversion X; eauto. }
    destruct Hin as [<-|[]]. rewrite (compare_op_body _ _ _ _ _ Hb). unfold used_types, struct_plan. cbn [map flat_map vp_fields].
    rewrite app_nil_r, flat_map_map.
    destruct o; cbn [body_obligations]; first [rewrite cmp_obligations_spec | rewrite eq_obligations_spec]; apply incl_refl.
  - assert (exists x, irs = [x]) as [x ->].
    { revert Hb. unfold build_copy_for_struct. cbv zeta. destruct (entry_push_bounds_to _ _) as [w ub]. intros X; inversion X; eauto. }
    destruct Hin as [<-|[]]. revert Hb. unfold build_copy_for_struct. cbv zeta. destruct (entry_push_bounds_to _ _) as [w ub].
    intros X; inversion X; subst. cbn. intros t [].
  - assert (exists x, irs = [x]) as [x ->].
    { revert Hb. unfold build_clone_for_struct. cbv zeta. destruct (entry_push_bounds_to _ _) as [w ub]. intros X; inversion X; eauto. }
    destruct Hin as [<-|[]]. destruct (clone_struct_body s e fs x Hb) as [-> _]. cbn [body_obligations].
    rewrite used_types_all, map_fl_ty_fld. apply incl_refl.
  - pose proof (debug_struct_body s e h fs) as D.
    destruct (transparent_fields fs) as [|t1 [|t2 tl]] eqn:Et.
    + destruct D as (ir0 & E & B). rewrite E in Hb. inversion Hb; subst. destruct Hin as [<-|[]]. rewrite B.
      cbn [body_obligations]. rewrite debug_obligations_spec, used_types_all. apply incl_refl.
    + destruct D as (ir0 & E & B). rewrite E in Hb. inversion Hb; subst. destruct Hin as [<-|[]]. rewrite B.
      cbn [body_obligations]. rewrite debug_obligations_spec, used_types_all. apply incl_refl.
    + rewrite D in Hb. discriminate.
  - assert (exists x, irs = [x]) as [x ->].
    { revert Hb. unfold build_default_for_struct. cbv zeta. destruct (entry_push_bounds_to_with _ _ _ _) as [w ub].
      destruct (hattrs_default_value _ _); [|destruct (build_default_ctor_args _ _ _)]; intros X; inversion X; eauto. }
    destruct Hin as [<-|[]]. rewrite (default_struct_body s e h fs x Hb).
    pose proof (default_value_none h self_ty_kw) as Hv.
    destruct (hattrs_default_value h self_ty_kw); cbn [body_obligations].
    + intros t [].
    + destruct (has_default_value h); [discriminate Hv|].
      rewrite default_obligations_spec. unfold used_types, struct_plan. cbn [map flat_map vp_fields].
      rewrite app_nil_r, flat_map_map. apply incl_refl.
  - assert (exists x, irs = [x]) as [x ->].
    { revert Hb. unfold build_deref_for_struct. cbv zeta. destruct (entry_push_bounds_to _ _) as [w ub].
      destruct fs as [|f [|]]; try discriminate. rewrite Ek. cbn. intros X; inversion X; eauto. }
    destruct Hin as [<-|[]]. revert Hb. unfold build_deref_for_struct. cbv zeta. destruct (entry_push_bounds_to _ _) as [w ub].
    destruct fs as [|f [|]]; try discriminate. rewrite Ek. cbn. intros X; inversion X; subst. intros t [].
  - assert (exists x, irs = [x]) as [x ->].
    { revert Hb. unfold build_deref_for_struct. cbv zeta. destruct (entry_push_bounds_to _ _) as [w ub].
      destruct fs as [|f [|]]; try discriminate. rewrite Ek. cbn. intros X; inversion X; eauto. }
    destruct Hin as [<-|[]]. revert Hb. unfold build_deref_for_struct. cbv zeta. destruct (entry_push_bounds_to _ _) as [w ub].
    destruct fs as [|f [|]]; try discriminate. rewrite Ek. cbn. intros X; inversion X; subst. intros t [].
Qed.

(** with no `bound(...)` anywhere: every obligation whose type mentions a parameter is in the where-clause *)
Lemma used_types_default gps vs t :
  In t (used_types vs) -> contains_in_type gps t = true -> In t (default_types gps vs).
Proof.
  unfold used_types, default_types. intros H Hc. apply in_flat_map in H as (v & Hv & H).
  apply in_flat_map in H as (f & Hf & H). apply in_flat_map. exists v. split; [exact Hv|].
  apply in_flat_map. exists f. split; [exact Hf|]. destruct (fp_used f); cbn in *; [|contradiction].
  destruct H as [<-|[]]. rewrite Hc. now left.
Qed.

Definition no_bounds (top : list bounds) (vs : list vplan) : Prop :=
  Forall absent top /\
  forall v, In v vs -> Forall absent (vp_levels v) /\ forall f, In f (vp_fields v) -> Forall absent (fp_levels f).

Theorem struct_obligations_discharged s h fs e irs ir t :
  ha_items h = [] ->
  build_struct_entry s h fs e = Ok irs -> In ir irs ->
  no_bounds (top_levels (en_kind e) e h) (struct_vplans (en_kind e) h fs) ->
  In t (body_obligations (ir_body ir)) ->
  contains_in_type (gps_new (struct_decl_generics (en_kind e) s)) t = true ->
  In t (ih_wtypes (ir_hdr ir)).
Proof.
  intros Hi Hb Hin [Ht Hv] Ho Hc.
  pose proof (struct_entry_where s h fs e irs ir Hi Hb Hin) as W. unfold where_is, spec_struct_where in W.
  rewrite (default_where _ _ _ Ht Hv) in W. inversion W as [[W1 W2]]. rewrite W1.
  apply used_types_default; [|exact Hc]. eapply struct_body_obligations; eassumption.
Qed.
