(** * Render: the single printer of the pipeline

    - [flat]: token list -> whitespace-independent text (same convention as the Rust expander)
    - [q]: a tiny lexer so that templates can be written like the `quote!` source
    - printers for types, generics, attributes and items: they PRODUCE the concrete macro
      input, and the same printers are used wherever the generator copies user fragments
      into its output (syn prints what it parsed).
    No theorem is about this file; it exists so that correspondence L1 is token equality. *)
From DX Require Import Syntax.

(** ** strings *)
Fixpoint join (sep : string) (l : list string) : string :=
  match l with
  | [] => ""
  | [x] => x
  | x :: xs => x +++ sep +++ join sep xs
  end.

Fixpoint chars_spaced (s : string) : string :=
  match s with
  | EmptyString => ""
  | String c EmptyString => String c EmptyString
  | String c rest => String c (String " " (chars_spaced rest))
  end.

Definition flat_tok (t : tok) : string :=
  match t with
  | TI s => s
  | TP s => chars_spaced s
  | TL s => s
  | TLt s => "' " +++ s
  | TO DParen => "(" | TC DParen => ")"
  | TO DBrace => "{" | TC DBrace => "}"
  | TO DBracket => "[" | TC DBracket => "]"
  end.
Definition flat (ts : toks) : string := join " " (map flat_tok ts).

(** source text (puncts of one token stay joined): what is fed to the real macro *)
Definition text_tok (t : tok) : string :=
  match t with
  | TP s => s
  | TLt s => "'" +++ s
  | _ => flat_tok t
  end.
Definition text (ts : toks) : string := join " " (map text_tok ts).

(** ** the template lexer *)
Fixpoint split_ws_aux (s : string) (cur : string) : list string :=
  match s with
  | EmptyString => if String.eqb cur "" then [] else [cur]
  | String c rest =>
      if Ascii.eqb c " " then
        (if String.eqb cur "" then split_ws_aux rest "" else cur :: split_ws_aux rest "")
      else split_ws_aux rest (cur +++ String c EmptyString)
  end.
Definition split_ws (s : string) : list string := split_ws_aux s "".

Definition is_ident_start (c : ascii) : bool :=
  let n := nat_of_ascii c in
  (((65 <=? n) && (n <=? 90)) || ((97 <=? n) && (n <=? 122)) || (n =? 95)). 
Definition is_digit (c : ascii) : bool :=
  let n := nat_of_ascii c in ((48 <=? n) && (n <=? 57)). 

Fixpoint has_dquote (s : string) : bool :=
  match s with
  | EmptyString => false
  | String c rest => Ascii.eqb c """" || has_dquote rest
  end.
Fixpoint last_is_quote (s : string) : bool :=
  match s with
  | EmptyString => false
  | String c EmptyString => Ascii.eqb c "'"
  | String _ rest => last_is_quote rest
  end.

Definition lex_word (w : string) : tok :=
  if has_dquote w then TL w else
  match w with
  | "(" => TO DParen | ")" => TC DParen
  | "{" => TO DBrace | "}" => TC DBrace
  | "[" => TO DBracket | "]" => TC DBracket
  | String c rest =>
      if is_ident_start c then TI w
      else if is_digit c then TL w
      else if Ascii.eqb c """" then TL w
      else if Ascii.eqb c "'" then
             match rest with
             | EmptyString => TP w
             | _ => if last_is_quote rest then TL w else TLt rest
             end
      else TP w
  | EmptyString => TP ""
  end.
Definition q (s : string) : toks := map lex_word (split_ws s).

Definition tparen (t : toks) : toks := TO DParen :: t ++ [TC DParen].
Definition tbrace (t : toks) : toks := TO DBrace :: t ++ [TC DBrace].
Definition tbracket (t : toks) : toks := TO DBracket :: t ++ [TC DBracket].

Fixpoint sep_by (sep : toks) (l : list toks) : toks :=
  match l with
  | [] => []
  | [x] => x
  | x :: xs => x ++ sep ++ sep_by sep xs
  end.
(** every element followed by the separator: `#(#x,)*` *)
Definition term_by (sep : toks) (l : list toks) : toks :=
  concat (map (fun x => x ++ sep) l).
Definition comma : toks := [TP ","].
Definition opt_toks {A} (f : A -> toks) (o : option A) : toks :=
  match o with Some a => f a | None => [] end.

(** ** types *)
Definition r_cexpr (c : cexpr) : toks :=
  match c with
  | CLit s => [TL s]
  | CPath lead names =>
      (if lead then [TP "::"] else []) ++ sep_by [TP "::"] (map (fun n => [TI n]) names)
  end.

Fixpoint r_ty (t : ty) : toks :=
  match t with
  | TyPath None lead segs =>
      (if lead then [TP "::"] else []) ++ sep_by [TP "::"] (map r_seg segs)
  | TyPath (Some (qt, pos)) lead segs =>
      let rs := map r_seg segs in
      let pos := Nat.min pos (length rs) in
      [TP "<"] ++ r_ty qt ++
      (if pos =? 0 then [TP ">"] ++ (if lead then [TP "::"] else [])
       else [TI "as"] ++ (if lead then [TP "::"] else []) ++
            sep_by [TP "::"] (firstn pos rs) ++ [TP ">"] ++
            (if pos <? length rs then [TP "::"] else [])) ++
      sep_by [TP "::"] (skipn pos rs)
  | TyRef lt mt t =>
      [TP "&"] ++ opt_toks (fun l => [TLt l]) lt ++ (if mt then [TI "mut"] else []) ++ r_ty t
  | TyTuple ts =>
      match map r_ty ts with
      | [x] => tparen (x ++ comma)
      | l => tparen (sep_by comma l)
      end
  | TyArray t len => tbracket (r_ty t ++ [TP ";"] ++ r_cexpr len)
  | TySlice t => tbracket (r_ty t)
  | TyPtr mt t => [TP "*"; TI (if mt then "mut" else "const")] ++ r_ty t
  | TyFn args ret =>
      [TI "fn"] ++ tparen (sep_by comma (map r_ty args)) ++
      match ret with Some r => [TP "->"] ++ r_ty r | None => [] end
  | TyNever => [TP "!"]
  | TyParen t => tparen (r_ty t)
  | TyDyn bs => [TI "dyn"] ++ sep_by [TP "+"] (map r_tbound bs)
  end
with r_seg (s : seg) : toks :=
  match s with
  | Seg n a => TI n :: r_segargs a
  end
with r_segargs (a : segargs) : toks :=
  match a with
  | SANone => []
  | SAAngle l => [TP "<"] ++ sep_by comma (map r_garg l) ++ [TP ">"]
  | SAParen ins out =>
      tparen (sep_by comma (map r_ty ins)) ++
      match out with Some r => [TP "->"] ++ r_ty r | None => [] end
  end
with r_garg (g : garg) : toks :=
  match g with
  | GTy t => r_ty t
  | GLt l => [TLt l]
  | GConst c => r_cexpr c
  | GAssoc n t => [TI n; TP "="] ++ r_ty t
  end
with r_tbound (b : tbound) : toks :=
  match b with
  | TBTrait maybe lead segs =>
      (if maybe then [TP "?"] else []) ++ (if lead then [TP "::"] else []) ++
      sep_by [TP "::"] (map r_seg segs)
  | TBLt l => [TLt l]
  end.

Definition r_path (lead : bool) (segs : list seg) : toks :=
  (if lead then [TP "::"] else []) ++ sep_by [TP "::"] (map r_seg segs).

Definition r_tbounds (bs : list tbound) : toks := sep_by [TP "+"] (map r_tbound bs).

Definition r_wpred (p : wpred) : toks :=
  match p with
  | WPTy t bs => r_ty t ++ [TP ":"] ++ r_tbounds bs
  | WPLt l ls => [TLt l; TP ":"] ++ sep_by [TP "+"] (map (fun x => [TLt x]) ls)
  end.

(** ** generics *)

(** parameter as it appears in the item definition *)
Definition r_gparam_full (p : gparam) : toks :=
  match p with
  | GPLt n bs =>
      [TLt n] ++ match bs with [] => [] | _ => [TP ":"] ++ sep_by [TP "+"] (map (fun x => [TLt x]) bs) end
  | GPTy n bs d =>
      [TI n] ++ match bs with [] => [] | _ => [TP ":"] ++ r_tbounds bs end ++
      match d with Some t => [TP "="] ++ r_ty t | None => [] end
  | GPConst n t d =>
      [TI "const"; TI n; TP ":"] ++ r_ty t ++
      match d with Some c => [TP "="] ++ r_cexpr c | None => [] end
  end.
(** syn::ImplGenerics: no defaults; lifetimes first *)
Definition r_gparam_impl (p : gparam) : toks :=
  match p with
  | GPLt n bs => r_gparam_full p
  | GPTy n bs _ => [TI n] ++ match bs with [] => [] | _ => [TP ":"] ++ r_tbounds bs end
  | GPConst n t _ => [TI "const"; TI n; TP ":"] ++ r_ty t
  end.
(** syn::TypeGenerics: names only; lifetimes first *)
Definition r_gparam_type (p : gparam) : toks :=
  match p with
  | GPLt n _ => [TLt n]
  | GPTy n _ _ => [TI n]
  | GPConst n _ _ => [TI n]
  end.


Definition r_generics_decl (g : generics) : toks :=
  match g_params g with
  | [] => []
  | ps => [TP "<"] ++ sep_by comma (map r_gparam_full ps) ++ [TP ">"]
  end.
Definition r_impl_g (g : generics) : toks :=
  match g_params g with
  | [] => []
  | ps => [TP "<"] ++ sep_by comma (map r_gparam_impl (lts_first ps)) ++ [TP ">"]
  end.
Definition r_type_g (g : generics) : toks :=
  match g_params g with
  | [] => []
  | ps => [TP "<"] ++ sep_by comma (map r_gparam_type (lts_first ps)) ++ [TP ">"]
  end.
Definition r_where_decl (g : generics) : toks :=
  match g_where g with
  | [] => []
  | ps => [TI "where"] ++ sep_by comma (map r_wpred ps)
  end.

(** ** attributes *)
Definition r_bound_item (b : bound_item) : toks :=
  match b with
  | BType t => r_ty t
  | BPred p => r_wpred p
  | BDefault => [TP ".."]
  end.
Definition r_bound_arg (b : bound_arg) : list toks :=
  match b with
  | None => []
  | Some l => [[TI "bound"] ++ tparen (sep_by comma (map r_bound_item l))]
  end.
Definition flag (b : bool) (name : string) : list toks := if b then [[TI name]] else [].

Definition r_item_args (a : option item_args) : toks :=
  match a with
  | None => []
  | Some a => tparen (sep_by comma (r_bound_arg (ia_bound a) ++ flag (ia_dump a) "dump"))
  end.
Definition r_dx_args (a : dx_args) : toks :=
  sep_by comma
    (map (fun '(n, ia) => TI n :: r_item_args ia) (dx_items a)
     ++ r_bound_arg (dx_bound a) ++ flag (dx_dump a) "dump").

Definition r_meta {A} (name : string) (f : A -> toks) (m : meta A) : toks :=
  match m with
  | MPath => [TI name]
  | MList a => [TI name] ++ tparen (f a)
  | MNameValue v => [TI name; TP "="] ++ v
  end.

Definition cmpop_snake (op : cmpop) : string :=
  match op with
  | COrd => "ord" | CPartialOrd => "partial_ord" | CEq => "eq"
  | CPartialEq => "partial_eq" | CHash => "hash"
  end.

Definition r_default_args (a : default_args) : toks :=
  sep_by comma ([da_value a] ++ r_bound_arg (da_bound a)).
Definition r_debug_args (a : debug_args) : toks :=
  sep_by comma (flag (ga_transparent a) "transparent" ++ flag (ga_ignore a) "ignore"
                ++ r_bound_arg (ga_bound a)).
Definition r_cmp_args (a : cmp_args) : toks :=
  sep_by comma (flag (ca_ignore a) "ignore" ++ flag (ca_reverse a) "reverse"
                ++ match ca_by a with Some e => [[TI "by"; TP "="] ++ e] | None => [] end
                ++ match ca_key a with Some e => [[TI "key"; TP "="] ++ e] | None => [] end
                ++ r_bound_arg (ca_bound a)).

Definition r_attr (a : attr) : toks :=
  TP "#" :: tbracket
    match a with
    | AOther t => t
    | ADeriveEx a => [TI "derive_ex"] ++ tparen (r_dx_args a)
    | ADefault m => r_meta "default" r_default_args m
    | ADebug m => r_meta "debug" r_debug_args m
    | ACmp op m => r_meta (cmpop_snake op) r_cmp_args m
    end.
Definition r_attrs (l : list attr) : toks := concat (map r_attr l).

(** ** items *)
Definition r_field (f : field) : toks :=
  r_attrs (f_attrs f) ++ f_vis f ++
  match f_name f with Some n => [TI n; TP ":"] | None => [] end ++ r_ty (f_ty f).

Definition r_fields (fs : fields) : toks :=
  match fs with
  | FNamed l => tbrace (sep_by comma (map r_field l))
  | FUnnamed l => tparen (sep_by comma (map r_field l))
  | FUnit => []
  end.

Definition r_variant (v : variant) : toks :=
  r_attrs (v_attrs v) ++ [TI (v_name v)] ++ r_fields (v_fields v) ++
  match v_discr v with Some d => [TP "="] ++ d | None => [] end.

Definition r_struct (s : item_struct) : toks :=
  r_attrs (s_attrs s) ++ s_vis s ++ [TI "struct"; TI (s_name s)] ++ r_generics_decl (s_generics s) ++
  match s_fields s with
  | FNamed _ => r_where_decl (s_generics s) ++ r_fields (s_fields s)
  | FUnnamed _ => r_fields (s_fields s) ++ r_where_decl (s_generics s) ++ [TP ";"]
  | FUnit => r_where_decl (s_generics s) ++ [TP ";"]
  end.

Definition r_enum (e : item_enum) : toks :=
  r_attrs (e_attrs e) ++ e_vis e ++ [TI "enum"; TI (e_name e)] ++ r_generics_decl (e_generics e) ++
  r_where_decl (e_generics e) ++ tbrace (sep_by comma (map r_variant (e_variants e))).

Definition r_impl_member (m : impl_member) : toks :=
  match m with
  | IMType n t => [TI "type"; TI n; TP "="] ++ r_ty t ++ [TP ";"]
  | IMOther t => t
  end.
Definition r_impl (i : item_impl) : toks :=
  r_attrs (i_attrs i) ++ [TI "impl"] ++ r_generics_decl (i_generics i) ++
  match i_trait i with
  | Some (lead, segs) => (if i_neg i then [TP "!"] else []) ++ r_path lead segs ++ [TI "for"]
  | None => []
  end ++ r_ty (i_self i) ++ r_where_decl (i_generics i) ++
  tbrace (concat (map r_impl_member (i_items i))).

Definition r_item (i : item) : toks :=
  match i with
  | IStruct s => r_struct s
  | IEnum e => r_enum e
  | IImpl i => r_impl i
  | IOtherItem t => t
  end.
