(** * LemCoh: coherence of the derived comparison impls (C02)

    Lexicographic products of coherent per-field comparators are coherent; acceptance (C05) makes the
    sets of compared fields and the reverse flags agree across the traits; Hash may ignore more. *)
From DX Require Import Syntax Tables GenBound GenAttrs IR GenType GenCmp SpecAttrs SpecBound SemCmp SpecCmp
     LemBound LemCmp LemReject.

Section Lex.
  Variable A V : Type.
  Variable E : A -> V -> V -> bool.
  Variable P : A -> V -> V -> option comparison.
  Variable C : A -> V -> V -> comparison.
  Variable get : (nat -> V) -> A -> V.

  Definition lex_eq (l : list A) (a b : nat -> V) : bool := forallb (fun f => E f (get a f) (get b f)) l.
  Definition lex_pc (l : list A) (a b : nat -> V) : option comparison :=
    first_non_eq_opt (map (fun f => P f (get a f) (get b f)) l).
  Definition lex_c (l : list A) (a b : nat -> V) : comparison :=
    first_non_eq (map (fun f => C f (get a f) (get b f)) l).

  (** per-field laws *)
  Definition eq_iff_pc (f : A) := forall x y, E f x y = true <-> P f x y = Some Eq.
  Definition pc_is_c (f : A) := forall x y, P f x y = Some (C f x y).
  Definition c_flip (f : A) := forall x y, C f y x = CompOpp (C f x y).
  Definition c_trans (f : A) :=
    forall x y z, (C f x y = Eq -> C f x z = C f y z) /\
                  (C f y z = Eq -> C f x z = C f x y) /\
                  (C f x y = Lt -> C f y z = Lt -> C f x z = Lt).

  Lemma lex_eq_iff_pc l a b :
    (forall f, In f l -> eq_iff_pc f) -> (lex_eq l a b = true <-> lex_pc l a b = Some Eq).
  Proof.
    unfold lex_eq, lex_pc. induction l as [|f l IH]; intros H; cbn; [tauto|].
    specialize (IH (fun g Hg => H g (or_intror Hg))). pose proof (H f (or_introl eq_refl) (get a f) (get b f)) as Hf.
    rewrite andb_true_iff. destruct (P f (get a f) (get b f)) as [[]|].
    - rewrite <- IH. intuition.
    - split; [intros [X _]; apply Hf in X; discriminate | discriminate].
    - split; [intros [X _]; apply Hf in X; discriminate | discriminate].
    - split; [intros [X _]; apply Hf in X; discriminate | discriminate].
  Qed.

  Lemma lex_pc_is_c l a b :
    (forall f, In f l -> pc_is_c f) -> lex_pc l a b = Some (lex_c l a b).
  Proof.
    unfold lex_pc, lex_c. induction l as [|f l IH]; intros H; cbn; [reflexivity|].
    rewrite (H f (or_introl eq_refl)). destruct (C f (get a f) (get b f)); try reflexivity.
    apply IH. intros g Hg. apply H. now right.
  Qed.

  Lemma lex_c_flip l a b :
    (forall f, In f l -> c_flip f) -> lex_c l b a = CompOpp (lex_c l a b).
  Proof.
    unfold lex_c. induction l as [|f l IH]; intros H; cbn; [reflexivity|].
    rewrite (H f (or_introl eq_refl)). destruct (C f (get a f) (get b f)); cbn; try reflexivity.
    apply IH. intros g Hg. apply H. now right.
  Qed.

  Lemma lex_c_eq_congr l a b c :
    (forall f, In f l -> c_trans f) -> lex_c l a b = Eq -> lex_c l a c = lex_c l b c.
  Proof.
    unfold lex_c. induction l as [|f l IH]; intros H; cbn; [reflexivity|].
    destruct (H f (or_introl eq_refl) (get a f) (get b f) (get c f)) as (T1 & _ & _).
    destruct (C f (get a f) (get b f)) eqn:Eab; try discriminate. intros X.
    rewrite (T1 eq_refl). destruct (C f (get b f) (get c f)); try reflexivity.
    apply IH; [intros g Hg; apply H; now right | exact X].
  Qed.

  Lemma lex_c_trans_lt l a b c :
    (forall f, In f l -> c_trans f) -> lex_c l a b = Lt -> lex_c l b c = Lt -> lex_c l a c = Lt.
  Proof.
    unfold lex_c. induction l as [|f l IH]; intros H; cbn; [discriminate|].
    destruct (H f (or_introl eq_refl) (get a f) (get b f) (get c f)) as (T1 & T2 & T3).
    destruct (C f (get a f) (get b f)) eqn:Eab; try discriminate.
    - rewrite (T1 eq_refl). intros X. destruct (C f (get b f) (get c f)); try discriminate; auto.
      intros Y. apply IH; [intros g Hg; apply H; now right | exact X | exact Y].
    - intros _. destruct (C f (get b f) (get c f)) eqn:Ebc; try discriminate.
      + rewrite (T2 eq_refl). reflexivity.
      + rewrite (T3 eq_refl eq_refl). reflexivity.
  Qed.

  (** equality: an equivalence if every field's is *)
  Lemma lex_eq_refl l a : (forall f x, In f l -> E f x x = true) -> lex_eq l a a = true.
  Proof. intros H. unfold lex_eq. apply forallb_forall. intros f Hf. now apply H. Qed.
  Lemma lex_eq_sym l a b :
    (forall f x y, In f l -> E f x y = E f y x) -> lex_eq l a b = lex_eq l b a.
  Proof.
    intros H. unfold lex_eq. induction l as [|f l IH]; cbn; [reflexivity|].
    rewrite (H f _ _ (or_introl eq_refl)), IH; [reflexivity|]. intros g x y Hg. apply H. now right.
  Qed.
  Lemma lex_eq_trans l a b c :
    (forall f x y z, In f l -> E f x y = true -> E f y z = true -> E f x z = true) ->
    lex_eq l a b = true -> lex_eq l b c = true -> lex_eq l a c = true.
  Proof.
    intros H. unfold lex_eq. rewrite !forallb_forall. intros X Y f Hf. eapply H; eauto.
  Qed.

  (** the feed of a sub-list of the compared fields is determined by equality *)
  Variable H : Type.
  Variable feed : A -> V -> H.
  Lemma lex_eq_feed l lh a b :
    incl lh l -> (forall f x y, In f lh -> E f x y = true -> feed f x = feed f y) ->
    lex_eq l a b = true ->
    map (fun f => feed f (get a f)) lh = map (fun f => feed f (get b f)) lh.
  Proof.
    intros Hin Hf X. unfold lex_eq in X. rewrite forallb_forall in X.
    apply map_ext_in. intros f Hfl. apply Hf; [exact Hfl|]. apply X, Hin, Hfl.
  Qed.
End Lex.

(** ** acceptance makes the traits look at the same fields, in the same direction *)
Lemma accepted_same_ignore tr c :
  (tr = CEq \/ tr = CPartialOrd \/ tr = COrd) ->
  field_rejected tr c = false -> cmp_ignored tr c = cmp_ignored CPartialEq c.
Proof.
  unfold field_rejected, cmp_ignored, ignore_split, all_cmp.
  intros [->|[->| ->]]; cbn [existsb affects cmp_get andb orb];
    destruct (c_ignore (h_ord c)), (c_ignore (h_partial_ord c)), (c_ignore (h_eq c)), (c_ignore (h_partial_eq c)),
      (c_ignore (h_hash c)); cbn; intros X; try reflexivity;
    repeat rewrite ?orb_true_r, ?andb_true_r, ?orb_false_r in X; try discriminate X.
Qed.

Lemma accepted_hash_ignores_more c :
  field_rejected CHash c = false -> cmp_ignored CPartialEq c = true -> cmp_ignored CHash c = true.
Proof.
  unfold field_rejected, cmp_ignored, ignore_split, all_cmp. cbn [existsb affects cmp_get andb orb].
  destruct (c_ignore (h_ord c)), (c_ignore (h_partial_ord c)), (c_ignore (h_eq c)), (c_ignore (h_partial_eq c)),
    (c_ignore (h_hash c)); cbn; intros X Y; try reflexivity; try discriminate;
    repeat rewrite ?orb_true_r, ?andb_true_r, ?orb_false_r in X; try discriminate X.
Qed.

Lemma accepted_same_reverse c :
  field_rejected COrd c = false -> cmp_ignored COrd c = false ->
  reversed COrd c = reversed CPartialOrd c.
Proof.
  unfold field_rejected, reversed. cbn [existsb affects cmp_get andb orb cmpop_eqb]. intros X Hi. rewrite Hi in X.
  cbn [negb andb] in X. destruct (c_reverse (h_partial_ord c)); [|reflexivity].
  rewrite !orb_true_r in X. discriminate X.
Qed.

Definition all_accepted (traits : list cmpop) (fs : list fentry) : Prop :=
  forall tr f, In tr traits -> In f fs -> field_rejected tr (ha_cmp (fe_hattrs f)) = false.

Lemma used_fields_agree tr fs :
  (tr = CEq \/ tr = CPartialOrd \/ tr = COrd) ->
  (forall f, In f fs -> field_rejected tr (ha_cmp (fe_hattrs f)) = false) ->
  cmp_used_fields tr fs = cmp_used_fields CPartialEq fs.
Proof.
  intros Htr H. unfold cmp_used_fields. induction fs as [|f fs IH]; cbn [filter]; [reflexivity|].
  rewrite (accepted_same_ignore tr _ Htr (H f (or_introl eq_refl))).
  rewrite IH by (intros g Hg; apply H; now right). reflexivity.
Qed.

Lemma hash_fields_incl fs :
  (forall f, In f fs -> field_rejected CHash (ha_cmp (fe_hattrs f)) = false) ->
  incl (cmp_used_fields CHash fs) (cmp_used_fields CPartialEq fs).
Proof.
  intros H f Hf. unfold cmp_used_fields in *. apply filter_In in Hf as [Hin Hn]. apply filter_In. split; [exact Hin|].
  destruct (cmp_ignored CPartialEq (ha_cmp (fe_hattrs f))) eqn:E; [|reflexivity].
  rewrite (accepted_hash_ignores_more _ (H f Hin) E) in Hn. discriminate.
Qed.


(** ** struct level: the derived impls of an accepted struct are mutually coherent *)
Section Struct.
  Variable V : Type.
  Variable d_eq : ty -> V -> V -> bool.
  Variable d_pcmp : ty -> V -> V -> option comparison.
  Variable d_cmp : ty -> V -> V -> comparison.
  Variable k_eq : toks -> V -> V -> bool.
  Variable k_pcmp : toks -> V -> V -> option comparison.
  Variable k_cmp : toks -> V -> V -> comparison.
  Variable by_eq : toks -> V -> V -> bool.
  Variable by_pcmp : toks -> V -> V -> option comparison.
  Variable by_cmp : toks -> V -> V -> comparison.

  Notation E := (sp_field_eq V d_eq k_eq by_eq by_pcmp by_cmp).
  Notation P := (sp_field_pcmp V d_pcmp k_pcmp by_pcmp by_cmp).
  Notation C := (sp_field_cmp V d_cmp k_cmp by_cmp).
  Definition getf (vf : nat -> V) (f : fentry) : V := vf (fe_index f).

  Notation s_eq := (sp_fields_eq V d_eq k_eq by_eq by_pcmp by_cmp).
  Notation s_pc := (sp_fields_pcmp V d_pcmp k_pcmp by_pcmp by_cmp).
  Notation s_c := (sp_fields_cmp V d_cmp k_cmp by_cmp).

  Lemma s_eq_lex fs a b :
    s_eq fs a b = lex_eq fentry V E getf (cmp_used_fields CPartialEq fs) (v_field a) (v_field b).
  Proof. reflexivity. Qed.
  Lemma s_pc_lex fs a b :
    s_pc fs a b = lex_pc fentry V P getf (cmp_used_fields CPartialOrd fs) (v_field a) (v_field b).
  Proof. reflexivity. Qed.
  Lemma s_c_lex fs a b :
    s_c fs a b = lex_c fentry V C getf (cmp_used_fields COrd fs) (v_field a) (v_field b).
  Proof. reflexivity. Qed.

  Variable fs : list fentry.
  Hypothesis Acc : all_accepted [CPartialEq; CEq; CPartialOrd; COrd; CHash] fs.

  Let L := cmp_used_fields CPartialEq fs.

  Lemma used_po : cmp_used_fields CPartialOrd fs = L.
  Proof. apply used_fields_agree; [auto|]. intros f Hf. apply Acc; cbn; auto. Qed.
  Lemma used_ord : cmp_used_fields COrd fs = L.
  Proof. apply used_fields_agree; [auto|]. intros f Hf. apply Acc; cbn; auto. Qed.

  (** per-field coherence of the comparators the documentation selects *)
  Hypothesis F_eq_pc : forall f, In f L -> eq_iff_pc fentry V E P f.
  Hypothesis F_pc_c : forall f, In f L -> pc_is_c fentry V P C f.
  Hypothesis F_flip : forall f, In f L -> c_flip fentry V C f.
  Hypothesis F_trans : forall f, In f L -> c_trans fentry V C f.

  Theorem coh_eq_iff_pcmp a b : s_eq fs a b = true <-> s_pc fs a b = Some Eq.
  Proof. rewrite s_eq_lex, s_pc_lex, used_po. apply (lex_eq_iff_pc fentry V E P C getf). exact F_eq_pc. Qed.

  Theorem coh_pcmp_is_cmp a b : s_pc fs a b = Some (s_c fs a b).
  Proof. rewrite s_pc_lex, s_c_lex, used_po, used_ord. apply lex_pc_is_c. exact F_pc_c. Qed.

  Theorem coh_eq_iff_cmp a b : s_eq fs a b = true <-> s_c fs a b = Eq.
  Proof.
    rewrite coh_eq_iff_pcmp, coh_pcmp_is_cmp. split; [intros X; now inversion X | intros ->; reflexivity].
  Qed.

  Theorem coh_cmp_flip a b : s_c fs b a = CompOpp (s_c fs a b).
  Proof. rewrite !s_c_lex, used_ord. apply lex_c_flip. exact F_flip. Qed.

  Theorem coh_cmp_trans a b c : s_c fs a b = Lt -> s_c fs b c = Lt -> s_c fs a c = Lt.
  Proof. rewrite !s_c_lex, used_ord. apply lex_c_trans_lt. exact F_trans. Qed.

  Theorem coh_cmp_eq_congr a b c : s_c fs a b = Eq -> s_c fs a c = s_c fs b c.
  Proof. rewrite !s_c_lex, used_ord. apply lex_c_eq_congr. exact F_trans. Qed.

  (** == is an equivalence relation (from the total order) *)
  Theorem coh_eq_refl a : s_eq fs a a = true.
  Proof.
    apply coh_eq_iff_cmp. pose proof (coh_cmp_flip a a) as X. destruct (s_c fs a a); cbn in X; congruence.
  Qed.
  Theorem coh_eq_sym a b : s_eq fs a b = true -> s_eq fs b a = true.
  Proof. rewrite !coh_eq_iff_cmp, (coh_cmp_flip a b). intros ->. reflexivity. Qed.
  Theorem coh_eq_trans a b c : s_eq fs a b = true -> s_eq fs b c = true -> s_eq fs a c = true.
  Proof. rewrite !coh_eq_iff_cmp. intros X Y. rewrite (coh_cmp_eq_congr a b c X). exact Y. Qed.

  (** a == b implies equal hash feeds (Hash may ignore more fields, never fewer) *)
  Variable H : Type.
  Variable h_field : fentry -> V -> H.      (* what the field's effective hash input feeds, as the hasher sees it *)
  Hypothesis F_hash : forall f x y, In f (cmp_used_fields CHash fs) -> E f x y = true -> h_field f x = h_field f y.

  Theorem coh_eq_hash a b :
    s_eq fs a b = true ->
    map (fun f => h_field f (at_ V a f)) (cmp_used_fields CHash fs)
    = map (fun f => h_field f (at_ V b f)) (cmp_used_fields CHash fs).
  Proof.
    rewrite s_eq_lex. intros X.
    apply (lex_eq_feed fentry V E getf H h_field L (cmp_used_fields CHash fs) (v_field a) (v_field b)); [|exact F_hash|exact X].
    apply hash_fields_incl. intros f Hf. apply Acc; cbn; auto 6.
  Qed.
End Struct.

(** ** one consistent key: every key / by function on the fields expresses the same comparator family *)
Lemma flat_map_cons_ex {A B} (F : A -> list B) l s rest :
  flat_map F l = s :: rest -> exists a, In a l /\ F a <> [].
Proof.
  induction l as [|a l IH]; cbn; [discriminate|]. destruct (F a) eqn:Ea; cbn.
  - intros X. destruct (IH X) as (a' & Hin & Hn). exists a'. split; [now right | exact Hn].
  - intros _. exists a. split; [now left|]. rewrite Ea. discriminate.
Qed.

Lemma sel_custom tr c : is_own (selected tr c) = false -> has_custom c = true.
Proof.
  unfold selected. destruct (flat_map _ (specific_first tr)) as [|s rest] eqn:Ef; [discriminate|]. intros _.
  apply flat_map_cons_ex in Ef as (a & _ & Hn). unfold has_custom. apply existsb_exists. exists a. split.
  - destruct a; cbn; auto 6.
  - unfold attr_selection in Hn. destruct (c_by (cmp_get c a)); [reflexivity|].
    destruct (c_key (cmp_get c a)); [apply orb_true_r|]. destruct (by_counts tr a); contradiction Hn; reflexivity.
Qed.

Lemma accepted_own_or_custom tr c :
  field_rejected tr c = false -> cmp_ignored tr c = false ->
  is_own (selected tr c) = negb (has_custom c).
Proof.
  unfold field_rejected. intros X Hi. rewrite Hi in X. cbn [negb andb] in X.
  destruct (is_own (selected tr c)) eqn:Eo.
  - destruct (has_custom c); [discriminate X | reflexivity].
  - now rewrite (sel_custom tr c Eo).
Qed.

Section OneKey.
  Variable V : Type.
  Variable d_eq : ty -> V -> V -> bool.
  Variable d_pcmp : ty -> V -> V -> option comparison.
  Variable d_cmp : ty -> V -> V -> comparison.
  Variable k_eq : toks -> V -> V -> bool.
  Variable k_pcmp : toks -> V -> V -> option comparison.
  Variable k_cmp : toks -> V -> V -> comparison.
  Variable by_eq : toks -> V -> V -> bool.
  Variable by_pcmp : toks -> V -> V -> option comparison.
  Variable by_cmp : toks -> V -> V -> comparison.

  (** a lawful comparator family *)
  Record lawful (e : V -> V -> bool) (p : V -> V -> option comparison) (c : V -> V -> comparison) : Prop := {
    law_eq_pc : forall x y, e x y = true <-> p x y = Some Eq;
    law_pc_c : forall x y, p x y = Some (c x y);
    law_flip : forall x y, c y x = CompOpp (c x y);
    law_trans : forall x y z, (c x y = Eq -> c x z = c y z) /\ (c y z = Eq -> c x z = c x y) /\
                              (c x y = Lt -> c y z = Lt -> c x z = Lt) }.

  (** reversing the order keeps the laws *)
  Lemma lawful_reverse e p c :
    lawful e p c -> lawful e (fun x y => option_map CompOpp (p x y)) (fun x y => CompOpp (c x y)).
  Proof.
    intros [L1 L2 L3 L4]. split.
    - intros x y. rewrite L1, L2. cbn. destruct (c x y); cbn; split; intros X; inversion X; reflexivity.
    - intros x y. now rewrite L2.
    - intros x y. now rewrite L3.
    - intros x y z. destruct (L4 x y z) as (T1 & T2 & T3). destruct (L4 z y x) as (U1 & U2 & U3).
      repeat split.
      + intros X. f_equal. apply T1. destruct (c x y); cbn in X; congruence.
      + intros X. f_equal. apply T2. destruct (c y z); cbn in X; congruence.
      + intros X Y. rewrite (L3 z x). rewrite U3; [reflexivity| |].
        * rewrite (L3 y z). destruct (c y z); cbn in *; congruence.
        * rewrite (L3 x y). destruct (c x y); cbn in *; congruence.
  Qed.

  (** the one key's family, which every key / by function of the environment expresses *)
  Variable ce : V -> V -> bool.
  Variable cp : V -> V -> option comparison.
  Variable cc : V -> V -> comparison.
  Hypothesis Lc : lawful ce cp cc.
  Hypothesis Kk : forall t x y, k_eq t x y = ce x y /\ k_pcmp t x y = cp x y /\ k_cmp t x y = cc x y.
  Hypothesis Kb : forall g x y, by_eq g x y = ce x y /\ by_pcmp g x y = cp x y /\ by_cmp g x y = cc x y.
  (** the field types' own impls are lawful *)
  Hypothesis Ld : forall t, lawful (d_eq t) (d_pcmp t) (d_cmp t).

  Notation E := (sp_field_eq V d_eq k_eq by_eq by_pcmp by_cmp).
  Notation P := (sp_field_pcmp V d_pcmp k_pcmp by_pcmp by_cmp).
  Notation C := (sp_field_cmp V d_cmp k_cmp by_cmp).

  Lemma field_lawful f :
    let c := ha_cmp (fe_hattrs f) in
    field_rejected CPartialEq c = false -> field_rejected CPartialOrd c = false -> field_rejected COrd c = false ->
    cmp_ignored CPartialEq c = false ->
    lawful (E f) (P f) (C f).
  Proof.
    intros c A1 A2 A3 Hi.
    assert (Hi2 : cmp_ignored CPartialOrd c = false) by (rewrite (accepted_same_ignore CPartialOrd c); auto).
    assert (Hi3 : cmp_ignored COrd c = false) by (rewrite (accepted_same_ignore COrd c); auto).
    pose proof (accepted_own_or_custom _ _ A1 Hi) as O1.
    pose proof (accepted_own_or_custom _ _ A2 Hi2) as O2.
    pose proof (accepted_own_or_custom _ _ A3 Hi3) as O3.
    pose proof (accepted_same_reverse c A3 Hi3) as Rv.
    (* the family behind the three impls, before reversal *)
    assert (Base : lawful (E f)
                     (fun x y => match selected CPartialOrd c with
                                 | SBy COrd g => Some (by_cmp g x y) | SBy _ g => by_pcmp g x y
                                 | SKey k => k_pcmp k x y | SOwn => d_pcmp (fty f) x y end)
                     (fun x y => match selected COrd c with
                                 | SBy _ g => by_cmp g x y | SKey k => k_cmp k x y | SOwn => d_cmp (fty f) x y end)).
    { unfold sp_field_eq. fold c. destruct (has_custom c) eqn:Hc; cbn [negb] in O1, O2, O3.
      - (* every trait goes through the one key *)
        destruct Lc as [L1 L2 L3 L4].
        assert (Ee : forall x y, match selected CPartialEq c with
                                 | SBy CPartialOrd g => match by_pcmp g x y with Some Eq => true | _ => false end
                                 | SBy COrd g => match by_cmp g x y with Eq => true | _ => false end
                                 | SBy _ g => by_eq g x y | SKey k => k_eq k x y | SOwn => d_eq (fty f) x y end = true
                                 <-> cp x y = Some Eq).
        { intros x y. destruct (selected CPartialEq c) as [a g|k|]; [|destruct (Kk k x y) as (-> & _); apply L1 | discriminate O1].
          destruct (Kb g x y) as (Eb & Pb & Cb). destruct a; rewrite ?Eb, ?Pb, ?Cb; try apply L1.
          - rewrite L2. destruct (cc x y); split; intros X; try discriminate X; try inversion X; reflexivity.
          - destruct (cp x y) as [[]|]; split; intros X; try discriminate X; reflexivity. }
        assert (Pe : forall x y, match selected CPartialOrd c with
                                 | SBy COrd g => Some (by_cmp g x y) | SBy _ g => by_pcmp g x y
                                 | SKey k => k_pcmp k x y | SOwn => d_pcmp (fty f) x y end = cp x y).
        { intros x y. destruct (selected CPartialOrd c) as [a g|k|]; [|now destruct (Kk k x y) as (_ & -> & _) | discriminate O2].
          destruct (Kb g x y) as (Eb & Pb & Cb). destruct a; rewrite ?Pb, ?Cb; try reflexivity. now rewrite L2. }
        assert (Cx : forall x y, match selected COrd c with
                                 | SBy _ g => by_cmp g x y | SKey k => k_cmp k x y | SOwn => d_cmp (fty f) x y end = cc x y).
        { intros x y. destruct (selected COrd c) as [a g|k|]; [now destruct (Kb g x y) as (_ & _ & ->) | now destruct (Kk k x y) as (_ & _ & ->) | discriminate O3]. }
        split.
        + intros x y. rewrite Ee, Pe. tauto.
        + intros x y. now rewrite Pe, Cx.
        + intros x y. now rewrite !Cx.
        + intros x y z. rewrite !Cx. apply L4.
      - (* no custom behaviour anywhere: the field type's own impls *)
        destruct (selected CPartialEq c); try discriminate O1.
        destruct (selected CPartialOrd c); try discriminate O2.
        destruct (selected COrd c); try discriminate O3. apply Ld. }
    unfold sp_field_pcmp, sp_field_cmp. fold c. rewrite Rv.
    destruct (reversed CPartialOrd c); [apply lawful_reverse; exact Base | exact Base].
  Qed.
End OneKey.

(** equal under the field's equality => equal hash input, in a one-key environment *)
Section OneKeyHash.
  Variable V H : Type.
  Variable d_eq : ty -> V -> V -> bool.
  Variable k_eq : toks -> V -> V -> bool.
  Variable by_eq : toks -> V -> V -> bool.
  Variable by_pcmp : toks -> V -> V -> option comparison.
  Variable by_cmp : toks -> V -> V -> comparison.
  Variable ce : V -> V -> bool.
  Variable cp : V -> V -> option comparison.
  Variable cc : V -> V -> comparison.
  Hypothesis Lc : lawful V ce cp cc.
  Hypothesis Kk : forall t x y, k_eq t x y = ce x y.
  Hypothesis Kb : forall g x y, by_eq g x y = ce x y /\ by_pcmp g x y = cp x y /\ by_cmp g x y = cc x y.
  (** what the hasher sees: of the field itself, of a key, of a `hash(by = ..)` function *)
  Variable hd : ty -> V -> H.
  Variable hk : toks -> V -> H.
  Variable hb : toks -> V -> H.
  Variable kh : V -> H.
  Hypothesis Hk : forall t x, hk t x = kh x.
  Hypothesis Hb : forall g x, hb g x = kh x.
  Hypothesis Hc : forall x y, ce x y = true -> kh x = kh y.
  Hypothesis Hd : forall t x y, d_eq t x y = true -> hd t x = hd t y.

  Definition h_field (f : fentry) (x : V) : H :=
    match selected CHash (ha_cmp (fe_hattrs f)) with
    | SBy _ g => hb g x | SKey k => hk k x | SOwn => hd (fty f) x
    end.

  Lemma field_hash_consistent f x y :
    let c := ha_cmp (fe_hattrs f) in
    field_rejected CPartialEq c = false -> field_rejected CHash c = false ->
    cmp_ignored CHash c = false ->
    sp_field_eq V d_eq k_eq by_eq by_pcmp by_cmp f x y = true -> h_field f x = h_field f y.
  Proof.
    intros c A1 A5 Hi5.
    assert (Hi1 : cmp_ignored CPartialEq c = false).
    { destruct (cmp_ignored CPartialEq c) eqn:E; [|reflexivity].
      rewrite (accepted_hash_ignores_more c A5 E) in Hi5. discriminate. }
    pose proof (accepted_own_or_custom _ _ A1 Hi1) as O1.
    pose proof (accepted_own_or_custom _ _ A5 Hi5) as O5.
    unfold sp_field_eq, h_field. fold c. destruct Lc as [L1 L2 L3 L4].
    destruct (has_custom c); cbn [negb] in O1, O5.
    - assert (X : forall s, is_own s = false ->
                    match s with SBy _ g => hb g x | SKey k => hk k x | SOwn => hd (fty f) x end = kh x /\
                    match s with SBy _ g => hb g y | SKey k => hk k y | SOwn => hd (fty f) y end = kh y).
      { intros [a g|k|] Hs; try discriminate Hs; rewrite ?Hb, ?Hk; split; reflexivity. }
      destruct (X _ O5) as (-> & ->). intros Heq. apply Hc.
      destruct (selected CPartialEq c) as [a g|k|]; try discriminate O1.
      + destruct (Kb g x y) as (Eb & Pb & Cb). destruct a; rewrite ?Eb, ?Pb, ?Cb in Heq; try exact Heq.
        * apply L1. rewrite L2. destruct (cc x y); try discriminate Heq. reflexivity.
        * apply L1. destruct (cp x y) as [[]|]; try discriminate Heq. reflexivity.
      + now rewrite Kk in Heq.
    - destruct (selected CPartialEq c); try discriminate O1.
      destruct (selected CHash c); try discriminate O5. apply Hd.
  Qed.
End OneKeyHash.

(** ** "a combination for which this cannot be guaranteed is refused" *)
Lemma mixing_custom_and_default_refused tr c :
  cmp_ignored tr c = false -> is_own (selected tr c) = true -> has_custom c = true -> field_rejected tr c = true.
Proof. intros Hi Ho Hc. unfold field_rejected. now rewrite Hi, Ho, Hc. Qed.

Lemma uneven_ignore_refused tr c :
  (tr = CEq \/ tr = CPartialOrd \/ tr = COrd) ->
  cmp_ignored tr c <> cmp_ignored CPartialEq c -> field_rejected tr c = true.
Proof.
  intros Htr Hn. destruct (field_rejected tr c) eqn:E; [reflexivity|].
  exfalso. apply Hn. now apply accepted_same_ignore.
Qed.

Lemma hash_ignoring_less_refused c :
  cmp_ignored CPartialEq c = true -> cmp_ignored CHash c = false -> field_rejected CHash c = true.
Proof.
  intros H1 H5. destruct (field_rejected CHash c) eqn:E; [reflexivity|].
  rewrite (accepted_hash_ignores_more c E H1) in H5. discriminate.
Qed.
