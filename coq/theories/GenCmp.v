(** * GenCmp: model of derive-ex/src/item_type/compare_op.rs *)
From DX Require Import Syntax GenBound GenAttrs IR GenType.

(** ** is_ignore / is_reverse / bad_attr *)
Definition bad_attr_1_msg (op : cmpop) (bad good : string) : string :=
  "When `#[derive_ex(" +++ cmpop_to_str op +++ ")]` is specified, `#[" +++ good +++
  "]` must be used instead of `#[" +++ bad +++ "]`.".

Definition bad_flag (c : cmp_attrs) (op bad good : cmpop) : result unit :=
  if c_ignore (cmp_get c bad)
  then Err (bad_attr_1_msg op (cmpop_snake bad +++ "(ignore)") (cmpop_snake good +++ "(ignore)"))
  else Ok tt.

Definition is_ignore (c : cmp_attrs) (op : cmpop) : result bool :=
  match op with
  | COrd =>
      if c_ignore (h_ord c) then Ok true else
      do _ <- bad_flag c op CPartialOrd COrd;
      do _ <- bad_flag c op CPartialEq COrd;
      do _ <- bad_flag c op CEq COrd;
      Ok false
  | CPartialOrd =>
      if c_ignore (h_partial_ord c) || c_ignore (h_ord c) then Ok true else
      do _ <- bad_flag c op CPartialEq CPartialOrd;
      do _ <- bad_flag c op CEq COrd;
      Ok false
  | CEq =>
      if c_ignore (h_eq c) || c_ignore (h_ord c) then Ok true else
      do _ <- bad_flag c op CPartialEq CEq;
      do _ <- bad_flag c op CPartialOrd COrd;
      Ok false
  | CPartialEq =>
      Ok (c_ignore (h_partial_eq c) || c_ignore (h_eq c) || c_ignore (h_partial_ord c)
          || c_ignore (h_ord c))
  | CHash =>
      if c_ignore (h_hash c) || c_ignore (h_eq c) || c_ignore (h_ord c) then Ok true else
      do _ <- bad_flag c op CPartialEq CEq;
      do _ <- bad_flag c op CPartialOrd COrd;
      Ok false
  end.

Definition is_reverse (c : cmp_attrs) (op : cmpop) : result bool :=
  match op with
  | COrd =>
      if c_reverse (h_partial_ord c)
      then Err (bad_attr_1_msg op "partial_ord(reverse)" "ord(reverse)")
      else Ok (c_reverse (h_ord c))
  | CPartialOrd => Ok (c_reverse (h_partial_ord c) || c_reverse (h_ord c))
  | _ => Panic "unreachable"
  end.

(** first attribute (Ord, PartialOrd, Eq, PartialEq, Hash) carrying key (checked first) or by *)
Definition attr_bad (a : cmp_attr) : option string :=
  match c_key a with
  | Some _ => Some "key = ..."
  | None => match c_by a with Some _ => Some "by = ..." | None => None end
  end.
Definition cmp_bad_attr (c : cmp_attrs) : option string :=
  (fix go (l : list cmpop) :=
     match l with
     | [] => None
     | op :: rest =>
         match attr_bad (cmp_get c op) with
         | Some b => Some (cmpop_snake op +++ "(" +++ b +++ ")")
         | None => go rest
         end
     end) cmp_variants.

Definition nl : string := String (ascii_of_nat 10) EmptyString.

Definition bad_attr_msg (op : cmpop) (bad : string) (good : list string) : string :=
  "Since `#[" +++ bad +++ "]` was specified, the default implementation of `" +++ cmpop_to_str op
  +++ "` cannot be used." +++ nl +++ "One of the following attributes is required." +++ nl +++ nl
  +++ (fix go (l : list string) :=
         match l with [] => "" | g :: rest => "#[" +++ g +++ "]" +++ nl +++ go rest end) good.

(** ** the per-field cascade of `build_*_expr` *)

(** which attributes a trait consults, most specific first, and whether `by` is looked at *)
Definition steps (op : cmpop) : list (cmpop * bool) :=
  match op with
  | CPartialEq => [(CPartialEq, true); (CEq, true); (CPartialOrd, true); (COrd, true)]
  | CEq => [(CEq, true); (COrd, true)]
  | CPartialOrd => [(CPartialOrd, true); (COrd, true)]
  | COrd => [(COrd, true)]
  | CHash => [(CHash, true); (CEq, false); (COrd, false)]
  end.

Definition goods (op : cmpop) : list string :=
  match op with
  | CPartialEq => ["partial_eq(key = ...)"; "partial_eq(by = ...)"; "eq(key = ...)"; "eq(by = ...)";
                   "partial_ord(key = ...)"; "partial_ord(by = ...)"; "ord(key = ...)"; "ord(by = ...)"]
  | CEq => ["eq(key = ...)"; "eq(by = ...)"; "ord(key = ...)"; "ord(by = ...)"]
  | CPartialOrd => ["partial_ord(key = ...)"; "partial_ord(by = ...)"; "ord(key = ...)"; "ord(by = ...)"]
  | COrd => ["ord(key = ...)"; "ord(by = ...)"]
  | CHash => ["hash(key = ...)"; "hash(by = ...)"; "eq(key = ...)"; "ord(key = ...)"]
  end.

Inductive sel := SelBy (src : cmpop) (by_ : toks) | SelKey (src : cmpop) (key : toks) | SelNone.

Definition attr_push (a : cmp_attr) (st : wcb * bool) : wcb * bool :=
  let '(w, ub) := st in if ub then push_bounds w (c_bounds a) else (w, ub).

Fixpoint chain (c : cmp_attrs) (l : list (cmpop * bool)) (st : wcb * bool) : sel * (wcb * bool) :=
  match l with
  | [] => (SelNone, st)
  | (src, allow_by) :: rest =>
      let a := cmp_get c src in
      let st := attr_push a st in
      match (if allow_by then c_by a else None) with
      | Some b => (SelBy src b, st)
      | None =>
          match c_key a with
          | Some k => (SelKey src k, st)
          | None => chain c rest st
          end
      end
  end.

(** the selection alone (no effect on the where-clause builder) *)
Fixpoint pure_chain (c : cmp_attrs) (l : list (cmpop * bool)) : sel :=
  match l with
  | [] => SelNone
  | (a, ab) :: rest =>
      match (if ab then c_by (cmp_get c a) else None) with
      | Some g => SelBy a g
      | None => match c_key (cmp_get c a) with Some k => SelKey a k | None => pure_chain c rest end
      end
  end.

Definition sel_to_expr (s : sel) (t : ty) : cmp_expr :=
  match s with SelBy a g => CEBy a g | SelKey _ k => CEKey k | SelNone => CEDefault t end.

(** `Eq`: `#[eq]` / `#[ord]` say that the field is customised; WHAT has to be `Eq` is what `==`
    compares - the most specific of `partial_eq`, `eq`, `partial_ord`, `ord` *)
Definition eq_override (op : cmpop) (c : cmp_attrs) (s : sel) : sel :=
  match op with
  | CEq => match pure_chain c (steps CPartialEq) with SelNone => s | s' => s' end
  | _ => s
  end.

(** `build_*_expr`: the comparator of one non-ignored field, whether the field type itself is
    used, and the where-clause state *)
Definition build_expr (op : cmpop) (f : fentry) (st : wcb * bool)
  : result (cmp_expr * bool * (wcb * bool)) :=
  let c := ha_cmp (fe_hattrs f) in
  let '(s, st) := chain c (steps op) st in
  match s with
  | SelBy _ _ | SelKey _ _ => Ok (sel_to_expr (eq_override op c s) (f_ty (fe_field f)), false, st)
  | SelNone =>
      match cmp_bad_attr c with
      | Some bad => Err (bad_attr_msg op bad (goods op))
      | None => Ok (CEDefault (f_ty (fe_field f)), true, st)
      end
  end.

(** `build_from_fields` *)
Fixpoint build_from_fields (op : cmpop) (fs : list fentry) (ub : bool) (w : wcb)
  : result (list cmp_field * wcb) :=
  match fs with
  | [] => Ok ([], w)
  | f :: rest =>
      let c := ha_cmp (fe_hattrs f) in
      do ign <- is_ignore c op;
      if ign then build_from_fields op rest ub w else
      do (e, used, (w, ubf)) <- build_expr op f (w, ub);
      do rev <- match op with
                | COrd | CPartialOrd => is_reverse c op
                | _ => Ok false
                end;
      let '(w, ubf) := hattrs_push_bounds_to_without_helper (fe_hattrs f) ubf (KCmp op) w in
      let w := if ubf && used then push_bounds_for_field w (f_ty (fe_field f)) else w in
      do (r, w) <- build_from_fields op rest ub w;
      Ok ({| cf_fld := fld_of f; cf_expr := e; cf_reverse := rev |} :: r, w)
  end.

Fixpoint build_from_variants (op : cmpop) (vs : list ventry) (ub : bool) (w : wcb)
  : result (list (string * shape * list fld * list cmp_field) * wcb) :=
  match vs with
  | [] => Ok ([], w)
  | v :: rest =>
      let '(w, ubv) := hattrs_push_bounds_to (ve_hattrs v) ub (KCmp op) w in
      do (b, w) <- build_from_fields op (ve_fields v) ubv w;
      do (r, w) <- build_from_variants op rest ub w;
      Ok ((variant_arm v, b) :: r, w)
  end.

Definition eq_check_of (e : cmp_expr) : eq_check :=
  match e with
  | CEDefault _ => QField
  | CEKey k => QKey k
  | CEBy _ _ => QNone
  end.
Definition eq_checks (l : list cmp_field) : list (fld * eq_check) :=
  map (fun c => (cf_fld c, eq_check_of (cf_expr c))) l.

Inductive source :=
| SrcStruct (s : item_struct) (fs : list fentry)
| SrcEnum (e : item_enum) (vs : list ventry).

Definition src_generics (s : source) : generics :=
  match s with SrcStruct s _ => s_generics s | SrcEnum e _ => e_generics e end.
Definition src_name (s : source) : string :=
  match s with SrcStruct s _ => s_name s | SrcEnum e _ => e_name e end.

(** `build_compare_op` *)
Definition build_compare_op (op : cmpop) (src : source) (e : entry) (h : hattrs)
  : result (list impl_ir) :=
  let k := KCmp op in
  let this := this_ty_of (src_name src) (src_generics src) in
  (* `Eq` re-uses generics and where-clause for a free fn: `Self` expanded *)
  let g := match op with
           | CEq => expand_self_generics this (src_generics src)
           | _ => src_generics src
           end in
  let w := wcb_new g in
  let '(w, ub) := entry_push_bounds_to_with e h k w in
  do (b, w) <-
    match src with
    | SrcStruct _ fs =>
        do (l, w) <- build_from_fields op fs ub w;
        Ok (match op with
            | CPartialEq => BPartialEqStruct l
            | CEq => BEqStruct (eq_checks l)
            | CPartialOrd => BPartialOrdStruct l
            | COrd => BOrdStruct l
            | CHash => BHashStruct l
            end, w)
    | SrcEnum en vs =>
        do (l, w) <- build_from_variants op vs ub w;
        Ok (match op with
            | CPartialEq => BPartialEqEnum l
            | CEq => BEqEnum (e_name en) (map (fun '(a, cs) => (a, eq_checks cs)) l)
            | CPartialOrd => BPartialOrdEnum l
            | COrd => BOrdEnum l
            | CHash => BHashEnum l
            end, w)
    end;
  Ok [{| ir_hdr := mk_hdr true g k None false this w WFPlain; ir_body := b |}].
