(** * Tables: trait tables of derive-ex (DeriveItemKind, BinaryOp, UnaryOp, CompareOp):
    names, paths, method names, `is_effects_to`.  Finite; covered exhaustively by L1. *)
From DX Require Import Syntax.

(** ** trait kinds *)
Inductive kind :=
| KBin (o : binop) | KAssign (o : binop) | KUn (o : unop) | KCmp (o : cmpop)
| KCopy | KClone | KDebug | KDefault | KDeref | KDerefMut.

Definition binop_eqb (a b : binop) : bool :=
  match a, b with
  | Add, Add | BitAnd, BitAnd | BitOr, BitOr | BitXor, BitXor | Div, Div
  | Mul, Mul | Rem, Rem | Shl, Shl | Shr, Shr | Sub, Sub => true
  | _, _ => false
  end.
Definition unop_eqb (a b : unop) : bool :=
  match a, b with Neg, Neg | Not, Not => true | _, _ => false end.
Definition cmpop_eqb (a b : cmpop) : bool :=
  match a, b with
  | COrd, COrd | CPartialOrd, CPartialOrd | CEq, CEq | CPartialEq, CPartialEq | CHash, CHash => true
  | _, _ => false
  end.
Definition kind_eqb (a b : kind) : bool :=
  match a, b with
  | KBin x, KBin y => binop_eqb x y
  | KAssign x, KAssign y => binop_eqb x y
  | KUn x, KUn y => unop_eqb x y
  | KCmp x, KCmp y => cmpop_eqb x y
  | KCopy, KCopy | KClone, KClone | KDebug, KDebug | KDefault, KDefault
  | KDeref, KDeref | KDerefMut, KDerefMut => true
  | _, _ => false
  end.

(** common.rs BinaryOp::from_str / to_str / to_func_name *)
Definition binop_from_str (s : string) : option binop :=
  match s with
  | "Add" => Some Add | "BitAnd" => Some BitAnd | "BitOr" => Some BitOr
  | "BitXor" => Some BitXor | "Div" => Some Div | "Mul" => Some Mul
  | "Rem" => Some Rem | "Shl" => Some Shl | "Shr" => Some Shr | "Sub" => Some Sub
  | _ => None
  end.
Definition binop_to_str (o : binop) : string :=
  match o with
  | Add => "Add" | BitAnd => "BitAnd" | BitOr => "BitOr" | BitXor => "BitXor" | Div => "Div"
  | Mul => "Mul" | Rem => "Rem" | Shl => "Shl" | Shr => "Shr" | Sub => "Sub"
  end.
Definition binop_func (o : binop) : string :=
  match o with
  | Add => "add" | BitAnd => "bitand" | BitOr => "bitor" | BitXor => "bitxor" | Div => "div"
  | Mul => "mul" | Rem => "rem" | Shl => "shl" | Shr => "shr" | Sub => "sub"
  end.
Definition unop_from_str (s : string) : option unop :=
  match s with "Neg" => Some Neg | "Not" => Some Not | _ => None end.
Definition unop_to_str (o : unop) : string := match o with Neg => "Neg" | Not => "Not" end.
Definition unop_func (o : unop) : string := match o with Neg => "neg" | Not => "not" end.

Definition cmpop_from_str (s : string) : option cmpop :=
  match s with
  | "Ord" => Some COrd | "PartialOrd" => Some CPartialOrd | "Eq" => Some CEq
  | "PartialEq" => Some CPartialEq | "Hash" => Some CHash | _ => None
  end.
Definition cmpop_to_str (o : cmpop) : string :=
  match o with
  | COrd => "Ord" | CPartialOrd => "PartialOrd" | CEq => "Eq"
  | CPartialEq => "PartialEq" | CHash => "Hash"
  end.
Definition cmpop_snake (op : cmpop) : string :=
  match op with
  | COrd => "ord" | CPartialOrd => "partial_ord" | CEq => "eq"
  | CPartialEq => "partial_eq" | CHash => "hash"
  end.
Definition cmp_variants : list cmpop := [COrd; CPartialOrd; CEq; CPartialEq; CHash].

(** `source.is_effects_to(target)` *)
Definition is_effects_to (source target : cmpop) : bool :=
  match target, source with
  | COrd, COrd => true
  | CPartialOrd, (CPartialOrd | COrd) => true
  | CEq, (CEq | COrd) => true
  | CPartialEq, (CPartialEq | CEq | CPartialOrd | COrd) => true
  | CHash, (CHash | CEq | COrd) => true
  | _, _ => false
  end.

(** `s.strip_suffix("Assign")` *)
Fixpoint strip_suffix_assign (s : string) : option string :=
  match s with
  | "Assign" => Some ""
  | String c rest =>
      match strip_suffix_assign rest with Some r => Some (String c r) | None => None end
  | EmptyString => None
  end.

Definition kind_from_str (s : string) : option kind :=
  match strip_suffix_assign s with
  | Some s' => match binop_from_str s' with Some o => Some (KAssign o) | None => None end
  | None =>
  match binop_from_str s with Some o => Some (KBin o) | None =>
  match unop_from_str s with Some o => Some (KUn o) | None =>
  match cmpop_from_str s with Some o => Some (KCmp o) | None =>
  match s with
  | "Copy" => Some KCopy | "Clone" => Some KClone | "Debug" => Some KDebug
  | "Default" => Some KDefault | "Deref" => Some KDeref | "DerefMut" => Some KDerefMut
  | _ => None
  end end end end end.

Definition kind_display (k : kind) : string :=
  match k with
  | KBin o => binop_to_str o
  | KAssign o => binop_to_str o +++ "Assign"
  | KUn o => unop_to_str o
  | KCmp o => cmpop_to_str o
  | KCopy => "Copy" | KClone => "Clone" | KDebug => "Debug" | KDefault => "Default"
  | KDeref => "Deref" | KDerefMut => "DerefMut"
  end.

(** `to_path`: segments after the leading `::` *)
Definition kind_path (k : kind) : list string :=
  match k with
  | KBin o => ["core"; "ops"; binop_to_str o]
  | KAssign o => ["core"; "ops"; binop_to_str o +++ "Assign"]
  | KUn o => ["core"; "ops"; unop_to_str o]
  | KCmp COrd => ["core"; "cmp"; "Ord"]
  | KCmp CPartialOrd => ["core"; "cmp"; "PartialOrd"]
  | KCmp CEq => ["core"; "cmp"; "Eq"]
  | KCmp CPartialEq => ["core"; "cmp"; "PartialEq"]
  | KCmp CHash => ["core"; "hash"; "Hash"]
  | KCopy => ["core"; "marker"; "Copy"]
  | KClone => ["core"; "clone"; "Clone"]
  | KDebug => ["core"; "fmt"; "Debug"]
  | KDefault => ["core"; "default"; "Default"]
  | KDeref => ["core"; "ops"; "Deref"]
  | KDerefMut => ["core"; "ops"; "DerefMut"]
  end.

