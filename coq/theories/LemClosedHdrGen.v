(** * LemClosedHdrGen: the header of every impl built from a struct consists of pieces of the item (C13) *)
From DX Require Import Syntax Tables Render GenBound GenAttrs IR GenType GenCmp GenImpl GenTop RenderOut
     SpecAttrs SpecBound SemCmp SpecCmp LemDump LemBound LemCmp LemData LemDeref LemSelf LemClosed LemClosedHdr.

(** which generics / self type the header of an impl derived from a struct carries *)
Lemma struct_entry_hdr s h fs e irs ir :
  build_struct_entry s h fs e = Ok irs -> In ir irs ->
  (ih_generics (ir_hdr ir) = s_generics s \/
   ih_generics (ir_hdr ir) = expand_self_generics (this_ty_of (s_name s) (s_generics s)) (s_generics s)) /\
  ih_this (ir_hdr ir) = this_ty_of (s_name s) (s_generics s).
Proof.
  intros Hb Hin. unfold build_struct_entry in Hb. destruct (en_kind e) eqn:Ek.
  - revert Hb. unfold build_binary_op. cbv zeta. destruct (entry_push_bounds_to _ _) as [w ub].
    intros X; inversion X; subst. destruct Hin as [<-|[<-|[<-|[<-|[]]]]]; cbn; split; auto.
  - revert Hb. unfold build_assign_op. cbv zeta. destruct (entry_push_bounds_to _ _) as [w ub].
    intros X; inversion X; subst. destruct Hin as [<-|[<-|[]]]; cbn; split; auto.
  - revert Hb. unfold build_unary_op. cbv zeta. destruct (entry_push_bounds_to _ _) as [w ub].
    intros X; inversion X; subst. destruct Hin as [<-|[<-|[]]]; cbn; split; auto.
  - revert Hb. unfold build_compare_op. cbv zeta. destruct (entry_push_bounds_to_with _ _ _ _) as [w ub].
    destruct (build_from_fields _ _ _ _) as [[l w']| |]; cbn [bind]; try discriminate.
    intros X; inversion X; subst. destruct Hin as [<-|[]]. cbn. destruct o; cbn; split; auto.
  - revert Hb. unfold build_copy_for_struct. cbv zeta. destruct (entry_push_bounds_to _ _) as [w ub].
    intros X; inversion X; subst. destruct Hin as [<-|[]]. cbn; split; auto.
  - revert Hb. unfold build_clone_for_struct. cbv zeta. destruct (entry_push_bounds_to _ _) as [w ub].
    intros X; inversion X; subst. destruct Hin as [<-|[]]. cbn; split; auto.
  - revert Hb. unfold build_debug_for_struct. cbv zeta. destruct (entry_push_bounds_to_with _ _ _ _) as [w ub].
    destruct (build_debug_expr _ _ _ _ _) as [[d w']| |]; cbn [bind]; try discriminate.
    intros X; inversion X; subst. destruct Hin as [<-|[]]. cbn; split; auto.
  - revert Hb. unfold build_default_for_struct. cbv zeta. destruct (entry_push_bounds_to_with _ _ _ _) as [w ub].
    destruct (hattrs_default_value _ _); [|destruct (build_default_ctor_args _ _ _)];
      intros X; inversion X; subst; destruct Hin as [<-|[]]; cbn; split; auto.
  - revert Hb. unfold build_deref_for_struct. cbv zeta. destruct (entry_push_bounds_to _ _) as [w ub].
    destruct fs as [|f [|]]; try discriminate. rewrite Ek. cbn. intros X; inversion X; subst.
    destruct Hin as [<-|[]]. cbn; split; auto.
  - revert Hb. unfold build_deref_for_struct. cbv zeta. destruct (entry_push_bounds_to _ _) as [w ub].
    destruct fs as [|f [|]]; try discriminate. rewrite Ek. cbn. intros X; inversion X; subst.
    destruct Hin as [<-|[]]. cbn; split; auto.
Qed.

Section HdrGen.
  Variable user : tok -> Prop.
  Notation bok := (bounds_okS user).

  (** every `bound(...)` the user wrote at one position *)
  Definition entry_okS (e : entry) : Prop := bok (en_this e) /\ bok (en_common e).
  Definition hattrs_bounds_okS (h : hattrs) : Prop :=
    (forall a, bok (c_bounds (cmp_get (ha_cmp h) a))) /\ bok (g_bounds (ha_debug h)) /\
    (forall d, ha_default h = Some d -> bok (d_bounds d)) /\ Forall entry_okS (ha_items h).
  Definition fentry_hdr_okS (f : fentry) : Prop := hattrs_bounds_okS (fe_hattrs f) /\ ty_okS user (fty f).

  Lemma helper_levels_okS k h : hattrs_bounds_okS h -> Forall bok (helper_levels k h).
  Proof.
    intros (Hc & Hg & Hd & _). unfold helper_levels. destruct k; try constructor.
    - apply Forall_forall. intros b Hb. apply in_map_iff in Hb as (a & <- & _). apply Hc.
    - exact Hg.
    - constructor.
    - destruct (ha_default h) as [d|] eqn:E; [|constructor]. constructor; [now apply Hd|constructor].
  Qed.

  Lemma items_get_In l k e : items_get l k = Some e -> In e l.
  Proof.
    revert e. induction l as [|x l IH]; cbn; intros e H; [discriminate|].
    destruct (items_get l k) as [e'|]; [inversion H; subst; right; now apply IH|].
    destruct (kind_eqb (en_kind x) k); inversion H; subst. now left.
  Qed.

  Lemma arg_levels_okS k h : hattrs_bounds_okS h -> Forall bok (arg_levels k h).
  Proof.
    intros (_ & _ & _ & Hi). unfold arg_levels. destruct (items_get (ha_items h) k) as [e|] eqn:E; [|constructor].
    apply items_get_In in E. rewrite Forall_forall in Hi. destruct (Hi e E) as [H1 H2]. constructor; [exact H1|]. constructor; [exact H2|constructor].
  Qed.

  Lemma position_levels_okS k h : hattrs_bounds_okS h -> Forall bok (position_levels k h).
  Proof. intros H. unfold position_levels. apply Forall_app. split; [now apply helper_levels_okS|now apply arg_levels_okS]. Qed.

  Lemma cut_after_selected_okS op c l : (forall a, bok (c_bounds (cmp_get c a))) -> Forall bok (cut_after_selected op c l).
  Proof.
    intros H. induction l as [|a l IH]; cbn; [constructor|]. constructor; [apply H|]. destruct (selects op c a); [constructor|exact IH].
  Qed.

  Lemma fplan_all_okS k f : fentry_hdr_okS f -> fplan_okS user (fplan_all k f).
  Proof. intros [Hh Ht]. split; cbn [fplan_all fp_levels fp_ty]; [now apply position_levels_okS|exact Ht]. Qed.
  Lemma fplan_default_okS f : fentry_hdr_okS f -> fplan_okS user (fplan_default f).
  Proof. intros [Hh Ht]. split; cbn [fplan_default fp_levels fp_ty]; [now apply position_levels_okS|exact Ht]. Qed.
  Lemma fplan_cmp_okS op f : fentry_hdr_okS f -> fplan_okS user (fplan_cmp op f).
  Proof.
    intros [Hh Ht]. split; cbn [fplan_cmp fp_levels fp_ty]; [|exact Ht]. apply Forall_app. split; [|now apply arg_levels_okS].
    apply cut_after_selected_okS. exact (proj1 Hh).
  Qed.

  Lemma struct_plan_okS fp fs :
    (forall f, In f fs -> fplan_okS user (fp f)) -> Forall (vplan_okS user) (struct_plan fp fs).
  Proof.
    intros H. unfold struct_plan. constructor; [|constructor]. split; cbn; [constructor|].
    apply Forall_forall. intros x Hx. apply in_map_iff in Hx as (f & <- & Hf). now apply H.
  Qed.

  Lemma struct_vplans_okS k h fs : Forall fentry_hdr_okS fs -> Forall (vplan_okS user) (struct_vplans k h fs).
  Proof.
    intros Hf. rewrite Forall_forall in Hf. unfold struct_vplans.
    assert (forall k', Forall (vplan_okS user) (struct_plan (fplan_all k') fs)) as Hall.
    { intros k'. apply struct_plan_okS. intros f Hin. apply fplan_all_okS. now apply Hf. }
    destruct k as [o|o|o|o| | | | | | ]; try apply Hall.
    - apply struct_plan_okS. intros f Hin. apply fplan_cmp_okS. apply Hf. unfold cmp_used_fields in Hin.
      apply filter_In in Hin. tauto.
    - apply struct_plan_okS. intros f Hin. apply fplan_all_okS. apply Hf. unfold debug_fields in Hin.
      destruct (find _ fs) as [g|] eqn:E.
      + destruct Hin as [<-|[]]. apply find_some in E. tauto.
      + apply filter_In in Hin. tauto.
    - destruct (has_default_value h); [constructor|]. apply struct_plan_okS. intros f Hin. apply fplan_default_okS. now apply Hf.
    - constructor.
    - constructor.
  Qed.

  (** ** the header of every impl built from a struct *)
  Theorem struct_hdr_ok s h fs e irs ir :
    oknm user (s_name s) -> generics_okS user (s_generics s) ->
    ha_items h = [] -> hattrs_bounds_okS h -> entry_okS e -> Forall fentry_hdr_okS fs ->
    build_struct_entry s h fs e = Ok irs -> In ir irs ->
    hdr_ok user (ir_hdr ir).
  Proof.
    intros Hn Hg Hi Hh [He1 He2] Hf Hb Hin.
    destruct (struct_entry_hdr s h fs e irs ir Hb Hin) as [Hgen Hthis].
    pose proof (struct_entry_where s h fs e irs ir Hi Hb Hin) as W. unfold where_is, spec_struct_where in W.
    assert (generics_okS user (struct_decl_generics (en_kind e) s)) as Hdg.
    { unfold struct_decl_generics, decl_generics.
      pose proof (expand_self_okS_generics user _ (this_ty_okS user _ _ Hn Hg) _ Hg) as Hx.
      destruct (en_kind e) as [| | |[]| | | | | | ]; assumption. }
    assert (Forall bok (top_levels (en_kind e) e h)) as Htop.
    { unfold top_levels. apply Forall_app. split; [now apply helper_levels_okS|]. constructor; [exact He1|]. constructor; [exact He2|constructor]. }
    destruct (spec_where_okS user _ _ _ Hdg Htop (struct_vplans_okS (en_kind e) h fs Hf)) as [R1 R2].
    rewrite <- W in R1, R2. cbn [fst snd] in R1, R2.
    apply (hdr_pieces_ok user (ir_hdr ir) (s_name s) (s_generics s)); assumption.
  Qed.
End HdrGen.

(** ** ... and of every impl built from an enum *)
Lemma enum_entry_hdr en h vs e ir :
  enum_entry en h vs e = Ok (Ok [ir]) ->
  (ih_generics (ir_hdr ir) = e_generics en \/
   ih_generics (ir_hdr ir) = expand_self_generics (this_ty_of (e_name en) (e_generics en)) (e_generics en)) /\
  ih_this (ir_hdr ir) = this_ty_of (e_name en) (e_generics en).
Proof.
  unfold enum_entry. destruct (en_kind e) eqn:Ek; try discriminate; intros X; inversion X as [Hb]; clear X.
  - revert Hb. unfold build_compare_op. cbv zeta. destruct (entry_push_bounds_to_with _ _ _ _) as [w ub].
    destruct (build_from_variants _ _ _ _) as [[l w']| |]; cbn [bind]; try discriminate.
    intros X; inversion X; subst. cbn. destruct o; cbn; split; auto.
  - revert Hb. unfold build_copy_for_enum. cbv zeta. destruct (entry_push_bounds_to _ _) as [w ub].
    intros X; inversion X; subst. cbn; split; auto.
  - revert Hb. unfold build_clone_for_enum. cbv zeta. destruct (entry_push_bounds_to _ _) as [w ub].
    intros X; inversion X; subst. cbn; split; auto.
  - revert Hb. unfold build_debug_for_enum. cbv zeta. destruct (entry_push_bounds_to_with _ _ _ _) as [w ub].
    destruct (debug_arms _ _ _) as [[l w']| |]; cbn [bind]; try discriminate.
    intros X; inversion X; subst. cbn; split; auto.
  - revert Hb. unfold build_default_for_enum. cbv zeta. destruct (entry_push_bounds_to_with _ _ _ _) as [w ub].
    match goal with |- bind ?m _ = _ -> _ => destruct m as [[b w']| |] end; cbn [bind]; try discriminate.
    intros X; inversion X; subst. cbn; split; auto.
Qed.

Section HdrGenEnum.
  Variable user : tok -> Prop.
  Notation bok := (bounds_okS user).
  Definition ventry_hdr_okS (v : ventry) : Prop :=
    hattrs_bounds_okS user (ve_hattrs v) /\ Forall (fentry_hdr_okS user) (ve_fields v).

  Lemma enum_plan_okS k fp sel vs :
    (forall fs f, In f (sel fs) -> In f fs) ->
    (forall f, fentry_hdr_okS user f -> fplan_okS user (fp f)) ->
    Forall ventry_hdr_okS vs -> Forall (vplan_okS user) (enum_plan k fp sel vs).
  Proof.
    intros Hsel Hfp Hv. unfold enum_plan. apply Forall_forall. intros x Hx. apply in_map_iff in Hx as (v & <- & Hin).
    rewrite Forall_forall in Hv. destruct (Hv v Hin) as [Hh Hf]. split; cbn [vp_levels vp_fields].
    - now apply position_levels_okS.
    - apply Forall_forall. intros y Hy. apply in_map_iff in Hy as (f & <- & Hf'). apply Hfp.
      rewrite Forall_forall in Hf. apply Hf. now apply Hsel.
  Qed.

  Lemma enum_vplans_okS k h vs vp :
    Forall ventry_hdr_okS vs -> enum_vplans k h vs = Some vp -> Forall (vplan_okS user) vp.
  Proof.
    intros Hv. unfold enum_vplans. destruct k as [o|o|o|o| | | | | | ]; try discriminate; intros X; inversion X; subst; clear X.
    - apply enum_plan_okS; [|intros f; apply fplan_cmp_okS|exact Hv].
      intros fs f Hin. unfold cmp_used_fields in Hin. apply filter_In in Hin. tauto.
    - apply enum_plan_okS; [auto|intros f; apply fplan_all_okS|exact Hv].
    - apply enum_plan_okS; [auto|intros f; apply fplan_all_okS|exact Hv].
    - apply enum_plan_okS; [|intros f; apply fplan_all_okS|exact Hv].
      intros fs f Hin. unfold debug_fields in Hin. destruct (find _ fs) as [g|] eqn:E.
      + destruct Hin as [<-|[]]. apply find_some in E. tauto.
      + apply filter_In in Hin. tauto.
    - revert H0. destruct (has_default_value h); [intros X; inversion X; constructor|].
      destruct (default_variant vs) as [v|] eqn:E; cbn; [|discriminate]. intros X; inversion X; subst.
      assert (In v vs) as Hin.
      { unfold default_variant in E. destruct (filter is_marked_default vs) as [|a [|b l]] eqn:Ef.
        - destruct vs as [|v0 [|]]; try discriminate. inversion E; subst. now left.
        - inversion E; subst. assert (In v (filter is_marked_default vs)) as H by (rewrite Ef; now left).
          apply filter_In in H. tauto.
        - discriminate. }
      rewrite Forall_forall in Hv. destruct (Hv v Hin) as [Hh Hf]. constructor; [|constructor].
      unfold default_vplan. split; cbn [vp_levels vp_fields]; [now apply position_levels_okS|].
      apply Forall_forall. intros y Hy. apply in_map_iff in Hy as (f & <- & Hf'). apply fplan_default_okS.
      rewrite Forall_forall in Hf. now apply Hf.
  Qed.

  Theorem enum_hdr_ok en h vs e ir :
    oknm user (e_name en) -> generics_okS user (e_generics en) ->
    ha_items h = [] -> hattrs_bounds_okS user h -> entry_okS user e -> Forall ventry_hdr_okS vs ->
    enum_entry en h vs e = Ok (Ok [ir]) ->
    hdr_ok user (ir_hdr ir).
  Proof.
    intros Hn Hg Hi Hh [He1 He2] Hv Hb.
    destruct (enum_entry_hdr en h vs e ir Hb) as [Hgen Hthis].
    destruct (enum_entry_where en h vs e ir Hi Hb) as (vp & Hvp & W). unfold where_is in W.
    assert (generics_okS user (decl_generics (en_kind e) (e_name en) (e_generics en))) as Hdg.
    { unfold decl_generics.
      pose proof (expand_self_okS_generics user _ (this_ty_okS user _ _ Hn Hg) _ Hg) as Hx.
      destruct (en_kind e) as [| | |[]| | | | | | ]; assumption. }
    assert (Forall bok (top_levels (en_kind e) e h)) as Htop.
    { unfold top_levels. apply Forall_app. split; [now apply helper_levels_okS|].
      constructor; [exact He1|]. constructor; [exact He2|constructor]. }
    destruct (spec_where_okS user _ _ _ Hdg Htop (enum_vplans_okS _ _ _ _ Hv Hvp)) as [R1 R2].
    rewrite <- W in R1, R2. cbn [fst snd] in R1, R2.
    apply (hdr_pieces_ok user (ir_hdr ir) (e_name en) (e_generics en)); assumption.
  Qed.
End HdrGenEnum.
