(** * LemBalanced: substituting the field expression for `$` keeps a key well-bracketed, and the field stays ONE operand

    `Template::apply` (compare_op.rs) replaces every placeholder token of a `key = ..` template by the expression of the
    field.  Tokens are flat in the model (a group is an opening and a closing token), so "the result is a token TREE again"
    is a statement: brackets must match.  It holds because the substituted expression is a single parenthesised group
    ([field_operand] always is), for every key that is well-bracketed itself - which the user's is, being the content of
    an attribute. *)
From DX Require Import Syntax Render GenAttrs IR RenderOut.

Definition delim_eqb (a b : delim) : bool :=
  match a, b with DParen, DParen | DBrace, DBrace | DBracket, DBracket => true | _, _ => false end.

(** run the bracket automaton from a stack of open groups; [None]: a closing token without (or with the wrong) partner *)
Fixpoint bal_end (st : list delim) (ts : toks) : option (list delim) :=
  match ts with
  | [] => Some st
  | TO d :: r => bal_end (d :: st) r
  | TC d :: r => match st with
                 | d' :: st' => if delim_eqb d d' then bal_end st' r else None
                 | [] => None
                 end
  | _ :: r => bal_end st r
  end.
Definition balanced (ts : toks) : bool :=
  match bal_end [] ts with Some [] => true | _ => false end.

Lemma bal_end_app st a b :
  bal_end st (a ++ b) = match bal_end st a with Some st' => bal_end st' b | None => None end.
Proof.
  revert st. induction a as [|t a IH]; intros st; cbn [app bal_end]; [reflexivity|].
  destruct t as [s|s|s|s|d|d]; try apply IH.
  destruct st as [|d' st']; [reflexivity|]. destruct (delim_eqb d d'); [apply IH | reflexivity].
Qed.

(** a run that succeeds never looks below the stack it started from *)
Lemma bal_end_frame ts : forall st st' ext, bal_end st ts = Some st' -> bal_end (st ++ ext) ts = Some (st' ++ ext).
Proof.
  induction ts as [|t r IH]; intros st st' ext H; cbn [bal_end] in *.
  - injection H as <-. reflexivity.
  - destruct t as [s|s|s|s|d|d]; try (apply IH; exact H).
    + apply (IH (d :: st)). exact H.
    + destruct st as [|d' st0]; [discriminate H|]. cbn [app]. destruct (delim_eqb d d'); [apply IH; exact H | discriminate H].
Qed.

Lemma balanced_neutral v : balanced v = true -> forall st, bal_end st v = Some st.
Proof.
  unfold balanced. intros H st. destruct (bal_end [] v) as [[|d l]|] eqn:E; try discriminate H.
  exact (bal_end_frame v [] [] st E).
Qed.

Lemma delim_eqb_refl d : delim_eqb d d = true.
Proof. destruct d; reflexivity. Qed.

(** a group around a balanced sequence is balanced *)
Lemma balanced_tparen t : balanced t = true -> balanced (tparen t) = true.
Proof.
  intros H. unfold balanced, tparen. cbn [bal_end]. rewrite bal_end_app, (balanced_neutral t H [DParen]).
  cbn [bal_end delim_eqb]. reflexivity.
Qed.

(** ** the substitution *)
Lemma bal_end_apply_template v : balanced v = true ->
  forall k st, bal_end st (apply_template k v) = bal_end st k.
Proof.
  intros Hv. induction k as [|t k IH]; intros st; [reflexivity|].
  unfold apply_template in *. cbn [flat_map]. rewrite bal_end_app.
  destruct t as [s|s|s|s|d|d]; cbn [bal_end]; try apply IH.
  - destruct (String.eqb s placeholder).
    + rewrite (balanced_neutral v Hv st). rewrite IH.
      (* the placeholder itself is an identifier: the automaton steps over it *)
      reflexivity.
    + cbn [bal_end]. apply IH.
  - destruct st as [|d' st']; [reflexivity|]. destruct (delim_eqb d d'); [apply IH | reflexivity].
Qed.

Theorem apply_template_balanced k v :
  balanced k = true -> balanced v = true -> balanced (apply_template k v) = true.
Proof. intros Hk Hv. unfold balanced. rewrite (bal_end_apply_template v Hv k []). exact Hk. Qed.

(** the operand that replaces `$` is one parenthesised group, for a struct field (`(self.x)`) and for a variant
    binding (a dereferenced binding in parentheses) alike *)
Lemma balanced_no_brackets ts :
  (forall t, In t ts -> match t with TO _ | TC _ => False | _ => True end) -> balanced ts = true.
Proof.
  intros H. unfold balanced. assert (forall st, bal_end st ts = Some st) as ->; [|reflexivity].
  induction ts as [|t r IH]; intros st; [reflexivity|].
  assert (Ht := H t (or_introl eq_refl)). destruct t; try contradiction; cbn [bal_end]; apply IH; intros x Hx; apply H; now right.
Qed.

Lemma r_member_no_brackets m t : In t (r_member m) -> match t with TO _ | TC _ => False | _ => True end.
Proof. destruct m; cbn; intros [<-|[]]; exact I. Qed.

Theorem place_of_balanced sk base f : balanced (place_of sk base f) = true.
Proof.
  destruct sk; cbn [place_of]; apply balanced_tparen, balanced_no_brackets.
  - unfold self_dot. intros t [<-|[<-|H]]; [exact I | exact I | eapply r_member_no_brackets, H].
  - intros t [<-|[<-|[]]]; exact I.
Qed.

(** ... and it IS one group: an opening parenthesis, a bracket-free inside, the closing parenthesis *)
Theorem place_of_is_one_group sk base f :
  exists inner, place_of sk base f = tparen inner /\
                forall t, In t inner -> match t with TO _ | TC _ => False | _ => True end.
Proof.
  destruct sk; cbn [place_of]; eexists; (split; [reflexivity|]).
  - unfold self_dot. intros t [<-|[<-|H]]; [exact I | exact I | eapply r_member_no_brackets, H].
  - intros t [<-|[<-|[]]]; exact I.
Qed.

(** what the comparison templates embed: the key with the field expression in the place of every `$` *)
Theorem key_operand_balanced sk base f k :
  balanced k = true -> balanced (apply_template k (place_of sk base f)) = true.
Proof. intros Hk. apply apply_template_balanced; [exact Hk | apply place_of_balanced]. Qed.

(** ** every comparison expression and every list of them is well-bracketed, if the user's `key` / `by` expressions are *)
Definition Bal (ts : toks) : Prop := forall st, bal_end st ts = Some st.

Lemma Bal_balanced ts : Bal ts <-> balanced ts = true.
Proof.
  split; [|intros H; exact (balanced_neutral ts H)]. intros H. unfold balanced. rewrite (H []). reflexivity.
Qed.
Lemma Bal_nil : Bal []. Proof. intros st. reflexivity. Qed.
Lemma Bal_app a b : Bal a -> Bal b -> Bal (a ++ b).
Proof. intros Ha Hb st. rewrite bal_end_app, Ha. apply Hb. Qed.
Lemma Bal_cons_plain t r : match t with TO _ | TC _ => False | _ => True end -> Bal r -> Bal (t :: r).
Proof. intros Ht Hr st. destruct t; try contradiction; cbn [bal_end]; apply Hr. Qed.
Lemma Bal_group d t : Bal t -> Bal (TO d :: t ++ [TC d]).
Proof. intros H st. cbn [bal_end]. rewrite bal_end_app, H. cbn [bal_end]. rewrite delim_eqb_refl. reflexivity. Qed.
Lemma Bal_tparen t : Bal t -> Bal (tparen t). Proof. apply Bal_group. Qed.
Lemma Bal_tbrace t : Bal t -> Bal (tbrace t). Proof. apply Bal_group. Qed.
Lemma Bal_tbracket t : Bal t -> Bal (tbracket t). Proof. apply Bal_group. Qed.
Lemma Bal_apply_template k v : Bal k -> Bal v -> Bal (apply_template k v).
Proof. intros Hk Hv. apply Bal_balanced, apply_template_balanced; apply Bal_balanced; assumption. Qed.
Lemma Bal_place_of sk base f : Bal (place_of sk base f).
Proof. apply Bal_balanced, place_of_balanced. Qed.
Lemma Bal_concat l : Forall Bal l -> Bal (concat l).
Proof. induction 1 as [|x r Hx _ IH]; cbn [concat]; [apply Bal_nil | apply Bal_app; assumption]. Qed.
Lemma Bal_sep_by sep l : Bal sep -> Forall Bal l -> Bal (sep_by sep l).
Proof.
  intros Hs H. induction H as [|x r Hx Hr IH]; cbn [sep_by]; [apply Bal_nil|].
  destruct r as [|y r']; [exact Hx|]. apply Bal_app; [exact Hx|]. apply Bal_app; [exact Hs | exact IH].
Qed.

(** literal template text: decided by running the automaton on the constant *)
Ltac bal_lit := apply Bal_balanced; vm_compute; reflexivity.
Ltac bals :=
  repeat first
    [ assumption
    | apply Bal_nil
    | apply Bal_place_of
    | apply Bal_app
    | apply Bal_tparen
    | apply Bal_tbrace
    | apply Bal_tbracket
    | apply Bal_apply_template
    | apply Bal_cons_plain; [exact I|]
    | bal_lit ].

Definition cexpr_Bal (e : cmp_expr) : Prop :=
  match e with CEDefault _ => True | CEKey k => Bal k | CEBy _ b => Bal b end.

Theorem r_cmp_expr_Bal op sk c : cexpr_Bal (cf_expr c) -> Bal (r_cmp_expr op sk c).
Proof.
  intros He. unfold r_cmp_expr.
  destruct op; destruct (cf_expr c) as [t|k|o b]; cbn [cexpr_Bal] in He;
    try destruct o; try destruct (cf_reverse c); unfold comma, ordering, opt_ordering; bals.
Qed.

Theorem r_cmp_fields_Bal op sk cs :
  Forall (fun c => cexpr_Bal (cf_expr c)) cs -> Bal (r_cmp_fields op sk cs).
Proof.
  intros H. assert (Forall (fun c => Bal (r_cmp_expr op sk c)) cs) as Hc.
  { eapply Forall_impl; [|exact H]. intros c. apply r_cmp_expr_Bal. }
  unfold r_cmp_fields. destruct op.
  - (* Ord *) apply Bal_app; [|bal_lit]. apply Bal_concat, Forall_map. eapply Forall_impl; [|exact Hc].
    intros c Hb. cbn beta. bals.
  - (* PartialOrd *) apply Bal_app; [|bal_lit]. apply Bal_concat, Forall_map. eapply Forall_impl; [|exact Hc].
    intros c Hb. cbn beta. bals.
  - (* Eq *) apply Bal_nil.
  - (* PartialEq *) destruct cs as [|c0 r]; [bal_lit|]. apply Bal_sep_by; [bal_lit|]. apply Forall_map.
    eapply Forall_impl; [|exact Hc]. intros c Hb. cbn beta. bals.
  - (* Hash *) apply Bal_concat, Forall_map. exact Hc.
Qed.

(** ** printed types, bounds and predicates are well-bracketed - unconditionally: they are printed from an AST *)
From DX Require Import LemSelf.

Lemma Forall_firstn {A} (P : A -> Prop) n l : Forall P l -> Forall P (firstn n l).
Proof. revert n. induction l as [|x r IH]; intros [|n] H; cbn; try constructor; inversion H; auto. Qed.
Lemma Forall_skipn {A} (P : A -> Prop) n l : Forall P l -> Forall P (skipn n l).
Proof. revert n. induction l as [|x r IH]; intros [|n] H; cbn; try assumption; inversion H; auto. Qed.
Lemma Bal_plain ts : (forall t, In t ts -> match t with TO _ | TC _ => False | _ => True end) -> Bal ts.
Proof. intros H. apply Bal_balanced, balanced_no_brackets, H. Qed.
Lemma Bal_if (b : bool) a c : Bal a -> Bal c -> Bal (if b then a else c).
Proof. destruct b; auto. Qed.
Lemma Bal_one t : match t with TO _ | TC _ => False | _ => True end -> Bal [t].
Proof. intros H. apply Bal_cons_plain; [exact H | apply Bal_nil]. Qed.

Lemma r_cexpr_Bal c : Bal (r_cexpr c).
Proof.
  destruct c as [s|lead names]; cbn [r_cexpr]; [apply Bal_one; exact I|].
  apply Bal_app; [destruct lead; [apply Bal_one; exact I | apply Bal_nil]|].
  apply Bal_sep_by; [apply Bal_one; exact I|]. apply Forall_map, Forall_forall. intros n _. apply Bal_one. exact I.
Qed.

Ltac bal1 := first [apply Bal_one; exact I | apply Bal_nil | apply Bal_if | assumption].
Ltac balt :=
  unfold comma in *;
  repeat first
    [ assumption | apply Bal_nil | match goal with |- Bal (r_cexpr _) => apply r_cexpr_Bal end
    | match goal with |- Bal (sep_by _ _) => apply Bal_sep_by; [apply Bal_one; exact I|] end
    | apply Bal_tparen | apply Bal_tbrace | apply Bal_tbracket
    | match goal with |- Bal (_ ++ _) => apply Bal_app end
    | apply Bal_cons_plain; [exact I|] | apply Bal_if ].

Lemma r_ty_Bal_all : forall t, Bal (r_ty t).
Proof.
  apply (ty_ind2 (fun t => Bal (r_ty t)) (fun s => Bal (r_seg s)) (fun a => Bal (r_segargs a))
                 (fun g => Bal (r_garg g)) (fun b => Bal (r_tbound b))).
  - intros q lead segs Hq Hs. assert (Forall Bal (map r_seg segs)) as Hm by (apply Forall_map; exact Hs).
    destruct q as [[qt pos]|]; cbn [r_ty].
    + cbn [Pq fst] in Hq. balt; try (destruct (_ =? _)); try (destruct (_ <? _)); balt;
        first [apply Forall_firstn; exact Hm | apply Forall_skipn; exact Hm | idtac].
    + balt.
  - intros lt mt t IH. cbn [r_ty]. balt. destruct lt; cbn [opt_toks]; balt.
  - intros ts IH. cbn [r_ty]. assert (Forall Bal (map r_ty ts)) as Hm by (apply Forall_map; exact IH).
    destruct (map r_ty ts) as [|x [|y r]] eqn:E; unfold comma.
    + balt.
    + inversion Hm; subst. balt.
    + balt.
  - intros t len IH. cbn [r_ty]. balt.
  - intros t IH. cbn [r_ty]. balt.
  - intros mt t IH. cbn [r_ty]. balt.
  - intros args ret IHa IHr. cbn [r_ty]. balt; [apply Forall_map; exact IHa|]. destruct ret as [r|]; cbn [Popt] in IHr; balt.
  - cbn [r_ty]. balt.
  - intros t IH. cbn [r_ty]. balt.
  - intros bs IH. cbn [r_ty]. balt. apply Forall_map; exact IH.
  - intros n a IH. cbn [r_seg]. balt.
  - cbn [r_segargs]. balt.
  - intros l IH. cbn [r_segargs]. balt. apply Forall_map; exact IH.
  - intros ins out IHi IHo. cbn [r_segargs]. balt; [apply Forall_map; exact IHi|]. destruct out as [r|]; cbn [Popt] in IHo; balt.
  - intros t IH. exact IH.
  - intros l. cbn [r_garg]. balt.
  - intros c. cbn [r_garg]. balt.
  - intros n t IH. cbn [r_garg]. balt.
  - intros m lead segs IH. cbn [r_tbound]. balt. apply Forall_map; exact IH.
  - intros l. cbn [r_tbound]. balt.
Qed.

Theorem r_ty_balanced t : balanced (r_ty t) = true.
Proof. apply Bal_balanced, r_ty_Bal_all. Qed.

Lemma r_tbound_Bal b : Bal (r_tbound b).
Proof.
  destruct b as [m lead segs|l]; cbn [r_tbound]; balt.
  apply Forall_map, Forall_forall. intros [n a] _.
  change (r_seg (Seg n a)) with (r_ty (TyPath None false [Seg n a])). apply r_ty_Bal_all.
Qed.

Theorem r_wpred_balanced p : balanced (r_wpred p) = true.
Proof.
  apply Bal_balanced. destruct p as [t bs|l ls]; cbn [r_wpred]; unfold r_tbounds.
  - apply Bal_app; [apply r_ty_Bal_all|]. apply Bal_app; [apply Bal_one; exact I|].
    apply Bal_sep_by; [apply Bal_one; exact I|]. apply Forall_map, Forall_forall. intros b _. apply r_tbound_Bal.
  - apply Bal_plain. intros t [<-|[<-|H]]; try exact I. revert t H.
    induction ls as [|x [|y r] IH]; cbn; intros t H; try contradiction.
    + destruct H as [<-|[]]; exact I.
    + destruct H as [<-|[<-|H]]; try exact I. apply IH, H.
Qed.

(** ** whole comparison bodies of enums, and the hidden `Eq` assertion *)
Lemma r_member_Bal m : Bal (r_member m).
Proof. apply Bal_plain. intros t. apply r_member_no_brackets. Qed.

Lemma ctor_args_Bal sh fs vals : Forall Bal vals -> Bal (ctor_args sh fs vals).
Proof.
  intros H. destruct sh; cbn [ctor_args]; [| |apply Bal_nil].
  - apply Bal_tbrace, Bal_concat, Forall_map, Forall_forall. intros [f v] Hin.
    apply in_combine_r in Hin. rewrite Forall_forall in H. specialize (H v Hin).
    unfold comma. apply Bal_app; [apply r_member_Bal|]. apply Bal_app; [apply Bal_one; exact I|].
    apply Bal_app; [exact H | apply Bal_one; exact I].
  - apply Bal_tparen. unfold term_by. apply Bal_concat, Forall_map. eapply Forall_impl; [|exact H].
    intros v Hv. unfold comma. apply Bal_app; [exact Hv | apply Bal_one; exact I].
Qed.

Lemma make_pat_Bal sp prefix arm : Bal sp -> Bal (make_pat sp prefix arm).
Proof.
  intros Hs. destruct arm as [[v sh] fs]. cbn [make_pat]. apply Bal_app; [exact Hs|].
  apply Bal_app; [apply Bal_plain; intros t [<-|[<-|[]]]; exact I|].
  apply ctor_args_Bal. unfold binders. apply Forall_map, Forall_forall. intros f _. apply Bal_one. exact I.
Qed.

Lemma make_pat_wildcard_Bal arm : Bal (make_pat_wildcard arm).
Proof.
  destruct arm as [[v sh] fs]. cbn [make_pat_wildcard]. apply Bal_app; [bal_lit|].
  apply Bal_app; [apply Bal_one; exact I|]. destruct sh; [bal_lit | bal_lit | apply Bal_nil].
Qed.

Lemma index_arms_Bal vs : forall i, Bal (index_arms vs i).
Proof.
  induction vs as [|arm r IH]; intros i; cbn [index_arms]; [apply Bal_nil|].
  apply Bal_app; [apply Bal_tparen, make_pat_wildcard_Bal|].
  apply Bal_app; [apply Bal_plain; intros t [<-|[<-|[<-|[]]]]; exact I | apply IH].
Qed.

Lemma to_index_fn_Bal vs : Bal (to_index_fn vs).
Proof.
  unfold to_index_fn. apply Bal_app; [bal_lit|]. apply Bal_app; [|bal_lit].
  apply Bal_tbrace, Bal_app; [bal_lit|]. apply Bal_tbrace, Bal_app; [apply index_arms_Bal | bal_lit].
Qed.

Definition cfields_Bal (cs : list cmp_field) : Prop := Forall (fun c => cexpr_Bal (cf_expr c)) cs.

Theorem r_cmp_enum_Bal op vs :
  Forall (fun x => cfields_Bal (snd x)) vs -> Bal (r_cmp_enum op vs).
Proof.
  intros H.
  assert (Bal (concat (map (fun x => tparen (make_pat [TI "Self"] "__self" (arm_of x) ++ comma ++
                                              make_pat [TI "Self"] "__other" (arm_of x)) ++ [TP "=>"] ++
                                      tbrace (r_cmp_fields op SKEnum (snd x))) vs))) as Harms.
  { apply Bal_concat, Forall_map. eapply Forall_impl; [|exact H]. intros x Hx. cbn beta. unfold comma.
    apply Bal_app; [apply Bal_tparen, Bal_app; [apply make_pat_Bal, Bal_one; exact I|];
                    apply Bal_app; [apply Bal_one; exact I | apply make_pat_Bal, Bal_one; exact I]|].
    apply Bal_app; [apply Bal_one; exact I|]. apply Bal_tbrace, r_cmp_fields_Bal, Hx. }
  unfold r_cmp_enum. destruct op.
  - apply Bal_app; [bal_lit|]. apply Bal_tbrace, Bal_app; [exact Harms|]. apply Bal_app; [bal_lit|].
    apply Bal_app; [|bal_lit]. apply Bal_tbrace, Bal_app; [apply to_index_fn_Bal | bal_lit].
  - apply Bal_app; [bal_lit|]. apply Bal_tbrace, Bal_app; [exact Harms|]. apply Bal_app; [bal_lit|].
    apply Bal_app; [|bal_lit]. apply Bal_tbrace, Bal_app; [apply to_index_fn_Bal | bal_lit].
  - apply Bal_nil.
  - apply Bal_app; [bal_lit|]. apply Bal_tbrace, Bal_app; [exact Harms | bal_lit].
  - apply Bal_app; [bal_lit|]. apply Bal_tbrace, Bal_app; [|bal_lit].
    apply Bal_concat, Forall_map. eapply Forall_impl; [|exact H]. intros x Hx. cbn beta.
    apply Bal_app; [apply make_pat_Bal, Bal_one; exact I|]. apply Bal_app; [apply Bal_one; exact I|].
    apply Bal_tbrace, r_cmp_fields_Bal, Hx.
Qed.

Theorem r_eq_check_Bal sk x :
  match snd x with QKey k => Bal k | _ => True end -> Bal (r_eq_check sk x).
Proof.
  intros H. unfold r_eq_check. destruct (snd x) as [| |k]; [apply Bal_nil | |];
    (apply Bal_tbrace, Bal_app; [bal_lit|]; apply Bal_tparen, Bal_app; [bal_lit|]; apply Bal_tparen).
  - apply Bal_place_of.
  - apply Bal_apply_template; [exact H | apply Bal_place_of].
Qed.

(** ** Clone bodies *)
Lemma core_path_Bal names : Bal (core_path names).
Proof.
  unfold core_path. apply Bal_cons_plain; [exact I|]. apply Bal_sep_by; [apply Bal_one; exact I|].
  apply Forall_map, Forall_forall. intros n _. apply Bal_one. exact I.
Qed.
Lemma self_dot_Bal base m : Bal (self_dot base m).
Proof. unfold self_dot. apply Bal_app; [apply Bal_plain; intros t [<-|[<-|[]]]; exact I | apply r_member_Bal]. Qed.
Lemma Bal_term_by sep l : Bal sep -> Forall Bal l -> Bal (term_by sep l).
Proof.
  intros Hs H. unfold term_by. apply Bal_concat, Forall_map. eapply Forall_impl; [|exact H].
  intros x Hx. apply Bal_app; assumption.
Qed.
Lemma ufcs_Bal t tr f args : Bal t -> Bal tr -> Forall Bal args -> Bal (ufcs t tr f args).
Proof.
  intros Ht Htr Ha. unfold ufcs. apply Bal_app; [apply Bal_one; exact I|]. apply Bal_app; [exact Ht|].
  apply Bal_app; [apply Bal_one; exact I|]. apply Bal_app; [exact Htr|].
  apply Bal_app; [apply Bal_plain; intros x [<-|[<-|[<-|[]]]]; exact I|].
  apply Bal_tparen, Bal_sep_by; [apply Bal_one; exact I | exact Ha].
Qed.

Theorem r_clone_struct_Bal name sh fs : Bal (r_clone_struct name sh fs).
Proof.
  unfold r_clone_struct, clone_tr. apply Bal_app; [bal_lit|]. apply Bal_app.
  - apply Bal_tbrace, Bal_app; [apply Bal_one; exact I|]. apply ctor_args_Bal, Forall_map, Forall_forall.
    intros f _. apply ufcs_Bal; [apply r_ty_Bal_all | apply core_path_Bal|].
    constructor; [|constructor]. apply Bal_cons_plain; [exact I | apply self_dot_Bal].
  - apply Bal_app; [bal_lit|]. apply Bal_tbrace, Bal_term_by; [apply Bal_one; exact I|].
    apply Forall_map, Forall_forall. intros f _. apply ufcs_Bal; [apply r_ty_Bal_all | apply core_path_Bal|].
    constructor; [apply Bal_app; [bal_lit | apply self_dot_Bal]|]. constructor; [|constructor].
    apply Bal_cons_plain; [exact I | apply self_dot_Bal].
Qed.

Theorem r_clone_enum_Bal vs : Bal (r_clone_enum vs).
Proof.
  unfold r_clone_enum, clone_tr. apply Bal_app; [bal_lit|]. apply Bal_app.
  - apply Bal_tbrace, Bal_app; [unfold match_self; destruct vs; bal_lit|].
    apply Bal_tbrace, Bal_term_by; [apply Bal_one; exact I|]. apply Forall_map, Forall_forall.
    intros [[v sh] fs] _. apply Bal_app; [apply make_pat_Bal, Bal_one; exact I|].
    apply Bal_app; [apply Bal_one; exact I|]. apply Bal_app; [bal_lit|]. apply Bal_app; [apply Bal_one; exact I|].
    apply ctor_args_Bal, Forall_map, Forall_forall. intros f _.
    apply ufcs_Bal; [apply r_ty_Bal_all | apply core_path_Bal|]. constructor; [apply Bal_one; exact I | constructor].
  - apply Bal_app; [bal_lit|]. apply Bal_tbrace, Bal_app; [bal_lit|]. apply Bal_tbrace, Bal_app; [|bal_lit].
    apply Bal_term_by; [apply Bal_one; exact I|]. apply Forall_map, Forall_forall. intros [[v sh] fs] _.
    apply Bal_app; [apply Bal_tparen, Bal_app; [apply make_pat_Bal, Bal_one; exact I|];
                    apply Bal_app; [apply Bal_one; exact I | apply make_pat_Bal, Bal_one; exact I]|].
    apply Bal_app; [apply Bal_one; exact I|]. apply Bal_tbrace, Bal_term_by; [apply Bal_one; exact I|].
    apply Forall_map, Forall_forall. intros f _. apply ufcs_Bal; [apply r_ty_Bal_all | apply core_path_Bal|].
    constructor; [apply Bal_one; exact I|]. constructor; [apply Bal_one; exact I | constructor].
Qed.

(** ** Debug and Default pieces *)
Theorem r_debug_expr_Bal d place : (forall f, Bal (place f)) -> Bal (r_debug_expr d place).
Proof.
  intros Hp. destruct d as [f|name sh fs]; cbn [r_debug_expr].
  - apply Bal_app; [bal_lit|]. apply Bal_tparen, Bal_app; [apply Hp | bal_lit].
  - apply Bal_app; [bal_lit|]. apply Bal_app; [apply Bal_one; exact I|].
    apply Bal_app; [apply Bal_tparen, Bal_app; [bal_lit | apply Bal_tparen, Bal_one; exact I]|].
    apply Bal_app; [|bal_lit]. apply Bal_concat, Forall_map, Forall_forall. intros f _.
    apply Bal_app; [bal_lit|]. apply Bal_tparen, Bal_app; [|apply Hp].
    destruct sh; try apply Bal_nil. apply Bal_app; [bal_lit|]. unfold comma.
    apply Bal_app; [|apply Bal_one; exact I]. apply Bal_tparen.
    destruct (fl_member f); [apply Bal_one; exact I | apply r_member_Bal].
Qed.

Theorem r_dvalue_Bal v : match v with DVInto _ e | DVExpr e => Bal e | DVDefault _ => True end -> Bal (r_dvalue v).
Proof.
  intros H. destruct v as [t e|e|t]; cbn [r_dvalue].
  - apply Bal_app; [bal_lit|]. apply Bal_app; [apply r_ty_Bal_all|]. apply Bal_app; [bal_lit|]. apply Bal_tparen, H.
  - exact H.
  - apply ufcs_Bal; [apply r_ty_Bal_all | apply core_path_Bal | constructor].
Qed.
