(** * RenderOut: IR -> the exact token sequence of the corresponding `quote!` template.
    No theorems; exists so that correspondence L1 is plain token equality. *)
From DX Require Import Syntax Render GenBound GenAttrs IR.

Definition core_path (names : list string) : toks :=
  TP "::" :: sep_by [TP "::"] (map (fun n => [TI n]) names).
Definition trait_path (k : kind) : toks := core_path (kind_path k).

Fixpoint nat_to_string_aux (fuel n : nat) (acc : string) : string :=
  match fuel with
  | 0 => acc
  | S f =>
      let d := String (ascii_of_nat (48 + n mod 10)) acc in
      if n / 10 =? 0 then d else nat_to_string_aux f (n / 10) d
  end.
Definition nat_to_string (n : nat) : string := nat_to_string_aux (S n) n "".

Definition r_member (m : member) : toks :=
  match m with MNamed s => [TI s] | MIndex n => [TL (nat_to_string n)] end.

(** `FieldEntry::make_ident(prefix)`: by field position (callers pass [MIndex (fl_index f)]) *)
Definition make_ident (prefix : string) (m : member) : string :=
  match m with
  | MNamed s => prefix +++ "_" +++ unraw s
  | MIndex n => prefix +++ "_" +++ nat_to_string n
  end.

Definition with_ref (is_ref : bool) (t : toks) : toks := if is_ref then TP "&" :: t else t.
(** `ref_target`: the tokens of a type right after `&`, `&'a`, `&mut` — a trait object with several
    bounds is parenthesised there (`&(dyn A + B)`) *)
Definition ref_target (t : ty) : toks :=
  match t with
  | TyDyn (_ :: _ :: _) => tparen (r_ty t)
  | _ => r_ty t
  end.
Definition with_ref_ty (is_ref : bool) (t : ty) : toks := if is_ref then TP "&" :: ref_target t else r_ty t.

(** `build_ctor_args` *)
Definition ctor_args (sh : shape) (fs : list fld) (values : list toks) : toks :=
  match sh with
  | ShNamed =>
      tbrace (concat (map (fun '(f, v) => r_member (fl_member f) ++ [TP ":"] ++ v ++ comma)
                          (combine fs values)))
  | ShUnnamed => tparen (term_by comma values)
  | ShUnit => []
  end.

(** ** headers *)
Definition r_where_item (form : where_form) (tr : toks) (t : ty) : toks :=
  let ty := r_ty t in
  let rt := ref_target t in
  match form with
  | WFPlain => ty ++ [TP ":"] ++ tr
  | WFBin true true =>
      q "for < '__a > & '__a" ++ rt ++ [TP ":"] ++ tr ++ q "< & '__a" ++ rt ++ q ", Output =" ++ ty ++ q ">"
  | WFBin true false =>
      q "for < '__a > & '__a" ++ rt ++ [TP ":"] ++ tr ++ q "<" ++ ty ++ q ", Output =" ++ ty ++ q ">"
  | WFBin false true =>
      q "for < '__a >" ++ ty ++ [TP ":"] ++ tr ++ q "< & '__a" ++ rt ++ q ", Output =" ++ ty ++ q ">"
  | WFBin false false =>
      ty ++ [TP ":"] ++ tr ++ q "<" ++ ty ++ q ", Output =" ++ ty ++ q ">"
  | WFAssign true => q "for < '__a >" ++ ty ++ [TP ":"] ++ tr ++ q "< & '__a" ++ rt ++ q ">"
  | WFAssign false => ty ++ [TP ":"] ++ tr ++ q "<" ++ ty ++ q ">"
  | WFUn true => q "for < '__a > & '__a" ++ rt ++ [TP ":"] ++ tr ++ q "< Output =" ++ ty ++ q ">"
  | WFUn false => ty ++ [TP ":"] ++ tr ++ q "< Output =" ++ ty ++ q ">"
  end.

(** `WhereClauseBuilder::build` *)
Definition r_wheres (h : impl_hdr) : toks :=
  let ws := map (r_where_item (ih_wform h) (trait_path (ih_trait h))) (ih_wtypes h)
            ++ map r_wpred (ih_wpreds h) in
  match ws with
  | [] => []
  | _ => TI "where" :: term_by comma ws
  end.

Definition cmp_allow : toks :=
  q "# [ allow ( clippy :: double_parens ) ] # [ allow ( unused_parens ) ]".

Definition r_hdr (h : impl_hdr) : toks :=
  q "# [ automatically_derived ]" ++ (if ih_allow h then cmp_allow else []) ++
  [TI "impl"] ++ r_impl_g (ih_generics h) ++ trait_path (ih_trait h) ++
  match ih_rhs h with
  | Some r => [TP "<"] ++ with_ref r (r_ty (ih_this h)) ++ [TP ">"]
  | None => []
  end ++ [TI "for"] ++ with_ref (ih_self_ref h) (r_ty (ih_this h)) ++ r_wheres h.

(** ** bodies *)
Definition ufcs (t : toks) (tr : toks) (f : string) (args : list toks) : toks :=
  [TP "<"] ++ t ++ [TI "as"] ++ tr ++ [TP ">"; TP "::"; TI f] ++ tparen (sep_by comma args).

Definition self_dot (base : string) (m : member) : toks := [TI base; TP "."] ++ r_member m.

Definition clone_tr : toks := core_path ["core"; "clone"; "Clone"].

Definition r_clone_struct (name : string) (sh : shape) (fs : list fld) : toks :=
  q "fn clone ( & self ) -> Self" ++
  tbrace ([TI name] ++ ctor_args sh fs
            (map (fun f => ufcs (r_ty (fl_ty f)) clone_tr "clone"
                             [TP "&" :: self_dot "self" (fl_member f)]) fs)) ++
  q "fn clone_from ( & mut self , __source : & Self )" ++
  tbrace (term_by [TP ";"]
            (map (fun f => ufcs (r_ty (fl_ty f)) clone_tr "clone_from"
                             [q "& mut" ++ self_dot "self" (fl_member f);
                              TP "&" :: self_dot "__source" (fl_member f)]) fs)).

Definition binders (prefix : string) (fs : list fld) : list toks :=
  map (fun f => [TI (make_ident prefix (MIndex (fl_index f)))]) fs.

(** `make_pat_with_self_path` *)
Definition make_pat (self_path : toks) (prefix : string) (arm : string * shape * list fld) : toks :=
  let '(v, sh, fs) := arm in
  self_path ++ [TP "::"; TI v] ++ ctor_args sh fs (binders prefix fs).

Definition make_pat_wildcard (arm : string * shape * list fld) : toks :=
  let '(v, sh, _) := arm in
  q "Self ::" ++ [TI v] ++
  match sh with ShNamed => q "{ .. }" | ShUnnamed => q "( .. )" | ShUnit => [] end.

(** `match self` — or `match *self` for an enum without variants *)
Definition match_self {A} (vs : list A) : toks :=
  match vs with [] => q "match * self" | _ => q "match self" end.

Definition r_clone_enum (vs : list (string * shape * list fld)) : toks :=
  let arm_clone arm :=
    let '(v, sh, fs) := arm in
    make_pat [TI "Self"] "__l" arm ++ [TP "=>"] ++ q "Self ::" ++ [TI v] ++
    ctor_args sh fs
      (map (fun f => ufcs (r_ty (fl_ty f)) clone_tr "clone" [[TI (make_ident "__l" (MIndex (fl_index f)))]]) fs) in
  let arm_clone_from arm :=
    let '(v, sh, fs) := arm in
    tparen (make_pat [TI "Self"] "__l" arm ++ comma ++ make_pat [TI "Self"] "__r" arm) ++ [TP "=>"] ++
    tbrace (term_by [TP ";"]
              (map (fun f => ufcs (r_ty (fl_ty f)) clone_tr "clone_from"
                               [[TI (make_ident "__l" (MIndex (fl_index f)))];
                                [TI (make_ident "__r" (MIndex (fl_index f)))]]) fs)) in
  q "fn clone ( & self ) -> Self" ++
  tbrace (match_self vs ++ tbrace (term_by comma (map arm_clone vs))) ++
  q "fn clone_from ( & mut self , __source : & Self )" ++
  tbrace (q "match ( self , __source )" ++
          tbrace (term_by comma (map arm_clone_from vs) ++
                  q "( __lhs , __rhs ) => * __lhs = < Self as :: core :: clone :: Clone > :: clone ( __rhs ) ,")).

Definition r_debug_expr (d : debug_body) (place : fld -> toks) : toks :=
  match d with
  | DbgTransparent f => q ":: core :: fmt :: Debug :: fmt" ++ tparen (place f ++ q ", __f")
  | DbgFields name sh fs =>
      let named := match sh with ShNamed => true | _ => false end in
      q "__f ." ++ [TI (if named then "debug_struct" else "debug_tuple")] ++
      tparen (q ":: core :: stringify !" ++ tparen [TI (unraw name)]) ++
      concat (map (fun f =>
                     q ". field" ++
                     tparen ((if named
                              then q ":: core :: stringify !" ++
                                   tparen (match fl_member f with
                                           | MNamed s => [TI (unraw s)]
                                           | m => r_member m
                                           end) ++ comma
                              else []) ++ place f)) fs) ++
      q ". finish ( )"
  end.

Definition fmt_sig : toks :=
  q "fn fmt ( & self , __f : & mut :: core :: fmt :: Formatter ) -> :: core :: fmt :: Result".

Definition r_dvalue (v : dvalue) : toks :=
  match v with
  | DVInto t e => q ":: core :: convert :: Into :: <" ++ r_ty t ++ q "> :: into" ++ tparen e
  | DVExpr e => e
  | DVDefault t => ufcs (r_ty t) (core_path ["core"; "default"; "Default"]) "default" []
  end.

Definition ctor_args_m (sh : shape) (vs : list (member * toks)) : toks :=
  match sh with
  | ShNamed => tbrace (concat (map (fun '(m, v) => r_member m ++ [TP ":"] ++ v ++ comma) vs))
  | ShUnnamed => tparen (term_by comma (map snd vs))
  | ShUnit => []
  end.

(** *** comparison traits *)
Inductive src_kind := SKStruct | SKEnum.

(** `self_of` / `this_of` / `other_of` *)
Definition place_of (sk : src_kind) (base : string) (f : fld) : toks :=
  match sk with
  | SKStruct => tparen (self_dot (if String.eqb base "self" then base else "__" +++ base) (fl_member f))
  | SKEnum => tparen [TP "*"; TI (make_ident ("__" +++ base) (MIndex (fl_index f)))]
  end.

(** `Template::apply` *)
Definition apply_template (key : toks) (value : toks) : toks :=
  flat_map (fun t => match t with
                     | TI s => if String.eqb s placeholder then value else [t]
                     | _ => [t]
                     end) key.

Definition ordering : toks := q ":: core :: cmp :: Ordering".
Definition opt_ordering : toks := q ":: core :: option :: Option < :: core :: cmp :: Ordering >".

Definition r_cmp_expr (op : cmpop) (sk : src_kind) (c : cmp_field) : toks :=
  let f := cf_fld c in
  let m := MIndex (fl_index f) in
  let t := r_ty (fl_ty f) in
  let this := place_of sk "self" f in
  let other := place_of sk "other" f in
  let call2 (p : toks) (a b : toks) := p ++ tparen (q "&" ++ tparen a ++ q ", &" ++ tparen b) in
  let by_fn (fn_ident : string) (params : toks) (ret : toks) (body : toks) (args : toks) :=
    tbrace ([TI "fn"; TI fn_ident] ++ q "< __T : ? :: core :: marker :: Sized >" ++ params ++ ret ++
            tbrace body ++ [TI fn_ident] ++ tparen args) in
  let reft := q "& __T" in
  let two_refs := reft ++ comma ++ reft in
  match op with
  | CPartialEq =>
      let fn_ident := make_ident "__eq" m in
      match cf_expr c with
      | CEDefault _ => call2 (q ":: core :: cmp :: PartialEq :: eq") this other
      | CEKey k => call2 (q ":: core :: cmp :: PartialEq :: eq") (apply_template k this) (apply_template k other)
      | CEBy CPartialOrd b =>
          by_fn fn_ident
            (tparen (q "__this :" ++ reft ++ q ", __other :" ++ reft ++ q ", __by : impl :: core :: ops :: Fn" ++
                     tparen two_refs ++ q "->" ++ opt_ordering))
            (q "-> :: core :: primitive :: bool")
            (q "__by ( __this , __other ) == :: core :: option :: Option :: Some ( :: core :: cmp :: Ordering :: Equal )")
            (q "&" ++ this ++ q ", &" ++ other ++ comma ++ b)
      | CEBy COrd b =>
          by_fn fn_ident
            (tparen (q "__this :" ++ reft ++ q ", __other :" ++ reft ++ q ", __by : impl :: core :: ops :: Fn" ++
                     tparen two_refs ++ q "->" ++ ordering))
            (q "-> :: core :: primitive :: bool")
            (q "__by ( __this , __other ) == :: core :: cmp :: Ordering :: Equal")
            (q "&" ++ this ++ q ", &" ++ other ++ comma ++ b)
      | CEBy _ b =>
          by_fn fn_ident
            (tparen (q "__this :" ++ reft ++ q ", __other :" ++ reft ++ q ", __by : impl :: core :: ops :: Fn" ++
                     tparen two_refs ++ q "-> :: core :: primitive :: bool"))
            (q "-> :: core :: primitive :: bool")
            (q "__by ( __this , __other )")
            (q "&" ++ this ++ q ", &" ++ other ++ comma ++ b)
      end
  | CPartialOrd =>
      let fn_ident := make_ident "__partial_ord" m in
      let e :=
        match cf_expr c with
        | CEDefault _ => call2 (q ":: core :: cmp :: PartialOrd :: partial_cmp") this other
        | CEKey k => call2 (q ":: core :: cmp :: PartialOrd :: partial_cmp")
                           (apply_template k this) (apply_template k other)
        | CEBy COrd b =>
            by_fn fn_ident
              (tparen (q "__this :" ++ reft ++ q ", __other :" ++ reft ++ q ", __by : impl :: core :: ops :: Fn" ++
                       tparen two_refs ++ q "->" ++ ordering))
              (q "->" ++ opt_ordering)
              (q ":: core :: option :: Option :: Some ( __by ( __this , __other ) )")
              (q "&" ++ this ++ q ", &" ++ other ++ comma ++ b)
        | CEBy _ b =>
            by_fn fn_ident
              (tparen (q "__this :" ++ reft ++ q ", __other :" ++ reft ++ q ", __by : impl :: core :: ops :: Fn" ++
                       tparen two_refs ++ q "->" ++ opt_ordering))
              (q "->" ++ opt_ordering)
              (q "__by ( __this , __other )")
              (q "&" ++ this ++ q ", &" ++ other ++ comma ++ b)
        end in
      if cf_reverse c
      then q ":: core :: option :: Option :: map" ++ tparen (e ++ q ", :: core :: cmp :: Ordering :: reverse")
      else e
  | COrd =>
      let fn_ident := make_ident "__ord" m in
      let e :=
        match cf_expr c with
        | CEDefault _ => call2 (q ":: core :: cmp :: Ord :: cmp") this other
        | CEKey k => call2 (q ":: core :: cmp :: Ord :: cmp") (apply_template k this) (apply_template k other)
        | CEBy _ b =>
            by_fn fn_ident
              (tparen (q "__this :" ++ reft ++ q ", __other :" ++ reft ++ q ", __by : impl :: core :: ops :: Fn" ++
                       tparen two_refs ++ q "->" ++ ordering))
              (q "->" ++ ordering)
              (q "__by ( __this , __other )")
              (q "&" ++ this ++ q ", &" ++ other ++ comma ++ b)
        end in
      if cf_reverse c then q ":: core :: cmp :: Ordering :: reverse" ++ tparen e else e
  | CHash =>
      let fn_ident := make_ident "__hash" m in
      match cf_expr c with
      | CEDefault _ => q ":: core :: hash :: Hash :: hash" ++ tparen (q "&" ++ tparen this ++ q ", __state") ++ q ";"
      | CEKey k => q ":: core :: hash :: Hash :: hash" ++ tparen (q "&" ++ tparen (apply_template k this) ++ q ", __state") ++ q ";"
      | CEBy _ b =>
          tbrace ([TI "fn"; TI fn_ident] ++ q "< __T : ? :: core :: marker :: Sized , __H : :: core :: hash :: Hasher >" ++
                  tparen (q "__this :" ++ reft ++ q ", __state : & mut __H , __by : impl :: core :: ops :: Fn" ++
                          tparen (reft ++ q ", & mut __H")) ++
                  tbrace (q "__by ( __this , __state )") ++
                  [TI fn_ident] ++ tparen (q "&" ++ this ++ q ", __state ," ++ b))
      end
  | CEq => []
  end.

(** `build_from_fields` of each trait: the statements for one struct / variant *)
Definition r_cmp_fields (op : cmpop) (sk : src_kind) (cs : list cmp_field) : toks :=
  match op with
  | CPartialEq =>
      match cs with
      | [] => [TI "true"]
      | _ => sep_by [TP "&&"] (map (fun c => tparen (r_cmp_expr op sk c)) cs)
      end
  | CPartialOrd =>
      concat (map (fun c => [TI "match"] ++ r_cmp_expr op sk c ++
                            tbrace (q ":: core :: option :: Option :: Some ( :: core :: cmp :: Ordering :: Equal ) => { } __o => return __o ,")) cs)
      ++ q ":: core :: option :: Option :: Some ( :: core :: cmp :: Ordering :: Equal )"
  | COrd =>
      concat (map (fun c => [TI "match"] ++ r_cmp_expr op sk c ++
                            tbrace (q ":: core :: cmp :: Ordering :: Equal => { } __o => return __o ,")) cs)
      ++ q ":: core :: cmp :: Ordering :: Equal"
  | CHash => concat (map (r_cmp_expr op sk) cs)
  | CEq => []
  end.

Fixpoint index_arms (vs : list (string * shape * list fld)) (i : nat) : toks :=
  match vs with
  | [] => []
  | arm :: rest =>
      tparen (make_pat_wildcard arm) ++ [TP "=>"; TL (nat_to_string i +++ "usize"); TP ","] ++
      index_arms rest (S i)
  end.
(** `build_to_index_fn` *)
Definition to_index_fn (vs : list (string * shape * list fld)) : toks :=
  q "let __to_index = | __this : & Self | -> :: core :: primitive :: usize" ++
  tbrace (q "match __this" ++ tbrace (index_arms vs 0 ++ q "_ => :: core :: unreachable ! ( ) ,")) ++ q ";".

Definition arm_of {A} (x : string * shape * list fld * A) : string * shape * list fld := fst x.

Definition r_cmp_enum (op : cmpop) (vs : list (string * shape * list fld * list cmp_field)) : toks :=
  let arms2 :=
    concat (map (fun x => tparen (make_pat [TI "Self"] "__self" (arm_of x) ++ comma ++
                                  make_pat [TI "Self"] "__other" (arm_of x)) ++ [TP "=>"] ++
                          tbrace (r_cmp_fields op SKEnum (snd x))) vs) in
  match op with
  | CPartialEq => q "match ( self , __other )" ++ tbrace (arms2 ++ q "_ => false ,")
  | CPartialOrd =>
      q "match ( self , __other )" ++
      tbrace (arms2 ++ q "( __this , __other ) =>" ++
              tbrace (to_index_fn (map arm_of vs) ++
                      q ":: core :: cmp :: PartialOrd :: partial_cmp ( & __to_index ( __this ) , & __to_index ( __other ) )") ++ q ",")
  | COrd =>
      q "match ( self , __other )" ++
      tbrace (arms2 ++ q "( __this , __other ) =>" ++
              tbrace (to_index_fn (map arm_of vs) ++
                      q ":: core :: cmp :: Ord :: cmp ( & __to_index ( __this ) , & __to_index ( __other ) )") ++ q ",")
  | CHash =>
      q "match self" ++
      tbrace (concat (map (fun x => make_pat [TI "Self"] "__self" (arm_of x) ++ [TP "=>"] ++
                                    tbrace (r_cmp_fields op SKEnum (snd x))) vs) ++
              q "_ => :: core :: unreachable ! ( ) ,")
  | CEq => []
  end.

Definition r_eq_check (sk : src_kind) (x : fld * eq_check) : toks :=
  let this := place_of sk "this" (fst x) in
  let chk (e : toks) :=
    tbrace (q "fn __assert_eq < T : :: core :: cmp :: Eq + ? :: core :: marker :: Sized > ( __this : & T ) { } __assert_eq" ++ tparen (q "&" ++ tparen e)) in
  match snd x with
  | QNone => []
  | QField => chk this
  | QKey k => chk (apply_template k this)
  end.

(** the body of the `impl` block *)
Definition r_body (h : impl_hdr) (b : body) : toks :=
  let this := r_ty (ih_this h) in
  let tr := trait_path (ih_trait h) in
  match b with
  | BDeref target m =>
      q "type Target =" ++ r_ty target ++ q "; fn deref ( & self ) -> & Self :: Target" ++
      tbrace (q "& self ." ++ r_member m)
  | BDerefMut target m =>
      q "fn deref_mut ( & mut self ) -> & mut Self :: Target" ++
      tbrace (q "let _ : :: core :: marker :: PhantomData <" ++ r_ty target ++
              q "> = :: core :: marker :: PhantomData :: < Self :: Target > ; & mut self ." ++ r_member m)
  | BCopy => []
  | BCloneStruct name sh fs => r_clone_struct name sh fs
  | BCloneEnum vs => r_clone_enum vs
  | BDebugStruct d dbl =>
      (* the last field goes through a function of its own: `&T: Debug` follows from `T: Debug` there, and no bound of
         the impl's where-clause (`&'a T: Debug` of another field) can be taken for it *)
      fmt_sig ++ tbrace ((match dbl with
                          | Some _ => q "fn __last < '__a , __T : ? :: core :: marker :: Sized + :: core :: fmt :: Debug > ( __t : & '__a & '__a __T , ) -> & '__a dyn :: core :: fmt :: Debug { __t }"
                          | None => []
                          end) ++
                         r_debug_expr d (fun f =>
                           match dbl with
                           | Some i => if fl_index f =? i then q "__last" ++ tparen (q "&& self ." ++ r_member (fl_member f))
                                       else q "& self ." ++ r_member (fl_member f)
                           | None => q "& self ." ++ r_member (fl_member f)
                           end))
  | BDebugEnum vs =>
      fmt_sig ++
      tbrace (match_self vs ++
              tbrace (term_by comma
                        (map (fun x => make_pat [TI "Self"] "__v" (arm_of x) ++ [TP "=>"] ++
                                       r_debug_expr (snd x) (fun f => [TI (make_ident "__v" (MIndex (fl_index f)))]))
                             vs)))
  | BDefaultSelf v => q "fn default ( ) -> Self" ++ tbrace (r_dvalue v)
  | BDefaultCtor path sh vs =>
      q "fn default ( ) -> Self" ++
      tbrace (sep_by [TP "::"] (map (fun n => [TI n]) path) ++
              ctor_args_m sh (map (fun '(m, v) => (m, r_dvalue v)) vs))
  | BBin op l r name sh fs =>
      let func := binop_func op in
      q "type Output =" ++ this ++ q "; fn" ++ [TI func] ++
      tparen (q "self , __rhs :" ++ with_ref r this) ++ q "-> Self :: Output" ++
      tbrace ([TI name] ++ ctor_args sh fs
                (map (fun f =>
                        let ft := fl_ty f in
                        ufcs (with_ref_ty l ft) (tr ++ [TP "<"] ++ with_ref_ty r ft ++ [TP ">"]) func
                             [with_ref l (self_dot "self" (fl_member f));
                              with_ref r (self_dot "__rhs" (fl_member f))]) fs))
  | BAssign op r fs =>
      let func := binop_func op +++ "_assign" in
      [TI "fn"; TI func] ++ tparen (q "& mut self , __rhs :" ++ with_ref r this) ++
      tbrace (term_by [TP ";"]
                (map (fun f =>
                        let ft := fl_ty f in
                        ufcs (r_ty ft) (tr ++ [TP "<"] ++ with_ref_ty r ft ++ [TP ">"]) func
                             [q "& mut" ++ self_dot "self" (fl_member f);
                              with_ref r (self_dot "__rhs" (fl_member f))]) fs))
  | BUn op l name sh fs =>
      let func := unop_func op in
      q "type Output =" ++ this ++ q "; fn" ++ [TI func] ++ q "( self ) -> Self :: Output" ++
      tbrace ([TI name] ++ ctor_args sh fs
                (map (fun f =>
                        ufcs (with_ref_ty l (fl_ty f)) tr func
                             [with_ref l (self_dot "self" (fl_member f))]) fs))
  | BPartialEqStruct cs =>
      q "fn eq ( & self , __other : & Self ) -> :: core :: primitive :: bool" ++ tbrace (r_cmp_fields CPartialEq SKStruct cs)
  | BPartialEqEnum vs =>
      q "fn eq ( & self , __other : & Self ) -> :: core :: primitive :: bool" ++ tbrace (r_cmp_enum CPartialEq vs)
  | BPartialOrdStruct cs =>
      q "fn partial_cmp ( & self , __other : & Self ) ->" ++ opt_ordering ++
      tbrace (r_cmp_fields CPartialOrd SKStruct cs)
  | BPartialOrdEnum vs =>
      q "fn partial_cmp ( & self , __other : & Self ) ->" ++ opt_ordering ++
      tbrace (r_cmp_enum CPartialOrd vs)
  | BOrdStruct cs =>
      q "fn cmp ( & self , __other : & Self ) ->" ++ ordering ++ tbrace (r_cmp_fields COrd SKStruct cs)
  | BOrdEnum vs =>
      q "fn cmp ( & self , __other : & Self ) ->" ++ ordering ++ tbrace (r_cmp_enum COrd vs)
  | BHashStruct cs =>
      q "fn hash < __H : :: core :: hash :: Hasher > ( & self , __state : & mut __H )" ++
      tbrace (r_cmp_fields CHash SKStruct cs)
  | BHashEnum vs =>
      q "fn hash < __H : :: core :: hash :: Hasher > ( & self , __state : & mut __H )" ++
      tbrace (r_cmp_enum CHash vs)
  | BEqStruct _ => []
  | BEqEnum _ _ => []
  end.

(** the `const _: () = {..};` that follows the `Eq` impl *)
Definition r_eq_checker (h : impl_hdr) (b : body) : option toks :=
  let wrap (inner : toks) :=
    q "const _ : ( ) =" ++
    tbrace (q "trait __EqCheck" ++ tbrace (q "fn __eq_check ( & self ) ;") ++
            cmp_allow ++ q "impl" ++ r_impl_g (ih_generics h) ++ q "__EqCheck for" ++ r_ty (ih_this h) ++ r_wheres h ++
            tbrace (q "fn __eq_check ( & self )" ++ tbrace (q "let __this = self ;" ++ inner))) ++ q ";" in
  match b with
  | BEqStruct cs => Some (wrap (concat (map (r_eq_check SKStruct) cs)))
  | BEqEnum tyname vs =>
      Some (wrap (q "match __this" ++
                  tbrace (concat (map (fun x => make_pat [TI tyname] "__this" (arm_of x) ++ [TP "=>"] ++
                                                tbrace (concat (map (r_eq_check SKEnum) (snd x)))) vs)
                          ++ q "_ => { }")))
  | _ => None
  end.

(** ** operators derived from an `impl` *)
Definition r_where_g (g : generics) : toks := r_where_decl g.

Definition change_owned (e : toks) (t : toks) (input_ref output_ref : bool) : toks :=
  match input_ref, output_ref with
  | true, false => ufcs t clone_tr "clone" [e]
  | false, true => TP "&" :: e
  | _, _ => e
  end.

Definition r_op_ir (o : op_ir) : toks * toks :=
  match o with
  | OpBin g op this rhs output il ir cl cr =>
      let bt := core_path ["core"; "ops"; binop_to_str op] in
      let func := binop_func op in
      let tthis := r_ty this in let trhs := r_ty rhs in
      (q "# [ automatically_derived ] impl" ++ r_impl_g g ++ bt ++ [TP "<"] ++ with_ref_ty ir rhs ++ [TP ">"] ++
       [TI "for"] ++ with_ref_ty il this ++ r_where_g g,
       q "type Output =" ++ r_ty output ++ q "; fn" ++ [TI func] ++
       tparen (q "self , __rhs :" ++ with_ref_ty ir rhs) ++ q "-> Self :: Output" ++
       tbrace (ufcs (with_ref_ty cl this) (bt ++ [TP "<"] ++ with_ref_ty cr rhs ++ [TP ">"]) func
                    [change_owned [TI "self"] tthis il cl; change_owned [TI "__rhs"] trhs ir cr]))
  | OpAssignFromBin g op this rhs cl =>
      let bt := core_path ["core"; "ops"; binop_to_str op] in
      let at_ := core_path ["core"; "ops"; binop_to_str op +++ "Assign"] in
      let tthis := r_ty this in let trhs := r_ty rhs in
      (q "# [ automatically_derived ] impl" ++ r_impl_g g ++ at_ ++ [TP "<"] ++ trhs ++ [TP ">"] ++
       [TI "for"] ++ tthis ++ r_where_g g,
       [TI "fn"; TI (binop_func op +++ "_assign")] ++ tparen (q "& mut self , __rhs :" ++ trhs) ++
       tbrace (q "* self =" ++
               ufcs (with_ref_ty cl this) (bt ++ [TP "<"] ++ trhs ++ [TP ">"]) (binop_func op)
                    [change_owned [TI "self"] tthis true cl; [TI "__rhs"]]))
  | OpBinFromAssign g op this rhs =>
      let bt := core_path ["core"; "ops"; binop_to_str op] in
      let at_ := core_path ["core"; "ops"; binop_to_str op +++ "Assign"] in
      let tthis := r_ty this in let trhs := r_ty rhs in
      (q "# [ automatically_derived ] impl" ++ r_impl_g g ++ bt ++ [TP "<"] ++ trhs ++ [TP ">"] ++
       [TI "for"] ++ tthis ++ r_where_g g,
       q "type Output =" ++ tthis ++ q "; fn" ++ [TI (binop_func op)] ++
       tparen (q "mut self , __rhs :" ++ trhs) ++ q "-> Self :: Output" ++
       tbrace (ufcs tthis (at_ ++ [TP "<"] ++ trhs ++ [TP ">"]) (binop_func op +++ "_assign")
                    [q "& mut self"; [TI "__rhs"]] ++ q "; self"))
  end.

(** ** parts, in the format of the Rust expander *)
Inductive part :=
| PItem (t : toks)
| PImpl (hdr body : toks)
| PConst (t : toks)
| PErr (msg : string)
| PDump (t : toks)
| PPanic (msg : string).

Definition parts_of_gen (g : gen_ir) : list part :=
  match g with
  | GT i =>
      PImpl (r_hdr (ir_hdr i)) (r_body (ir_hdr i) (ir_body i)) ::
      match r_eq_checker (ir_hdr i) (ir_body i) with Some c => [PConst c] | None => [] end
  | GO o => let '(h, b) := r_op_ir o in [PImpl h b]
  end.

Definition part_toks (p : part) : toks :=
  match p with
  | PItem t | PConst t | PDump t => t
  | PImpl h b => h ++ tbrace b
  | PErr _ | PPanic _ => []
  end.

Definition parts_of_outcome (o : outcome) : list part :=
  match o with
  | OOk gs => flat_map parts_of_gen gs
  | OErr m => [PErr m]
  | ODump gs => [PDump (concat (map part_toks (flat_map parts_of_gen gs)))]
  | OPanic m => [PPanic m]
  end.

Definition parts_of_expansion (x : expansion) : list part :=
  match x_item x with Some it => [PItem (r_item it)] | None => [] end ++
  flat_map parts_of_outcome (x_entries x) ++
  match x_fatal x with Some m => [PErr m] | None => [] end.
