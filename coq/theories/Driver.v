(** * Driver: line-oriented entry point of the extracted model *)
From DX Require Import Syntax Render GenBound GenAttrs IR GenType GenCmp GenImpl GenTop RenderOut Decode.

Definition tab : string := String (ascii_of_nat 9) EmptyString.

Fixpoint esc (s : string) : string :=
  match s with
  | EmptyString => ""
  | String c rest =>
      let n := nat_of_ascii c in
      (if n =? 92 then "\\" else if n =? 10 then "\n" else if n =? 9 then "\t"
       else if n =? 13 then "\r" else String c EmptyString) +++ esc rest
  end.

Definition line (id : string) (fields : list string) : string := join tab (id :: fields).

Definition part_line (id : string) (p : part) : string :=
  match p with
  | PItem t => line id ["ITEM"; flat t]
  | PImpl h b => line id ["IMPL"; flat h; flat b]
  | PConst t => line id ["CONST"; flat t]
  | PErr m => line id ["ERR"; esc m]
  | PDump t => line id ["DUMP"; flat t]
  | PPanic m => line id ["PANIC"; esc m]
  end.

Definition input_line (id : string) (inv : invocation) : string :=
  match inv_mode inv with
  | Attr => line id ["INPUT"; "A"; text (r_dx_args (inv_args inv)); text (r_item (inv_item inv))]
  | Derive => line id ["INPUT"; "D"; ""; text (r_item (inv_item inv))]
  end.

Definition run_expand (id : string) (inv : invocation) : list string :=
  input_line id inv :: map (part_line id) (parts_of_expansion (expand inv)) ++ [line id ["END"]].

(** one request per line: `<id> <sexp>` *)
Fixpoint split_first_space (s : string) (acc : string) : string * string :=
  match s with
  | EmptyString => (acc, "")
  | String c rest =>
      if Ascii.eqb c " " then (acc, rest) else split_first_space rest (acc +++ String c EmptyString)
  end.

Definition run_line (l : string) : list string :=
  let '(id, rest) := split_first_space l "" in
  match parse_sexp rest with
  | None => [line id ["BADSEXP"]]
  | Some (SList [SAtom "expand"; inv]) =>
      match d_invocation inv with
      | Some inv => run_expand id inv
      | None => [line id ["BADCASE"]]
      end
  | Some _ => [line id ["BADCMD"]]
  end.
