(** * LemSelf: what [expand_self] (syn_utils.rs) can and cannot introduce

    The derived operator impls re-use the user's generics with `Self` replaced by the user's self type.  rustc rejects
    an *elided* reference (`&X` without a lifetime) inside a bound or a where-predicate (E0637).  This file delimits
    the known finding recorded for C09: such a reference appears in the expansion only if it was already there, or if
    the self type itself is (or contains) an elided reference AND the generics mention `Self`. *)
From DX Require Import Syntax GenBound.

(** ** an induction principle for the nested mutual type of types *)
Section TyInd.
  Variables (P : ty -> Prop) (Ps : seg -> Prop) (Pa : segargs -> Prop) (Pg : garg -> Prop) (Pb : tbound -> Prop).
  Definition Popt (o : option ty) : Prop := match o with Some t => P t | None => True end.
  Definition Pq (q : option (ty * nat)) : Prop := match q with Some p => P (fst p) | None => True end.
  Hypothesis HPath : forall q lead segs, Pq q -> Forall Ps segs -> P (TyPath q lead segs).
  Hypothesis HRef : forall lt mt t, P t -> P (TyRef lt mt t).
  Hypothesis HTuple : forall ts, Forall P ts -> P (TyTuple ts).
  Hypothesis HArray : forall t len, P t -> P (TyArray t len).
  Hypothesis HSlice : forall t, P t -> P (TySlice t).
  Hypothesis HPtr : forall mt t, P t -> P (TyPtr mt t).
  Hypothesis HFn : forall args ret, Forall P args -> Popt ret -> P (TyFn args ret).
  Hypothesis HNever : P TyNever.
  Hypothesis HParen : forall t, P t -> P (TyParen t).
  Hypothesis HDyn : forall bs, Forall Pb bs -> P (TyDyn bs).
  Hypothesis HSeg : forall n a, Pa a -> Ps (Seg n a).
  Hypothesis HANone : Pa SANone.
  Hypothesis HAAngle : forall l, Forall Pg l -> Pa (SAAngle l).
  Hypothesis HAParen : forall ins out, Forall P ins -> Popt out -> Pa (SAParen ins out).
  Hypothesis HGTy : forall t, P t -> Pg (GTy t).
  Hypothesis HGLt : forall l, Pg (GLt l).
  Hypothesis HGConst : forall c, Pg (GConst c).
  Hypothesis HGAssoc : forall n t, P t -> Pg (GAssoc n t).
  Hypothesis HTBTrait : forall m lead segs, Forall Ps segs -> Pb (TBTrait m lead segs).
  Hypothesis HTBLt : forall l, Pb (TBLt l).

  Fixpoint ty_ind2 (t : ty) : P t :=
    match t with
    | TyPath q lead segs =>
        HPath q lead segs
              (match q as q0 return Pq q0 with
               | Some p => ty_ind2 (fst p) | None => I end)
              ((fix go (l : list seg) : Forall Ps l :=
                  match l with [] => Forall_nil _ | x :: r => Forall_cons _ (seg_ind2 x) (go r) end) segs)
    | TyRef lt mt t => HRef lt mt t (ty_ind2 t)
    | TyTuple ts =>
        HTuple ts ((fix go (l : list ty) : Forall P l :=
                      match l with [] => Forall_nil _ | x :: r => Forall_cons _ (ty_ind2 x) (go r) end) ts)
    | TyArray t len => HArray t len (ty_ind2 t)
    | TySlice t => HSlice t (ty_ind2 t)
    | TyPtr mt t => HPtr mt t (ty_ind2 t)
    | TyFn args ret =>
        HFn args ret
            ((fix go (l : list ty) : Forall P l :=
                match l with [] => Forall_nil _ | x :: r => Forall_cons _ (ty_ind2 x) (go r) end) args)
            (match ret as r0 return Popt r0 with Some r => ty_ind2 r | None => I end)
    | TyNever => HNever
    | TyParen t => HParen t (ty_ind2 t)
    | TyDyn bs =>
        HDyn bs ((fix go (l : list tbound) : Forall Pb l :=
                    match l with [] => Forall_nil _ | x :: r => Forall_cons _ (tbound_ind2 x) (go r) end) bs)
    end
  with seg_ind2 (s : seg) : Ps s :=
    match s with Seg n a => HSeg n a (segargs_ind2 a) end
  with segargs_ind2 (a : segargs) : Pa a :=
    match a with
    | SANone => HANone
    | SAAngle l =>
        HAAngle l ((fix go (l : list garg) : Forall Pg l :=
                      match l with [] => Forall_nil _ | x :: r => Forall_cons _ (garg_ind2 x) (go r) end) l)
    | SAParen ins out =>
        HAParen ins out
                ((fix go (l : list ty) : Forall P l :=
                    match l with [] => Forall_nil _ | x :: r => Forall_cons _ (ty_ind2 x) (go r) end) ins)
                (match out as r0 return Popt r0 with Some r => ty_ind2 r | None => I end)
    end
  with garg_ind2 (g : garg) : Pg g :=
    match g with
    | GTy t => HGTy t (ty_ind2 t)
    | GLt l => HGLt l
    | GConst c => HGConst c
    | GAssoc n t => HGAssoc n t (ty_ind2 t)
    end
  with tbound_ind2 (b : tbound) : Pb b :=
    match b with
    | TBTrait m lead segs =>
        HTBTrait m lead segs
                 ((fix go (l : list seg) : Forall Ps l :=
                     match l with [] => Forall_nil _ | x :: r => Forall_cons _ (seg_ind2 x) (go r) end) segs)
    | TBLt l => HTBLt l
    end.
End TyInd.

(** ** "contains a reference without a lifetime" *)
Definition oexists {A} (f : A -> bool) (o : option A) : bool := match o with Some a => f a | None => false end.

Fixpoint elided_ty (t : ty) : bool :=
  match t with
  | TyPath q _ segs => (match q with Some (qt, _) => elided_ty qt | None => false end) || existsb elided_seg segs
  | TyRef lt _ t => (match lt with None => true | Some _ => false end) || elided_ty t
  | TyTuple ts => existsb elided_ty ts
  | TyArray t _ => elided_ty t
  | TySlice t => elided_ty t
  | TyPtr _ t => elided_ty t
  | TyFn args ret => existsb elided_ty args || (match ret with Some r => elided_ty r | None => false end)
  | TyNever => false
  | TyParen t => elided_ty t
  | TyDyn bs => existsb elided_tbound bs
  end
with elided_seg (s : seg) : bool :=
  match s with
  | Seg _ SANone => false
  | Seg _ (SAAngle l) => existsb elided_garg l
  | Seg _ (SAParen ins out) => existsb elided_ty ins || (match out with Some r => elided_ty r | None => false end)
  end
with elided_garg (g : garg) : bool :=
  match g with
  | GTy t => elided_ty t
  | GLt _ => false
  | GConst _ => false
  | GAssoc _ t => elided_ty t
  end
with elided_tbound (b : tbound) : bool :=
  match b with
  | TBTrait _ _ segs => existsb elided_seg segs
  | TBLt _ => false
  end.

(** the positions of a generics declaration in which rustc refuses an elided lifetime: inline bounds of type
    parameters, the types of const parameters, bounded types and bounds of where-predicates *)
Definition elided_gparam (p : gparam) : bool :=
  match p with
  | GPLt _ _ => false
  | GPTy _ bs _ => existsb elided_tbound bs
  | GPConst _ t _ => elided_ty t
  end.
Definition elided_wpred (p : wpred) : bool :=
  match p with
  | WPTy t bs => elided_ty t || existsb elided_tbound bs
  | WPLt _ _ => false
  end.
Definition elided_generics (g : generics) : bool :=
  existsb elided_gparam (g_params g) || existsb elided_wpred (g_where g).

(** ** "mentions the type `Self`" (exactly the path the expansion replaces) *)
Fixpoint mentions_self_ty (t : ty) : bool :=
  is_self_ty t ||
  match t with
  | TyPath q _ segs => (match q with Some (qt, _) => mentions_self_ty qt | None => false end) || existsb mentions_self_seg segs
  | TyRef _ _ t => mentions_self_ty t
  | TyTuple ts => existsb mentions_self_ty ts
  | TyArray t _ => mentions_self_ty t
  | TySlice t => mentions_self_ty t
  | TyPtr _ t => mentions_self_ty t
  | TyFn args ret => existsb mentions_self_ty args || (match ret with Some r => mentions_self_ty r | None => false end)
  | TyNever => false
  | TyParen t => mentions_self_ty t
  | TyDyn bs => existsb mentions_self_tbound bs
  end
with mentions_self_seg (s : seg) : bool :=
  match s with
  | Seg _ SANone => false
  | Seg _ (SAAngle l) => existsb mentions_self_garg l
  | Seg _ (SAParen ins out) =>
      existsb mentions_self_ty ins || (match out with Some r => mentions_self_ty r | None => false end)
  end
with mentions_self_garg (g : garg) : bool :=
  match g with
  | GTy t => mentions_self_ty t
  | GLt _ => false
  | GConst _ => false
  | GAssoc _ t => mentions_self_ty t
  end
with mentions_self_tbound (b : tbound) : bool :=
  match b with
  | TBTrait _ _ segs => existsb mentions_self_seg segs
  | TBLt _ => false
  end.

Definition mentions_self_gparam (p : gparam) : bool :=
  match p with
  | GPLt _ _ => false
  | GPTy _ bs d => existsb mentions_self_tbound bs || (match d with Some t => mentions_self_ty t | None => false end)
  | GPConst _ t _ => mentions_self_ty t
  end.
Definition mentions_self_wpred (p : wpred) : bool :=
  match p with
  | WPTy t bs => mentions_self_ty t || existsb mentions_self_tbound bs
  | WPLt _ _ => false
  end.
Definition mentions_self_generics (g : generics) : bool :=
  existsb mentions_self_gparam (g_params g) || existsb mentions_self_wpred (g_where g).

(** ** list helpers *)
Lemma existsb_map_false {A} (f : A -> bool) (h : A -> A) (l : list A) :
  Forall (fun x => f x = false -> f (h x) = false) l -> existsb f l = false -> existsb f (map h l) = false.
Proof.
  induction 1 as [|x r Hx _ IH]; cbn [existsb map]; [reflexivity|].
  intros H. apply Bool.orb_false_iff in H as [H1 H2]. rewrite (Hx H1), (IH H2). reflexivity.
Qed.

Lemma map_id_when {A} (f : A -> bool) (h : A -> A) (l : list A) :
  Forall (fun x => f x = false -> h x = x) l -> existsb f l = false -> map h l = l.
Proof.
  induction 1 as [|x r Hx _ IH]; cbn [existsb map]; [reflexivity|].
  intros H. apply Bool.orb_false_iff in H as [H1 H2]. rewrite (Hx H1), (IH H2). reflexivity.
Qed.

(** ** expansion introduces no elided reference that [to] does not bring *)
Section NoElide.
  Variable to : ty.
  Hypothesis Hto : elided_ty to = false.

  Lemma after_amp_no_elide : elided_ty (after_amp to) = false.
  Proof. unfold after_amp. destruct to as [| | | | | | | | |bs]; try exact Hto. destruct bs as [|? [|? ?]]; exact Hto. Qed.

  Lemma expand_self_no_elide_all :
    (forall t, elided_ty t = false -> elided_ty (expand_self_ty to t) = false).
  Proof.
    apply (ty_ind2
             (fun t => elided_ty t = false -> elided_ty (expand_self_ty to t) = false)
             (fun s => elided_seg s = false -> elided_seg (expand_self_seg to s) = false)
             (fun a => forall n, elided_seg (Seg n a) = false -> elided_seg (expand_self_seg to (Seg n a)) = false)
             (fun g => elided_garg g = false -> elided_garg (expand_self_garg to g) = false)
             (fun b => elided_tbound b = false -> elided_tbound (expand_self_tbound to b) = false)).
    - (* TyPath *)
      intros q lead segs Hq Hs H.
      cbn [expand_self_ty]. destruct (is_self_ty (TyPath q lead segs)); [exact Hto|].
      cbn [elided_ty] in *. apply Bool.orb_false_iff in H as [H1 H2].
      rewrite (existsb_map_false _ _ _ Hs H2), Bool.orb_false_r.
      destruct q as [[qt k]|]; [cbn [Pq fst] in Hq; apply Hq; exact H1 | reflexivity].
    - intros lt mt t IH H. cbn [expand_self_ty is_self_ty]. cbn [elided_ty] in *.
      apply Bool.orb_false_iff in H as [H1 H2]. rewrite H1.
      destruct (is_self_ty t); [rewrite after_amp_no_elide | rewrite (IH H2)]; reflexivity.
    - intros ts IH H. cbn [expand_self_ty is_self_ty]. cbn [elided_ty] in *.
      apply existsb_map_false; assumption.
    - intros t len IH H. cbn [expand_self_ty is_self_ty elided_ty] in *. apply IH, H.
    - intros t IH H. cbn [expand_self_ty is_self_ty elided_ty] in *. apply IH, H.
    - intros mt t IH H. cbn [expand_self_ty is_self_ty elided_ty] in *.
      destruct (is_self_ty t); [apply after_amp_no_elide | apply IH, H].
    - intros args ret IHa IHr H. cbn [expand_self_ty is_self_ty]. cbn [elided_ty] in *.
      apply Bool.orb_false_iff in H as [H1 H2]. rewrite (existsb_map_false _ _ _ IHa H1). cbn [orb].
      destruct ret as [r|]; [apply IHr, H2 | reflexivity].
    - intros _. reflexivity.
    - intros t IH H. cbn [expand_self_ty is_self_ty elided_ty] in *. apply IH, H.
    - intros bs IH H. cbn [expand_self_ty is_self_ty]. cbn [elided_ty] in *. apply existsb_map_false; assumption.
    - (* Seg *) intros n a IH H. apply IH, H.
    - intros n _. reflexivity.
    - intros l IH n H. cbn [expand_self_seg elided_seg] in *. apply existsb_map_false; assumption.
    - intros ins out IHi IHo n H. cbn [expand_self_seg]. cbn [elided_seg] in *.
      apply Bool.orb_false_iff in H as [H1 H2]. rewrite (existsb_map_false _ _ _ IHi H1). cbn [orb].
      destruct out as [r|]; [apply IHo, H2 | reflexivity].
    - intros t IH H. cbn [expand_self_garg elided_garg] in *. apply IH, H.
    - intros l _. reflexivity.
    - intros c _. reflexivity.
    - intros n t IH H. cbn [expand_self_garg elided_garg] in *. apply IH, H.
    - intros m lead segs IH H. cbn [expand_self_tbound elided_tbound] in *. apply existsb_map_false; assumption.
    - intros l _. reflexivity.
  Qed.

  Lemma expand_self_no_elide_tbound b :
    elided_tbound b = false -> elided_tbound (expand_self_tbound to b) = false.
  Proof.
    destruct b as [m lead segs|l]; [|intros _; reflexivity].
    cbn [expand_self_tbound elided_tbound]. intros H.
    apply existsb_map_false; [|exact H].
    apply Forall_forall. intros [n a] _ Hs.
    (* a segment: through its arguments *)
    destruct a as [|l|ins out]; cbn [expand_self_seg elided_seg] in *; [reflexivity| |].
    - apply existsb_map_false; [|exact Hs]. apply Forall_forall. intros g _ Hg.
      destruct g as [t|l0|c|n0 t]; cbn [expand_self_garg elided_garg] in *;
        try reflexivity; apply expand_self_no_elide_all, Hg.
    - apply Bool.orb_false_iff in Hs as [H1 H2].
      rewrite (existsb_map_false elided_ty (expand_self_ty to) ins); [|apply Forall_forall; intros t _; apply expand_self_no_elide_all | exact H1].
      cbn [orb]. destruct out as [r|]; [apply expand_self_no_elide_all, H2 | reflexivity].
  Qed.

  Theorem expand_self_generics_no_elide g :
    elided_generics g = false -> elided_generics (expand_self_generics to g) = false.
  Proof.
    unfold elided_generics, expand_self_generics. cbn [g_params g_where]. intros H.
    apply Bool.orb_false_iff in H as [H1 H2]. apply Bool.orb_false_iff. split.
    - apply existsb_map_false; [|exact H1]. apply Forall_forall. intros p _ Hp.
      destruct p as [n bs|n bs d|n t d]; cbn [expand_self_gparam elided_gparam] in *; [reflexivity| |].
      + apply existsb_map_false; [|exact Hp]. apply Forall_forall. intros b _. apply expand_self_no_elide_tbound.
      + apply expand_self_no_elide_all, Hp.
    - apply existsb_map_false; [|exact H2]. apply Forall_forall. intros p _ Hp.
      destruct p as [t bs|l ls]; cbn [expand_self_wpred elided_wpred] in *; [|reflexivity].
      apply Bool.orb_false_iff in Hp as [Hp1 Hp2]. rewrite (expand_self_no_elide_all _ Hp1). cbn [orb].
      apply existsb_map_false; [|exact Hp2]. apply Forall_forall. intros b _. apply expand_self_no_elide_tbound.
  Qed.
End NoElide.

(** ** without a mention of `Self` the expansion is the identity (whatever the self type is) *)
Section Identity.
  Variable to : ty.

  Lemma is_self_mentions t : is_self_ty t = true -> mentions_self_ty t = true.
  Proof. intros H. destruct t; cbn [mentions_self_ty]; rewrite ?H; try reflexivity; discriminate. Qed.

  Lemma not_mentioned_not_self t : mentions_self_ty t = false -> is_self_ty t = false.
  Proof. intros H. destruct (is_self_ty t) eqn:E; [|reflexivity]. apply is_self_mentions in E. congruence. Qed.

  Lemma expand_self_id_all :
    (forall t, mentions_self_ty t = false -> expand_self_ty to t = t).
  Proof.
    apply (ty_ind2
             (fun t => mentions_self_ty t = false -> expand_self_ty to t = t)
             (fun s => mentions_self_seg s = false -> expand_self_seg to s = s)
             (fun a => forall n, mentions_self_seg (Seg n a) = false -> expand_self_seg to (Seg n a) = Seg n a)
             (fun g => mentions_self_garg g = false -> expand_self_garg to g = g)
             (fun b => mentions_self_tbound b = false -> expand_self_tbound to b = b)).
    - intros q lead segs Hq Hs H. cbn [mentions_self_ty] in H.
      apply Bool.orb_false_iff in H as [H0 H]. cbn [expand_self_ty]. rewrite H0.
      apply Bool.orb_false_iff in H as [H1 H2].
      rewrite (map_id_when _ _ _ Hs H2).
      destruct q as [[qt k]|]; [cbn [Pq fst] in Hq; rewrite (Hq H1)|]; reflexivity.
    - intros lt mt t IH H. cbn [mentions_self_ty is_self_ty orb] in H. cbn [expand_self_ty is_self_ty].
      rewrite (not_mentioned_not_self _ H), (IH H). reflexivity.
    - intros ts IH H. cbn [mentions_self_ty is_self_ty orb] in H. cbn [expand_self_ty is_self_ty].
      rewrite (map_id_when _ _ _ IH H). reflexivity.
    - intros t len IH H. cbn [mentions_self_ty is_self_ty orb] in H. cbn [expand_self_ty is_self_ty]. rewrite (IH H). reflexivity.
    - intros t IH H. cbn [mentions_self_ty is_self_ty orb] in H. cbn [expand_self_ty is_self_ty]. rewrite (IH H). reflexivity.
    - intros mt t IH H. cbn [mentions_self_ty is_self_ty orb] in H. cbn [expand_self_ty is_self_ty].
      rewrite (not_mentioned_not_self _ H), (IH H). reflexivity.
    - intros args ret IHa IHr H. cbn [mentions_self_ty is_self_ty orb] in H. cbn [expand_self_ty is_self_ty].
      apply Bool.orb_false_iff in H as [H1 H2]. rewrite (map_id_when _ _ _ IHa H1).
      destruct ret as [r|]; [rewrite (IHr H2)|]; reflexivity.
    - intros _. reflexivity.
    - intros t IH H. cbn [mentions_self_ty is_self_ty orb] in H. cbn [expand_self_ty is_self_ty]. rewrite (IH H). reflexivity.
    - intros bs IH H. cbn [mentions_self_ty is_self_ty orb] in H. cbn [expand_self_ty is_self_ty].
      rewrite (map_id_when _ _ _ IH H). reflexivity.
    - intros n a IH H. apply IH, H.
    - intros n _. reflexivity.
    - intros l IH n H. cbn [mentions_self_seg] in H. cbn [expand_self_seg]. rewrite (map_id_when _ _ _ IH H). reflexivity.
    - intros ins out IHi IHo n H. cbn [mentions_self_seg] in H. cbn [expand_self_seg].
      apply Bool.orb_false_iff in H as [H1 H2]. rewrite (map_id_when _ _ _ IHi H1).
      destruct out as [r|]; [rewrite (IHo H2)|]; reflexivity.
    - intros t IH H. cbn [mentions_self_garg] in H. cbn [expand_self_garg]. rewrite (IH H). reflexivity.
    - intros l _. reflexivity.
    - intros c _. reflexivity.
    - intros n t IH H. cbn [mentions_self_garg] in H. cbn [expand_self_garg]. rewrite (IH H). reflexivity.
    - intros m lead segs IH H. cbn [mentions_self_tbound] in H. cbn [expand_self_tbound].
      rewrite (map_id_when _ _ _ IH H). reflexivity.
    - intros l _. reflexivity.
  Qed.

  Lemma expand_self_id_seg s : mentions_self_seg s = false -> expand_self_seg to s = s.
  Proof.
    destruct s as [n a]. destruct a as [|l|ins out]; cbn [mentions_self_seg expand_self_seg]; intros H; [reflexivity| |].
    - rewrite (map_id_when mentions_self_garg (expand_self_garg to) l); [reflexivity| |exact H].
      apply Forall_forall. intros g _ Hg.
      destruct g as [t|l0|c|n0 t]; cbn [mentions_self_garg expand_self_garg] in *; try reflexivity;
        rewrite (expand_self_id_all _ Hg); reflexivity.
    - apply Bool.orb_false_iff in H as [H1 H2].
      rewrite (map_id_when mentions_self_ty (expand_self_ty to) ins);
        [|apply Forall_forall; intros t _; apply expand_self_id_all | exact H1].
      destruct out as [r|]; [rewrite (expand_self_id_all _ H2)|]; reflexivity.
  Qed.

  Lemma expand_self_id_tbound b : mentions_self_tbound b = false -> expand_self_tbound to b = b.
  Proof.
    destruct b as [m lead segs|l]; [|reflexivity]. cbn [mentions_self_tbound expand_self_tbound]. intros H.
    rewrite (map_id_when mentions_self_seg (expand_self_seg to) segs); [reflexivity| |exact H].
    apply Forall_forall. intros s _. apply expand_self_id_seg.
  Qed.

  Theorem expand_self_generics_id g :
    mentions_self_generics g = false -> expand_self_generics to g = g.
  Proof.
    destruct g as [ps ws]. unfold mentions_self_generics, expand_self_generics. cbn [g_params g_where]. intros H.
    apply Bool.orb_false_iff in H as [H1 H2]. f_equal.
    - apply (map_id_when mentions_self_gparam); [|exact H1]. apply Forall_forall. intros p _ Hp.
      destruct p as [n bs|n bs d|n t d]; cbn [mentions_self_gparam expand_self_gparam] in *; [reflexivity| |].
      + apply Bool.orb_false_iff in Hp as [Hp1 Hp2].
        rewrite (map_id_when mentions_self_tbound (expand_self_tbound to) bs);
          [|apply Forall_forall; intros b _; apply expand_self_id_tbound | exact Hp1].
        destruct d as [t|]; [rewrite (expand_self_id_all _ Hp2)|]; reflexivity.
      + rewrite (expand_self_id_all _ Hp). reflexivity.
    - apply (map_id_when mentions_self_wpred); [|exact H2]. apply Forall_forall. intros p _ Hp.
      destruct p as [t bs|l ls]; cbn [mentions_self_wpred expand_self_wpred] in *; [|reflexivity].
      apply Bool.orb_false_iff in Hp as [Hp1 Hp2]. rewrite (expand_self_id_all _ Hp1).
      rewrite (map_id_when mentions_self_tbound (expand_self_tbound to) bs);
        [reflexivity | apply Forall_forall; intros b _; apply expand_self_id_tbound | exact Hp2].
  Qed.
End Identity.
