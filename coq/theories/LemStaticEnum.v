(** * LemStaticEnum: LemStatic for enums — the trait obligations the body of an impl derived from an enum
    places on field types are types of used fields of the trait's plan, and (with no `bound(...)`
    anywhere) those that mention a parameter are in the where-clause *)
From DX Require Import Syntax Tables GenBound GenAttrs IR GenType GenCmp GenImpl GenTop
     SpecAttrs SpecBound SemCmp SpecCmp LemDump LemBound LemCmp LemData LemStatic.

Lemma flat_map_ext_in {A B} (f g : A -> list B) l :
  (forall a, In a l -> f a = g a) -> flat_map f l = flat_map g l.
Proof.
  induction l as [|a l IH]; intros H; cbn; [reflexivity|].
  rewrite (H a (or_introl eq_refl)), IH; [reflexivity|]. intros b Hb. apply H. now right.
Qed.

Lemma used_types_enum_plan k fp sel vs :
  used_types (enum_plan k fp sel vs)
  = flat_map (fun v => flat_map (fun f => if fp_used (fp f) then [fp_ty (fp f)] else []) (sel (ve_fields v))) vs.
Proof.
  unfold used_types, enum_plan. rewrite flat_map_map. apply flat_map_ext_in. intros v _.
  cbn [vp_fields]. now rewrite flat_map_map.
Qed.

Lemma used_all k l : flat_map (fun f => if fp_used (fplan_all k f) then [fp_ty (fplan_all k f)] else []) l = map fty l.
Proof. induction l as [|f l IH]; cbn [flat_map map]; [reflexivity|]. rewrite IH. reflexivity. Qed.

(** every obligation of the body is the type of a used field of the trait's plan *)
Lemma enum_body_obligations en h vs e ir vp :
  enum_entry en h vs e = Ok (Ok [ir]) ->
  enum_vplans (en_kind e) h vs = Some vp ->
  incl (body_obligations (ir_body ir)) (used_types vp).
Proof.
  unfold enum_entry. destruct (en_kind e) eqn:Ek; try discriminate; intros X; inversion X as [Hb]; clear X;
    cbn [enum_vplans]; intros Hp.
  - (* comparison traits *)
    inversion Hp; subst vp; clear Hp. rewrite (compare_op_body _ _ _ _ _ Hb). cbv zeta.
    rewrite used_types_enum_plan.
    destruct o; cbn [body_obligations]; rewrite ?map_map, flat_map_map; cbn [snd];
      (erewrite flat_map_ext_in; [apply incl_refl|]); intros v _; cbn [snd];
      first [apply cmp_obligations_spec | apply eq_obligations_spec].
  - (* Copy: no call in the body *)
    revert Hb. unfold build_copy_for_enum. cbv zeta. destruct (entry_push_bounds_to _ _) as [w ub].
    intros X; inversion X; subst. cbn. intros t [].
  - (* Clone *)
    inversion Hp; subst vp; clear Hp. destruct (clone_enum_body en e vs ir Hb) as [-> _]. cbn [body_obligations].
    rewrite used_types_enum_plan, flat_map_map.
    erewrite flat_map_ext_in; [apply incl_refl|]. intros v _. cbn [variant_arm snd].
    now rewrite used_all, map_fl_ty_fld.
  - (* Debug *)
    inversion Hp; subst vp; clear Hp. pose proof (debug_enum_body en e h vs) as D.
    destruct (existsb _ vs); [rewrite D in Hb; discriminate|].
    destruct D as (ir0 & E & B). rewrite E in Hb. inversion Hb; subst ir0. rewrite B. cbn [body_obligations].
    rewrite used_types_enum_plan, flat_map_map.
    erewrite flat_map_ext_in; [apply incl_refl|]. intros v _. unfold debug_arm_spec. cbn [snd].
    now rewrite debug_obligations_spec, used_all.
  - (* Default *)
    pose proof (default_enum_body en e h vs ir Hb) as B.
    pose proof (default_value_none h self_ty_kw) as Hv.
    destruct (hattrs_default_value h self_ty_kw).
    + rewrite B. cbn. intros t [].
    + destruct (has_default_value h); [discriminate Hv|].
      destruct B as (v & Ev & ->). rewrite Ev in Hp. cbn in Hp. inversion Hp; subst vp; clear Hp.
      cbn [body_obligations]. rewrite default_obligations_spec.
      unfold used_types, default_vplan. cbn [flat_map vp_fields]. rewrite app_nil_r, flat_map_map. apply incl_refl.
Qed.

(** with no `bound(...)` anywhere: every obligation whose type mentions a parameter is in the where-clause *)
Theorem enum_obligations_discharged en h vs e ir vp t :
  ha_items h = [] ->
  enum_entry en h vs e = Ok (Ok [ir]) ->
  enum_vplans (en_kind e) h vs = Some vp ->
  no_bounds (top_levels (en_kind e) e h) vp ->
  In t (body_obligations (ir_body ir)) ->
  contains_in_type (gps_new (decl_generics (en_kind e) (e_name en) (e_generics en))) t = true ->
  In t (ih_wtypes (ir_hdr ir)).
Proof.
  intros Hi Hb Hp [Ht Hv] Ho Hc.
  destruct (enum_entry_where en h vs e ir Hi Hb) as (vp' & Hp' & W). rewrite Hp in Hp'. inversion Hp'; subst vp'.
  unfold where_is in W. rewrite (default_where _ _ _ Ht Hv) in W. inversion W as [[W1 W2]]. rewrite W1.
  apply used_types_default; [|exact Hc]. eapply enum_body_obligations; eassumption.
Qed.
