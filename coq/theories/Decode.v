(** * Decode: S-expression reader for cases

    Cases are produced by the Python generators as S-expressions.  Nothing depends on this
    reader being "right": the concrete macro input is printed by [Render] from whatever item
    the reader yields, so both sides of every comparison see the same item. *)
From DX Require Import Syntax Render.

Inductive sexp := SAtom (s : string) | SStr (s : string) | SList (l : list sexp).

(** ** lexer *)
Inductive stok := KOpen | KClose | KAtom (s : string) | KStr (s : string).

Definition is_space (c : ascii) : bool :=
  let n := nat_of_ascii c in (n =? 32) || (n =? 9) || (n =? 10) || (n =? 13).

(** read a string literal body; returns (content, rest) *)
Fixpoint lex_str (s : string) (acc : string) : option (string * string) :=
  match s with
  | EmptyString => None
  | String c rest =>
      if Ascii.eqb c """" then Some (acc, rest)
      else if Ascii.eqb c "\" then
             match rest with
             | String c2 rest2 => lex_str rest2 (acc +++ String c2 EmptyString)
             | EmptyString => None
             end
      else lex_str rest (acc +++ String c EmptyString)
  end.

Fixpoint lex_go (fuel : nat) (s : string) (cur : string) : option (list stok) :=
  let flush (l : list stok) := if String.eqb cur "" then l else KAtom cur :: l in
  match fuel with
  | 0 => None
  | S fuel =>
      match s with
      | EmptyString => Some (flush [])
      | String c rest =>
          if is_space c then option_map flush (lex_go fuel rest "")
          else if Ascii.eqb c "(" then option_map (fun l => flush (KOpen :: l)) (lex_go fuel rest "")
          else if Ascii.eqb c ")" then option_map (fun l => flush (KClose :: l)) (lex_go fuel rest "")
          else if Ascii.eqb c """" then
                 match lex_str rest "" with
                 | Some (str, rest') =>
                     option_map (fun l => flush (KStr str :: l)) (lex_go fuel rest' "")
                 | None => None
                 end
          else lex_go fuel rest (cur +++ String c EmptyString)
      end
  end.
Definition lex (s : string) : option (list stok) := lex_go (S (String.length s)) s "".

(** ** parser: a stack of partially read lists *)
Fixpoint parse_go (ts : list stok) (stack : list (list sexp)) : option sexp :=
  match ts with
  | [] => match stack with [[x]] => Some x | _ => None end
  | KOpen :: rest => parse_go rest ([] :: stack)
  | KClose :: rest =>
      match stack with
      | top :: next :: stack' => parse_go rest ((SList (rev top) :: next) :: stack')
      | _ => None
      end
  | KAtom a :: rest =>
      match stack with
      | top :: stack' => parse_go rest ((SAtom a :: top) :: stack')
      | [] => None
      end
  | KStr a :: rest =>
      match stack with
      | top :: stack' => parse_go rest ((SStr a :: top) :: stack')
      | [] => None
      end
  end.
Definition parse_sexp (s : string) : option sexp :=
  match lex s with Some ts => parse_go ts [[]] | None => None end.

(** ** decoders *)
Definition obind {A B} (o : option A) (f : A -> option B) : option B :=
  match o with Some a => f a | None => None end.
Notation "'let?' x := o 'in' k" := (obind o (fun x => k))
  (at level 200, x pattern, o at level 100, k at level 200).

Fixpoint omap {A B} (f : A -> option B) (l : list A) : option (list B) :=
  match l with
  | [] => Some []
  | x :: xs => let? y := f x in let? ys := omap f xs in Some (y :: ys)
  end.

Definition d_bool (s : sexp) : option bool :=
  match s with SAtom "t" => Some true | SAtom "f" => Some false | _ => None end.
Definition d_str (s : sexp) : option string :=
  match s with SStr x => Some x | _ => None end.
Definition d_toks (s : sexp) : option toks := option_map q (d_str s).

Fixpoint nat_of_digits (s : string) (acc : nat) : option nat :=
  match s with
  | EmptyString => Some acc
  | String c rest =>
      if is_digit c then nat_of_digits rest (acc * 10 + (nat_of_ascii c - 48)) else None
  end.
Definition d_nat (s : sexp) : option nat :=
  match s with SAtom a => nat_of_digits a 0 | _ => None end.

Definition d_opt {A} (f : sexp -> option A) (s : sexp) : option (option A) :=
  match s with
  | SAtom "none" => Some None
  | SList [SAtom "some"; x] => option_map Some (f x)
  | _ => None
  end.
Definition d_list {A} (f : sexp -> option A) (s : sexp) : option (list A) :=
  match s with SList l => omap f l | _ => None end.

Definition d_cexpr (s : sexp) : option cexpr :=
  match s with
  | SList [SAtom "lit"; x] => option_map CLit (d_str x)
  | SList [SAtom "cpath"; lead; names] =>
      let? l := d_bool lead in let? n := d_list d_str names in Some (CPath l n)
  | _ => None
  end.

Fixpoint d_ty (fuel : nat) (s : sexp) : option ty :=
  match fuel with
  | 0 => None
  | S fuel =>
      let d_seg (s : sexp) : option seg :=
        match s with
        | SStr n => Some (Seg n SANone)
        | SList [SAtom "seg"; n; SAtom "none"] => let? n := d_str n in Some (Seg n SANone)
        | SList [SAtom "seg"; n; SList [SAtom "angle"; SList gs]] =>
            let? n := d_str n in
            let? gs := omap (fun g =>
                               match g with
                               | SList [SAtom "ty"; t] => option_map GTy (d_ty fuel t)
                               | SList [SAtom "lt"; l] => option_map GLt (d_str l)
                               | SList [SAtom "const"; c] => option_map GConst (d_cexpr c)
                               | SList [SAtom "assoc"; n; t] =>
                                   let? n := d_str n in let? t := d_ty fuel t in Some (GAssoc n t)
                               | _ => None
                               end) gs in
            Some (Seg n (SAAngle gs))
        | SList [SAtom "seg"; n; SList [SAtom "parenargs"; ins; out]] =>
            let? n := d_str n in
            let? ins := d_list (d_ty fuel) ins in
            let? out := d_opt (d_ty fuel) out in
            Some (Seg n (SAParen ins out))
        | _ => None
        end in
      let d_tbound (s : sexp) : option tbound :=
        match s with
        | SList [SAtom "trait"; maybe; lead; segs] =>
            let? m := d_bool maybe in let? l := d_bool lead in let? sg := d_list d_seg segs in
            Some (TBTrait m l sg)
        | SList [SAtom "lt"; l] => option_map TBLt (d_str l)
        | _ => None
        end in
      match s with
      | SList [SAtom "id"; n] => option_map ident_ty (d_str n)
      | SList [SAtom "path"; qs; lead; segs] =>
          let? qs := d_opt (fun x => match x with
                                     | SList [t; n] =>
                                         let? t := d_ty fuel t in let? n := d_nat n in Some (t, n)
                                     | _ => None end) qs in
          let? l := d_bool lead in let? sg := d_list d_seg segs in
          Some (TyPath qs l sg)
      | SList [SAtom "ref"; lt; mt; t] =>
          let? lt := d_opt d_str lt in let? mt := d_bool mt in let? t := d_ty fuel t in
          Some (TyRef lt mt t)
      | SList [SAtom "tuple"; ts] => option_map TyTuple (d_list (d_ty fuel) ts)
      | SList [SAtom "array"; t; c] =>
          let? t := d_ty fuel t in let? c := d_cexpr c in Some (TyArray t c)
      | SList [SAtom "slice"; t] => option_map TySlice (d_ty fuel t)
      | SList [SAtom "ptr"; mt; t] =>
          let? mt := d_bool mt in let? t := d_ty fuel t in Some (TyPtr mt t)
      | SList [SAtom "fn"; args; ret] =>
          let? a := d_list (d_ty fuel) args in let? r := d_opt (d_ty fuel) ret in Some (TyFn a r)
      | SAtom "never" => Some TyNever
      | SList [SAtom "paren"; t] => option_map TyParen (d_ty fuel t)
      | SList [SAtom "dyn"; bs] => option_map TyDyn (d_list d_tbound bs)
      | _ => None
      end
  end.
Definition dty : sexp -> option ty := d_ty 64.

(** segments and bounds outside types (same syntax) *)
Definition d_seg (s : sexp) : option seg :=
  match dty (SList [SAtom "path"; SAtom "none"; SAtom "f"; SList [s]]) with
  | Some (TyPath _ _ [sg]) => Some sg
  | _ => None
  end.
Definition d_tbound (s : sexp) : option tbound :=
  match dty (SList [SAtom "dyn"; SList [s]]) with
  | Some (TyDyn [b]) => Some b
  | _ => None
  end.

Definition d_wpred (s : sexp) : option wpred :=
  match s with
  | SList [SAtom "wty"; t; bs] =>
      let? t := dty t in let? bs := d_list d_tbound bs in Some (WPTy t bs)
  | SList [SAtom "wlt"; l; ls] =>
      let? l := d_str l in let? ls := d_list d_str ls in Some (WPLt l ls)
  | _ => None
  end.

Definition d_gparam (s : sexp) : option gparam :=
  match s with
  | SList [SAtom "glt"; n; bs] =>
      let? n := d_str n in let? bs := d_list d_str bs in Some (GPLt n bs)
  | SList [SAtom "gty"; n; bs; d] =>
      let? n := d_str n in let? bs := d_list d_tbound bs in let? d := d_opt dty d in
      Some (GPTy n bs d)
  | SList [SAtom "gconst"; n; t; d] =>
      let? n := d_str n in let? t := dty t in let? d := d_opt d_cexpr d in Some (GPConst n t d)
  | _ => None
  end.

Definition d_generics (s : sexp) : option generics :=
  match s with
  | SList [SAtom "generics"; ps; ws] =>
      let? ps := d_list d_gparam ps in let? ws := d_list d_wpred ws in
      Some {| g_params := ps; g_where := ws |}
  | _ => None
  end.

Definition d_bound_item (s : sexp) : option bound_item :=
  match s with
  | SList [SAtom "bty"; t] => option_map BType (dty t)
  | SList [SAtom "bpred"; p] => option_map BPred (d_wpred p)
  | SAtom "dots" => Some BDefault
  | _ => None
  end.
Definition d_bound_arg : sexp -> option bound_arg := d_opt (d_list d_bound_item).

Definition d_dx_args (s : sexp) : option dx_args :=
  match s with
  | SList [SAtom "dx"; items; b; dump] =>
      let? items := d_list (fun x =>
                              match x with
                              | SList [n; ia] =>
                                  let? n := d_str n in
                                  let? ia := d_opt (fun y =>
                                                      match y with
                                                      | SList [SAtom "ia"; b; d] =>
                                                          let? b := d_bound_arg b in
                                                          let? d := d_bool d in
                                                          Some {| ia_bound := b; ia_dump := d |}
                                                      | _ => None
                                                      end) ia in
                                  Some (n, ia)
                              | _ => None
                              end) items in
      let? b := d_bound_arg b in let? d := d_bool dump in
      Some {| dx_items := items; dx_bound := b; dx_dump := d |}
  | _ => None
  end.

Definition d_meta {A} (f : sexp -> option A) (s : sexp) : option (meta A) :=
  match s with
  | SAtom "path" => Some MPath
  | SList [SAtom "list"; x] => option_map MList (f x)
  | SList [SAtom "nv"; v] => option_map MNameValue (d_toks v)
  | _ => None
  end.

Definition d_cmpop (s : sexp) : option cmpop :=
  match s with
  | SAtom "ord" => Some COrd | SAtom "partial_ord" => Some CPartialOrd | SAtom "eq" => Some CEq
  | SAtom "partial_eq" => Some CPartialEq | SAtom "hash" => Some CHash | _ => None
  end.

Definition d_attr (s : sexp) : option attr :=
  match s with
  | SList [SAtom "other"; t] => option_map AOther (d_toks t)
  | SList [SAtom "derive_ex"; a] => option_map ADeriveEx (d_dx_args a)
  | SList [SAtom "default"; m] =>
      option_map ADefault
        (d_meta (fun x => match x with
                          | SList [SAtom "dargs"; v; b] =>
                              let? v := d_toks v in let? b := d_bound_arg b in
                              Some {| da_value := v; da_bound := b |}
                          | _ => None end) m)
  | SList [SAtom "debug"; m] =>
      option_map ADebug
        (d_meta (fun x => match x with
                          | SList [SAtom "gargs"; t; i; b] =>
                              let? t := d_bool t in let? i := d_bool i in let? b := d_bound_arg b in
                              Some {| ga_transparent := t; ga_ignore := i; ga_bound := b |}
                          | _ => None end) m)
  | SList [SAtom "cmp"; op; m] =>
      let? op := d_cmpop op in
      option_map (ACmp op)
        (d_meta (fun x => match x with
                          | SList [SAtom "cargs"; i; r; by_; key; b] =>
                              let? i := d_bool i in let? r := d_bool r in
                              let? by_ := d_opt d_toks by_ in let? key := d_opt d_toks key in
                              let? b := d_bound_arg b in
                              Some {| ca_ignore := i; ca_reverse := r; ca_by := by_; ca_key := key;
                                      ca_bound := b |}
                          | _ => None end) m)
  | _ => None
  end.

Definition d_field (s : sexp) : option field :=
  match s with
  | SList [SAtom "field"; attrs; vis; name; t] =>
      let? a := d_list d_attr attrs in let? v := d_toks vis in
      let? n := d_opt d_str name in let? t := dty t in
      Some {| f_attrs := a; f_vis := v; f_name := n; f_ty := t |}
  | _ => None
  end.
Definition d_fields (s : sexp) : option fields :=
  match s with
  | SList [SAtom "named"; l] => option_map FNamed (d_list d_field l)
  | SList [SAtom "unnamed"; l] => option_map FUnnamed (d_list d_field l)
  | SAtom "unit" => Some FUnit
  | _ => None
  end.
Definition d_variant (s : sexp) : option variant :=
  match s with
  | SList [SAtom "variant"; attrs; name; fs; discr] =>
      let? a := d_list d_attr attrs in let? n := d_str name in
      let? fs := d_fields fs in let? d := d_opt d_toks discr in
      Some {| v_attrs := a; v_name := n; v_fields := fs; v_discr := d |}
  | _ => None
  end.

Definition d_item (s : sexp) : option item :=
  match s with
  | SList [SAtom "struct"; attrs; vis; name; g; fs] =>
      let? a := d_list d_attr attrs in let? v := d_toks vis in let? n := d_str name in
      let? g := d_generics g in let? fs := d_fields fs in
      Some (IStruct {| s_attrs := a; s_vis := v; s_name := n; s_generics := g; s_fields := fs |})
  | SList [SAtom "enum"; attrs; vis; name; g; vs] =>
      let? a := d_list d_attr attrs in let? v := d_toks vis in let? n := d_str name in
      let? g := d_generics g in let? vs := d_list d_variant vs in
      Some (IEnum {| e_attrs := a; e_vis := v; e_name := n; e_generics := g; e_variants := vs |})
  | SList [SAtom "impl"; attrs; g; neg; tr; self_; items] =>
      let? a := d_list d_attr attrs in let? g := d_generics g in let? neg := d_bool neg in
      let? tr := d_opt (fun x => match x with
                                 | SList [lead; segs] =>
                                     let? l := d_bool lead in let? sg := d_list d_seg segs in
                                     Some (l, sg)
                                 | _ => None end) tr in
      let? st := dty self_ in
      let? items := d_list (fun x => match x with
                                     | SList [SAtom "mtype"; n; t] =>
                                         let? n := d_str n in let? t := dty t in Some (IMType n t)
                                     | SList [SAtom "mother"; t] => option_map IMOther (d_toks t)
                                     | _ => None end) items in
      Some (IImpl {| i_attrs := a; i_generics := g; i_neg := neg; i_trait := tr; i_self := st;
                     i_items := items |})
  | SList [SAtom "otheritem"; t] => option_map IOtherItem (d_toks t)
  | _ => None
  end.

Definition d_invocation (s : sexp) : option invocation :=
  match s with
  | SList [SAtom "inv"; SAtom "attr"; a; it] =>
      let? a := d_dx_args a in let? it := d_item it in
      Some {| inv_mode := Attr; inv_args := a; inv_item := it |}
  | SList [SAtom "inv"; SAtom "derive"; a; it] =>
      let? a := d_dx_args a in let? it := d_item it in
      Some {| inv_mode := Derive; inv_args := a; inv_item := it |}
  | _ => None
  end.
