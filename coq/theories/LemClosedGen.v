(** * LemClosedGen: the pieces the generator puts into an impl BODY are the user's (C13)

    LemClosed.v shows that a rendered impl consists of closed-vocabulary tokens and of the tokens of
    its user-supplied pieces.  Here: for every impl the generator builds from a struct or an enum, the
    pieces of the body ([body_ok]) are pieces of the ITEM — its name, the names of its variants, the
    types and names of its fields, the `key` / `by` / `default` expressions of its helper attributes.
    (The pieces of the header — declared generics, the type applied to its parameters, the bounds —
    are what [hdr_ok] names; they are copied by [mk_hdr] and the where-clause rules of SpecBound.v.) *)
From DX Require Import Syntax Tables Render GenBound GenAttrs IR GenType GenCmp GenImpl GenTop RenderOut
     SpecAttrs SpecBound SemCmp SpecCmp LemDump LemBound LemCmp LemData LemDeref LemStatic LemStaticEnum LemClosed.

Section Gen.
  Variable user : tok -> Prop.
  Notation tok_ok := (ok user).
  Notation toks_ok := (TOk user).

  (** what the user wrote on a field *)
  Definition cattr_ok (a : cmp_attr) : Prop :=
    (forall k, c_key a = Some k -> toks_ok k) /\ (forall b, c_by a = Some b -> toks_ok b).
  Definition dattr_ok (h : hattrs) : Prop :=
    forall d e, ha_default h = Some d -> d_value d = Some e -> toks_ok e.
  Definition fentry_ok (f : fentry) : Prop :=
    fld_ok user (fld_of f) /\ (forall a, cattr_ok (cmp_get (ha_cmp (fe_hattrs f)) a)) /\ dattr_ok (fe_hattrs f).
  Definition ventry_ok (v : ventry) : Prop :=
    tok_ok (TI (v_name (ve_variant v))) /\ tok_ok (TI (unraw (v_name (ve_variant v)))) /\
    Forall fentry_ok (ve_fields v).

  Lemma Forall_In' {A} (P : A -> Prop) l x : Forall P l -> In x l -> P x.
  Proof. intros H Hx. rewrite Forall_forall in H. exact (H x Hx). Qed.
  Lemma Forall_map' {A B} (P : B -> Prop) (f : A -> B) l : (forall x, In x l -> P (f x)) -> Forall P (map f l).
  Proof. intros H. apply Forall_forall. intros y Hy. apply in_map_iff in Hy as (x & <- & Hx). auto. Qed.
  Lemma Forall_filter' {A} (P : A -> Prop) p l : Forall P l -> Forall P (filter p l).
  Proof. intros H. apply Forall_forall. intros x Hx. apply filter_In in Hx as [Hx _]. exact (Forall_In' _ _ _ H Hx). Qed.

  Lemma flds_ok fs : Forall fentry_ok fs -> Forall (fld_ok user) (map fld_of fs).
  Proof. intros H. apply Forall_map'. intros f Hf. exact (proj1 (Forall_In' _ _ _ H Hf)). Qed.

  (** comparison traits: the expression selected for a field is one the user wrote *)
  Lemma selected_ok op c :
    (forall a, cattr_ok (cmp_get c a)) ->
    match selected op c with SBy _ g => toks_ok g | SKey k => toks_ok k | SOwn => True end.
  Proof.
    intros H. unfold selected. induction (specific_first op) as [|a l IH]; cbn [flat_map]; [exact I|].
    unfold attr_selection at 1. destruct (H a) as [Hk Hb].
    destruct (by_counts op a); [destruct (c_by (cmp_get c a)) as [g|] eqn:Eb|].
    - cbn. now apply Hb.
    - destruct (c_key (cmp_get c a)) as [k|] eqn:Ek; cbn; [now apply Hk|exact IH].
    - destruct (c_key (cmp_get c a)) as [k|] eqn:Ek; cbn; [now apply Hk|exact IH].
  Qed.

  Lemma sel_for_ok op c :
    (forall a, cattr_ok (cmp_get c a)) ->
    match sel_for op c with SBy _ g => toks_ok g | SKey k => toks_ok k | SOwn => True end.
  Proof.
    intros H. destruct op; try apply (selected_ok _ c H). cbn [sel_for]. unfold eq_selected.
    destruct (selected CEq c); [apply (selected_ok CPartialEq c H) | apply (selected_ok CPartialEq c H) | exact I].
  Qed.

  Lemma spec_cmp_field_ok op f : fentry_ok f -> cmp_ok user (spec_cmp_field op f).
  Proof.
    intros (Hf & Hc & _). split; [exact Hf|]. cbn [cf_expr spec_cmp_field].
    pose proof (sel_for_ok op (ha_cmp (fe_hattrs f)) Hc) as H. unfold expr_of.
    destruct (sel_for op _); cbn; exact H.
  Qed.

  Lemma cmp_fields_ok op fs :
    Forall fentry_ok fs -> Forall (cmp_ok user) (map (spec_cmp_field op) (cmp_used_fields op fs)).
  Proof.
    intros H. apply Forall_map'. intros f Hf. apply spec_cmp_field_ok.
    unfold cmp_used_fields in Hf. apply filter_In in Hf as [Hf _]. exact (Forall_In' _ _ _ H Hf).
  Qed.

  Lemma eq_checks_ok cs : Forall (cmp_ok user) cs -> Forall (qchk_ok user) (eq_checks cs).
  Proof.
    intros H. unfold eq_checks. apply Forall_map'. intros c Hc. destruct (Forall_In' _ _ _ H Hc) as [Hf He].
    split; [exact Hf|]. cbn [snd]. destruct (cf_expr c); cbn in *; auto.
  Qed.

  (** Default *)
  Lemma self_ty_ok : toks_ok (r_ty self_ty_kw).
  Proof. apply Ok_closed. reflexivity. Qed.

  Lemma default_value_ok h t v :
    dattr_ok h -> toks_ok (r_ty t) -> hattrs_default_value h t = Some v -> dv_ok user v.
  Proof.
    intros Hd Ht. unfold hattrs_default_value, default_attr_value.
    destruct (ha_default h) as [d|] eqn:Ed; [|discriminate]. destruct (d_value d) as [e|] eqn:Ee; [|discriminate].
    intros X; inversion X; subst v. pose proof (Hd d e Ed Ee) as He.
    destruct (classify_expr e); cbn; auto.
  Qed.

  Lemma default_value_spec_ok f : fentry_ok f -> dv_ok user (default_value_spec f).
  Proof.
    intros ((Ht & _) & _ & Hd). unfold default_value_spec.
    destruct (hattrs_default_value (fe_hattrs f) (fty f)) as [v|] eqn:E.
    - eapply default_value_ok; eauto.
    - exact Ht.
  Qed.

  Lemma default_ctor_ok fs :
    Forall fentry_ok fs ->
    Forall (fun x : member * dvalue => toks_ok (r_member (fst x)) /\ dv_ok user (snd x))
           (map (fun f => (fe_member f, default_value_spec f)) fs).
  Proof.
    intros H. apply Forall_map'. intros f Hf. pose proof (Forall_In' _ _ _ H Hf) as Hx. split.
    - destruct Hx as ((_ & Hm & _) & _). exact Hm.
    - now apply default_value_spec_ok.
  Qed.

  (** Debug *)
  Lemma debug_body_ok name src fs :
    tok_ok (TI (unraw name)) -> Forall fentry_ok fs -> dbg_ok user (debug_body_spec name src fs).
  Proof.
    intros Hn Hf. unfold debug_body_spec. destruct (transparent_fields fs) as [|f l] eqn:E.
    - split; [exact Hn|]. apply flds_ok. now apply Forall_filter'.
    - assert (In f (transparent_fields fs)) as Hin by (rewrite E; now left).
      unfold transparent_fields in Hin. apply filter_In in Hin as [Hin _].
      exact (proj1 (Forall_In' _ _ _ Hf Hin)).
  Qed.

  (** ** every impl derived from a struct *)
  Theorem struct_bodies_ok s h fs e irs ir :
    tok_ok (TI (s_name s)) -> tok_ok (TI (unraw (s_name s))) -> dattr_ok h -> Forall fentry_ok fs ->
    build_struct_entry s h fs e = Ok irs -> In ir irs ->
    body_ok user (ir_body ir).
  Proof.
    intros Hn Hu Hd Hf Hb Hin. pose proof (flds_ok fs Hf) as Hflds.
    unfold build_struct_entry in Hb. destruct (en_kind e) eqn:Ek.
    - destruct (binary_op_bodies s o e fs) as (h1 & h2 & h3 & h4 & E & _). rewrite E in Hb. inversion Hb; subst.
      destruct Hin as [<-|[<-|[<-|[<-|[]]]]]; cbn; split; assumption.
    - destruct (assign_op_bodies s o e fs) as (h1 & h2 & E & _). rewrite E in Hb. inversion Hb; subst.
      destruct Hin as [<-|[<-|[]]]; cbn; assumption.
    - destruct (unary_op_bodies s o e fs) as (h1 & h2 & E & _). rewrite E in Hb. inversion Hb; subst.
      destruct Hin as [<-|[<-|[]]]; cbn; split; assumption.
    - assert (exists x, irs = [x]) as [x ->].
      { revert Hb. unfold build_compare_op. cbv zeta. destruct (entry_push_bounds_to_with _ _ _ _) as [w ub].
        destruct (build_from_fields _ _ _ _) as [[l w']| |]; cbn [bind]; try discriminate. intros X; inversion X; eauto. }
      destruct Hin as [<-|[]]. rewrite (compare_op_body _ _ _ _ _ Hb). cbv zeta.
      pose proof (cmp_fields_ok o fs Hf) as Hc.
      destruct o; cbn [body_ok]; try exact Hc. now apply eq_checks_ok.
    - revert Hb. unfold build_copy_for_struct. cbv zeta. destruct (entry_push_bounds_to _ _) as [w ub].
      intros X; inversion X; subst. destruct Hin as [<-|[]]. exact I.
    - assert (exists x, irs = [x]) as [x ->].
      { revert Hb. unfold build_clone_for_struct. cbv zeta. destruct (entry_push_bounds_to _ _) as [w ub]. intros X; inversion X; eauto. }
      destruct Hin as [<-|[]]. destruct (clone_struct_body s e fs x Hb) as [-> _]. cbn. split; assumption.
    - pose proof (debug_struct_body s e h fs) as D.
      destruct (transparent_fields fs) as [|t1 [|t2 tl]] eqn:Et.
      + destruct D as (ir0 & E & B). rewrite E in Hb. inversion Hb; subst. destruct Hin as [<-|[]]. rewrite B.
        cbn [body_ok]. now apply debug_body_ok.
      + destruct D as (ir0 & E & B). rewrite E in Hb. inversion Hb; subst. destruct Hin as [<-|[]]. rewrite B.
        cbn [body_ok]. now apply debug_body_ok.
      + rewrite D in Hb. discriminate.
    - assert (exists x, irs = [x]) as [x ->].
      { revert Hb. unfold build_default_for_struct. cbv zeta. destruct (entry_push_bounds_to_with _ _ _ _) as [w ub].
        destruct (hattrs_default_value _ _); [|destruct (build_default_ctor_args _ _ _)]; intros X; inversion X; eauto. }
      destruct Hin as [<-|[]]. rewrite (default_struct_body s e h fs x Hb).
      destruct (hattrs_default_value h self_ty_kw) as [v|] eqn:Ev; cbn [body_ok].
      + eapply default_value_ok; [exact Hd|apply self_ty_ok|exact Ev].
      + split; [constructor; [exact Hn|constructor]|]. now apply default_ctor_ok.
    - revert Hb. unfold build_deref_for_struct. cbv zeta. destruct (entry_push_bounds_to _ _) as [w ub].
      destruct fs as [|f [|]]; try discriminate. rewrite Ek. cbn. intros X; inversion X; subst.
      destruct Hin as [<-|[]]. cbn. inversion Hf as [|? ? ((Ht & Hm & _) & _) _]; subst. split; assumption.
    - revert Hb. unfold build_deref_for_struct. cbv zeta. destruct (entry_push_bounds_to _ _) as [w ub].
      destruct fs as [|f [|]]; try discriminate. rewrite Ek. cbn. intros X; inversion X; subst.
      destruct Hin as [<-|[]]. cbn. inversion Hf as [|? ? ((Ht & Hm & _) & _) _]; subst. split; assumption.
  Qed.

  (** ** every impl derived from an enum *)
  Lemma variant_arm_ok v : ventry_ok v -> arm_ok user (variant_arm v).
  Proof. intros (Hn & _ & Hf). split; [exact Hn|]. cbn. now apply flds_ok. Qed.

  Theorem enum_bodies_ok en h vs e ir :
    tok_ok (TI (e_name en)) -> dattr_ok h -> Forall ventry_ok vs ->
    enum_entry en h vs e = Ok (Ok [ir]) ->
    body_ok user (ir_body ir).
  Proof.
    intros Hn Hd Hv. unfold enum_entry. destruct (en_kind e) eqn:Ek; try discriminate; intros X; inversion X as [Hb]; clear X.
    - rewrite (compare_op_body _ _ _ _ _ Hb). cbv zeta.
      assert (Forall (fun x : string * shape * list fld * list cmp_field => arm_ok user (fst x) /\ Forall (cmp_ok user) (snd x))
                     (map (fun v => (variant_arm v, map (spec_cmp_field o) (cmp_used_fields o (ve_fields v)))) vs)) as H.
      { apply Forall_map'. intros v Hin. pose proof (Forall_In' _ _ _ Hv Hin) as Hx. split; cbn [fst snd].
        - now apply variant_arm_ok.
        - apply cmp_fields_ok. exact (proj2 (proj2 Hx)). }
      destruct o; cbn [body_ok]; try exact H.
      split; [exact Hn|]. apply Forall_map'. intros [a cs] Hin. cbn [fst snd].
      destruct (Forall_In' _ _ _ H Hin) as [Ha Hc]. split; [exact Ha|now apply eq_checks_ok].
    - revert Hb. unfold build_copy_for_enum. cbv zeta. destruct (entry_push_bounds_to _ _) as [w ub].
      intros X; inversion X; subst. exact I.
    - destruct (clone_enum_body en e vs ir Hb) as [-> _]. cbn [body_ok]. apply Forall_map'. intros v Hin.
      apply variant_arm_ok. exact (Forall_In' _ _ _ Hv Hin).
    - pose proof (debug_enum_body en e h vs) as D. destruct (existsb _ vs); [rewrite D in Hb; discriminate|].
      destruct D as (ir0 & E & B). rewrite E in Hb. inversion Hb; subst ir0. rewrite B. cbn [body_ok].
      apply Forall_map'. intros v Hin. pose proof (Forall_In' _ _ _ Hv Hin) as Hx. unfold debug_arm_spec. cbn [fst snd]. split.
      + now apply variant_arm_ok.
      + destruct Hx as (_ & Hu & Hf). now apply debug_body_ok.
    - pose proof (default_enum_body en e h vs ir Hb) as B.
      destruct (hattrs_default_value h self_ty_kw) as [v|] eqn:Ev.
      + rewrite B. cbn [body_ok]. eapply default_value_ok; [exact Hd|apply self_ty_ok|exact Ev].
      + destruct B as (v & Edv & ->). cbn [body_ok].
        assert (In v vs) as Hin.
        { unfold default_variant in Edv. destruct (filter is_marked_default vs) as [|a [|b l]] eqn:Ef.
          - destruct vs as [|v0 [|]]; try discriminate. inversion Edv; subst. now left.
          - inversion Edv; subst. assert (In v (filter is_marked_default vs)) as H by (rewrite Ef; now left).
            apply filter_In in H. tauto.
          - discriminate. }
        destruct (Forall_In' _ _ _ Hv Hin) as (Hvn & _ & Hf).
        split; [constructor; [exact Hn|constructor; [exact Hvn|constructor]]|]. now apply default_ctor_ok.
  Qed.
End Gen.
