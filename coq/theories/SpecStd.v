(** * SpecStd: what the standard derives compute (Rust reference, "Derive" attributes)

    - `PartialEq`: same variant and all fields pairwise `==`, in order;
    - `PartialOrd` / `Ord`: lexicographic over the fields in declaration order; variants ordered by
      declaration position (= discriminant order when no explicit discriminants are given);
    - `Hash`: every field, in order;
    - `Clone`: every field cloned; `Debug`: debug_struct / debug_tuple over all fields with the
      (un-raw'd) names; `Default`: every field `Default::default()`, the `#[default]` variant. *)
From DX Require Import Syntax Tables GenBound GenAttrs IR GenType SpecAttrs SpecBound SemCmp SpecCmp.

Section Std.
  Variable V : Type.
  Variable d_eq : ty -> V -> V -> bool.
  Variable d_pcmp : ty -> V -> V -> option comparison.
  Variable d_cmp : ty -> V -> V -> comparison.

  Definition std_fields_eq (fs : list fentry) (a b : value V) : bool :=
    forallb (fun f => d_eq (fty f) (at_ V a f) (at_ V b f)) fs.
  Definition std_fields_pcmp (fs : list fentry) (a b : value V) : option comparison :=
    first_non_eq_opt (map (fun f => d_pcmp (fty f) (at_ V a f) (at_ V b f)) fs).
  Definition std_fields_cmp (fs : list fentry) (a b : value V) : comparison :=
    first_non_eq (map (fun f => d_cmp (fty f) (at_ V a f) (at_ V b f)) fs).
  Definition std_fields_feed (fs : list fentry) (a : value V) : list (feed_event V) :=
    map (fun f => FeedField (fty f) (at_ V a f)) fs.
End Std.

(** no comparison helper attribute on a field *)
Definition plain_cmp (c : cmp_attrs) : Prop :=
  forall a, cmp_get c a = cmp_attr_default.
