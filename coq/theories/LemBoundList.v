(** * LemBoundList: what a `bound(...)` list means, independently of the order of its entries *)
From DX Require Import Syntax GenBound.

Definition is_dots (b : bound_item) : bool := match b with BDefault => true | _ => false end.
Definition types_of (l : list bound_item) : list ty :=
  flat_map (fun b => match b with BType t => [t] | _ => [] end) l.
Definition preds_of (l : list bound_item) : list wpred :=
  flat_map (fun b => match b with BPred p => [p] | _ => [] end) l.

Lemma fold_bounds_push l : forall acc,
  fold_left bounds_push l acc =
  {| b_ty := b_ty acc ++ types_of l; b_pred := b_pred acc ++ preds_of l;
     b_default := b_default acc || existsb is_dots l |}.
Proof.
  induction l as [|b l IH]; intros acc; cbn [fold_left types_of preds_of flat_map existsb].
  - rewrite !app_nil_r, Bool.orb_false_r. destruct acc; reflexivity.
  - rewrite IH. destruct b; cbn [bounds_push b_ty b_pred b_default is_dots app orb];
      rewrite <- ?app_assoc; cbn [app]; rewrite ?Bool.orb_true_r; reflexivity.
Qed.

(** the types and predicates of the list in the order written; default bounds kept iff `..` occurs ANYWHERE *)
Theorem bounds_from_reading l :
  bounds_from (Some l) = {| b_ty := types_of l; b_pred := preds_of l; b_default := existsb is_dots l |}.
Proof. unfold bounds_from. rewrite fold_bounds_push. reflexivity. Qed.

(** in particular the position of `..` among the entries is immaterial *)
Theorem bounds_from_dots_position l1 l2 :
  b_default (bounds_from (Some (l1 ++ BDefault :: l2))) = true /\
  b_ty (bounds_from (Some (l1 ++ BDefault :: l2))) = b_ty (bounds_from (Some (BDefault :: l1 ++ l2))) /\
  b_pred (bounds_from (Some (l1 ++ BDefault :: l2))) = b_pred (bounds_from (Some (BDefault :: l1 ++ l2))).
Proof.
  rewrite !bounds_from_reading. cbn [b_default b_ty b_pred]. repeat split.
  - rewrite existsb_app. cbn [existsb is_dots]. apply Bool.orb_true_r.
  - unfold types_of. rewrite !flat_map_app. cbn [flat_map app]. rewrite flat_map_app. reflexivity.
  - unfold preds_of. rewrite !flat_map_app. cbn [flat_map app]. rewrite flat_map_app. reflexivity.
Qed.
