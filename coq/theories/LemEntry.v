(** * LemEntry: entry points, split lists, co-derived traits (C15) *)
From DX Require Import Syntax Tables GenBound GenAttrs IR GenType GenCmp GenImpl GenTop SpecAttrs LemTop LemAttrs.

(** ** either entry point *)
Lemma from_root_attr_vs_derive a attrs :
  from_root (Some a) attrs = from_root None (ADeriveEx a :: attrs).
Proof. reflexivity. Qed.

Lemma hattrs_skip_derive_ex a attrs t k :
  k_derive_ex k = false ->
  hattrs_from_attrs (ADeriveEx a :: attrs) t k = hattrs_from_attrs attrs t k.
Proof.
  intros H. unfold hattrs_from_attrs. rewrite H. reflexivity.
Qed.

Definition struct_with_attrs (s : item_struct) (attrs : list attr) : item_struct :=
  {| s_attrs := attrs; s_vis := s_vis s; s_name := s_name s; s_generics := s_generics s;
     s_fields := s_fields s |}.
Definition enum_with_attrs (e : item_enum) (attrs : list attr) : item_enum :=
  {| e_attrs := attrs; e_vis := e_vis e; e_name := e_name e; e_generics := e_generics e;
     e_variants := e_variants e |}.

Lemma build_struct_entry_attrs s attrs h fs e :
  build_struct_entry (struct_with_attrs s attrs) h fs e = build_struct_entry s h fs e.
Proof. unfold build_struct_entry. destruct (en_kind e); reflexivity. Qed.

Lemma build_enum_entries_attrs en attrs h vs es :
  build_enum_entries (enum_with_attrs en attrs) h vs es = build_enum_entries en h vs es.
Proof.
  induction es as [|e es IH]; cbn; [reflexivity|]. rewrite IH.
  destruct (en_kind e) as [| | |op| | | | | |]; reflexivity.
Qed.

Lemma entry_points_struct a s :
  snd (build_by_item_struct_core (Some a) s)
  = snd (build_by_item_struct_core None (struct_with_attrs s (ADeriveEx a :: s_attrs s))).
Proof.
  unfold build_by_item_struct_core. cbn [s_attrs struct_with_attrs s_fields].
  rewrite <- from_root_attr_vs_derive.
  destruct (from_root (Some a) (s_attrs s)) as [es| |]; cbn [snd]; try reflexivity.
  all: rewrite hattrs_skip_derive_ex by reflexivity.
  all: destruct (hattrs_from_attrs _ _ _) as [h| |]; cbn [bind]; try reflexivity.
  all: destruct (fentries_from_fields _ _) as [fs| |]; cbn [bind]; try reflexivity.
  all: f_equal; apply map_ext; intros e; now rewrite build_struct_entry_attrs.
Qed.

Lemma entry_points_enum a en :
  snd (build_by_item_enum_core (Some a) en)
  = snd (build_by_item_enum_core None (enum_with_attrs en (ADeriveEx a :: e_attrs en))).
Proof.
  unfold build_by_item_enum_core. cbn [e_attrs enum_with_attrs e_variants].
  rewrite <- from_root_attr_vs_derive.
  destruct (from_root (Some a) (e_attrs en)) as [es| |]; cbn [snd]; try reflexivity.
  all: rewrite hattrs_skip_derive_ex by reflexivity.
  all: destruct (hattrs_from_attrs _ _ _) as [h| |]; cbn [bind]; try reflexivity.
  all: destruct (ventries_from_variants _ _) as [vs| |]; cbn [bind]; try reflexivity.
  all: now rewrite build_enum_entries_attrs.
Qed.

Definition derive_form (a : dx_args) (it : item) : item :=
  match it with
  | IStruct s => IStruct (struct_with_attrs s (ADeriveEx a :: s_attrs s))
  | IEnum e => IEnum (enum_with_attrs e (ADeriveEx a :: e_attrs e))
  | it => it
  end.

Lemma entry_points a a' it :
  (exists s, it = IStruct s) \/ (exists e, it = IEnum e) ->
  x_entries (expand {| inv_mode := Attr; inv_args := a; inv_item := it |})
  = x_entries (expand {| inv_mode := Derive; inv_args := a'; inv_item := derive_form a it |}) /\
  x_fatal (expand {| inv_mode := Attr; inv_args := a; inv_item := it |})
  = x_fatal (expand {| inv_mode := Derive; inv_args := a'; inv_item := derive_form a it |}).
Proof.
  intros [[s ->]|[e ->]]; unfold expand; cbn [inv_mode inv_item inv_args derive_form].
  - rewrite <- entry_points_struct.
    destruct (build_by_item_struct_core (Some a) s) as [k r]. cbn [snd].
    destruct r; split; reflexivity.
  - rewrite <- entry_points_enum.
    destruct (build_by_item_enum_core (Some a) e) as [k r]. cbn [snd].
    destruct r; split; reflexivity.
Qed.

(** ** one list or several *)
Lemma mapM_app {A B} (f : A -> result B) l1 l2 :
  mapM f (l1 ++ l2) = (do x <- mapM f l1; do y <- mapM f l2; Ok (x ++ y)).
Proof.
  induction l1 as [|a l1 IH]; cbn.
  - destruct (mapM f l2); reflexivity.
  - destruct (f a); cbn; try reflexivity. rewrite IH.
    destruct (mapM f l1); cbn; try reflexivity. destruct (mapM f l2); reflexivity.
Qed.

Definition mk_args (items : list (string * option item_args)) (b : bound_arg) (d : bool) : dx_args :=
  {| dx_items := items; dx_bound := b; dx_dump := d |}.

Lemma split_list A B b d rest :
  from_args_list (mk_args (A ++ B) b d :: rest)
  = from_args_list (mk_args A b d :: mk_args B b d :: rest).
Proof.
  cbn. unfold entries_of_args. cbn [dx_items dx_bound dx_dump mk_args]. rewrite mapM_app.
  match goal with |- context [mapM ?f A] => destruct (mapM f A) as [x| |] end; cbn; try reflexivity.
  match goal with |- context [mapM ?f B] => destruct (mapM f B) as [y| |] end; cbn; try reflexivity.
  destruct (from_args_list rest); cbn; try reflexivity. now rewrite app_assoc.
Qed.

(** ** co-derived traits: the helper attributes read under two trait sets *)
Definition kinds_agree (k k' : kinds) (attrs : list attr) : Prop :=
  forall a, In a attrs -> kinds_is_match k a = kinds_is_match k' a.

Lemma flat_map_nil {A B} (f : A -> list B) l : (forall a, In a l -> f a = []) -> flat_map f l = [].
Proof.
  induction l as [|a l IH]; cbn; intros H; [reflexivity|].
  rewrite (H a) by now left. cbn. apply IH. intros b Hb. apply H. now right.
Qed.

Lemma hattrs_agree attrs t k k' :
  k_derive_ex k = k_derive_ex k' ->
  kinds_agree k k' attrs ->
  hattrs_from_attrs attrs t k = hattrs_from_attrs attrs t k'.
Proof.
  intros Hd Ha. unfold hattrs_from_attrs. rewrite Hd.
  assert (Edef : (if k_default k then default_from_attrs attrs else Ok None)
                 = (if k_default k' then default_from_attrs attrs else Ok None)).
  { destruct (k_default k) eqn:E1, (k_default k') eqn:E2; try reflexivity;
      unfold default_from_attrs;
      rewrite flat_map_nil; try reflexivity;
      intros a Hin; destruct a; try reflexivity;
      specialize (Ha _ Hin); cbn in Ha; congruence. }
  assert (Edbg : (if k_debug k then debug_from_attrs attrs else Ok debug_attr_default)
                 = (if k_debug k' then debug_from_attrs attrs else Ok debug_attr_default)).
  { destruct (k_debug k) eqn:E1, (k_debug k') eqn:E2; try reflexivity;
      unfold debug_from_attrs;
      rewrite flat_map_nil; try reflexivity;
      intros a Hin; destruct a; try reflexivity;
      specialize (Ha _ Hin); cbn in Ha; congruence. }
  assert (Ecmp : cmp_attrs_from_attrs attrs k = cmp_attrs_from_attrs attrs k').
  { unfold cmp_attrs_from_attrs.
    assert (G : forall op, (if is_match_cmp_attr k op then cmp_from_attrs attrs op else Ok cmp_attr_default)
                           = (if is_match_cmp_attr k' op then cmp_from_attrs attrs op else Ok cmp_attr_default)).
    { intros op. destruct (is_match_cmp_attr k op) eqn:E1, (is_match_cmp_attr k' op) eqn:E2; try reflexivity;
        unfold cmp_from_attrs; rewrite flat_map_nil; try reflexivity;
        intros a Hin; destruct a as [| | | |op' m]; try reflexivity;
        destruct (cmpop_eqb op op') eqn:Eo; try reflexivity;
        specialize (Ha _ Hin); cbn [kinds_is_match] in Ha;
        assert (op = op') by (destruct op, op'; (reflexivity || discriminate)); subst; congruence. }
    now rewrite !G. }
  rewrite Edef, Edbg, Ecmp. reflexivity.
Qed.

Lemma fentries_go_agree fs i k k' :
  k_derive_ex k = k_derive_ex k' ->
  (forall f, In f fs -> kinds_agree k k' (f_attrs f)) ->
  fentries_go fs i k = fentries_go fs i k'.
Proof.
  intros Hd. revert i. induction fs as [|f fs IH]; intros i H; cbn; [reflexivity|].
  rewrite (hattrs_agree (f_attrs f) TField k k' Hd) by (apply H; now left).
  rewrite IH by (intros g Hg; apply H; now right). reflexivity.
Qed.

(** all attributes of a struct *)
Definition struct_agree (k k' : kinds) (s : item_struct) : Prop :=
  kinds_agree k k' (s_attrs s) /\
  forall f, In f (fields_list (s_fields s)) -> kinds_agree k k' (f_attrs f).

Lemma coderived_struct s es es' h fs h' fs' e :
  let k := kinds_extend (kinds_new true) es in
  let k' := kinds_extend (kinds_new true) es' in
  struct_agree k k' s ->
  hattrs_from_attrs (s_attrs s) TType (without_derive_ex k) = Ok h ->
  fentries_from_fields (s_fields s) k = Ok fs ->
  hattrs_from_attrs (s_attrs s) TType (without_derive_ex k') = Ok h' ->
  fentries_from_fields (s_fields s) k' = Ok fs' ->
  struct_outcome s h fs e = struct_outcome s h' fs' e.
Proof.
  intros k k' [Ha Hf] H1 H2 H3 H4.
  assert (Hd : k_derive_ex k = k_derive_ex k') by (unfold k, k'; now rewrite !kinds_extend_derive_ex).
  assert (h = h').
  { rewrite (hattrs_agree _ TType (without_derive_ex k) (without_derive_ex k')) in H1.
    - congruence.
    - reflexivity.
    - intros a Hin. specialize (Ha a Hin). destruct a; cbn in *; try reflexivity; exact Ha. }
  assert (fs = fs').
  { unfold fentries_from_fields in *. rewrite (fentries_go_agree _ 0 k k' Hd Hf) in H2. congruence. }
  subst. reflexivity.
Qed.

(** in terms of the documentation: no attribute of the item is owned by one trait set only *)
Lemma agree_of_owned es es' attrs :
  (forall a, In a attrs -> owned (map en_kind es) a = owned (map en_kind es') a) ->
  kinds_agree (kinds_extend (kinds_new true) es) (kinds_extend (kinds_new true) es') attrs.
Proof. intros H a Hin. rewrite !is_match_owned. now apply H. Qed.

(** ** order of the impls *)
Definition outcome_kind_ok (k : kind) (o : outcome) : Prop :=
  match o with
  | OOk gs | ODump gs =>
      forall g, In g gs -> match g with GT i => ih_trait (ir_hdr i) = k | GO _ => False end
  | _ => True
  end.
