(** * IR: abstract syntax of the macro OUTPUT

    One constructor per `quote!` template of the generator.  [Render*] prints it to the exact
    token sequence; [Sem*] give it its meaning. *)
From DX Require Import Syntax GenBound GenAttrs.

(** how `WhereClauseBuilder::build`'s closure prints a bounded type *)
Inductive where_form :=
| WFPlain                      (* ty : Trait *)
| WFBin (l r : bool)           (* the four owned/reference forms of a binary operator *)
| WFAssign (r : bool)
| WFUn (l : bool).

Record impl_hdr := {
  ih_allow : bool;             (* the two #[allow(..)] of the comparison traits *)
  ih_generics : generics;      (* printed as impl generics *)
  ih_trait : kind;
  ih_rhs : option bool;        (* Some r: trait argument `<this_ty>` / `<&this_ty>` *)
  ih_self_ref : bool;          (* `for &this_ty` *)
  ih_this : ty;
  ih_wtypes : list ty;
  ih_wpreds : list wpred;
  ih_wform : where_form }.

(** shape of a constructor / pattern argument list (`build_ctor_args`) *)
Inductive shape := ShNamed | ShUnnamed | ShUnit.
Definition shape_of (fs : fields) : shape :=
  match fs with FNamed _ => ShNamed | FUnnamed _ => ShUnnamed | FUnit => ShUnit end.

(** a field as the builders see it *)
Record fld := { fl_index : nat; fl_member : member; fl_ty : ty }.

(** ** comparison bodies (filled in by GenCmp) *)
Inductive cmp_expr :=
| CEDefault (t : ty)                               (* the field type's own comparator *)
| CEKey (key : toks)                               (* template with the placeholder *)
| CEBy (src : cmpop) (by_ : toks).                 (* `by` function taken from attribute [src] *)

Record cmp_field := {
  cf_fld : fld;
  cf_expr : cmp_expr;
  cf_reverse : bool }.

Inductive eq_check :=
| QNone                                            (* `by`: nothing to check *)
| QField                                           (* _eq(&(this)) *)
| QKey (key : toks).

(** ** default values *)
Inductive dvalue :=
| DVInto (t : ty) (e : toks)                       (* ::core::convert::Into::<t>::into(e) *)
| DVExpr (e : toks)
| DVDefault (t : ty).                              (* <t as Default>::default() *)

Inductive debug_body :=
| DbgTransparent (f : fld)
| DbgFields (name : string) (sh : shape) (fs : list fld).

Inductive body :=
| BDeref (target : ty) (m : member)
| BDerefMut (target : ty) (m : member)
| BCopy
| BCloneStruct (name : string) (sh : shape) (fs : list fld)
| BCloneEnum (vs : list (string * shape * list fld))
| BDebugStruct (d : debug_body) (dbl : option nat)   (* index of the last field when passed as `&&self.x` *)
| BDebugEnum (vs : list (string * shape * list fld * debug_body))
| BDefaultSelf (v : dvalue)                                         (* type-level value *)
| BDefaultCtor (path : list string) (sh : shape) (vs : list (member * dvalue))
| BBin (op : binop) (l r : bool) (name : string) (sh : shape) (fs : list fld)
| BAssign (op : binop) (r : bool) (fs : list fld)
| BUn (op : unop) (l : bool) (name : string) (sh : shape) (fs : list fld)
| BPartialEqStruct (fs : list cmp_field)
| BPartialEqEnum (vs : list (string * shape * list fld * list cmp_field))
| BPartialOrdStruct (fs : list cmp_field)
| BPartialOrdEnum (vs : list (string * shape * list fld * list cmp_field))
| BOrdStruct (fs : list cmp_field)
| BOrdEnum (vs : list (string * shape * list fld * list cmp_field))
| BHashStruct (fs : list cmp_field)
| BHashEnum (vs : list (string * shape * list fld * list cmp_field))
| BEqStruct (cs : list (fld * eq_check))
| BEqEnum (tyname : string) (vs : list (string * shape * list fld * list (fld * eq_check))).

Record impl_ir := { ir_hdr : impl_hdr; ir_body : body }.

(** operator impls derived from a user-written `impl` (item_impl.rs) *)
Inductive op_ir :=
| OpBin (g : generics) (op : binop) (this rhs output : ty) (il ir cl cr : bool)
    (* impl for [&]this with [&]rhs, forwarding to the base form (cl, cr) *)
| OpAssignFromBin (g : generics) (op : binop) (this rhs : ty) (cl : bool)
    (* rhs: the complete right-hand type; calls the `[&]this op rhs` form *)
| OpBinFromAssign (g : generics) (op : binop) (this rhs : ty).

Inductive gen_ir := GT (i : impl_ir) | GO (o : op_ir).

(** what one requested trait expands to *)
Inductive outcome :=
| OOk (impls : list gen_ir)
| OErr (msg : string)
| ODump (impls : list gen_ir)
| OPanic (msg : string).

(** the whole expansion *)
Record expansion := {
  x_item : option item;            (* re-emitted item (attribute macro only) *)
  x_entries : list outcome;        (* in the order the traits were listed *)
  x_fatal : option string }.       (* an error that replaced all generated impls *)
