(** * GenBound: model of derive-ex/src/bound.rs and of syn_utils.rs (GenericParamSet, expand_self)

    One Gallina function per Rust function, same name, same order of effects on the
    `WhereClauseBuilder` (a state passed through). *)
From DX Require Import Syntax.

(** ** bound.rs: Bounds *)
Record bounds := { b_ty : list ty; b_pred : list wpred; b_default : bool }.

Definition bounds_new : bounds := {| b_ty := []; b_pred := []; b_default := true |}.

Definition bounds_push (this : bounds) (b : bound_item) : bounds :=
  match b with
  | BType t => {| b_ty := b_ty this ++ [t]; b_pred := b_pred this; b_default := b_default this |}
  | BPred p => {| b_ty := b_ty this; b_pred := b_pred this ++ [p]; b_default := b_default this |}
  | BDefault => {| b_ty := b_ty this; b_pred := b_pred this; b_default := true |}
  end.

Definition bounds_from (b : bound_arg) : bounds :=
  match b with
  | None => bounds_new
  | Some l => fold_left bounds_push l {| b_ty := []; b_pred := []; b_default := false |}
  end.

(** ** syn_utils.rs: GenericParamSet *)
Definition gps_new (g : generics) : list string :=
  flat_map (fun p => match p with
                     | GPTy n _ _ => [unraw n]
                     | GPConst n _ _ => [unraw n]
                     | GPLt _ _ => []
                     end) (g_params g).

Definition gps_contains (gps : list string) (ident : string) : bool :=
  str_mem (unraw ident) gps.

(** `visit_path`: a path without leading `::` whose first segment is a parameter;
    then the default traversal (arguments of every segment). *)
Definition first_seg_hit (gps : list string) (lead : bool) (segs : list seg) : bool :=
  negb lead &&
  match segs with
  | Seg n _ :: _ => gps_contains gps n
  | [] => false
  end.

Definition cexpr_hit (gps : list string) (c : cexpr) : bool :=
  match c with
  | CLit _ => false
  | CPath lead names =>
      negb lead && match names with n :: _ => gps_contains gps n | [] => false end
  end.

Fixpoint contains_in_type (gps : list string) (t : ty) : bool :=
  match t with
  | TyPath q lead segs =>
      match q with Some (qt, _) => contains_in_type gps qt | None => false end
      || first_seg_hit gps lead segs
      || existsb (contains_in_seg gps) segs
  | TyRef _ _ t => contains_in_type gps t
  | TyTuple ts => existsb (contains_in_type gps) ts
  | TyArray t len => contains_in_type gps t || cexpr_hit gps len
  | TySlice t => contains_in_type gps t
  | TyPtr _ t => contains_in_type gps t
  | TyFn args ret =>
      existsb (contains_in_type gps) args
      || match ret with Some r => contains_in_type gps r | None => false end
  | TyNever => false
  | TyParen t => contains_in_type gps t
  | TyDyn bs => existsb (contains_in_tbound gps) bs
  end
with contains_in_seg (gps : list string) (s : seg) : bool :=
  match s with
  | Seg _ SANone => false
  | Seg _ (SAAngle l) => existsb (contains_in_garg gps) l
  | Seg _ (SAParen ins out) =>
      existsb (contains_in_type gps) ins
      || match out with Some r => contains_in_type gps r | None => false end
  end
with contains_in_garg (gps : list string) (g : garg) : bool :=
  match g with
  | GTy t => contains_in_type gps t
  | GLt _ => false
  | GConst c => cexpr_hit gps c
  | GAssoc _ t => contains_in_type gps t
  end
with contains_in_tbound (gps : list string) (b : tbound) : bool :=
  match b with
  | TBTrait _ lead segs => first_seg_hit gps lead segs || existsb (contains_in_seg gps) segs
  | TBLt _ => false
  end.

(** ** bound.rs: WhereClauseBuilder *)
Record wcb := { w_types : list ty; w_preds : list wpred; w_gps : list string }.

Definition wcb_new (g : generics) : wcb :=
  {| w_types := []; w_preds := g_where g; w_gps := gps_new g |}.

Definition push_bounds (w : wcb) (b : bounds) : wcb * bool :=
  ({| w_types := w_types w ++ b_ty b; w_preds := w_preds w ++ b_pred b; w_gps := w_gps w |},
   b_default b).

Definition push_bounds_for_field (w : wcb) (t : ty) : wcb :=
  if contains_in_type (w_gps w) t
  then {| w_types := w_types w ++ [t]; w_preds := w_preds w; w_gps := w_gps w |}
  else w.

(** ** syn_utils.rs: expand_self — replace the type `Self` (exactly that path) by [to] *)
Definition is_self_ty (t : ty) : bool :=
  match t with
  | TyPath None false [Seg "Self" SANone] => true
  | _ => false
  end.

(** directly after `&` / `*const` / `*mut` a bare trait object with several bounds needs parentheses (`&(dyn A + B)`) *)
Definition after_amp (to : ty) : ty :=
  match to with TyDyn (_ :: _ :: _) => TyParen to | _ => to end.

Fixpoint expand_self_ty (to : ty) (t : ty) : ty :=
  if is_self_ty t then to else
  match t with
  | TyPath q lead segs =>
      TyPath (match q with Some (qt, n) => Some (expand_self_ty to qt, n) | None => None end)
             lead (map (expand_self_seg to) segs)
  | TyRef lt mt t => TyRef lt mt (if is_self_ty t then after_amp to else expand_self_ty to t)
  | TyTuple ts => TyTuple (map (expand_self_ty to) ts)
  | TyArray t len => TyArray (expand_self_ty to t) len
  | TySlice t => TySlice (expand_self_ty to t)
  | TyPtr mt t => TyPtr mt (if is_self_ty t then after_amp to else expand_self_ty to t)
  | TyFn args ret =>
      TyFn (map (expand_self_ty to) args)
           (match ret with Some r => Some (expand_self_ty to r) | None => None end)
  | TyNever => TyNever
  | TyParen t => TyParen (expand_self_ty to t)
  | TyDyn bs => TyDyn (map (expand_self_tbound to) bs)
  end
with expand_self_seg (to : ty) (s : seg) : seg :=
  match s with
  | Seg n SANone => Seg n SANone
  | Seg n (SAAngle l) => Seg n (SAAngle (map (expand_self_garg to) l))
  | Seg n (SAParen ins out) =>
      Seg n (SAParen (map (expand_self_ty to) ins)
                     (match out with Some r => Some (expand_self_ty to r) | None => None end))
  end
with expand_self_garg (to : ty) (g : garg) : garg :=
  match g with
  | GTy t => GTy (expand_self_ty to t)
  | GLt l => GLt l
  | GConst c => GConst c
  | GAssoc n t => GAssoc n (expand_self_ty to t)
  end
with expand_self_tbound (to : ty) (b : tbound) : tbound :=
  match b with
  | TBTrait m lead segs => TBTrait m lead (map (expand_self_seg to) segs)
  | TBLt l => TBLt l
  end.

Definition expand_self_wpred (to : ty) (p : wpred) : wpred :=
  match p with
  | WPTy t bs => WPTy (expand_self_ty to t) (map (expand_self_tbound to) bs)
  | WPLt l ls => WPLt l ls
  end.

Definition expand_self_gparam (to : ty) (p : gparam) : gparam :=
  match p with
  | GPLt n bs => GPLt n bs
  | GPTy n bs d =>
      GPTy n (map (expand_self_tbound to) bs)
           (match d with Some t => Some (expand_self_ty to t) | None => None end)
  | GPConst n t d => GPConst n (expand_self_ty to t) d
  end.

Definition expand_self_generics (to : ty) (g : generics) : generics :=
  {| g_params := map (expand_self_gparam to) (g_params g);
     g_where := map (expand_self_wpred to) (g_where g) |}.
