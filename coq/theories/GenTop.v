(** * GenTop: model of the drivers — `build_by_item_{struct,enum}[_core]`, `apply_dump`,
    lib.rs `build`, and the two entry points. *)
From DX Require Import Syntax GenBound GenAttrs IR GenType GenCmp GenImpl.

(** `DeriveEntry::apply_dump` *)
Definition apply_dump (e : entry) (r : result (list impl_ir)) : outcome :=
  match r with
  | Ok irs => if en_dump e then ODump (map GT irs) else OOk (map GT irs)
  | Err m => OErr m
  | Panic m => OPanic m
  end.

Definition build_struct_entry (s : item_struct) (h : hattrs) (fs : list fentry) (e : entry)
  : result (list impl_ir) :=
  match en_kind e with
  | KBin op => build_binary_op s op e fs
  | KAssign op => build_assign_op s op e fs
  | KUn op => build_unary_op s op e fs
  | KCmp op => build_compare_op op (SrcStruct s fs) e h
  | KCopy => build_copy_for_struct s e fs
  | KClone => build_clone_for_struct s e fs
  | KDebug => build_debug_for_struct s e h fs
  | KDefault => build_default_for_struct s e h fs
  | KDeref | KDerefMut => build_deref_for_struct s e fs
  end.

(** operators are implemented for `&Self` as well: a `Self` in a field type is written out for them *)
Definition fentry_expand_self (to : ty) (f : fentry) : fentry :=
  {| fe_index := fe_index f;
     fe_field := {| f_attrs := f_attrs (fe_field f); f_vis := f_vis (fe_field f); f_name := f_name (fe_field f);
                    f_ty := expand_self_ty to (f_ty (fe_field f)) |};
     fe_hattrs := fe_hattrs f |}.
Definition fields_for (s : item_struct) (k : kind) (fs : list fentry) : list fentry :=
  match k with
  | KBin _ | KAssign _ | KUn _ => map (fentry_expand_self (this_ty_of (s_name s) (s_generics s))) fs
  | _ => fs
  end.

(** `build_by_item_struct_core`: the kinds discovered so far are returned even on failure,
    because `remove_attrs` runs afterwards with whatever `kinds` holds. *)
Definition build_by_item_struct_core (arg : option dx_args) (s : item_struct)
  : kinds * result (list outcome) :=
  let k0 := kinds_new true in
  match from_root arg (s_attrs s) with
  | Err m => (k0, Err m) | Panic m => (k0, Panic m)
  | Ok es =>
      let k := kinds_extend k0 es in
      (k,
       do h <- hattrs_from_attrs (s_attrs s) TType (without_derive_ex k);
       do fs <- fentries_from_fields (s_fields s) k;
       Ok (map (fun e => apply_dump e (build_struct_entry s h (fields_for s (en_kind e) fs) e)) es))
  end.

Definition unsupported_for_enum_msg (k : kind) : string :=
  "derive `" +++ kind_display k +++ "` for enum is not supported".

(** the enum loop stops at the first unsupported trait (`bail!` inside the loop) *)
Fixpoint build_enum_entries (en : item_enum) (h : hattrs) (vs : list ventry) (es : list entry)
  : result (list outcome) :=
  match es with
  | [] => Ok []
  | e :: rest =>
      do r <- match en_kind e with
              | KCmp op => Ok (build_compare_op op (SrcEnum en vs) e h)
              | KCopy => Ok (build_copy_for_enum en e vs)
              | KClone => Ok (build_clone_for_enum en e vs)
              | KDebug => Ok (build_debug_for_enum en e h vs)
              | KDefault => Ok (build_default_for_enum en e h vs)
              | k => Err (unsupported_for_enum_msg k)
              end;
      do rs <- build_enum_entries en h vs rest;
      Ok (apply_dump e r :: rs)
  end.

Definition build_by_item_enum_core (arg : option dx_args) (en : item_enum)
  : kinds * result (list outcome) :=
  let k0 := kinds_new true in
  match from_root arg (e_attrs en) with
  | Err m => (k0, Err m) | Panic m => (k0, Panic m)
  | Ok es =>
      let k := kinds_extend k0 es in
      (k,
       do h <- hattrs_from_attrs (e_attrs en) TType (without_derive_ex k);
       do vs <- ventries_from_variants (e_variants en) k;
       build_enum_entries en h vs es)
  end.

(** `build_by_item_struct` / `build_by_item_enum`: remove our attributes from the item *)
Definition strip_field (k : kinds) (f : field) : field :=
  {| f_attrs := remove_attrs k (f_attrs f); f_vis := f_vis f; f_name := f_name f; f_ty := f_ty f |}.
Definition strip_fields (k : kinds) (fs : fields) : fields :=
  match fs with
  | FNamed l => FNamed (map (strip_field k) l)
  | FUnnamed l => FUnnamed (map (strip_field k) l)
  | FUnit => FUnit
  end.
Definition strip_struct (k : kinds) (s : item_struct) : item_struct :=
  {| s_attrs := remove_attrs k (s_attrs s); s_vis := s_vis s; s_name := s_name s;
     s_generics := s_generics s; s_fields := strip_fields k (s_fields s) |}.
Definition strip_variant (k : kinds) (v : variant) : variant :=
  {| v_attrs := remove_attrs k (v_attrs v); v_name := v_name v;
     v_fields := strip_fields k (v_fields v); v_discr := v_discr v |}.
Definition strip_enum (k : kinds) (e : item_enum) : item_enum :=
  {| e_attrs := remove_attrs k (e_attrs e); e_vis := e_vis e; e_name := e_name e;
     e_generics := e_generics e; e_variants := map (strip_variant k) (e_variants e) |}.

Definition of_result (it : option item) (r : result (list outcome)) : expansion :=
  match r with
  | Ok os => {| x_item := it; x_entries := os; x_fatal := None |}
  | Err m => {| x_item := it; x_entries := []; x_fatal := Some m |}
  | Panic m => {| x_item := it; x_entries := [OPanic m]; x_fatal := None |}
  end.

Definition not_item_msg : string :=
  "`#[derive_ex]` can be specified only for `struct`, `enum`, or `impl`.".
Definition union_msg : string := "does not support union types".

(** the two entry points (lib.rs `derive_ex` / `derive_ex_derive`) *)
Definition expand (inv : invocation) : expansion :=
  match inv_mode inv, inv_item inv with
  | Attr, IStruct s =>
      let '(k, r) := build_by_item_struct_core (Some (inv_args inv)) s in
      of_result (Some (IStruct (strip_struct k s))) r
  | Attr, IEnum e =>
      let '(k, r) := build_by_item_enum_core (Some (inv_args inv)) e in
      of_result (Some (IEnum (strip_enum k e))) r
  | Attr, IImpl i =>
      of_result (Some (IImpl i)) (do o <- build_by_item_impl (inv_args inv) i; Ok [o])
  | Attr, IOtherItem t =>
      {| x_item := Some (IOtherItem t); x_entries := []; x_fatal := Some not_item_msg |}
  | Derive, IStruct s => of_result None (snd (build_by_item_struct_core None s))
  | Derive, IEnum e => of_result None (snd (build_by_item_enum_core None e))
  | Derive, _ => {| x_item := None; x_entries := []; x_fatal := Some union_msg |}
  end.
