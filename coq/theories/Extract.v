(** * Extract: OCaml extraction of the executable model.
    Directives in use: those of the standard library files ExtrOcamlBasic and ExtrOcamlString
    (ExtrOcamlChar); none of our own. *)
From Coq Require Extraction ExtrOcamlBasic ExtrOcamlString.
From DX Require Import Driver.
Extraction "model.ml" run_line.
