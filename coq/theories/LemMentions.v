(** * LemMentions: what "mentions a parameter" means, and how it interacts with the expansion of `Self`

    [contains_in_type] (GenericParamSet::contains_in_type, syn_utils.rs) is a visitor with one hook, `visit_path`.
    Here it is characterised WITHOUT reference to the traversal order of the code: [heads_ty t] lists, for every
    path inside [t] that does not start with `::` - in type position, in a trait bound, in a const argument or an
    array length - the identifier of its first segment; a type mentions a parameter exactly when one of those
    identifiers is (up to `r#`) a declared type or const parameter.

    Then two facts about [expand_self] (syn_utils.rs) that the earlier files did not have:
    - the expansion ELIMINATES `Self`: if the self type does not mention `Self`, nothing that was expanded does;
    - "mentions a parameter" COMMUTES with it: an expanded type mentions a parameter iff the original does, or the
      original mentions `Self` and the self type mentions a parameter.  (This is what decides the default bound of a
      field such as `W<Self>` in the operator impls, where fix 70dce36 writes `Self` out.) *)
From DX Require Import Syntax GenBound LemSelf.

(** ** the identifiers a type could be bound through *)
Definition heads_path (lead : bool) (segs : list seg) : list string :=
  if lead then [] else match segs with Seg n _ :: _ => [n] | [] => [] end.
Definition heads_cexpr (c : cexpr) : list string :=
  match c with
  | CLit _ => []
  | CPath lead names => if lead then [] else match names with n :: _ => [n] | [] => [] end
  end.

Fixpoint heads_ty (t : ty) : list string :=
  match t with
  | TyPath q lead segs =>
      (match q with Some (qt, _) => heads_ty qt | None => [] end)
        ++ heads_path lead segs ++ flat_map heads_seg segs
  | TyRef _ _ t => heads_ty t
  | TyTuple ts => flat_map heads_ty ts
  | TyArray t len => heads_ty t ++ heads_cexpr len
  | TySlice t => heads_ty t
  | TyPtr _ t => heads_ty t
  | TyFn args ret => flat_map heads_ty args ++ (match ret with Some r => heads_ty r | None => [] end)
  | TyNever => []
  | TyParen t => heads_ty t
  | TyDyn bs => flat_map heads_tbound bs
  end
with heads_seg (s : seg) : list string :=
  match s with
  | Seg _ SANone => []
  | Seg _ (SAAngle l) => flat_map heads_garg l
  | Seg _ (SAParen ins out) => flat_map heads_ty ins ++ (match out with Some r => heads_ty r | None => [] end)
  end
with heads_garg (g : garg) : list string :=
  match g with
  | GTy t => heads_ty t
  | GLt _ => []
  | GConst c => heads_cexpr c
  | GAssoc _ t => heads_ty t
  end
with heads_tbound (b : tbound) : list string :=
  match b with
  | TBTrait _ lead segs => heads_path lead segs ++ flat_map heads_seg segs
  | TBLt _ => []
  end.

(** ** list helpers *)
Lemma existsb_flat_map {A B} (f : B -> bool) (h : A -> list B) (c : A -> bool) (l : list A) :
  Forall (fun x => c x = existsb f (h x)) l -> existsb c l = existsb f (flat_map h l).
Proof.
  induction 1 as [|x r Hx _ IH]; cbn [existsb flat_map]; [reflexivity|].
  rewrite existsb_app, Hx, IH. reflexivity.
Qed.

Lemma first_seg_hit_heads gps lead segs :
  first_seg_hit gps lead segs = existsb (gps_contains gps) (heads_path lead segs).
Proof.
  unfold first_seg_hit, heads_path. destruct lead; cbn [negb andb existsb]; [reflexivity|].
  destruct segs as [|[n a] r]; cbn [existsb]; [reflexivity|]. rewrite Bool.orb_false_r. reflexivity.
Qed.

Lemma cexpr_hit_heads gps c : cexpr_hit gps c = existsb (gps_contains gps) (heads_cexpr c).
Proof.
  destruct c as [s|lead names]; cbn [cexpr_hit heads_cexpr existsb]; [reflexivity|].
  destruct lead; cbn [negb andb existsb]; [reflexivity|].
  destruct names as [|n r]; cbn [existsb]; [reflexivity|]. rewrite Bool.orb_false_r. reflexivity.
Qed.

(** ** the characterisation *)
Section Heads.
  Variable gps : list string.
  Let hit := existsb (gps_contains gps).

  Lemma contains_heads_all : forall t, contains_in_type gps t = hit (heads_ty t).
  Proof.
    apply (ty_ind2
             (fun t => contains_in_type gps t = hit (heads_ty t))
             (fun s => contains_in_seg gps s = hit (heads_seg s))
             (fun a => forall n, contains_in_seg gps (Seg n a) = hit (heads_seg (Seg n a)))
             (fun g => contains_in_garg gps g = hit (heads_garg g))
             (fun b => contains_in_tbound gps b = hit (heads_tbound b))); unfold hit.
    - intros q lead segs Hq Hs. cbn [contains_in_type heads_ty].
      rewrite !existsb_app, first_seg_hit_heads, (existsb_flat_map _ _ _ _ Hs), <- Bool.orb_assoc.
      destruct q as [[qt k]|]; [cbn [Pq fst] in Hq; rewrite Hq|]; reflexivity.
    - intros lt mt t IH. exact IH.
    - intros ts IH. cbn [contains_in_type heads_ty]. apply existsb_flat_map, IH.
    - intros t len IH. cbn [contains_in_type heads_ty]. rewrite existsb_app, IH, cexpr_hit_heads. reflexivity.
    - intros t IH. exact IH.
    - intros mt t IH. exact IH.
    - intros args ret IHa IHr. cbn [contains_in_type heads_ty].
      rewrite existsb_app, (existsb_flat_map _ _ _ _ IHa).
      destruct ret as [r|]; [cbn [Popt] in IHr; rewrite IHr|]; reflexivity.
    - reflexivity.
    - intros t IH. exact IH.
    - intros bs IH. cbn [contains_in_type heads_ty]. apply existsb_flat_map, IH.
    - intros n a IH. apply IH.
    - intros n. reflexivity.
    - intros l IH n. cbn [contains_in_seg heads_seg]. apply existsb_flat_map, IH.
    - intros ins out IHi IHo n. cbn [contains_in_seg heads_seg].
      rewrite existsb_app, (existsb_flat_map _ _ _ _ IHi).
      destruct out as [r|]; [cbn [Popt] in IHo; rewrite IHo|]; reflexivity.
    - intros t IH. exact IH.
    - reflexivity.
    - intros c. apply cexpr_hit_heads.
    - intros n t IH. exact IH.
    - intros m lead segs IH. cbn [contains_in_tbound heads_tbound].
      rewrite existsb_app, first_seg_hit_heads, (existsb_flat_map _ _ _ _ IH). reflexivity.
    - reflexivity.
  Qed.
End Heads.

Theorem contains_in_type_heads gps t :
  contains_in_type gps t = existsb (gps_contains gps) (heads_ty t).
Proof. apply contains_heads_all. Qed.

(** readings: a witness identifier; no parameters - nothing is mentioned; more parameters - more is mentioned;
    only the parameters that occur as a head matter *)
Theorem contains_in_type_witness gps t :
  contains_in_type gps t = true <-> exists n, In n (heads_ty t) /\ gps_contains gps n = true.
Proof. rewrite contains_in_type_heads. apply existsb_exists. Qed.

Theorem contains_in_type_no_params t : contains_in_type [] t = false.
Proof.
  rewrite contains_in_type_heads. induction (heads_ty t) as [|n r IH]; [reflexivity|]. exact IH.
Qed.

Lemma str_mem_incl s l l' : (forall x, In x l -> In x l') -> str_mem s l = true -> str_mem s l' = true.
Proof.
  intros Hi. induction l as [|x r IH]; cbn [str_mem]; [discriminate|].
  intros H. apply Bool.orb_true_iff in H as [H|H].
  - apply String.eqb_eq in H. subst x. specialize (Hi s (or_introl eq_refl)).
    clear IH. induction l' as [|y r' IH']; [destruct Hi|]. cbn [str_mem]. destruct Hi as [->|Hi].
    + rewrite String.eqb_refl. reflexivity.
    + rewrite (IH' Hi). apply Bool.orb_true_r.
  - apply IH; [|exact H]. intros y Hy. apply Hi. now right.
Qed.

Theorem contains_in_type_monotone gps gps' t :
  (forall x, In x gps -> In x gps') -> contains_in_type gps t = true -> contains_in_type gps' t = true.
Proof.
  intros Hi H. apply contains_in_type_witness in H as (n & Hn & Hc). apply contains_in_type_witness.
  exists n. split; [exact Hn|]. unfold gps_contains in *. eapply str_mem_incl; eassumption.
Qed.

Theorem contains_in_type_only_heads gps gps' t :
  (forall n, In n (heads_ty t) -> gps_contains gps n = gps_contains gps' n) ->
  contains_in_type gps t = contains_in_type gps' t.
Proof.
  intros H. rewrite !contains_in_type_heads. induction (heads_ty t) as [|n r IH]; [reflexivity|].
  cbn [existsb]. rewrite (H n (or_introl eq_refl)), IH; [reflexivity|]. intros m Hm. apply H. now right.
Qed.

(** ** [expand_self] eliminates `Self` *)
Lemma existsb_map_all_false {A} (f : A -> bool) (h : A -> A) (l : list A) :
  Forall (fun x => f (h x) = false) l -> existsb f (map h l) = false.
Proof. induction 1 as [|x r Hx _ IH]; cbn [existsb map]; [reflexivity|]. rewrite Hx, IH. reflexivity. Qed.

Ltac kill_char H c := destruct c as [[] [] [] [] [] [] [] []]; try (cbv in H; discriminate H).

Lemma is_self_ty_eq t : is_self_ty t = true -> t = self_ty_kw.
Proof.
  destruct t as [q lead segs| | | | | | | | |]; try discriminate.
  destruct q; [discriminate|]. destruct lead; [discriminate|].
  destruct segs as [|[n a] [|? ?]]; try discriminate.
  - intros H.
    destruct n as [|c1 n]; [discriminate H|]. kill_char H c1.
    destruct n as [|c2 n]; [discriminate H|]. kill_char H c2.
    destruct n as [|c3 n]; [discriminate H|]. kill_char H c3.
    destruct n as [|c4 n]; [discriminate H|]. kill_char H c4.
    destruct n as [|c5 n]; [|cbv in H; discriminate H].
    destruct a; [reflexivity | cbv in H; discriminate H | cbv in H; discriminate H].
  - intros H. exfalso.
    destruct n as [|c1 n]; [discriminate H|]. kill_char H c1.
    destruct n as [|c2 n]; [discriminate H|]. kill_char H c2.
    destruct n as [|c3 n]; [discriminate H|]. kill_char H c3.
    destruct n as [|c4 n]; [discriminate H|]. kill_char H c4.
    destruct n as [|c5 n]; [|cbv in H; discriminate H].
    destruct a; cbv in H; discriminate H.
Qed.

Lemma is_self_expanded_path to q lead segs :
  is_self_ty (TyPath q lead segs) = false ->
  is_self_ty (TyPath (match q with Some (qt, n) => Some (expand_self_ty to qt, n) | None => None end)
                     lead (map (expand_self_seg to) segs)) = false.
Proof.
  intros H.
  destruct (is_self_ty (TyPath _ lead (map (expand_self_seg to) segs))) eqn:E; [|reflexivity].
  apply is_self_ty_eq in E. unfold self_ty_kw, ident_ty, path_ty in E. cbn [map] in E.
  injection E as Eq El Es. destruct q as [[qt k]|]; [discriminate Eq|]. subst lead.
  destruct segs as [|[n a] [|? ?]]; try discriminate Es. cbn [map] in Es. injection Es as Es.
  destruct a; cbn [expand_self_seg] in Es; try discriminate Es. injection Es as ->.
  discriminate H.
Qed.

Section Eliminates.
  Variable to : ty.
  Hypothesis Hto : mentions_self_ty to = false.

  Lemma after_amp_no_self : mentions_self_ty (after_amp to) = false.
  Proof.
    unfold after_amp. destruct to as [| | | | | | | | |bs]; try exact Hto. destruct bs as [|? [|? ?]]; exact Hto.
  Qed.

  Lemma expand_self_eliminates_all : forall t, mentions_self_ty (expand_self_ty to t) = false.
  Proof.
    apply (ty_ind2
             (fun t => mentions_self_ty (expand_self_ty to t) = false)
             (fun s => mentions_self_seg (expand_self_seg to s) = false)
             (fun a => forall n, mentions_self_seg (expand_self_seg to (Seg n a)) = false)
             (fun g => mentions_self_garg (expand_self_garg to g) = false)
             (fun b => mentions_self_tbound (expand_self_tbound to b) = false)).
    - intros q lead segs Hq Hs. cbn [expand_self_ty].
      destruct (is_self_ty (TyPath q lead segs)) eqn:Es; [exact Hto|].
      cbn [mentions_self_ty]. rewrite (is_self_expanded_path to _ _ _ Es), (existsb_map_all_false _ _ _ Hs).
      destruct q as [[qt k]|]; [cbn [Pq fst] in Hq; rewrite Hq|]; reflexivity.
    - intros lt mt t IH. cbn [expand_self_ty is_self_ty mentions_self_ty orb].
      destruct (is_self_ty t); [apply after_amp_no_self | exact IH].
    - intros ts IH. cbn [expand_self_ty is_self_ty mentions_self_ty orb]. apply existsb_map_all_false, IH.
    - intros t len IH. cbn [expand_self_ty is_self_ty mentions_self_ty orb]. exact IH.
    - intros t IH. cbn [expand_self_ty is_self_ty mentions_self_ty orb]. exact IH.
    - intros mt t IH. cbn [expand_self_ty is_self_ty mentions_self_ty orb].
      destruct (is_self_ty t); [apply after_amp_no_self | exact IH].
    - intros args ret IHa IHr. cbn [expand_self_ty is_self_ty mentions_self_ty orb].
      rewrite (existsb_map_all_false _ _ _ IHa). destruct ret as [r|]; [exact IHr | reflexivity].
    - reflexivity.
    - intros t IH. cbn [expand_self_ty is_self_ty mentions_self_ty orb]. exact IH.
    - intros bs IH. cbn [expand_self_ty is_self_ty mentions_self_ty orb]. apply existsb_map_all_false, IH.
    - intros n a IH. apply IH.
    - intros n. reflexivity.
    - intros l IH n. cbn [expand_self_seg mentions_self_seg]. apply existsb_map_all_false, IH.
    - intros ins out IHi IHo n. cbn [expand_self_seg mentions_self_seg].
      rewrite (existsb_map_all_false _ _ _ IHi). destruct out as [r|]; [exact IHo | reflexivity].
    - intros t IH. exact IH.
    - reflexivity.
    - reflexivity.
    - intros n t IH. exact IH.
    - intros m lead segs IH. cbn [expand_self_tbound mentions_self_tbound]. apply existsb_map_all_false, IH.
    - reflexivity.
  Qed.

  Lemma expand_self_eliminates_tbound b : mentions_self_tbound (expand_self_tbound to b) = false.
  Proof.
    destruct b as [m lead segs|l]; [|reflexivity]. cbn [expand_self_tbound mentions_self_tbound].
    apply existsb_map_all_false, Forall_forall. intros [n a] _.
    destruct a as [|l|ins out]; cbn [expand_self_seg mentions_self_seg]; [reflexivity| |].
    - apply existsb_map_all_false, Forall_forall. intros g _.
      destruct g; cbn [expand_self_garg mentions_self_garg]; try reflexivity; apply expand_self_eliminates_all.
    - rewrite existsb_map_all_false; [|apply Forall_forall; intros t _; apply expand_self_eliminates_all].
      destruct out as [r|]; [apply expand_self_eliminates_all | reflexivity].
  Qed.

  Theorem expand_self_generics_eliminates g :
    mentions_self_generics (expand_self_generics to g) = false.
  Proof.
    unfold mentions_self_generics, expand_self_generics. cbn [g_params g_where].
    rewrite !existsb_map_all_false; [reflexivity| |].
    - apply Forall_forall. intros [t bs|l ls] _; cbn [expand_self_wpred mentions_self_wpred]; [|reflexivity].
      rewrite expand_self_eliminates_all, existsb_map_all_false; [reflexivity|].
      apply Forall_forall. intros b _. apply expand_self_eliminates_tbound.
    - apply Forall_forall. intros [n bs|n bs d|n t d] _; cbn [expand_self_gparam mentions_self_gparam]; [reflexivity| |].
      + rewrite existsb_map_all_false; [|apply Forall_forall; intros b _; apply expand_self_eliminates_tbound].
        destruct d as [t|]; [apply expand_self_eliminates_all | reflexivity].
      + apply expand_self_eliminates_all.
  Qed.
End Eliminates.

(** the expansion is idempotent: a second pass finds nothing to replace *)
Theorem expand_self_generics_idempotent to g :
  mentions_self_ty to = false ->
  expand_self_generics to (expand_self_generics to g) = expand_self_generics to g.
Proof. intros H. apply expand_self_generics_id, expand_self_generics_eliminates, H. Qed.

(** ** "mentions a parameter" commutes with the expansion *)
Lemma existsb_map_or {A} (f m : A -> bool) (h : A -> A) (k : bool) (l : list A) :
  Forall (fun x => f (h x) = f x || (m x && k)) l ->
  existsb f (map h l) = existsb f l || (existsb m l && k).
Proof.
  induction 1 as [|x r Hx _ IH]; cbn [existsb map]; [reflexivity|]. rewrite Hx, IH.
  destruct (f x), (m x), k, (existsb f r), (existsb m r); reflexivity.
Qed.

Section Commutes.
  Variables (gps : list string) (to : ty).
  Hypothesis Hself : gps_contains gps "Self" = false.     (* no parameter is called `Self` (it is a keyword) *)
  Let k := contains_in_type gps to.

  Lemma after_amp_contains : contains_in_type gps (after_amp to) = k.
  Proof. unfold after_amp, k. destruct to as [| | | | | | | | |[|b1 [|b2 r]]]; reflexivity. Qed.

  Lemma is_self_not_contained t : is_self_ty t = true -> contains_in_type gps t = false.
  Proof.
    intros H. apply is_self_ty_eq in H. subst t.
    cbn [self_ty_kw ident_ty path_ty map contains_in_type first_seg_hit negb andb existsb contains_in_seg orb].
    rewrite Hself. reflexivity.
  Qed.

  Lemma contains_expand_all :
    forall t, contains_in_type gps (expand_self_ty to t) = contains_in_type gps t || (mentions_self_ty t && k).
  Proof.
    apply (ty_ind2
             (fun t => contains_in_type gps (expand_self_ty to t) = contains_in_type gps t || (mentions_self_ty t && k))
             (fun s => contains_in_seg gps (expand_self_seg to s) = contains_in_seg gps s || (mentions_self_seg s && k))
             (fun a => forall n, contains_in_seg gps (expand_self_seg to (Seg n a))
                                 = contains_in_seg gps (Seg n a) || (mentions_self_seg (Seg n a) && k))
             (fun g => contains_in_garg gps (expand_self_garg to g) = contains_in_garg gps g || (mentions_self_garg g && k))
             (fun b => contains_in_tbound gps (expand_self_tbound to b)
                       = contains_in_tbound gps b || (mentions_self_tbound b && k))).
    - intros q lead segs Hq Hs. cbn [expand_self_ty].
      destruct (is_self_ty (TyPath q lead segs)) eqn:Es.
      + rewrite (is_self_not_contained _ Es), (is_self_mentions _ Es). fold k. destruct k; reflexivity.
      + cbn [contains_in_type mentions_self_ty]. rewrite Es, (existsb_map_or _ _ _ _ _ Hs).
        assert (first_seg_hit gps lead (map (expand_self_seg to) segs) = first_seg_hit gps lead segs) as ->.
        { unfold first_seg_hit. destruct segs as [|[n a] r]; [reflexivity|]. destruct a; reflexivity. }
        destruct q as [[qt j]|].
        * cbn [Pq fst] in Hq. rewrite Hq.
          destruct (contains_in_type gps qt), (mentions_self_ty qt), k, (first_seg_hit gps lead segs),
            (existsb (contains_in_seg gps) segs), (existsb mentions_self_seg segs); reflexivity.
        * destruct k, (first_seg_hit gps lead segs),
            (existsb (contains_in_seg gps) segs), (existsb mentions_self_seg segs); reflexivity.
    - intros lt mt t IH. cbn [expand_self_ty is_self_ty contains_in_type mentions_self_ty orb].
      destruct (is_self_ty t) eqn:Es; [|exact IH].
      rewrite after_amp_contains, (is_self_not_contained _ Es), (is_self_mentions _ Es). destruct k; reflexivity.
    - intros ts IH. cbn [expand_self_ty is_self_ty contains_in_type mentions_self_ty orb]. apply existsb_map_or, IH.
    - intros t len IH. cbn [expand_self_ty is_self_ty contains_in_type mentions_self_ty orb]. rewrite IH.
      destruct (contains_in_type gps t), (mentions_self_ty t), k, (cexpr_hit gps len); reflexivity.
    - intros t IH. cbn [expand_self_ty is_self_ty contains_in_type mentions_self_ty orb]. exact IH.
    - intros mt t IH. cbn [expand_self_ty is_self_ty contains_in_type mentions_self_ty orb].
      destruct (is_self_ty t) eqn:Es; [|exact IH].
      rewrite after_amp_contains, (is_self_not_contained _ Es), (is_self_mentions _ Es). destruct k; reflexivity.
    - intros args ret IHa IHr. cbn [expand_self_ty is_self_ty contains_in_type mentions_self_ty orb].
      rewrite (existsb_map_or _ _ _ _ _ IHa). destruct ret as [r|].
      + cbn [Popt] in IHr. rewrite IHr.
        destruct (existsb (contains_in_type gps) args), (existsb mentions_self_ty args), k,
          (contains_in_type gps r), (mentions_self_ty r); reflexivity.
      + destruct (existsb (contains_in_type gps) args), (existsb mentions_self_ty args), k; reflexivity.
    - reflexivity.
    - intros t IH. cbn [expand_self_ty is_self_ty contains_in_type mentions_self_ty orb]. exact IH.
    - intros bs IH. cbn [expand_self_ty is_self_ty contains_in_type mentions_self_ty orb]. apply existsb_map_or, IH.
    - intros n a IH. apply IH.
    - intros n. reflexivity.
    - intros l IH n. cbn [expand_self_seg contains_in_seg mentions_self_seg]. apply existsb_map_or, IH.
    - intros ins out IHi IHo n. cbn [expand_self_seg contains_in_seg mentions_self_seg].
      rewrite (existsb_map_or _ _ _ _ _ IHi). destruct out as [r|].
      + cbn [Popt] in IHo. rewrite IHo.
        destruct (existsb (contains_in_type gps) ins), (existsb mentions_self_ty ins), k,
          (contains_in_type gps r), (mentions_self_ty r); reflexivity.
      + destruct (existsb (contains_in_type gps) ins), (existsb mentions_self_ty ins), k; reflexivity.
    - intros t IH. exact IH.
    - reflexivity.
    - intros c. cbn [expand_self_garg contains_in_garg mentions_self_garg]. rewrite Bool.orb_false_r. reflexivity.
    - intros n t IH. exact IH.
    - intros m lead segs IH. cbn [expand_self_tbound contains_in_tbound mentions_self_tbound].
      rewrite (existsb_map_or _ _ _ _ _ IH).
      assert (first_seg_hit gps lead (map (expand_self_seg to) segs) = first_seg_hit gps lead segs) as ->.
      { unfold first_seg_hit. destruct segs as [|[n a] r]; [reflexivity|]. destruct a; reflexivity. }
      destruct (first_seg_hit gps lead segs), (existsb (contains_in_seg gps) segs), (existsb mentions_self_seg segs), k;
        reflexivity.
    - reflexivity.
  Qed.
End Commutes.

Theorem contains_in_type_expand_self gps to t :
  gps_contains gps "Self" = false ->
  contains_in_type gps (expand_self_ty to t)
  = contains_in_type gps t || (mentions_self_ty t && contains_in_type gps to).
Proof. intros H. apply contains_expand_all, H. Qed.

(** ** the type an item is applied to its own parameters mentions a parameter exactly when there is one *)
Lemma str_mem_In s l : In s l -> str_mem s l = true.
Proof.
  induction l as [|x r IH]; [intros []|]. cbn [str_mem]. intros [->|H].
  - rewrite String.eqb_refl. reflexivity.
  - rewrite (IH H). apply Bool.orb_true_r.
Qed.

Lemma in_lts_first p ps : In p ps -> In p (lts_first ps).
Proof.
  intros H. unfold lts_first. apply in_or_app. destruct (is_lt_param p) eqn:E.
  - left. apply filter_In. split; assumption.
  - right. apply filter_In. split; [assumption|]. rewrite E. reflexivity.
Qed.

Definition has_params (g : generics) : bool := match gps_new g with [] => false | _ => true end.

Theorem this_ty_mentions_params name g :
  contains_in_type (gps_new g) (this_ty_of name g) = has_params g.
Proof.
  unfold has_params. destruct (gps_new g) as [|x r] eqn:E.
  - apply contains_in_type_no_params.
  - rewrite <- E. apply contains_in_type_witness.
    assert (exists p, In p (g_params g) /\ is_lt_param p = false) as (p & Hp & Hl).
    { unfold gps_new in E. revert E. generalize (g_params g). intros l. induction l as [|q l IH]; [discriminate|].
      cbn [flat_map]. destruct q as [n bs|n bs d|n t d]; cbn [app]; intros E.
      - destruct (IH E) as (p' & Hp' & Hl'). exists p'. split; [now right | exact Hl'].
      - eexists. split; [now left | reflexivity].
      - eexists. split; [now left | reflexivity]. }
    assert (exists n, garg_of_param p = GTy (ident_ty n) /\ In (unraw n) (gps_new g)) as (n & Hn & Hin).
    { unfold gps_new. destruct p as [n bs|n bs d|n t d]; [discriminate Hl| |]; exists n; (split; [reflexivity|]);
        apply in_flat_map; eexists; (split; [exact Hp|]); now left. }
    exists n. split; [|unfold gps_contains; apply str_mem_In, Hin].
    unfold this_ty_of. destruct (g_params g) as [|p1 ps1] eqn:Eg1; [destruct Hp|]. rewrite <- Eg1 in *.
    cbn [heads_ty heads_path flat_map heads_seg app]. right. rewrite app_nil_r. apply in_flat_map.
    exists (garg_of_param p). split; [apply in_map, in_lts_first, Hp|]. rewrite Hn. cbn. now left.
Qed.

(** a field type with `Self` written out for the operator impls (fix 70dce36, [fields_for] in GenTop.v) *)
Theorem contains_in_type_expand_this name g t :
  gps_contains (gps_new g) "Self" = false ->
  contains_in_type (gps_new g) (expand_self_ty (this_ty_of name g) t)
  = contains_in_type (gps_new g) t || (mentions_self_ty t && has_params g).
Proof. intros H. rewrite (contains_in_type_expand_self _ _ _ H), this_ty_mentions_params. reflexivity. Qed.
