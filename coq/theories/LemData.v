(** * LemData: the bodies generated for Clone, operators, Debug, Default *)
From DX Require Import Syntax Tables GenBound GenAttrs IR GenType GenCmp GenImpl GenTop
     SpecAttrs SpecBound SemCmp SemData LemBound.

(** ** Clone *)
Lemma clone_struct_body s e fs ir :
  build_clone_for_struct s e fs = Ok [ir] ->
  ir_body ir = BCloneStruct (s_name s) (shape_of (s_fields s)) (map fld_of fs) /\
  ih_trait (ir_hdr ir) = KClone.
Proof.
  unfold build_clone_for_struct. cbv zeta. destruct (entry_push_bounds_to _ _) as [w ub].
  intros X; inversion X; subst. split; reflexivity.
Qed.

Lemma clone_enum_body en e vs ir :
  build_clone_for_enum en e vs = Ok [ir] ->
  ir_body ir = BCloneEnum (map variant_arm vs) /\ ih_trait (ir_hdr ir) = KClone.
Proof.
  unfold build_clone_for_enum. cbv zeta. destruct (entry_push_bounds_to _ _) as [w ub].
  intros X; inversion X; subst. split; reflexivity.
Qed.

(** ** operators *)
Lemma binary_op_bodies s op e fs :
  exists h1 h2 h3 h4,
    build_binary_op s op e fs =
    Ok [ {| ir_hdr := h1; ir_body := BBin op false false (s_name s) (shape_of (s_fields s)) (map fld_of fs) |};
         {| ir_hdr := h2; ir_body := BBin op false true (s_name s) (shape_of (s_fields s)) (map fld_of fs) |};
         {| ir_hdr := h3; ir_body := BBin op true false (s_name s) (shape_of (s_fields s)) (map fld_of fs) |};
         {| ir_hdr := h4; ir_body := BBin op true true (s_name s) (shape_of (s_fields s)) (map fld_of fs) |} ] /\
    (ih_self_ref h1, ih_rhs h1) = (false, Some false) /\ (ih_self_ref h2, ih_rhs h2) = (false, Some true) /\
    (ih_self_ref h3, ih_rhs h3) = (true, Some false) /\ (ih_self_ref h4, ih_rhs h4) = (true, Some true) /\
    Forall (fun h => ih_trait h = KBin op) [h1; h2; h3; h4].
Proof.
  unfold build_binary_op. cbv zeta. destruct (entry_push_bounds_to _ _) as [w ub].
  do 4 eexists. split; [reflexivity|]. repeat split; repeat constructor.
Qed.

Lemma assign_op_bodies s op e fs :
  exists h1 h2,
    build_assign_op s op e fs =
    Ok [ {| ir_hdr := h1; ir_body := BAssign op false (map fld_of fs) |};
         {| ir_hdr := h2; ir_body := BAssign op true (map fld_of fs) |} ] /\
    ih_rhs h1 = Some false /\ ih_rhs h2 = Some true /\ ih_self_ref h1 = false /\ ih_self_ref h2 = false /\
    Forall (fun h => ih_trait h = KAssign op) [h1; h2].
Proof.
  unfold build_assign_op. cbv zeta. destruct (entry_push_bounds_to _ _) as [w ub].
  do 2 eexists. split; [reflexivity|]. repeat split; repeat constructor.
Qed.

Lemma unary_op_bodies s op e fs :
  exists h1 h2,
    build_unary_op s op e fs =
    Ok [ {| ir_hdr := h1; ir_body := BUn op false (s_name s) (shape_of (s_fields s)) (map fld_of fs) |};
         {| ir_hdr := h2; ir_body := BUn op true (s_name s) (shape_of (s_fields s)) (map fld_of fs) |} ] /\
    ih_self_ref h1 = false /\ ih_self_ref h2 = true /\
    Forall (fun h => ih_trait h = KUn op) [h1; h2].
Proof.
  unfold build_unary_op. cbv zeta. destruct (entry_push_bounds_to _ _) as [w ub].
  do 2 eexists. split; [reflexivity|]. repeat split; repeat constructor.
Qed.

(** ** Debug *)
Definition transparent_fields (fs : list fentry) : list fentry :=
  filter (fun f => g_transparent (ha_debug (fe_hattrs f))) fs.

Definition debug_body_spec (name : string) (src : fields) (fs : list fentry) : debug_body :=
  match transparent_fields fs with
  | f :: _ => DbgTransparent (fld_of f)
  | [] => DbgFields name (shape_of src)
                    (map fld_of (filter (fun f => negb (g_ignore (ha_debug (fe_hattrs f)))) fs))
  end.

Lemma find_transparent_result fs found :
  find_transparent fs found =
  match found, transparent_fields fs with
  | None, [] => Ok None
  | None, [f] => Ok (Some f)
  | Some g, [] => Ok (Some g)
  | _, _ => Err transparent_msg
  end.
Proof.
  revert found. induction fs as [|f fs IH]; intros found; cbn [find_transparent transparent_fields filter].
  - destruct found; reflexivity.
  - destruct (g_transparent (ha_debug (fe_hattrs f))) eqn:Et.
    + destruct found as [g|]; [reflexivity|].
      rewrite IH. fold (transparent_fields fs). destruct (transparent_fields fs) as [|x [|y l]]; reflexivity.
    + apply IH.
Qed.

Lemma debug_expr_body name src fs ub w :
  match transparent_fields fs with
  | _ :: _ :: _ => build_debug_expr name src fs ub w = Err transparent_msg
  | _ => exists w', build_debug_expr name src fs ub w = Ok (debug_body_spec name src fs, w')
  end.
Proof.
  unfold build_debug_expr, debug_body_spec. rewrite find_transparent_result.
  destruct (transparent_fields fs) as [|x [|y l]]; cbn [bind].
  - eexists; reflexivity.
  - eexists; reflexivity.
  - reflexivity.
Qed.

Lemma debug_struct_body s e h fs :
  match transparent_fields fs with
  | _ :: _ :: _ => build_debug_for_struct s e h fs = Err transparent_msg
  | _ => exists ir, build_debug_for_struct s e h fs = Ok [ir] /\
                    ir_body ir = BDebugStruct (debug_body_spec (s_name s) (s_fields s) fs) (last_double_ref s fs)
  end.
Proof.
  unfold build_debug_for_struct. cbv zeta. destruct (entry_push_bounds_to_with _ _ _ _) as [w ub].
  pose proof (debug_expr_body (s_name s) (s_fields s) fs ub w) as H.
  destruct (transparent_fields fs) as [|x [|y l]].
  - destruct H as [w' ->]. cbn [bind]. eexists; split; reflexivity.
  - destruct H as [w' ->]. cbn [bind]. eexists; split; reflexivity.
  - rewrite H. reflexivity.
Qed.

Definition debug_arm_spec (v : ventry) : string * shape * list fld * debug_body :=
  (variant_arm v, debug_body_spec (v_name (ve_variant v)) (v_fields (ve_variant v)) (ve_fields v)).

Definition two_transparent (fs : list fentry) : bool :=
  match transparent_fields fs with _ :: _ :: _ => true | _ => false end.

Lemma debug_arms_body vs ub w :
  if existsb (fun v => two_transparent (ve_fields v)) vs
  then debug_arms vs ub w = Err transparent_msg
  else exists w', debug_arms vs ub w = Ok (map debug_arm_spec vs, w').
Proof.
  revert w. induction vs as [|v vs IH]; intros w; cbn [existsb debug_arms map].
  - eexists; reflexivity.
  - destruct (hattrs_push_bounds_to _ _ _ _) as [w0 ubv].
    pose proof (debug_expr_body (v_name (ve_variant v)) (v_fields (ve_variant v)) (ve_fields v) ubv w0) as H.
    unfold two_transparent at 1. destruct (transparent_fields (ve_fields v)) as [|x [|y l]] eqn:Et; cbn [orb].
    + destruct H as [w1 H]. rewrite H. cbn [bind]. specialize (IH w1).
      destruct (existsb _ vs).
      * rewrite IH. reflexivity.
      * destruct IH as [w2 ->]. cbn [bind]. eexists. unfold debug_arm_spec at 1. reflexivity.
    + destruct H as [w1 H]. rewrite H. cbn [bind]. specialize (IH w1).
      destruct (existsb _ vs).
      * rewrite IH. reflexivity.
      * destruct IH as [w2 ->]. cbn [bind]. eexists. unfold debug_arm_spec at 1. reflexivity.
    + rewrite H. reflexivity.
Qed.

Lemma debug_enum_body en e h vs :
  if existsb (fun v => two_transparent (ve_fields v)) vs
  then build_debug_for_enum en e h vs = Err transparent_msg
  else exists ir, build_debug_for_enum en e h vs = Ok [ir] /\ ir_body ir = BDebugEnum (map debug_arm_spec vs).
Proof.
  unfold build_debug_for_enum. cbv zeta. destruct (entry_push_bounds_to_with _ _ _ _) as [w ub].
  pose proof (debug_arms_body vs ub w) as H. destruct (existsb _ vs).
  - rewrite H. reflexivity.
  - destruct H as [w' ->]. cbn [bind]. eexists; split; reflexivity.
Qed.

(** ** Default *)
Definition default_value_spec (f : fentry) : dvalue :=
  match hattrs_default_value (fe_hattrs f) (fty f) with
  | Some v => v
  | None => DVDefault (fty f)
  end.

Lemma default_ctor_args_spec fs ub w :
  fst (build_default_ctor_args fs ub w) = map (fun f => (fe_member f, default_value_spec f)) fs.
Proof.
  revert w. induction fs as [|f fs IH]; intros w; cbn [build_default_ctor_args map]; [reflexivity|].
  destruct (hattrs_push_bounds_to _ _ _ _) as [w1 ubf].
  match goal with |- context [build_default_ctor_args fs ub ?w'] => specialize (IH w'); destruct (build_default_ctor_args fs ub w') as [args w2] end.
  cbn [fst] in *. rewrite IH. unfold default_value_spec, fty. destruct (hattrs_default_value _ _); reflexivity.
Qed.

Lemma default_struct_body s e h fs ir :
  build_default_for_struct s e h fs = Ok [ir] ->
  ir_body ir =
  match hattrs_default_value h self_ty_kw with
  | Some v => BDefaultSelf v
  | None => BDefaultCtor [s_name s] (shape_of (s_fields s)) (map (fun f => (fe_member f, default_value_spec f)) fs)
  end.
Proof.
  unfold build_default_for_struct. cbv zeta. destruct (entry_push_bounds_to_with _ _ _ _) as [w ub].
  destruct (hattrs_default_value h self_ty_kw).
  - intros X; inversion X; reflexivity.
  - pose proof (default_ctor_args_spec fs ub w) as H.
    destruct (build_default_ctor_args fs ub w) as [args w']. cbn [fst] in H. subst args.
    intros X; inversion X; reflexivity.
Qed.

Lemma default_enum_body en e h vs ir :
  build_default_for_enum en e h vs = Ok [ir] ->
  match hattrs_default_value h self_ty_kw with
  | Some v => ir_body ir = BDefaultSelf v
  | None => exists v, default_variant vs = Some v /\
                      ir_body ir = BDefaultCtor [e_name en; v_name (ve_variant v)]
                                     (shape_of (v_fields (ve_variant v)))
                                     (map (fun f => (fe_member f, default_value_spec f)) (ve_fields v))
  end.
Proof.
  unfold build_default_for_enum. cbv zeta. destruct (entry_push_bounds_to_with _ _ _ _) as [w ub].
  destruct (hattrs_default_value h self_ty_kw) as [dv|]; cbn [bind].
  - intros X; inversion X; reflexivity.
  - intros H. pose proof (marked_filter vs) as Hm. set (marked := flat_map _ vs) in *.
    destruct (match marked with [] => _ | _ => _ end) as [[v a]| |] eqn:Es; cbn [bind] in H; try discriminate H.
    assert (Hsel : default_variant vs = Some v).
    { unfold default_variant. rewrite <- Hm. destruct marked as [|[v1 a1] [|m2 ms]]; cbn [map fst].
      - destruct vs as [|v0 [|v1 vs']]; try discriminate. now inversion Es.
      - now inversion Es.
      - discriminate. }
    destruct (hattrs_push_bounds_to _ _ _ _) as [w0 ubv].
    destruct (d_value a); [discriminate H|].
    pose proof (default_ctor_args_spec (ve_fields v) ubv w0) as Ha.
    destruct (build_default_ctor_args (ve_fields v) ubv w0) as [args w']. cbn [fst] in Ha. subst args.
    cbn [bind] in H. inversion H; subst. exists v. split; [exact Hsel | reflexivity].
Qed.

(** which enums are refused: none or several default variants, or a value on the marker *)
Lemma default_enum_refused en e h vs :
  hattrs_default_value h self_ty_kw = None ->
  default_variant vs = None ->
  exists m, build_default_for_enum en e h vs = Err m.
Proof.
  intros Hv Hd. unfold build_default_for_enum. cbv zeta. destruct (entry_push_bounds_to_with _ _ _ _) as [w ub].
  rewrite Hv. pose proof (marked_filter vs) as Hm. set (marked := flat_map _ vs) in *.
  unfold default_variant in Hd. rewrite <- Hm in Hd.
  destruct marked as [|[v1 a1] [|m2 ms]]; cbn [map fst] in Hd.
  - destruct vs as [|v0 [|v1 vs']]; try discriminate Hd; eexists; reflexivity.
  - discriminate Hd.
  - eexists; reflexivity.
Qed.
