(** * LemReject: which comparison-attribute combinations are refused (C05), Eq obligations (C17) *)
From DX Require Import Syntax Tables GenBound GenAttrs IR GenType GenCmp GenImpl GenTop
     SpecAttrs SpecBound SemCmp SpecCmp LemBound LemCmp LemNoPanic.

Definition is_ok {A} (r : result A) : bool := match r with Ok _ => true | _ => false end.

Lemma is_ignore_ok c op :
  is_ok (is_ignore c op) = cmp_ignored op c || negb (ignore_split op c).
Proof.
  unfold is_ignore, cmp_ignored, ignore_split, all_cmp, bad_flag.
  destruct op; cbn [existsb affects cmp_get andb orb];
    destruct (c_ignore (h_ord c)), (c_ignore (h_partial_ord c)), (c_ignore (h_eq c)),
      (c_ignore (h_partial_eq c)), (c_ignore (h_hash c)); reflexivity.
Qed.

Lemma bad_attr_custom c : is_some (cmp_bad_attr c) = has_custom c.
Proof.
  unfold cmp_bad_attr, has_custom, cmp_variants, attr_bad. cbn [existsb].
  repeat match goal with
         | |- context [c_key ?x] => destruct (c_key x); cbn [is_some orb]
         | |- context [c_by ?x] => destruct (c_by x); cbn [is_some orb]
         end; reflexivity.
Qed.

Lemma sel_none_own op c :
  (match sel_of_steps c (steps op) with SelNone => true | _ => false end) = is_own (selected op c).
Proof.
  pose proof (sel_steps_selected op c TyNever) as H.
  destruct (sel_of_steps c (steps op)), (selected op c); cbn in *; congruence.
Qed.

Lemma build_expr_ok op f st :
  is_ok (build_expr op f st)
  = negb (is_own (selected op (ha_cmp (fe_hattrs f))) && has_custom (ha_cmp (fe_hattrs f))).
Proof.
  unfold build_expr. pose proof (chain_sel (ha_cmp (fe_hattrs f)) (steps op) st) as Hs.
  destruct (chain (ha_cmp (fe_hattrs f)) (steps op) st) as [s st1]. cbn [fst] in Hs.
  rewrite <- sel_none_own, <- Hs, <- bad_attr_custom.
  destruct s; cbn [is_ok negb andb is_some]; try reflexivity.
  destruct (cmp_bad_attr (ha_cmp (fe_hattrs f))); reflexivity.
Qed.

Lemma is_reverse_ok c op :
  (op = COrd \/ op = CPartialOrd) ->
  is_ok (is_reverse c op) = negb (cmpop_eqb op COrd && c_reverse (h_partial_ord c)).
Proof. intros [->| ->]; unfold is_reverse; cbn; [destruct (c_reverse (h_partial_ord c))|]; reflexivity. Qed.

Definition field_ok (op : cmpop) (f : fentry) : bool := negb (field_rejected op (ha_cmp (fe_hattrs f))).

Lemma negb_true_false b : true = negb b -> b = false.
Proof. destruct b; [discriminate | reflexivity]. Qed.
Lemma negb_false_true b : false = negb b -> b = true.
Proof. destruct b; [reflexivity | discriminate]. Qed.

Lemma from_fields_ok op fs ub w :
  is_ok (build_from_fields op fs ub w) = forallb (field_ok op) fs.
Proof.
  revert w. induction fs as [|f fs IH]; intros w; cbn [build_from_fields forallb]; [reflexivity|].
  unfold field_ok at 1, field_rejected.
  pose proof (is_ignore_ok (ha_cmp (fe_hattrs f)) op) as Hi.
  destruct (is_ignore (ha_cmp (fe_hattrs f)) op) as [ign| |] eqn:Ei; cbn [bind is_ok] in *.
  - apply is_ignore_spec in Ei. rewrite <- Ei in *. destruct ign; cbn [negb andb].
    + apply IH.
    + cbn [orb] in Hi. apply negb_true_false in Hi. rewrite Hi.
      pose proof (build_expr_ok op f (w, ub)) as He.
      destruct (build_expr op f (w, ub)) as [[[e used] [w1 ubf]]| |]; cbn [bind is_ok] in *.
      * apply negb_true_false in He. rewrite He. cbn [orb].
        assert (Hr : is_ok (match op with COrd | CPartialOrd => is_reverse (ha_cmp (fe_hattrs f)) op | _ => Ok false end)
                     = negb (cmpop_eqb op COrd && c_reverse (h_partial_ord (ha_cmp (fe_hattrs f))))).
        { destruct op; try reflexivity; apply is_reverse_ok; auto. }
        destruct (match op with COrd | CPartialOrd => _ | _ => _ end) as [rev| |]; cbn [bind is_ok] in *.
        -- apply negb_true_false in Hr. rewrite Hr. cbn [negb andb].
           destruct (hattrs_push_bounds_to_without_helper _ _ _ _) as [w2 ubf2].
           rewrite <- IH with (w := if ubf2 && used then push_bounds_for_field w2 (f_ty (fe_field f)) else w2).
           destruct (build_from_fields op fs ub _) as [[r w3]| |]; reflexivity.
        -- apply negb_false_true in Hr. rewrite Hr. reflexivity.
        -- apply negb_false_true in Hr. rewrite Hr. reflexivity.
      * apply negb_false_true in He. rewrite He. reflexivity.
      * apply negb_false_true in He. rewrite He. reflexivity.
  - destruct (cmp_ignored op (ha_cmp (fe_hattrs f))); cbn [orb] in Hi; [discriminate|].
    apply negb_false_true in Hi. rewrite Hi. cbn [negb andb orb]. now rewrite orb_true_r.
  - exfalso. pose proof (np_is_ignore (ha_cmp (fe_hattrs f)) op) as N. rewrite Ei in N. exact N.
Qed.

(** misplaced arguments on types / variants *)
Lemma verify_ok t c :
  t <> TField -> is_ok (verify t c) = negb (misplaced c).
Proof.
  intros Ht. unfold verify, misplaced, attr_misplaced, verify_one. cbn [existsb cmp_get].
  destruct t; try congruence;
    repeat match goal with
           | |- context [c_by ?x] => destruct (c_by x); cbn
           | |- context [c_key ?x] => destruct (c_key x); cbn
           | |- context [c_reverse ?x] => destruct (c_reverse x); cbn
           | |- context [c_ignore ?x] => destruct (c_ignore x); cbn
           end; reflexivity.
Qed.

(** ** Eq: the obligations created by the hidden checker *)
Definition check_component (x : fld * eq_check) : list eq_component :=
  match snd x with
  | QNone => []
  | QField => [EqField (fst x)]
  | QKey k => [EqKey (fst x) k]
  end.

Lemma eq_checks_components fs :
  flat_map check_component (eq_checks (map (spec_cmp_field CEq) (cmp_used_fields CEq fs)))
  = eq_components fs.
Proof.
  unfold eq_components, eq_checks. rewrite map_map, !flat_map_concat_map, map_map. f_equal.
  apply map_ext. intros f. unfold check_component, spec_cmp_field. cbn [sel_for]. cbn [sel_for fst snd cf_fld cf_expr].
  cbn [sel_for]. destruct (eq_selected (ha_cmp (fe_hattrs f))); reflexivity.
Qed.

(** ** Eq: on an accepted field the assertion is about exactly what `==` compares *)
Lemma eq_selected_is_partial_eq_selection c :
  negb (is_own (selected CEq c) && has_custom c) = true ->
  eq_selected c = selected CPartialEq c.
Proof.
  unfold eq_selected, has_custom, selected, attr_selection, specific_first, cmp_variants.
  cbn [filter affects flat_map by_counts cmpop_eqb cmp_get app existsb];
    repeat match goal with
           | |- context [c_by ?x] => destruct (c_by x); cbn
           | |- context [c_key ?x] => destruct (c_key x); cbn
           end; try reflexivity; intros H; discriminate H.
Qed.
