(** * SemCmp: meaning of the generated comparison / hash bodies

    Total evaluators over the IR, parameterised by a [Section] environment standing for everything
    user-defined (the field types' own impls, the key expressions, the `by` functions).  No law is
    assumed of the environment here.  `match` is first-match over the arms as emitted. *)
From DX Require Import Syntax Tables GenBound GenAttrs IR.

(** a value of the derived type: its variant (by name; "" for a struct) and a value per field index *)
Record value (V : Type) := { v_variant : string; v_field : nat -> V }.
Arguments v_variant {V}. Arguments v_field {V}.

(** one call of `Hash::hash(x, state)` as seen by the hasher *)
Inductive feed_event (V : Type) :=
| FeedField (t : ty) (x : V)          (* ::core::hash::Hash::hash(&(field), state) *)
| FeedKey (k : toks) (x : V)          (* ::core::hash::Hash::hash(&(key[field]), state) *)
| FeedBy (b : toks) (x : V).          (* by(&field, state) *)
Arguments FeedField {V}. Arguments FeedKey {V}. Arguments FeedBy {V}.

Section Env.
  Variable V : Type.
  (** the field types' own impls *)
  Variable d_eq : ty -> V -> V -> bool.
  Variable d_pcmp : ty -> V -> V -> option comparison.
  Variable d_cmp : ty -> V -> V -> comparison.
  (** `Trait::method(&(key[a]), &(key[b]))` for a key template *)
  Variable k_eq : toks -> V -> V -> bool.
  Variable k_pcmp : toks -> V -> V -> option comparison.
  Variable k_cmp : toks -> V -> V -> comparison.
  (** the user's `by` functions, at the signature of the attribute they were written on *)
  Variable by_eq : toks -> V -> V -> bool.
  Variable by_pcmp : toks -> V -> V -> option comparison.
  Variable by_cmp : toks -> V -> V -> comparison.

  Definition is_eq (c : comparison) : bool := match c with Eq => true | _ => false end.
  Definition is_some_eq (o : option comparison) : bool :=
    match o with Some Eq => true | _ => false end.

  Definition fget (a : value V) (c : cmp_field) : V := v_field a (fl_index (cf_fld c)).

  (** the expression built by `build_partial_eq_expr` *)
  Definition field_eq (c : cmp_field) (a b : value V) : bool :=
    let x := fget a c in let y := fget b c in
    match cf_expr c with
    | CEDefault t => d_eq t x y
    | CEKey k => k_eq k x y
    | CEBy CPartialOrd f => is_some_eq (by_pcmp f x y)     (* partial_cmp(..) == Some(Equal) *)
    | CEBy COrd f => is_eq (by_cmp f x y)                  (* cmp(..) == Equal *)
    | CEBy _ f => by_eq f x y
    end.

  (** `build_partial_ord_expr`, with `Option::map(_, Ordering::reverse)` *)
  Definition field_pcmp (c : cmp_field) (a b : value V) : option comparison :=
    let x := fget a c in let y := fget b c in
    let r := match cf_expr c with
             | CEDefault t => d_pcmp t x y
             | CEKey k => k_pcmp k x y
             | CEBy COrd f => Some (by_cmp f x y)
             | CEBy _ f => by_pcmp f x y
             end in
    if cf_reverse c then option_map CompOpp r else r.

  (** `build_ord_expr`, with `Ordering::reverse(_)` *)
  Definition field_cmp (c : cmp_field) (a b : value V) : comparison :=
    let x := fget a c in let y := fget b c in
    let r := match cf_expr c with
             | CEDefault t => d_cmp t x y
             | CEKey k => k_cmp k x y
             | CEBy _ f => by_cmp f x y
             end in
    if cf_reverse c then CompOpp r else r.

  (** `e1 && e2 && ..` (or `true`) *)
  Definition fields_eq (cs : list cmp_field) (a b : value V) : bool :=
    forallb (fun c => field_eq c a b) cs.

  (** `match e { Some(Equal) => {} o => return o }` ... `Some(Equal)` *)
  Fixpoint fields_pcmp (cs : list cmp_field) (a b : value V) : option comparison :=
    match cs with
    | [] => Some Eq
    | c :: rest =>
        match field_pcmp c a b with
        | Some Eq => fields_pcmp rest a b
        | o => o
        end
    end.

  Fixpoint fields_cmp (cs : list cmp_field) (a b : value V) : comparison :=
    match cs with
    | [] => Eq
    | c :: rest =>
        match field_cmp c a b with
        | Eq => fields_cmp rest a b
        | o => o
        end
    end.

  (** arms `(Self::V{..}, Self::V{..}) => {..}`: the first arm whose pattern matches both *)
  Definition arm := (string * shape * list fld * list cmp_field)%type.
  Definition arm_name (x : arm) : string := fst (fst (fst x)).

  Definition find_arm (vs : list arm) (a b : value V) : option arm :=
    find (fun x => String.eqb (arm_name x) (v_variant a) && String.eqb (arm_name x) (v_variant b)) vs.

  (** the `to_index` closure: position of the first arm matching the value *)
  Fixpoint to_index (vs : list arm) (name : string) (i : nat) : option nat :=
    match vs with
    | [] => None                          (* `_ => unreachable!()` *)
    | x :: rest => if String.eqb (arm_name x) name then Some i else to_index rest name (S i)
    end.

  (** `fn eq` *)
  Definition eval_eq (b : body) (x y : value V) : option bool :=
    match b with
    | BPartialEqStruct cs => Some (fields_eq cs x y)
    | BPartialEqEnum vs =>
        Some match find_arm vs x y with
             | Some arm => fields_eq (snd arm) x y
             | None => false                                   (* `_ => false` *)
             end
    | _ => None
    end.

  (** `fn partial_cmp`; None = the `unreachable!()` of `to_index` (ill-formed value) *)
  Definition eval_pcmp (b : body) (x y : value V) : option (option comparison) :=
    match b with
    | BPartialOrdStruct cs => Some (fields_pcmp cs x y)
    | BPartialOrdEnum vs =>
        match find_arm vs x y with
        | Some arm => Some (fields_pcmp (snd arm) x y)
        | None =>
            match to_index vs (v_variant x) 0, to_index vs (v_variant y) 0 with
            | Some i, Some j => Some (Some (Nat.compare i j))
            | _, _ => None
            end
        end
    | _ => None
    end.

  (** `fn cmp` *)
  Definition eval_cmp (b : body) (x y : value V) : option comparison :=
    match b with
    | BOrdStruct cs => Some (fields_cmp cs x y)
    | BOrdEnum vs =>
        match find_arm vs x y with
        | Some arm => Some (fields_cmp (snd arm) x y)
        | None =>
            match to_index vs (v_variant x) 0, to_index vs (v_variant y) 0 with
            | Some i, Some j => Some (Nat.compare i j)
            | _, _ => None
            end
        end
    | _ => None
    end.

  (** `fn hash`: the sequence of `hash` calls, in order *)
  Definition field_feed (c : cmp_field) (a : value V) : feed_event V :=
    let x := fget a c in
    match cf_expr c with
    | CEDefault t => FeedField t x
    | CEKey k => FeedKey k x
    | CEBy _ f => FeedBy f x
    end.

  Definition eval_hash (b : body) (x : value V) : option (list (feed_event V)) :=
    match b with
    | BHashStruct cs => Some (map (fun c => field_feed c x) cs)
    | BHashEnum vs =>
        match find (fun a => String.eqb (arm_name a) (v_variant x)) vs with
        | Some arm => Some (map (fun c => field_feed c x) (snd arm))
        | None => None                      (* `_ => unreachable!()` *)
        end
    | _ => None
    end.
End Env.
