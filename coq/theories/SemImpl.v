(** * SemImpl: meaning of the operator impls derived from a user-written `impl` *)
From DX Require Import Syntax Tables GenBound GenAttrs IR.

(** how an operand reaches the user's impl *)
Inductive passing :=
| PAsIs          (* the operand itself (a value moved, or the reference received) *)
| PBorrow        (* `&operand`: received by value, the user's impl wants a reference *)
| PClone.        (* `<T as Clone>::clone(operand)`: received by reference, needed by value *)

(** `change_owned(expr, ty, input_ref, output_ref)` *)
Definition passing_of (input_ref output_ref : bool) : passing :=
  match input_ref, output_ref with
  | true, false => PClone
  | false, true => PBorrow
  | _, _ => PAsIs
  end.

(** one generated impl: which form it implements, which form of the user's operator it calls
    (exactly once), and how each operand is passed *)
Record forward := {
  fw_impl_l : bool; fw_impl_r : bool;       (* implemented for [&]this with [&]rhs *)
  fw_call_l : bool; fw_call_r : bool;       (* calls <[&]this as Op<[&]rhs>>::op *)
  fw_left : passing; fw_right : passing }.

Inductive op_meaning :=
| MForward (f : forward)
    (* fn op(self, rhs) -> Output { <L as Op<R>>::op(left, right) } *)
| MAssignFromOp (call_l : bool) (left : passing)
    (* fn op_assign(&mut self, rhs) { *self = <[&]this as Op<rhs>>::op(left(self), rhs) } *)
| MOpFromAssign.
    (* fn op(mut self, rhs) -> Self { <this as OpAssign<rhs>>::op_assign(&mut self, rhs); self } *)

Definition meaning (o : op_ir) : op_meaning :=
  match o with
  | OpBin _ _ _ _ _ il ir cl cr =>
      MForward {| fw_impl_l := il; fw_impl_r := ir; fw_call_l := cl; fw_call_r := cr;
                  fw_left := passing_of il cl; fw_right := passing_of ir cr |}
  | OpAssignFromBin _ _ _ _ cl => MAssignFromOp cl (passing_of true cl)
  | OpBinFromAssign _ _ _ _ => MOpFromAssign
  end.
