(** * LemNoPanic: the modelled generator never reaches an `unreachable!()` / `unwrap()` site (C16) *)
From DX Require Import Syntax Tables GenBound GenAttrs IR GenType GenCmp GenImpl GenTop.

Definition np {A} (r : result A) : Prop := match r with Panic _ => False | _ => True end.

Lemma np_bind {A B} (r : result A) (f : A -> result B) :
  np r -> (forall a, r = Ok a -> np (f a)) -> np (bind r f).
Proof. destruct r; cbn; auto. Qed.

Lemma np_mapM {A B} (f : A -> result B) l : (forall a, In a l -> np (f a)) -> np (mapM f l).
Proof.
  induction l as [|a l IH]; intros H; cbn; [exact I|].
  apply np_bind; [apply H; now left|]. intros b _.
  apply np_bind; [apply IH; intros x Hx; apply H; now right|]. intros; exact I.
Qed.

Ltac np_step :=
  match goal with
  | |- np (bind _ _) => apply np_bind; [|intros ? ?]
  | |- np (Ok _) => exact I
  | |- np (Err _) => exact I
  | |- np (if ?c then _ else _) => destruct c
  | |- np (match ?x with _ => _ end) => destruct x
  | |- np (let '(_, _) := ?x in _) => destruct x
  end.
Ltac np_auto := repeat np_step; try exact I; auto.

Lemma np_entries_of_args a : np (entries_of_args a).
Proof.
  unfold entries_of_args. apply np_mapM. intros [n ia] _. destruct (kind_from_str n); [|exact I].
  destruct ia; exact I.
Qed.
Lemma np_from_args_list l : np (from_args_list l).
Proof. induction l as [|a l IH]; cbn; np_auto. apply np_entries_of_args. Qed.
Lemma np_from_root arg attrs : np (from_root arg attrs).
Proof. apply np_from_args_list. Qed.

Lemma np_parse_single_go {A} name (d : A) metas item : np (parse_single_go name d metas item).
Proof. revert item. induction metas as [|m ms IH]; intros item; cbn; np_auto. Qed.

Lemma np_default_from_attrs attrs : np (default_from_attrs attrs).
Proof. unfold default_from_attrs, parse_single. np_auto. apply np_parse_single_go. Qed.
Lemma np_debug_from_attrs attrs : np (debug_from_attrs attrs).
Proof. unfold debug_from_attrs, parse_single. np_auto. apply np_parse_single_go. Qed.
Lemma np_cmp_from_attrs attrs op : np (cmp_from_attrs attrs op).
Proof. unfold cmp_from_attrs, parse_single. np_auto. apply np_parse_single_go. Qed.
Lemma np_cmp_attrs_from_attrs attrs k : np (cmp_attrs_from_attrs attrs k).
Proof. unfold cmp_attrs_from_attrs. np_auto; apply np_cmp_from_attrs. Qed.
Lemma np_verify_one t a : np (verify_one t a).
Proof. unfold verify_one. np_auto. Qed.
Lemma np_verify t c : np (verify t c).
Proof. unfold verify. np_auto; apply np_verify_one. Qed.

Lemma np_hattrs_from_attrs attrs t k : np (hattrs_from_attrs attrs t k).
Proof.
  unfold hattrs_from_attrs. np_auto;
    first [apply np_from_args_list | apply np_default_from_attrs | apply np_debug_from_attrs
          | apply np_cmp_attrs_from_attrs | apply np_verify].
Qed.

Lemma np_fentries_go fs i k : np (fentries_go fs i k).
Proof. revert i. induction fs as [|f fs IH]; intros i; cbn; np_auto. apply np_hattrs_from_attrs. Qed.
Lemma np_fentries fs k : np (fentries_from_fields fs k).
Proof. apply np_fentries_go. Qed.
Lemma np_ventries vs k : np (ventries_from_variants vs k).
Proof.
  unfold ventries_from_variants. apply np_mapM. intros v _. unfold ventry_new. np_auto.
  - apply np_fentries.
  - apply np_hattrs_from_attrs.
Qed.

(** builders *)
Lemma np_find_transparent fs found : np (find_transparent fs found).
Proof. revert found. induction fs as [|f fs IH]; intros found; cbn; np_auto. Qed.
Lemma np_build_debug_expr n src fs ub w : np (build_debug_expr n src fs ub w).
Proof. unfold build_debug_expr. np_auto. apply np_find_transparent. Qed.
Lemma np_debug_arms vs ub w : np (debug_arms vs ub w).
Proof. revert w. induction vs as [|v vs IH]; intros w; cbn; np_auto. apply np_build_debug_expr. Qed.

Lemma np_bad_flag c op b g : np (bad_flag c op b g).
Proof. unfold bad_flag. np_auto. Qed.
Lemma np_is_ignore c op : np (is_ignore c op).
Proof. unfold is_ignore. destruct op; np_auto; apply np_bad_flag. Qed.
Lemma np_build_expr op f st : np (build_expr op f st).
Proof. unfold build_expr. np_auto. Qed.

Lemma np_build_from_fields op fs ub w : np (build_from_fields op fs ub w).
Proof.
  revert w. induction fs as [|f fs IH]; intros w; cbn; [exact I|].
  apply np_bind; [apply np_is_ignore|]. intros ign _. destruct ign; [apply IH|].
  apply np_bind; [apply np_build_expr|]. intros [[e used] [w' ubf]] _.
  apply np_bind.
  - destruct op; cbn; try exact I; unfold is_reverse; np_auto.
  - intros rev _. np_auto.
Qed.
Lemma np_build_from_variants op vs ub w : np (build_from_variants op vs ub w).
Proof.
  revert w. induction vs as [|v vs IH]; intros w; cbn; np_auto. apply np_build_from_fields.
Qed.
Lemma np_build_compare_op op src e h : np (build_compare_op op src e h).
Proof.
  unfold build_compare_op. np_auto; first [apply np_build_from_fields | apply np_build_from_variants].
Qed.

Lemma np_build_struct_entry s h fs e : np (build_struct_entry s h fs e).
Proof.
  unfold build_struct_entry. destruct (en_kind e) eqn:Ek.
  - unfold build_binary_op. exact I.
  - unfold build_assign_op. exact I.
  - unfold build_unary_op. exact I.
  - apply np_build_compare_op.
  - unfold build_copy_for_struct. cbv zeta. np_auto.
  - unfold build_clone_for_struct. cbv zeta. np_auto.
  - unfold build_debug_for_struct. cbv zeta. np_auto. apply np_build_debug_expr.
  - unfold build_default_for_struct. cbv zeta. np_auto.
  - unfold build_deref_for_struct. rewrite Ek. cbv zeta. np_auto.
  - unfold build_deref_for_struct. rewrite Ek. cbv zeta. np_auto.
Qed.

Lemma np_build_enum_entries en h vs es : np (build_enum_entries en h vs es).
Proof. induction es as [|e es IH]; cbn; np_auto. Qed.

Lemma np_op_from_ident s : np (op_from_ident s).
Proof. unfold op_from_ident. np_auto. Qed.
Lemma np_scan_items o l mb ma : np (scan_items o l mb ma).
Proof. revert mb ma. induction l as [|x l IH]; intros mb ma; cbn; np_auto. apply np_op_from_ident. Qed.
Lemma np_find_output_type l : np (find_output_type l).
Proof. induction l as [|x l IH]; cbn; np_auto. Qed.

Lemma np_build_by_item_impl a i : np (build_by_item_impl a i).
Proof.
  unfold build_by_item_impl. np_auto;
    first [apply np_op_from_ident | apply np_scan_items | apply np_find_output_type].
Qed.

(** no outcome of any expansion is a panic *)
Definition not_panic (o : outcome) : Prop := match o with OPanic _ => False | _ => True end.

Lemma apply_dump_np e r : np r -> not_panic (apply_dump e r).
Proof. destruct r; cbn; auto. intros _. destruct (en_dump e); exact I. Qed.

Lemma of_result_np it r :
  np r -> (forall os, r = Ok os -> Forall not_panic os) -> Forall not_panic (x_entries (of_result it r)).
Proof. destruct r; cbn; intros H1 H2; auto; try contradiction. Qed.

Lemma struct_core_np arg s :
  np (snd (build_by_item_struct_core arg s)) /\
  forall os, snd (build_by_item_struct_core arg s) = Ok os -> Forall not_panic os.
Proof.
  unfold build_by_item_struct_core. pose proof (np_from_root arg (s_attrs s)) as Hr.
  destruct (from_root arg (s_attrs s)) as [es| |]; cbn [snd]; try contradiction.
  - split.
    + np_auto; [apply np_hattrs_from_attrs | apply np_fentries].
    + intros os H.
      destruct (hattrs_from_attrs _ _ _) as [h| |]; cbn in H; try discriminate.
      destruct (fentries_from_fields _ _) as [fs| |]; cbn in H; try discriminate.
      inversion H; subst. apply Forall_forall. intros o Ho. apply in_map_iff in Ho as (e & <- & _).
      apply apply_dump_np, np_build_struct_entry.
  - split; [exact I | discriminate].
Qed.

Lemma build_enum_entries_outcomes en h vs es os :
  build_enum_entries en h vs es = Ok os -> Forall not_panic os.
Proof.
  revert os. induction es as [|e es IH]; cbn; intros os H; [inversion H; constructor|].
  destruct (en_kind e) eqn:Ek; cbn in H; try discriminate;
    (destruct (build_enum_entries en h vs es) as [rs| |]; cbn in H; try discriminate;
     inversion H; subst; constructor; [apply apply_dump_np | now apply IH]).
  - apply np_build_compare_op.
  - unfold build_copy_for_enum. cbv zeta. np_auto.
  - unfold build_clone_for_enum. cbv zeta. np_auto.
  - unfold build_debug_for_enum. cbv zeta. np_auto. apply np_debug_arms.
  - unfold build_default_for_enum. cbv zeta. np_auto.
Qed.

Lemma enum_core_np arg en :
  np (snd (build_by_item_enum_core arg en)) /\
  forall os, snd (build_by_item_enum_core arg en) = Ok os -> Forall not_panic os.
Proof.
  unfold build_by_item_enum_core. pose proof (np_from_root arg (e_attrs en)) as Hr.
  destruct (from_root arg (e_attrs en)) as [es| |]; cbn [snd]; try contradiction.
  - split.
    + np_auto; [apply np_hattrs_from_attrs | apply np_ventries | apply np_build_enum_entries].
    + intros os H.
      destruct (hattrs_from_attrs _ _ _) as [h| |]; cbn in H; try discriminate.
      destruct (ventries_from_variants _ _) as [vs| |]; cbn in H; try discriminate.
      eapply build_enum_entries_outcomes; eassumption.
  - split; [exact I | discriminate].
Qed.

Definition okp (r : result outcome) : Prop := match r with Ok (OPanic _) => False | _ => True end.
Lemma okp_bind {A} (r : result A) f : (forall a, okp (f a)) -> okp (bind r f).
Proof. destruct r; cbn; auto. Qed.

Lemma okp_build_by_item_impl a i : okp (build_by_item_impl a i).
Proof.
  unfold build_by_item_impl.
  repeat first
    [ apply okp_bind; intros ?
    | match goal with
      | |- okp (if ?c then _ else _) => destruct c
      | |- okp (let '(_, _) := ?x in _) => destruct x
      | |- okp (match ?x with _ => _ end) => destruct x
      | |- okp (Err _) => exact I
      | |- okp (Ok _) => cbn; try exact I
      end ].
  destruct (dx_dump a); exact I.
Qed.

Theorem expand_no_panic inv : Forall not_panic (x_entries (expand inv)).
Proof.
  unfold expand. destruct (inv_mode inv), (inv_item inv) as [s|e|i|t]; try (cbn; constructor).
  - destruct (struct_core_np (Some (inv_args inv)) s) as [H1 H2].
    destruct (build_by_item_struct_core (Some (inv_args inv)) s) as [k r]. cbn [snd] in *.
    now apply of_result_np.
  - destruct (enum_core_np (Some (inv_args inv)) e) as [H1 H2].
    destruct (build_by_item_enum_core (Some (inv_args inv)) e) as [k r]. cbn [snd] in *.
    now apply of_result_np.
  - apply of_result_np.
    + np_auto. apply np_build_by_item_impl.
    + intros os H. pose proof (okp_build_by_item_impl (inv_args inv) i) as Hn.
      destruct (build_by_item_impl (inv_args inv) i) as [o| |] eqn:Eo; cbn in H; try discriminate.
      inversion H; subst. constructor; [|constructor]. destruct o; try exact I. exact Hn.
  - destruct (struct_core_np None s) as [H1 H2]. now apply of_result_np.
  - destruct (enum_core_np None e) as [H1 H2]. now apply of_result_np.
Qed.
