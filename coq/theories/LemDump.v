(** * LemDump: `dump` only wraps what would have been generated *)
From DX Require Import Syntax Tables Render GenBound GenAttrs IR GenType GenCmp GenImpl GenTop RenderOut LemTop.

Definition set_dump (e : entry) (b : bool) : entry :=
  {| en_kind := en_kind e; en_dump := b; en_this := en_this e; en_common := en_common e |}.

(** what `dump` does to an outcome *)
Definition dumped (o : outcome) : outcome :=
  match o with OOk gs => ODump gs | o => o end.

Lemma entry_push_set_dump e b w : entry_push_bounds_to (set_dump e b) w = entry_push_bounds_to e w.
Proof. reflexivity. Qed.

Lemma build_struct_entry_set_dump s h fs e b :
  build_struct_entry s h fs (set_dump e b) = build_struct_entry s h fs e.
Proof. unfold build_struct_entry. cbn [en_kind set_dump]. destruct (en_kind e); reflexivity. Qed.

Lemma struct_outcome_dump s h fs e :
  struct_outcome s h fs (set_dump e true) = dumped (struct_outcome s h fs (set_dump e false)).
Proof.
  unfold struct_outcome. rewrite !build_struct_entry_set_dump. unfold apply_dump. cbn [en_dump en_kind set_dump].
  destruct (build_struct_entry s h _ e); reflexivity.
Qed.

Lemma struct_outcome_nodump s h fs e :
  en_dump e = false -> struct_outcome s h fs e = struct_outcome s h fs (set_dump e false).
Proof.
  intros H. unfold struct_outcome. rewrite build_struct_entry_set_dump. unfold apply_dump. cbn [en_kind set_dump].
  cbn [en_dump set_dump]. now rewrite H.
Qed.

(** the parsing context of all entries does not depend on any dump flag *)
Lemma kinds_add_set_dump k e b : kinds_add k (set_dump e b) = kinds_add k e.
Proof. reflexivity. Qed.

Lemma kinds_extend_set_dump es k (f : entry -> bool) :
  kinds_extend k (map (fun e => set_dump e (f e)) es) = kinds_extend k es.
Proof.
  revert k. induction es as [|e es IH]; intros k; cbn; [reflexivity|].
  unfold kinds_extend in *. cbn. rewrite kinds_add_set_dump. apply IH.
Qed.

(** enum: per entry, the same *)
Definition enum_entry (en : item_enum) (h : hattrs) (vs : list ventry) (e : entry)
  : result (result (list impl_ir)) :=
  match en_kind e with
  | KCmp op => Ok (build_compare_op op (SrcEnum en vs) e h)
  | KCopy => Ok (build_copy_for_enum en e vs)
  | KClone => Ok (build_clone_for_enum en e vs)
  | KDebug => Ok (build_debug_for_enum en e h vs)
  | KDefault => Ok (build_default_for_enum en e h vs)
  | k => Err (unsupported_for_enum_msg k)
  end.

Lemma enum_entry_set_dump en h vs e b : enum_entry en h vs (set_dump e b) = enum_entry en h vs e.
Proof. unfold enum_entry. cbn [en_kind set_dump]. destruct (en_kind e); reflexivity. Qed.

Lemma build_enum_entries_eq en h vs es :
  build_enum_entries en h vs es
  = mapM (fun e => do r <- enum_entry en h vs e; Ok (apply_dump e r)) es.
Proof.
  induction es as [|e es IH]; cbn; [reflexivity|]. rewrite IH. unfold enum_entry.
  destruct (en_kind e); cbn; try reflexivity;
    match goal with |- context [mapM ?f es] => destruct (mapM f es); reflexivity end.
Qed.

Lemma enum_outcome_dump en h vs e :
  (do r <- enum_entry en h vs (set_dump e true); Ok (apply_dump (set_dump e true) r))
  = (do o <- (do r <- enum_entry en h vs (set_dump e false); Ok (apply_dump (set_dump e false) r));
     Ok (dumped o)).
Proof.
  rewrite !enum_entry_set_dump. destruct (enum_entry en h vs e) as [r| |]; cbn; try reflexivity.
  unfold apply_dump. cbn. destruct r; reflexivity.
Qed.

(** impl items *)
Definition set_dx_dump (a : dx_args) (b : bool) : dx_args :=
  {| dx_items := dx_items a; dx_bound := dx_bound a; dx_dump := b |}.

Lemma impl_dump a i :
  build_by_item_impl (set_dx_dump a true) i
  = (do o <- build_by_item_impl (set_dx_dump a false) i; Ok (dumped o)).
Proof.
  unfold build_by_item_impl. cbn [dx_items dx_bound dx_dump set_dx_dump impl_args_ok].
  destruct (i_trait i) as [[lead segs]|]; cbn; [|reflexivity].
  destruct (i_neg i); [reflexivity|].
  destruct (last_opt segs); cbn; [|reflexivity].
  destruct (to_ref_elem (i_self i)) as [this this_is_ref].
  destruct (to_ref_elem (to_rhs s (i_self i))) as [rhs rhs_is_ref].
  destruct (op_from_ident match s with Seg n _ => n end) as [[op form]| |]; cbn; try reflexivity.
  unfold impl_args_ok; cbn [dx_items dx_bound set_dx_dump].
  destruct (forallb _ (dx_items a) && _); cbn; [|reflexivity].
  destruct (scan_items op (map fst (dx_items a)) false false) as [[mb ma]| |]; cbn; try reflexivity.
  destruct form.
  - destruct (find_output_type (i_items i)); cbn; reflexivity.
  - destruct ma; cbn; reflexivity.
Qed.

(** the compile error of a dumped entry carries, token for token, the items that the undumped
    entry consists of *)
Lemma dump_payload gs :
  parts_of_outcome (ODump gs) = [PDump (concat (map part_toks (parts_of_outcome (OOk gs))))].
Proof. reflexivity. Qed.

(** the dump flag of an entry: per-trait `dump` or the shared one *)
Lemma entries_of_args_dump a es :
  entries_of_args a = Ok es ->
  map en_dump es
  = map (fun '(_, ia) => dx_dump a || match ia with Some x => ia_dump x | None => false end) (dx_items a).
Proof.
  unfold entries_of_args. generalize (dx_items a) as its. intros its. revert es.
  induction its as [|[n ia] its IH]; cbn; intros es H.
  - now inversion H.
  - destruct (kind_from_str n); cbn in H; [|discriminate].
    destruct ia; cbn in H;
      (match type of H with context [mapM ?f its] => destruct (mapM f its) eqn:Em end); cbn in H;
      try discriminate; inversion H; subst; cbn; f_equal; now apply IH.
Qed.
