(** * GenAttrs: model of the attribute handling of derive-ex/src/item_type.rs

    DeriveItemKind / CompareOp tables, DeriveEntry::from_root / from_args_list,
    HelperAttributeKinds (extend, is_match), HelperAttributes::from_attrs + verify,
    parse_single, remove_attrs. *)
From DX Require Export Syntax Tables.
From DX Require Import GenBound.

(** ** DeriveEntry *)
Record entry := {
  en_kind : kind;
  en_dump : bool;
  en_this : bounds;
  en_common : bounds }.

(** `DeriveEntry::from_args_list` *)
Definition entries_of_args (a : dx_args) : result (list entry) :=
  mapM (fun '(name, ia) =>
          match kind_from_str name with
          | None => Err "unsupported trait"
          | Some k =>
              let '(dump, this) :=
                match ia with
                | Some ia => (ia_dump ia, bounds_from (ia_bound ia))
                | None => (false, bounds_new)
                end in
              Ok {| en_kind := k; en_dump := dx_dump a || dump; en_this := this;
                    en_common := bounds_from (dx_bound a) |}
          end) (dx_items a).

Fixpoint from_args_list (l : list dx_args) : result (list entry) :=
  match l with
  | [] => Ok []
  | a :: rest =>
      do es <- entries_of_args a;
      do es' <- from_args_list rest;
      Ok (es ++ es')
  end.

(** `parse_derive_ex_attrs` *)
Definition derive_ex_attrs (attrs : list attr) : list dx_args :=
  flat_map (fun a => match a with ADeriveEx x => [x] | _ => [] end) attrs.

(** `DeriveEntry::from_root` *)
Definition from_root (arg : option dx_args) (attrs : list attr) : result (list entry) :=
  from_args_list (match arg with Some a => [a] | None => [] end ++ derive_ex_attrs attrs).

(** `DeriveEntry::push_bounds_to` *)
Definition entry_push_bounds_to (e : entry) (w : wcb) : wcb * bool :=
  let '(w, ub) := push_bounds w (en_this e) in
  if ub then push_bounds w (en_common e) else (w, ub).

(** ** HelperAttributeKinds *)
Record kinds := {
  k_derive_ex : bool; k_default : bool; k_debug : bool;
  k_ord : bool; k_partial_ord : bool; k_eq : bool; k_partial_eq : bool; k_hash : bool }.

Definition kinds_new (derive_ex : bool) : kinds :=
  {| k_derive_ex := derive_ex; k_default := false; k_debug := false; k_ord := false;
     k_partial_ord := false; k_eq := false; k_partial_eq := false; k_hash := false |}.

Definition kinds_add (k : kinds) (e : entry) : kinds :=
  match en_kind e with
  | KDefault => {| k_derive_ex := k_derive_ex k; k_default := true; k_debug := k_debug k; k_ord := k_ord k; k_partial_ord := k_partial_ord k; k_eq := k_eq k; k_partial_eq := k_partial_eq k; k_hash := k_hash k |}
  | KDebug => {| k_derive_ex := k_derive_ex k; k_default := k_default k; k_debug := true; k_ord := k_ord k; k_partial_ord := k_partial_ord k; k_eq := k_eq k; k_partial_eq := k_partial_eq k; k_hash := k_hash k |}
  | KCmp COrd => {| k_derive_ex := k_derive_ex k; k_default := k_default k; k_debug := k_debug k; k_ord := true; k_partial_ord := k_partial_ord k; k_eq := k_eq k; k_partial_eq := k_partial_eq k; k_hash := k_hash k |}
  | KCmp CPartialOrd => {| k_derive_ex := k_derive_ex k; k_default := k_default k; k_debug := k_debug k; k_ord := k_ord k; k_partial_ord := true; k_eq := k_eq k; k_partial_eq := k_partial_eq k; k_hash := k_hash k |}
  | KCmp CEq => {| k_derive_ex := k_derive_ex k; k_default := k_default k; k_debug := k_debug k; k_ord := k_ord k; k_partial_ord := k_partial_ord k; k_eq := true; k_partial_eq := k_partial_eq k; k_hash := k_hash k |}
  | KCmp CPartialEq => {| k_derive_ex := k_derive_ex k; k_default := k_default k; k_debug := k_debug k; k_ord := k_ord k; k_partial_ord := k_partial_ord k; k_eq := k_eq k; k_partial_eq := true; k_hash := k_hash k |}
  | KCmp CHash => {| k_derive_ex := k_derive_ex k; k_default := k_default k; k_debug := k_debug k; k_ord := k_ord k; k_partial_ord := k_partial_ord k; k_eq := k_eq k; k_partial_eq := k_partial_eq k; k_hash := true |}
  | _ => k
  end.
Definition kinds_extend (k : kinds) (es : list entry) : kinds := fold_left kinds_add es k.

Definition kinds_derived (k : kinds) (op : cmpop) : bool :=
  match op with
  | COrd => k_ord k | CPartialOrd => k_partial_ord k | CEq => k_eq k
  | CPartialEq => k_partial_eq k | CHash => k_hash k
  end.

(** `is_match_cmp_attr`: is the helper attribute `#[op(..)]` read (and owned) at all?
    — iff it affects a derived trait *)
Definition is_match_cmp_attr (k : kinds) (op : cmpop) : bool :=
  existsb (fun target => kinds_derived k target && is_effects_to op target) cmp_variants.

Definition without_derive_ex (k : kinds) : kinds :=
  {| k_derive_ex := false; k_default := k_default k; k_debug := k_debug k; k_ord := k_ord k;
     k_partial_ord := k_partial_ord k; k_eq := k_eq k; k_partial_eq := k_partial_eq k;
     k_hash := k_hash k |}.

(** `is_match`: is this attribute one of ours (to be removed from the re-emitted item)? *)
Definition kinds_is_match (k : kinds) (a : attr) : bool :=
  match a with
  | AOther _ => false
  | ADeriveEx _ => k_derive_ex k
  | ADefault _ => k_default k
  | ADebug _ => k_debug k
  | ACmp op _ => is_match_cmp_attr k op
  end.

Definition remove_attrs (k : kinds) (attrs : list attr) : list attr :=
  filter (fun a => negb (kinds_is_match k a)) attrs.

(** ** helper attributes of one position *)
Record cmp_attr := {
  c_ignore : bool; c_reverse : bool;
  c_by : option toks; c_key : option toks;     (* key: `$` already turned into the placeholder *)
  c_bounds : bounds }.
Definition cmp_attr_default : cmp_attr :=
  {| c_ignore := false; c_reverse := false; c_by := None; c_key := None; c_bounds := bounds_new |}.

Record cmp_attrs := {
  h_ord : cmp_attr; h_partial_ord : cmp_attr; h_eq : cmp_attr; h_partial_eq : cmp_attr;
  h_hash : cmp_attr }.
Definition cmp_get (c : cmp_attrs) (op : cmpop) : cmp_attr :=
  match op with
  | COrd => h_ord c | CPartialOrd => h_partial_ord c | CEq => h_eq c
  | CPartialEq => h_partial_eq c | CHash => h_hash c
  end.

Record default_attr := { d_value : option toks; d_bounds : bounds }.
Record debug_attr := { g_transparent : bool; g_ignore : bool; g_bounds : bounds }.
Definition debug_attr_default : debug_attr :=
  {| g_transparent := false; g_ignore := false; g_bounds := bounds_new |}.

Record hattrs := {
  ha_items : list entry;          (* `#[derive_ex(..)]` on this position; lookup: last wins *)
  ha_default : option default_attr;
  ha_debug : debug_attr;
  ha_cmp : cmp_attrs }.

(** HashMap<DeriveItemKind, DeriveEntry> built by `collect`: a later entry replaces an earlier one *)
Fixpoint items_get (l : list entry) (k : kind) : option entry :=
  match l with
  | [] => None
  | e :: rest =>
      match items_get rest k with
      | Some e' => Some e'
      | None => if kind_eqb (en_kind e) k then Some e else None
      end
  end.

(** `parse_single`: the metas of the attributes called [name], in order *)
Definition twice_msg (name : string) : string := "#[" +++ name +++ "] was specified twice".
Definition nv_msg (name : string) : string :=
  "`name = value` style attribute is not supported for `#[" +++ name +++ "]".

Fixpoint parse_single_go {A} (name : string) (dflt : A) (metas : list (meta A)) (item : option A)
  : result (option A) :=
  match metas with
  | [] => Ok item
  | m :: rest =>
      match item with
      | Some _ => Err (twice_msg name)
      | None =>
          match m with
          | MPath => parse_single_go name dflt rest (Some dflt)
          | MList a => parse_single_go name dflt rest (Some a)
          | MNameValue _ => Err (nv_msg name)
          end
      end
  end.
Definition parse_single {A} (name : string) (dflt : A) (metas : list (meta A)) : result (option A) :=
  parse_single_go name dflt metas None.

Definition is_infer (v : toks) : bool :=
  match v with [TI "_"] => true | _ => false end.

Definition default_from_attrs (attrs : list attr) : result (option default_attr) :=
  do r <- parse_single "default" {| da_value := [TI "_"]; da_bound := None |}
            (flat_map (fun a => match a with ADefault m => [m] | _ => [] end) attrs);
  Ok (match r with
      | Some a => Some {| d_value := if is_infer (da_value a) then None else Some (da_value a);
                          d_bounds := bounds_from (da_bound a) |}
      | None => None
      end).

Definition debug_from_attrs (attrs : list attr) : result debug_attr :=
  do r <- parse_single "debug" {| ga_transparent := false; ga_ignore := false; ga_bound := None |}
            (flat_map (fun a => match a with ADebug m => [m] | _ => [] end) attrs);
  Ok (match r with
      | Some a => {| g_transparent := ga_transparent a; g_ignore := ga_ignore a;
                     g_bounds := bounds_from (ga_bound a) |}
      | None => debug_attr_default
      end).

(** `dollar_token_to_placeholder` on the key expression *)
Definition placeholder : string := "__placeholder".
Definition dollar_to_placeholder (t : toks) : toks :=
  map (fun x => match x with TP "$" => TI placeholder | _ => x end) t.

Definition cmp_from_attrs (attrs : list attr) (op : cmpop) : result cmp_attr :=
  do r <- parse_single (cmpop_snake op)
            {| ca_ignore := false; ca_reverse := false; ca_by := None; ca_key := None; ca_bound := None |}
            (flat_map (fun a => match a with
                                | ACmp op' m => if cmpop_eqb op op' then [m] else []
                                | _ => [] end) attrs);
  Ok (match r with
      | Some a => {| c_ignore := ca_ignore a; c_reverse := ca_reverse a;
                     c_by := option_map dollar_to_placeholder (ca_by a);
                     c_key := option_map dollar_to_placeholder (ca_key a);
                     c_bounds := bounds_from (ca_bound a) |}
      | None => cmp_attr_default
      end).

Definition cmp_attrs_from_attrs (attrs : list attr) (k : kinds) : result cmp_attrs :=
  let get op := if is_match_cmp_attr k op then cmp_from_attrs attrs op else Ok cmp_attr_default in
  do o <- get COrd;
  do po <- get CPartialOrd;
  do e <- get CEq;
  do pe <- get CPartialEq;
  do h <- get CHash;
  Ok {| h_ord := o; h_partial_ord := po; h_eq := e; h_partial_eq := pe; h_hash := h |}.

Inductive target := TType | TVariant | TField.

Definition verify_one (t : target) (a : cmp_attr) : result unit :=
  let where_ := match t with TType => "type" | TVariant => "enum variants" | TField => "" end in
  match t with
  | TField => Ok tt
  | _ =>
      if match c_by a with Some _ => true | None => false end
      then Err ("cannot specify `by = ...` for " +++ where_)
      else if match c_key a with Some _ => true | None => false end
      then Err ("cannot specify `key = ...` for " +++ where_)
      else if c_reverse a then Err ("cannot specify `reverse` for " +++ where_)
      else if c_ignore a then Err ("cannot specify `ignore` for " +++ where_)
      else Ok tt
  end.

Definition verify (t : target) (c : cmp_attrs) : result unit :=
  do _ <- verify_one t (h_ord c);
  do _ <- verify_one t (h_partial_ord c);
  do _ <- verify_one t (h_eq c);
  do _ <- verify_one t (h_partial_eq c);
  verify_one t (h_hash c).

(** `HelperAttributes::from_attrs` *)
Definition hattrs_from_attrs (attrs : list attr) (t : target) (k : kinds) : result hattrs :=
  do items <- (if k_derive_ex k then from_args_list (derive_ex_attrs attrs) else Ok []);
  do dflt <- (if k_default k then default_from_attrs attrs else Ok None);
  do dbg <- (if k_debug k then debug_from_attrs attrs else Ok debug_attr_default);
  do c <- cmp_attrs_from_attrs attrs k;
  do _ <- verify t c;
  Ok {| ha_items := items; ha_default := dflt; ha_debug := dbg; ha_cmp := c |}.

(** ** bound chain on one position: `push_bounds_to_raw` *)

(** `HelperAttributesForCompareOp::push_bounds` *)
Definition cmp_push_bounds (c : cmp_attrs) (op : cmpop) (w : wcb) : wcb * bool :=
  fold_left (fun '(w, ub) source =>
               if is_effects_to source op && ub
               then push_bounds w (c_bounds (cmp_get c source))
               else (w, ub))
            (rev cmp_variants) (w, true).

Definition push_bounds_to_raw (h : hattrs) (use_bounds use_helper : bool) (k : kind) (w : wcb)
  : wcb * bool :=
  let '(w, ub) :=
    if use_bounds && use_helper then
      match k with
      | KCmp op => cmp_push_bounds (ha_cmp h) op w
      | KDebug => push_bounds w (g_bounds (ha_debug h))
      | KDefault =>
          match ha_default h with
          | Some a => push_bounds w (d_bounds a)
          | None => (w, use_bounds)
          end
      | _ => (w, use_bounds)
      end
    else (w, use_bounds) in
  if ub then
    match items_get (ha_items h) k with
    | Some a => entry_push_bounds_to a w
    | None => (w, ub)
    end
  else (w, ub).

Definition hattrs_push_bounds_to (h : hattrs) (ub : bool) (k : kind) (w : wcb) : wcb * bool :=
  push_bounds_to_raw h ub true k w.
Definition hattrs_push_bounds_to_without_helper (h : hattrs) (ub : bool) (k : kind) (w : wcb)
  : wcb * bool :=
  push_bounds_to_raw h ub false k w.

(** `DeriveEntry::push_bounds_to_with` *)
Definition entry_push_bounds_to_with (e : entry) (h : hattrs) (k : kind) (w : wcb) : wcb * bool :=
  let '(w, ub) := hattrs_push_bounds_to h true k w in
  let '(w, ub) := if ub then push_bounds w (en_this e) else (w, ub) in
  if ub then push_bounds w (en_common e) else (w, ub).

(** ** field / variant entries *)
Inductive member := MNamed (s : string) | MIndex (n : nat).

Record fentry := { fe_index : nat; fe_field : field; fe_hattrs : hattrs }.
Record ventry := { ve_variant : variant; ve_fields : list fentry; ve_hattrs : hattrs }.

Definition fe_member (f : fentry) : member :=
  match f_name (fe_field f) with Some n => MNamed n | None => MIndex (fe_index f) end.

Fixpoint fentries_go (fs : list field) (i : nat) (k : kinds) : result (list fentry) :=
  match fs with
  | [] => Ok []
  | f :: rest =>
      do h <- hattrs_from_attrs (f_attrs f) TField k;
      do r <- fentries_go rest (S i) k;
      Ok ({| fe_index := i; fe_field := f; fe_hattrs := h |} :: r)
  end.
Definition fentries_from_fields (fs : fields) (k : kinds) : result (list fentry) :=
  fentries_go (fields_list fs) 0 k.

(** `VariantEntry::new`: fields first, then the variant's own attributes *)
Definition ventry_new (v : variant) (k : kinds) : result ventry :=
  do fs <- fentries_from_fields (v_fields v) k;
  do h <- hattrs_from_attrs (v_attrs v) TVariant k;
  Ok {| ve_variant := v; ve_fields := fs; ve_hattrs := h |}.
Definition ventries_from_variants (vs : list variant) (k : kinds) : result (list ventry) :=
  mapM (fun v => ventry_new v k) vs.

(** `FieldEntry::push_bounds_to` *)
Definition fentry_push_bounds_to (f : fentry) (ub : bool) (k : kind) (w : wcb) : wcb :=
  let '(w, ub) := hattrs_push_bounds_to (fe_hattrs f) ub k w in
  if ub then push_bounds_for_field w (f_ty (fe_field f)) else w.
