(** * SpecCmp: what the documentation prescribes for ==, partial_cmp, cmp and the hash feed

    From the chapter "Derive Ord, PartialOrd, Eq, PartialEq, Hash" of doc/derive_ex.md:
    - which attribute affects which trait: [affects] (SpecAttrs.v);
    - "The helper attributes in the lines below are applied preferentially": for a trait the
      attributes that affect it are consulted most specific first ([specific_first], SpecBound.v);
    - `ignore`: "excludes that field from comparison and hash calculation";
    - `reverse`: "reverses the comparison order. It can also be used together with by / key";
    - `by = ...`: "a function with the same signature as the trait's required method";
      "`#[hash(by = ...)]` only changes the behavior of `Hash`. Other attributes act on attributes
      other than `Hash`";
    - `key = ...`: "Delegates processing to the value of the specified expression".
    Not documented and taken from the code: on one attribute carrying both, `by` wins over `key`.
    Variants: ordered by declaration position (as the standard derive). *)
From DX Require Import Syntax Tables GenBound GenAttrs IR GenType SpecAttrs SpecBound SemCmp.

(** the comparator an attribute set selects for a trait *)
Inductive selection := SBy (src : cmpop) (f : toks) | SKey (k : toks) | SOwn.

Definition attr_selection (tr : cmpop) (c : cmp_attrs) (a : cmpop) : option selection :=
  match (if by_counts tr a then c_by (cmp_get c a) else None) with
  | Some f => Some (SBy a f)
  | None => match c_key (cmp_get c a) with Some k => Some (SKey k) | None => None end
  end.

(** first attribute, most specific first, that carries `by` / `key` *)
Definition selected (tr : cmpop) (c : cmp_attrs) : selection :=
  match flat_map (fun a => match attr_selection tr c a with Some s => [s] | None => [] end)
                 (specific_first tr) with
  | s :: _ => s
  | [] => SOwn
  end.

Definition reversed (tr : cmpop) (c : cmp_attrs) : bool :=
  existsb (fun a => affects a tr && c_reverse (cmp_get c a)) [CPartialOrd; COrd].

Section Spec.
  Variable V : Type.
  Variable d_eq : ty -> V -> V -> bool.
  Variable d_pcmp : ty -> V -> V -> option comparison.
  Variable d_cmp : ty -> V -> V -> comparison.
  Variable k_eq : toks -> V -> V -> bool.
  Variable k_pcmp : toks -> V -> V -> option comparison.
  Variable k_cmp : toks -> V -> V -> comparison.
  Variable by_eq : toks -> V -> V -> bool.
  Variable by_pcmp : toks -> V -> V -> option comparison.
  Variable by_cmp : toks -> V -> V -> comparison.

  (** a `by` function written for one trait, used for another *)
  Definition sp_field_eq (f : fentry) (x y : V) : bool :=
    match selected CPartialEq (ha_cmp (fe_hattrs f)) with
    | SBy CPartialOrd g => match by_pcmp g x y with Some Eq => true | _ => false end
    | SBy COrd g => match by_cmp g x y with Eq => true | _ => false end
    | SBy _ g => by_eq g x y
    | SKey k => k_eq k x y
    | SOwn => d_eq (fty f) x y
    end.

  Definition sp_field_pcmp (f : fentry) (x y : V) : option comparison :=
    let c := ha_cmp (fe_hattrs f) in
    let r := match selected CPartialOrd c with
             | SBy COrd g => Some (by_cmp g x y)
             | SBy _ g => by_pcmp g x y
             | SKey k => k_pcmp k x y
             | SOwn => d_pcmp (fty f) x y
             end in
    if reversed CPartialOrd c then option_map CompOpp r else r.

  Definition sp_field_cmp (f : fentry) (x y : V) : comparison :=
    let c := ha_cmp (fe_hattrs f) in
    let r := match selected COrd c with
             | SBy _ g => by_cmp g x y
             | SKey k => k_cmp k x y
             | SOwn => d_cmp (fty f) x y
             end in
    if reversed COrd c then CompOpp r else r.

  Definition at_ (a : value V) (f : fentry) : V := v_field a (fe_index f).

  (** "the non-ignored fields are compared in declaration order ... the first non-equal field decides" *)
  Definition sp_fields_eq (fs : list fentry) (a b : value V) : bool :=
    forallb (fun f => sp_field_eq f (at_ a f) (at_ b f)) (cmp_used_fields CPartialEq fs).

  Fixpoint first_non_eq_opt (l : list (option comparison)) : option comparison :=
    match l with
    | [] => Some Eq
    | Some Eq :: rest => first_non_eq_opt rest
    | o :: _ => o
    end.
  Fixpoint first_non_eq (l : list comparison) : comparison :=
    match l with
    | [] => Eq
    | Eq :: rest => first_non_eq rest
    | o :: _ => o
    end.

  Definition sp_fields_pcmp (fs : list fentry) (a b : value V) : option comparison :=
    first_non_eq_opt (map (fun f => sp_field_pcmp f (at_ a f) (at_ b f)) (cmp_used_fields CPartialOrd fs)).
  Definition sp_fields_cmp (fs : list fentry) (a b : value V) : comparison :=
    first_non_eq (map (fun f => sp_field_cmp f (at_ a f) (at_ b f)) (cmp_used_fields COrd fs)).

  (** enums: "values of different variants are ordered by variant declaration position" *)
  Fixpoint position (vs : list ventry) (name : string) (i : nat) : option nat :=
    match vs with
    | [] => None
    | v :: rest => if String.eqb (v_name (ve_variant v)) name then Some i else position rest name (S i)
    end.
  Definition variant_named (vs : list ventry) (name : string) : option ventry :=
    find (fun v => String.eqb (v_name (ve_variant v)) name) vs.

  Definition sp_enum_eq (vs : list ventry) (a b : value V) : bool :=
    if String.eqb (v_variant a) (v_variant b) then
      match variant_named vs (v_variant a) with
      | Some v => sp_fields_eq (ve_fields v) a b
      | None => false
      end
    else false.

  Definition sp_enum_pcmp (vs : list ventry) (a b : value V) : option (option comparison) :=
    match position vs (v_variant a) 0, position vs (v_variant b) 0 with
    | Some i, Some j =>
        if String.eqb (v_variant a) (v_variant b) then
          option_map (fun v => sp_fields_pcmp (ve_fields v) a b) (variant_named vs (v_variant a))
        else Some (Some (Nat.compare i j))
    | _, _ => None
    end.

  Definition sp_enum_cmp (vs : list ventry) (a b : value V) : option comparison :=
    match position vs (v_variant a) 0, position vs (v_variant b) 0 with
    | Some i, Some j =>
        if String.eqb (v_variant a) (v_variant b) then
          option_map (fun v => sp_fields_cmp (ve_fields v) a b) (variant_named vs (v_variant a))
        else Some (Nat.compare i j)
    | _, _ => None
    end.

  (** Hash: "the effective hash input of every non-ignored field — the field itself, or its `key`
      expression taken from `hash`, else `eq`, else `ord`, or whatever `hash(by = ...)` writes" *)
  Definition sp_field_feed (f : fentry) (x : V) : feed_event V :=
    match selected CHash (ha_cmp (fe_hattrs f)) with
    | SBy _ g => FeedBy g x
    | SKey k => FeedKey k x
    | SOwn => FeedField (fty f) x
    end.
  Definition sp_fields_feed (fs : list fentry) (a : value V) : list (feed_event V) :=
    map (fun f => sp_field_feed f (at_ a f)) (cmp_used_fields CHash fs).
  Definition sp_enum_feed (vs : list ventry) (a : value V) : option (list (feed_event V)) :=
    option_map (fun v => sp_fields_feed (ve_fields v) a) (variant_named vs (v_variant a)).
End Spec.

(** ** documented misuse (C05)

    "If you modify the behavior of a specific trait by `by = ...` or `key = ...`, you must also modify
     the behavior of other traits ... Trying to mix modified behavior with default behavior will result
     in a compilation error."
    "You cannot change whether `ignore` is applied by the trait. A compile error occurs when trying to
     apply `ignore` to only some of the traits."   (Hash may ignore more: `#[hash(ignore)]`.)
    `partial_ord(reverse)` cannot be honoured by `Ord`. *)
Definition is_some {A} (o : option A) : bool := match o with Some _ => true | None => false end.

Definition has_custom (c : cmp_attrs) : bool :=
  existsb (fun a => is_some (c_by (cmp_get c a)) || is_some (c_key (cmp_get c a)))
          [COrd; CPartialOrd; CEq; CPartialEq; CHash].

Definition ignore_split (tr : cmpop) (c : cmp_attrs) : bool :=
  match tr with
  | CPartialEq => false
  | CHash => c_ignore (h_partial_eq c) || c_ignore (h_partial_ord c)
  | _ => existsb (fun a => c_ignore (cmp_get c a)) [CPartialEq; CEq; CPartialOrd; COrd]
  end.

Definition is_own (s : selection) : bool := match s with SOwn => true | _ => false end.

Definition field_rejected (tr : cmpop) (c : cmp_attrs) : bool :=
  negb (cmp_ignored tr c) &&
  ((is_own (selected tr c) && has_custom c)
   || ignore_split tr c
   || (cmpop_eqb tr COrd && c_reverse (h_partial_ord c))).

(** `ignore` / `reverse` / `key` / `by` on a type or a variant *)
Definition attr_misplaced (a : cmp_attr) : bool :=
  is_some (c_by a) || is_some (c_key a) || c_reverse a || c_ignore a.
Definition misplaced (c : cmp_attrs) : bool :=
  existsb (fun a => attr_misplaced (cmp_get c a)) [COrd; CPartialOrd; CEq; CPartialEq; CHash].

(** ** Eq obligations (C17): one `T: Eq` obligation per compared component *)
Inductive eq_component := EqField (f : fld) | EqKey (f : fld) (k : toks).

(** what takes part in equality: when the field is customised for `Eq` (`#[eq]` / `#[ord]` with `key` / `by`),
    the selection of `==` - the most specific of `partial_eq`, `eq`, `partial_ord`, `ord` *)
Definition eq_selected (c : cmp_attrs) : selection :=
  match selected CEq c with SOwn => SOwn | _ => selected CPartialEq c end.

Definition eq_components (fs : list fentry) : list eq_component :=
  flat_map (fun f => match eq_selected (ha_cmp (fe_hattrs f)) with
                     | SBy _ _ => []                          (* compared with `by`: exempt *)
                     | SKey k => [EqKey (fld_of f) k]        (* the value of the key expression *)
                     | SOwn => [EqField (fld_of f)]          (* the field itself *)
                     end) (cmp_used_fields CEq fs).
