(** * LemTop: what the entry points compute, in terms of the per-trait builders *)
From DX Require Import Syntax GenBound GenAttrs IR GenType GenCmp GenImpl GenTop.

(** the three parsing steps shared by both entry points on a struct *)
Definition struct_parsed (arg : option dx_args) (s : item_struct)
           (es : list entry) (h : hattrs) (fs : list fentry) : Prop :=
  from_root arg (s_attrs s) = Ok es /\
  hattrs_from_attrs (s_attrs s) TType (without_derive_ex (kinds_extend (kinds_new true) es)) = Ok h /\
  fentries_from_fields (s_fields s) (kinds_extend (kinds_new true) es) = Ok fs.

Definition struct_outcome (s : item_struct) (h : hattrs) (fs : list fentry) (e : entry) : outcome :=
  apply_dump e (build_struct_entry s h (fields_for s (en_kind e) fs) e).

Lemma struct_core_entries arg s es h fs :
  struct_parsed arg s es h fs ->
  snd (build_by_item_struct_core arg s) = Ok (map (struct_outcome s h fs) es).
Proof.
  intros (H1 & H2 & H3). unfold build_by_item_struct_core.
  rewrite H1. cbn [snd]. rewrite H2. cbn [bind]. rewrite H3. reflexivity.
Qed.

Lemma expand_attr_struct args s es h fs :
  struct_parsed (Some args) s es h fs ->
  x_entries (expand {| inv_mode := Attr; inv_args := args; inv_item := IStruct s |})
  = map (struct_outcome s h fs) es /\
  x_fatal (expand {| inv_mode := Attr; inv_args := args; inv_item := IStruct s |}) = None.
Proof.
  intros H. pose proof (struct_core_entries _ _ _ _ _ H) as E.
  unfold expand. cbn [inv_mode inv_item inv_args].
  destruct (build_by_item_struct_core (Some args) s) as [k r]. cbn [snd] in E. subst r.
  split; reflexivity.
Qed.

Lemma expand_derive_struct args s es h fs :
  struct_parsed None s es h fs ->
  x_entries (expand {| inv_mode := Derive; inv_args := args; inv_item := IStruct s |})
  = map (struct_outcome s h fs) es /\
  x_fatal (expand {| inv_mode := Derive; inv_args := args; inv_item := IStruct s |}) = None.
Proof.
  intros H. pose proof (struct_core_entries _ _ _ _ _ H) as E.
  unfold expand. cbn [inv_mode inv_item inv_args]. rewrite E. split; reflexivity.
Qed.
