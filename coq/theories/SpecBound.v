(** * SpecBound: the documented bound priority ("Specify trait bound" + per-trait chapters)

    "bound(...) can be used in the following places, the lower the number, the higher the priority."

    |                                     | struct, enum | variant | field |
    | #[trait_name(bound(...))]           | 1            | 4       | 7     |
    | #[derive_ex(TraitName(bound(...)))] | 2            | 5       | 8     |
    | #[derive_ex(TraitName, bound(...))]  | 3            | 6       | 9     |

    "If a predicate is specified, it is used as-is."  "If you specify a type ..., make sure that the
    specified type implements the trait."  "`..` means default trait bound. If `..` is specified,
    the lower priority trait bound is used."  "An empty argument means no constraint."

    A level is a parsed `bound(...)` ([bounds]: its types, its predicates, whether it contains `..`);
    an absent level is [bounds_new] (nothing, continue).  The levels are read from the parsed
    helper-attribute records ([hattrs]); the parsing step itself is the subject of C05 / C14. *)
From DX Require Import Syntax Tables GenBound GenAttrs SpecAttrs.

Definition contrib := (list ty * list wpred)%type.
Definition cat (a b : contrib) : contrib := (fst a ++ fst b, snd a ++ snd b).
Definition cnil : contrib := ([], []).
Definition concat_contrib (l : list contrib) : contrib := fold_right cat cnil l.

(** resolution walks the levels in priority order: every level that is reached contributes;
    it continues past a level only if that level contains `..` (or is absent) *)
Fixpoint resolve (ls : list bounds) (cont : bool) : contrib * bool :=
  match ls with
  | [] => (cnil, cont)
  | b :: rest =>
      if cont
      then let '(c, k) := resolve rest (b_default b) in (cat (b_ty b, b_pred b) c, k)
      else (cnil, false)
  end.

(** "The helper attributes in the lines below are applied preferentially": more specific first *)
Definition specific_first (op : cmpop) : list cmpop :=
  filter (fun a => affects a op) [CHash; CPartialEq; CEq; CPartialOrd; COrd].

(** level 1 / 4 / 7: the helper attribute(s) of the trait at one position *)
Definition helper_levels (k : kind) (h : hattrs) : list bounds :=
  match k with
  | KCmp op => map (fun a => c_bounds (cmp_get (ha_cmp h) a)) (specific_first op)
  | KDebug => [g_bounds (ha_debug h)]
  | KDefault => match ha_default h with Some a => [d_bounds a] | None => [] end
  | _ => []
  end.
(** levels 5,6 / 8,9: `#[derive_ex(Trait(bound(..)), bound(..))]` on a variant or field *)
Definition arg_levels (k : kind) (h : hattrs) : list bounds :=
  match items_get (ha_items h) k with
  | Some e => [en_this e; en_common e]
  | None => []
  end.
Definition position_levels (k : kind) (h : hattrs) : list bounds := helper_levels k h ++ arg_levels k h.

(** "`#[hash(by = ...)]` only changes the behavior of `Hash`. Other attributes act on attributes
    other than `Hash`." *)
Definition by_counts (op a : cmpop) : bool :=
  match op with CHash => cmpop_eqb a CHash | _ => true end.

Definition selects (op : cmpop) (c : cmp_attrs) (a : cmpop) : bool :=
  (by_counts op a && match c_by (cmp_get c a) with Some _ => true | None => false end)
  || match c_key (cmp_get c a) with Some _ => true | None => false end.

(** "If `by = ...` or `key = ...` is specified with a high-priority helper attribute, the trait
    bounds of a lower-priority helper attribute will not be used." *)
Fixpoint cut_after_selected (op : cmpop) (c : cmp_attrs) (l : list cmpop) : list bounds :=
  match l with
  | [] => []
  | a :: rest =>
      c_bounds (cmp_get c a) :: if selects op c a then [] else cut_after_selected op c rest
  end.
Definition field_selected (op : cmpop) (c : cmp_attrs) : bool :=
  existsb (selects op c) (specific_first op).

(** ** plans: which positions take part for a trait, and whether the field type itself is used *)
Record fplan := { fp_levels : list bounds; fp_ty : ty; fp_used : bool }.
Record vplan := { vp_levels : list bounds; vp_fields : list fplan }.

Definition field_contrib (gps : list string) (cont : bool) (f : fplan) : contrib :=
  let '(c, k) := resolve (fp_levels f) cont in
  cat c (if k && fp_used f && contains_in_type gps (fp_ty f) then [fp_ty f] else [], []).

Definition variant_contrib (gps : list string) (cont : bool) (v : vplan) : contrib :=
  let '(c, k) := resolve (vp_levels v) cont in
  cat c (concat_contrib (map (field_contrib gps k) (vp_fields v))).

(** the where-clause: bounded types, and the declared predicates followed by the contributed ones *)
Definition spec_where (g : generics) (top : list bounds) (vs : list vplan) : list ty * list wpred :=
  let '(c, k) := resolve top true in
  let r := cat c (concat_contrib (map (variant_contrib (gps_new g) k) vs)) in
  (fst r, g_where g ++ snd r).

(** *** per-trait plans *)
Definition fty (f : fentry) : ty := f_ty (fe_field f).

(** Clone, Copy, operators: every field *)
Definition fplan_all (k : kind) (f : fentry) : fplan :=
  {| fp_levels := position_levels k (fe_hattrs f); fp_ty := fty f; fp_used := true |}.

(** Debug: "the transparent field, else the non-ignored ones" *)
Definition debug_fields (fs : list fentry) : list fentry :=
  match find (fun f => g_transparent (ha_debug (fe_hattrs f))) fs with
  | Some f => [f]
  | None => filter (fun f => negb (g_ignore (ha_debug (fe_hattrs f)))) fs
  end.

(** Default: "Field types with manually set default values are not used as type constraints." *)
Definition has_default_value (h : hattrs) : bool :=
  match ha_default h with Some a => match d_value a with Some _ => true | None => false end | None => false end.
Definition fplan_default (f : fentry) : fplan :=
  {| fp_levels := position_levels KDefault (fe_hattrs f); fp_ty := fty f;
     fp_used := negb (has_default_value (fe_hattrs f)) |}.

(** comparison traits: non-ignored fields; helper levels cut after `by`/`key`; the field type is
    used only when the trait falls back to the field type's own comparison *)
Definition cmp_ignored (op : cmpop) (c : cmp_attrs) : bool :=
  existsb (fun a => affects a op && c_ignore (cmp_get c a)) all_cmp.
Definition fplan_cmp (op : cmpop) (f : fentry) : fplan :=
  let c := ha_cmp (fe_hattrs f) in
  {| fp_levels := cut_after_selected op c (specific_first op) ++ arg_levels (KCmp op) (fe_hattrs f);
     fp_ty := fty f; fp_used := negb (field_selected op c) |}.

Definition struct_plan (fp : fentry -> fplan) (fs : list fentry) : list vplan :=
  [{| vp_levels := []; vp_fields := map fp fs |}].
Definition enum_plan (k : kind) (fp : fentry -> fplan) (sel : list fentry -> list fentry) (vs : list ventry)
  : list vplan :=
  map (fun v => {| vp_levels := position_levels k (ve_hattrs v);
                   vp_fields := map fp (sel (ve_fields v)) |}) vs.

Definition top_levels (k : kind) (e : entry) (h : hattrs) : list bounds :=
  helper_levels k h ++ [en_this e; en_common e].

(** Default on enums: "the `#[default]` variant, or the only variant of a single-variant enum" *)
Definition is_marked_default (v : ventry) : bool :=
  match ha_default (ve_hattrs v) with Some _ => true | None => false end.
Definition default_variant (vs : list ventry) : option ventry :=
  match filter is_marked_default vs with
  | [] => match vs with [v] => Some v | _ => None end
  | [v] => Some v
  | _ => None
  end.
Definition default_vplan (v : ventry) : vplan :=
  {| vp_levels := position_levels KDefault (ve_hattrs v); vp_fields := map fplan_default (ve_fields v) |}.

(** *** the where-clause of every impl derived from a struct *)
Definition op_generics (s : item_struct) : generics :=
  expand_self_generics (this_ty_of (s_name s) (s_generics s)) (s_generics s).

Definition cmp_used_fields (op : cmpop) (fs : list fentry) : list fentry :=
  filter (fun f => negb (cmp_ignored op (ha_cmp (fe_hattrs f)))) fs.

(** operators and `Eq` print the declared bounds with `Self` expanded to the type itself *)
Definition decl_generics (k : kind) (name : string) (g : generics) : generics :=
  match k with
  | KBin _ | KAssign _ | KUn _ | KCmp CEq => expand_self_generics (this_ty_of name g) g
  | _ => g
  end.
Definition struct_decl_generics (k : kind) (s : item_struct) : generics :=
  decl_generics k (s_name s) (s_generics s).

Definition struct_vplans (k : kind) (h : hattrs) (fs : list fentry) : list vplan :=
  match k with
  | KDeref | KDerefMut => []
  | KDebug => struct_plan (fplan_all KDebug) (debug_fields fs)
  | KDefault => if has_default_value h then [] else struct_plan fplan_default fs
  | KCmp op => struct_plan (fplan_cmp op) (cmp_used_fields op fs)
  | k => struct_plan (fplan_all k) fs
  end.

Definition spec_struct_where (s : item_struct) (e : entry) (h : hattrs) (fs : list fentry)
  : list ty * list wpred :=
  let k := en_kind e in
  spec_where (struct_decl_generics k s) (top_levels k e h) (struct_vplans k h fs).

(** ... and from an enum *)
Definition enum_vplans (k : kind) (h : hattrs) (vs : list ventry) : option (list vplan) :=
  match k with
  | KClone | KCopy => Some (enum_plan k (fplan_all k) (fun fs => fs) vs)
  | KDebug => Some (enum_plan KDebug (fplan_all KDebug) debug_fields vs)
  | KDefault =>
      if has_default_value h then Some []
      else option_map (fun v => [default_vplan v]) (default_variant vs)
  | KCmp op => Some (enum_plan (KCmp op) (fplan_cmp op) (cmp_used_fields op) vs)
  | _ => None
  end.
