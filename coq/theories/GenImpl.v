(** * GenImpl: model of derive-ex/src/item_impl.rs (operators derived from a user `impl`) *)
From DX Require Import Syntax GenBound GenAttrs IR.

Inductive op_form := FBinary | FAssign.

(** `Op::from_str` *)
Definition op_from_str (s : string) : option (binop * op_form) :=
  match strip_suffix_assign s with
  | Some s' => match binop_from_str s' with Some o => Some (o, FAssign) | None => None end
  | None => match binop_from_str s with Some o => Some (o, FBinary) | None => None end
  end.
Definition op_display (o : binop) (f : op_form) : string :=
  binop_to_str o +++ match f with FAssign => "Assign" | FBinary => "" end.

Definition not_supported_msg (s : string) : string :=
  "`" +++ s +++ "` is not supported for `#[derive_ex]`".
Definition op_from_ident (s : string) : result (binop * op_form) :=
  match op_from_str s with Some x => Ok x | None => Err (not_supported_msg s) end.

Definition must_be_trait_impl_msg : string := "must be used with `impl {Trait} for {Type}`".
Definition negative_msg : string := "cannot use with negative trait".
Definition no_output_msg : string := "cannot find associate type `Output`".
Definition expected_msg (o : binop) : string :=
  "expected `" +++ op_display o FBinary +++ "` or `" +++ op_display o FAssign +++ "`".
Definition assign_only_msg (o : binop) : string :=
  "`#[derive_ex(" +++ op_display o FAssign +++ ")]` can be used only with `impl " +++
  op_display o FBinary +++ " for T`".

(** `Args::from_attr_args`: (make_binary, make_assign) *)
Fixpoint scan_items (o : binop) (items : list string) (mb ma : bool) : result (bool * bool) :=
  match items with
  | [] => Ok (mb, ma)
  | s :: rest =>
      do (o', f) <- op_from_ident s;
      if negb (binop_eqb o' o) then Err (expected_msg o) else
      match f with
      | FBinary => scan_items o rest true ma
      | FAssign => scan_items o rest mb true
      end
  end.

(** `to_ref_elem`: `&T` without lifetime and `mut` *)
Definition to_ref_elem (t : ty) : ty * bool :=
  match t with
  | TyRef None false e => (e, true)
  | _ => (t, false)
  end.

(** `to_rhs` *)
Definition to_rhs (s : seg) (self_t : ty) : ty :=
  match s with
  | Seg _ (SAAngle [GTy t]) => expand_self_ty self_t t
  | _ => self_t
  end.

Fixpoint find_output_type (l : list impl_member) : result ty :=
  match l with
  | [] => Err no_output_msg
  | IMType "Output" t :: _ => Ok t
  | _ :: rest => find_output_type rest
  end.

(** `ref_type`: `&T`; bounds joined by `+` are parenthesised after `&` (`&(dyn A + B)`) *)
Definition ref_type (t : ty) : ty :=
  TyRef None false (match t with TyDyn (_ :: _ :: _) => TyParen t | _ => t end).
Definition ref_type_with (t : ty) (is_ref : bool) : ty := if is_ref then ref_type t else t.

(** the attribute arguments of an `impl` item are a plain identifier list plus `dump` *)
Definition impl_args_ok (a : dx_args) : bool :=
  forallb (fun '(_, ia) => match ia with None => true | Some _ => false end) (dx_items a)
  && match dx_bound a with None => true | Some _ => false end.

Definition build_by_item_impl (a : dx_args) (i : item_impl) : result outcome :=
  do (lead, segs) <- match i_trait i with Some t => Ok t | None => Err must_be_trait_impl_msg end;
  if i_neg i then Err negative_msg else
  do s <- match last_opt segs with Some s => Ok s | None => Err must_be_trait_impl_msg end;
  let this_orig := i_self i in
  let '(this, this_is_ref) := to_ref_elem this_orig in
  let rhs_orig := to_rhs s this_orig in
  let '(rhs, rhs_is_ref) := to_ref_elem rhs_orig in
  let g := expand_self_generics this_orig (i_generics i) in
  do (op, form) <- op_from_ident (match s with Seg n _ => n end);
  if negb (impl_args_ok a) then Err "unmodelled: arguments of derive_ex on an impl item" else
  do (make_binary, make_assign) <- scan_items op (map fst (dx_items a)) false false;
  do irs <-
    match form with
    | FBinary =>
        do out0 <- find_output_type (i_items i);
        let output := expand_self_ty this_orig out0 in
        let impl_binary (il ir : bool) :=
          if Bool.eqb il this_is_ref && Bool.eqb ir rhs_is_ref then []
          else [OpBin g op this rhs output il ir this_is_ref rhs_is_ref] in
        Ok ((if make_binary
             then impl_binary false false ++ impl_binary false true ++
                  impl_binary true false ++ impl_binary true true
             else []) ++
            (if make_assign
             then if make_binary
                  then [OpAssignFromBin g op this rhs true;
                        OpAssignFromBin g op this (ref_type rhs) true]
                  else [OpAssignFromBin g op this rhs_orig this_is_ref]
             else []))
    | FAssign =>
        if make_assign then Err (assign_only_msg op) else
        Ok (if make_binary then [OpBinFromAssign g op this_orig rhs_orig] else [])
    end;
  Ok (if dx_dump a then ODump (map GO irs) else OOk (map GO irs)).
