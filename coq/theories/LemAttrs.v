From DX Require Import Syntax Tables GenBound GenAttrs IR GenType GenCmp GenImpl GenTop SpecAttrs.

(** ** kinds accumulated from the entry list *)
Definition kflag (k : kinds) (x : kind) : bool :=
  match x with
  | KDefault => k_default k | KDebug => k_debug k
  | KCmp op => kinds_derived k op
  | _ => false
  end.

Lemma kinds_add_derive_ex k e : k_derive_ex (kinds_add k e) = k_derive_ex k.
Proof. unfold kinds_add. destruct (en_kind e) as [| | |[]| | | | | |]; reflexivity. Qed.

Lemma kinds_extend_derive_ex es k : k_derive_ex (kinds_extend k es) = k_derive_ex k.
Proof.
  revert k. induction es as [|e es IH]; intros k; cbn; [reflexivity|].
  unfold kinds_extend in IH. rewrite IH. apply kinds_add_derive_ex.
Qed.

Definition tracked (x : kind) : bool :=
  match x with KDefault | KDebug | KCmp _ => true | _ => false end.

Lemma kinds_add_flag k e x :
  tracked x = true ->
  kflag (kinds_add k e) x = kflag k x || kind_eqb x (en_kind e).
Proof.
  intros Hx. unfold kinds_add.
  destruct (en_kind e) as [o|o|o|[]| | | | | |]; destruct x as [o'|o'|o'|[]| | | | | |];
    try discriminate Hx; cbn; rewrite ?orb_false_r, ?orb_true_r; reflexivity.
Qed.

Lemma kinds_extend_flag es k x :
  tracked x = true ->
  kflag (kinds_extend k es) x = kflag k x || derives (map en_kind es) x.
Proof.
  intros Hx. revert k. induction es as [|e es IH]; intros k; cbn.
  - now rewrite orb_false_r.
  - unfold kinds_extend in IH. rewrite IH, kinds_add_flag by exact Hx.
    unfold derives. now rewrite orb_assoc.
Qed.

Lemma kflag_new x : kflag (kinds_new true) x = false.
Proof. destruct x as [| | |[]| | | | | |]; reflexivity. Qed.

Lemma is_effects_to_affects a tr : is_effects_to a tr = affects a tr.
Proof. destruct a, tr; reflexivity. Qed.

(** the generator's ownership test is the documented one *)
Lemma is_match_owned es a :
  kinds_is_match (kinds_extend (kinds_new true) es) a = owned (map en_kind es) a.
Proof.
  set (k := kinds_extend (kinds_new true) es).
  assert (F : forall x, tracked x = true -> kflag k x = derives (map en_kind es) x).
  { intros x Hx. unfold k. now rewrite kinds_extend_flag, kflag_new by exact Hx. }
  destruct a as [t|d|m|m|op m]; cbn [kinds_is_match owned].
  - reflexivity.
  - unfold k. now rewrite kinds_extend_derive_ex.
  - exact (F KDefault eq_refl).
  - exact (F KDebug eq_refl).
  - unfold is_match_cmp_attr, cmp_variants, all_cmp. cbn [existsb].
    rewrite !is_effects_to_affects.
    change (kinds_derived k COrd) with (kflag k (KCmp COrd)).
    change (kinds_derived k CPartialOrd) with (kflag k (KCmp CPartialOrd)).
    change (kinds_derived k CEq) with (kflag k (KCmp CEq)).
    change (kinds_derived k CPartialEq) with (kflag k (KCmp CPartialEq)).
    change (kinds_derived k CHash) with (kflag k (KCmp CHash)).
    rewrite !F by reflexivity.
    destruct (derives (map en_kind es) (KCmp COrd)), (derives (map en_kind es) (KCmp CPartialOrd)),
      (derives (map en_kind es) (KCmp CEq)), (derives (map en_kind es) (KCmp CPartialEq)),
      (derives (map en_kind es) (KCmp CHash)), op; reflexivity.
Qed.

Lemma is_match_new a : kinds_is_match (kinds_new true) a = is_derive_ex_attr a.
Proof. destruct a as [t|d|m|m|[] m]; reflexivity. Qed.

Lemma remove_attrs_ext k p l :
  (forall a, kinds_is_match k a = p a) -> remove_attrs k l = keep_attrs p l.
Proof.
  intros H. unfold remove_attrs, keep_attrs. apply filter_ext. intros a. now rewrite H.
Qed.

Lemma strip_struct_spec k p s :
  (forall a, kinds_is_match k a = p a) ->
  IStruct (strip_struct k s) = strip_item p (IStruct s).
Proof.
  intros H. unfold strip_struct, strip_item. f_equal. f_equal.
  - now apply remove_attrs_ext.
  - unfold strip_fields, sp_fields. destruct (s_fields s) as [l|l|]; try reflexivity;
      f_equal; apply map_ext; intros f; unfold strip_field, sp_field; f_equal;
      now apply remove_attrs_ext.
Qed.

Lemma strip_enum_spec k p e :
  (forall a, kinds_is_match k a = p a) ->
  IEnum (strip_enum k e) = strip_item p (IEnum e).
Proof.
  intros H. unfold strip_enum, strip_item. f_equal. f_equal.
  - now apply remove_attrs_ext.
  - apply map_ext. intros v. unfold strip_variant, sp_variant. f_equal.
    + now apply remove_attrs_ext.
    + unfold strip_fields, sp_fields. destruct (v_fields v) as [l|l|]; try reflexivity;
        f_equal; apply map_ext; intros f; unfold strip_field, sp_field; f_equal;
        now apply remove_attrs_ext.
Qed.

(** attributes of the item, as the macro arguments are parsed *)
Definition root_attrs (i : item) : list attr :=
  match i with IStruct s => s_attrs s | IEnum e => e_attrs e | _ => [] end.

(** ** the re-emitted item *)
Lemma reemit_ok args it es :
  (exists s, it = IStruct s) \/ (exists e, it = IEnum e) ->
  from_root (Some args) (root_attrs it) = Ok es ->
  x_item (expand {| inv_mode := Attr; inv_args := args; inv_item := it |})
  = Some (strip_item (owned (map en_kind es)) it).
Proof.
  intros [[s ->]|[e ->]] H; cbn [root_attrs] in H; unfold expand; cbn [inv_mode inv_item inv_args].
  - unfold build_by_item_struct_core. rewrite H.
    rewrite (strip_struct_spec _ (owned (map en_kind es))) by apply is_match_owned.
    destruct (do h <- _; _); reflexivity.
  - unfold build_by_item_enum_core. rewrite H.
    rewrite (strip_enum_spec _ (owned (map en_kind es))) by apply is_match_owned.
    destruct (do h <- _; _); reflexivity.
Qed.

Lemma reemit_fail args it m :
  (exists s, it = IStruct s) \/ (exists e, it = IEnum e) ->
  from_root (Some args) (root_attrs it) = Err m ->
  x_item (expand {| inv_mode := Attr; inv_args := args; inv_item := it |})
  = Some (strip_item is_derive_ex_attr it) /\
  x_fatal (expand {| inv_mode := Attr; inv_args := args; inv_item := it |}) = Some m.
Proof.
  intros [[s ->]|[e ->]] H; cbn [root_attrs] in H; unfold expand; cbn [inv_mode inv_item inv_args].
  - unfold build_by_item_struct_core. rewrite H.
    rewrite (strip_struct_spec _ is_derive_ex_attr) by apply is_match_new. split; reflexivity.
  - unfold build_by_item_enum_core. rewrite H.
    rewrite (strip_enum_spec _ is_derive_ex_attr) by apply is_match_new. split; reflexivity.
Qed.

Lemma mapM_no_panic {A B} (f : A -> result B) l :
  (forall a m, f a <> Panic m) -> forall m, mapM f l <> Panic m.
Proof.
  intros Hf. induction l as [|a l IH]; cbn; intros m; [discriminate|].
  destruct (f a) eqn:Ea; cbn.
  - destruct (mapM f l) eqn:El; cbn; try discriminate. intros X; inversion X; subst. now apply (IH m).
  - discriminate.
  - exfalso. eapply Hf; eassumption.
Qed.

Lemma entries_of_args_no_panic a m : entries_of_args a <> Panic m.
Proof.
  unfold entries_of_args. apply mapM_no_panic. intros [n ia] m'.
  destruct (kind_from_str n); [|discriminate]. destruct ia; discriminate.
Qed.

Lemma from_args_list_no_panic l m : from_args_list l <> Panic m.
Proof.
  revert m. induction l as [|a l IH]; cbn; intros m; [discriminate|].
  destruct (entries_of_args a) eqn:Ea; cbn.
  - destruct (from_args_list l) eqn:El; cbn; try discriminate. intros X; inversion X; subst. now apply (IH m).
  - discriminate.
  - exfalso. eapply entries_of_args_no_panic; eassumption.
Qed.

Lemma from_root_no_panic arg attrs m : from_root arg attrs <> Panic m.
Proof. unfold from_root. apply from_args_list_no_panic. Qed.

(** removing helper attributes commutes: whatever subset of helper attributes was removed,
    the foreign attributes — and everything else — are intact and in order *)
Lemma keep_attrs_helper p l :
  (forall a, p a = true -> is_helper_attr a = true) ->
  keep_attrs is_helper_attr (keep_attrs p l) = keep_attrs is_helper_attr l.
Proof.
  intros H. unfold keep_attrs. induction l as [|a l IH]; cbn; [reflexivity|].
  destruct (p a) eqn:Ep; cbn.
  - rewrite (H a Ep). cbn. exact IH.
  - destruct (is_helper_attr a); cbn; now rewrite IH.
Qed.

Lemma sp_fields_helper p fs :
  (forall a, p a = true -> is_helper_attr a = true) ->
  sp_fields is_helper_attr (sp_fields p fs) = sp_fields is_helper_attr fs.
Proof.
  intros H. destruct fs as [l|l|]; cbn; try reflexivity; f_equal; rewrite map_map; apply map_ext;
    intros f; unfold sp_field; cbn; f_equal; now apply keep_attrs_helper.
Qed.

Lemma foreign_intact p i :
  (forall a, p a = true -> is_helper_attr a = true) ->
  strip_item is_helper_attr (strip_item p i) = strip_item is_helper_attr i.
Proof.
  intros H. destruct i as [s|e|i|t]; cbn; try reflexivity; f_equal; f_equal.
  - now apply keep_attrs_helper.
  - now apply sp_fields_helper.
  - now apply keep_attrs_helper.
  - rewrite map_map. apply map_ext. intros v. unfold sp_variant. cbn. f_equal.
    + now apply keep_attrs_helper.
    + now apply sp_fields_helper.
Qed.

Lemma owned_helper S a : owned S a = true -> is_helper_attr a = true.
Proof. destruct a; cbn; congruence. Qed.
Lemma derive_ex_helper a : is_derive_ex_attr a = true -> is_helper_attr a = true.
Proof. destruct a; cbn; congruence. Qed.

Lemma reemit_always args it :
  x_item (expand {| inv_mode := Attr; inv_args := args; inv_item := it |}) <> None /\
  forall it', x_item (expand {| inv_mode := Attr; inv_args := args; inv_item := it |}) = Some it' ->
    strip_item is_helper_attr it' = strip_item is_helper_attr it.
Proof.
  destruct it as [s|e|i|t].
  - destruct (from_root (Some args) (s_attrs s)) eqn:Er.
    + rewrite (reemit_ok args (IStruct s) a) by (eauto || exact Er). split; [discriminate|].
      intros it' X; injection X as <-. apply (foreign_intact (owned (map en_kind a)) (IStruct s)), owned_helper.
    + destruct (reemit_fail args (IStruct s) msg) as [E _]; [eauto | exact Er |]. rewrite E.
      split; [discriminate|]. intros it' X; injection X as <-. apply (foreign_intact is_derive_ex_attr (IStruct s)), derive_ex_helper.
    + exfalso. eapply from_root_no_panic; eassumption.
  - destruct (from_root (Some args) (e_attrs e)) eqn:Er.
    + rewrite (reemit_ok args (IEnum e) a) by (eauto || exact Er). split; [discriminate|].
      intros it' X; injection X as <-. apply (foreign_intact (owned (map en_kind a)) (IEnum e)), owned_helper.
    + destruct (reemit_fail args (IEnum e) msg) as [E _]; [eauto | exact Er |]. rewrite E.
      split; [discriminate|]. intros it' X; injection X as <-. apply (foreign_intact is_derive_ex_attr (IEnum e)), derive_ex_helper.
    + exfalso. eapply from_root_no_panic; eassumption.
  - unfold expand; cbn. destruct (do o <- build_by_item_impl args i; Ok [o]); cbn;
      (split; [discriminate | intros it' X; inversion X; reflexivity]).
  - unfold expand; cbn. split; [discriminate | intros it' X; inversion X; reflexivity].
Qed.

Lemma reemit_impl_unchanged args i :
  x_item (expand {| inv_mode := Attr; inv_args := args; inv_item := IImpl i |}) = Some (IImpl i).
Proof. unfold expand; cbn. destruct (do o <- build_by_item_impl args i; Ok [o]); reflexivity. Qed.

Lemma derive_no_item args it :
  x_item (expand {| inv_mode := Derive; inv_args := args; inv_item := it |}) = None.
Proof.
  unfold expand; cbn. destruct it as [s|e|i|t]; try reflexivity.
  - destruct (snd (build_by_item_struct_core None s)); reflexivity.
  - destruct (snd (build_by_item_enum_core None e)); reflexivity.
Qed.
